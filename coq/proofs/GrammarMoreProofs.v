(* GrammarMoreProofs.v — C03 clause (c), what PrecedenceGeneral.v left out:

     (1) bracketed ranges  [lo TO hi]  {lo TO hi}  [lo TO hi}  {lo TO hi]  with bounds TERM (a word, a
         number, `*`), PHRASE, -TERM, -PHRASE, anywhere an operand can stand;
     (2) operands that begin with `+`, `-` or the word TO and FOLLOW another operand by juxtaposition.

   `qtree` is `PrecedenceGeneral.ptree` plus `QRange` (`emb` embeds the old type); `wfs` is the level
   discipline of the documented grammar WITHOUT any restriction on signs; `f4free` is the one guard:

       in  `query orx`  (juxtaposition), if the orx begins with + - TO then the operand just before it
       is not an AND / OR operation (it is a level-3 phrase: prefix, field or postfix).

   What the tables do with a signed operand (states are computed, never written by hand): after
   `E . ` they SHIFT + - TO in the states `E E .`, `E OR E .`, `E AND E .` instead of reducing.  In
   `E E .` this only nests the implicit operation to the right (`a b -c` = a (b -c)), and
   create_operation flattens it again: same tree.  In `E OR E .` / `E AND E .` it makes the
   juxtaposition bind tighter than OR / AND: `a AND b -c` = a AND (b -c): finding F4.  So the guard is
   exactly "the operand before a signed one is not the end of an AND/OR chain", i.e. the complement
   of Grammar.has_f4 on the dictated tree (`f4free_iff_no_f4`).

   And the CONVERSE (what C03c left to the exhaustive comparison): an invariant over driver steps in
   the style of LRTyping.v shows  accepted => derivable in the PLY grammar with the returned tree as
   semantic value (`accepted_derivable`); the PLY grammar's language is that of the documented grammar
   (`derivable_in_grammar`); every query the reference parser accepts is the yield of a well-formed
   tree (`spec_is_tree`).  Together: clause (c) in full for every input outside F4's class
   (`grammar_outside_f4_parse`).

   Method as in PrecedenceGeneral.v (one structural induction per side, table entries are closed
   facts); new on the LR side: a juxtaposition list is cut into GROUPS  x s1 .. sm  (s_i signed); the
   driver stacks a group (`E E E ...` with the state `E E .` repeated) and collapses it from the right
   when a lookahead other than + - TO arrives (`RL`); groups are folded to the left (`Jloop`). *)
Require Import Base Decimal Tree GenTree GenParser Lexer Print Actions LR Parser Erase Grammar.
Require Import TreeInd LayoutProofs LRTermination LRTyping PrecedenceProofs PrecedenceGeneral.
From Coq Require Import Lia.

(* ================================================================ syntax trees and their yield *)
Inductive bnd := BVal (v : token) | BNeg (m v : token).          (* value | - value *)

Inductive qtree :=
| QAtom (t : token)
| QApprox (t a : token)
| QBoost (p : qtree) (b : token)
| QNot (n : token) (p : qtree)
| QField (name col : token) (p : qtree)
| QGroup (l : token) (q : qtree) (r : token)
| QAnd (a : qtree) (o : token) (b : qtree)
| QOr (a : qtree) (o : token) (b : qtree)
| QJuxt (a b : qtree)
| QSign (sg : token) (p : qtree)
| QTo (t : token)
| QOpen (o v : token)
| QRange (l : token) (lo : bnd) (t : token) (hi : bnd) (r : token).   (* [lo TO hi] with either bracket kind *)

Definition flb (b : bnd) : list token := match b with BVal v => [v] | BNeg m v => [m; v] end.

Fixpoint flq (p : qtree) : list token :=
  match p with
  | QAtom t => [t]
  | QApprox t a => [t; a]
  | QBoost p b => flq p ++ [b]
  | QNot n p => n :: flq p
  | QField name col p => name :: col :: flq p
  | QGroup l q r => l :: flq q ++ [r]
  | QAnd a o b => flq a ++ o :: flq b
  | QOr a o b => flq a ++ o :: flq b
  | QJuxt a b => flq a ++ flq b
  | QSign sg p => sg :: flq p
  | QTo t => [t]
  | QOpen o v => [o; v]
  | QRange l lo t hi r => l :: flb lo ++ t :: flb hi ++ [r]
  end.

(* grammar level: 4 postfix, 3 operand, 2 andx, 1 orx, 0 query *)
Definition lvq (p : qtree) : nat :=
  match p with
  | QAtom _ | QApprox _ _ | QBoost _ _ | QGroup _ _ _ | QTo _ | QOpen _ _ | QRange _ _ _ _ _ => 4
  | QNot _ _ | QField _ _ _ | QSign _ _ => 3
  | QAnd _ _ _ => 2
  | QOr _ _ _ => 1
  | QJuxt _ _ => 0
  end.

(* the phrase starts with `+`, `-` or the word TO *)
Fixpoint sgq (p : qtree) : bool :=
  match p with
  | QSign _ _ | QTo _ => true
  | QBoost p _ => sgq p
  | QAnd a _ _ | QOr a _ _ | QJuxt a _ => sgq a
  | _ => false
  end.

Definition wfbnd (b : bnd) : bool :=
  match b with
  | BVal v => is_value_tok (tk_type v)
  | BNeg m v => tok_eqb (tk_type m) T_MINUS && is_value_tok (tk_type v)
  end.

(* the level discipline of the documented grammar; no condition on signs *)
Fixpoint wfs (p : qtree) : bool :=
  match p with
  | QAtom t => is_atom_tok (tk_type t)
  | QApprox t a =>
      tok_eqb (tk_type a) T_APPROX &&
      match tk_type t with T_TERM => dec_ok a | T_PHRASE => int_ok a | _ => false end
  | QBoost p b => Nat.eqb (lvq p) 4 && wfs p && tok_eqb (tk_type b) T_BOOST && dec_ok b
  | QNot n p => tok_eqb (tk_type n) T_NOT && Nat.leb 3 (lvq p) && wfs p
  | QField name col p =>
      tok_eqb (tk_type name) T_TERM && tok_eqb (tk_type col) T_COLUMN && Nat.leb 3 (lvq p) && wfs p
  | QGroup l q r => tok_eqb (tk_type l) T_LPAREN && tok_eqb (tk_type r) T_RPAREN && wfs q
  | QAnd a o b => tok_eqb (tk_type o) T_AND_OP && Nat.leb 2 (lvq a) && Nat.leb 3 (lvq b) && wfs a && wfs b
  | QOr a o b => tok_eqb (tk_type o) T_OR_OP && Nat.leb 1 (lvq a) && Nat.leb 2 (lvq b) && wfs a && wfs b
  | QJuxt a b => Nat.leb 1 (lvq b) && wfs a && wfs b
  | QSign sg p => is_sign_tok (tk_type sg) && Nat.leb 3 (lvq p) && wfs p
  | QTo t => tok_eqb (tk_type t) T_TO
  | QOpen o v => is_open_tok (tk_type o) && is_value_tok (tk_type v)
  | QRange l lo t hi r =>
      tok_eqb (tk_type l) T_LBRACKET && wfbnd lo && tok_eqb (tk_type t) T_TO && wfbnd hi &&
      tok_eqb (tk_type r) T_RBRACKET
  end.

(* the last operand of a juxtaposition *)
Definition lastj (p : qtree) : qtree := match p with QJuxt _ b => b | _ => p end.

(* THE guard: a signed operand never follows, by juxtaposition, an AND / OR operation *)
Fixpoint f4free (p : qtree) : bool :=
  match p with
  | QAtom _ | QApprox _ _ | QTo _ | QOpen _ _ | QRange _ _ _ _ _ => true
  | QBoost p _ | QNot _ p | QField _ _ p | QGroup _ p _ | QSign _ p => f4free p
  | QAnd a _ b | QOr a _ b => f4free a && f4free b
  | QJuxt a b => f4free a && f4free b && (negb (sgq b) || Nat.leb 3 (lvq (lastj a)))
  end.

Ltac wq_split H :=
  unfold wfs in H; fold wfs in H;
  repeat match type of H with
  | (_ && _)%bool = true => let H' := fresh "W" in apply andb_prop in H; destruct H as [H H']
  end;
  repeat match goal with
  | W : tok_eqb _ _ = true |- _ => apply tok_eqb_eq in W
  | W : Nat.leb _ _ = true |- _ => apply Nat.leb_le in W
  | W : Nat.eqb _ _ = true |- _ => apply Nat.eqb_eq in W
  end.

(* ================================================================ the tree the grammar dictates *)
Definition bval (b : bnd) : item :=
  match b with
  | BVal v => atom_item v
  | BNeg _ v => Unary KProhibit meta0 (atom_item v)
  end.

Definition range_item (l : token) (lo hi : bnd) (r : token) : item :=
  Range meta0 (bval lo) (bval hi) (str_eqb (tk_lexeme l) [c_lbrack]) (str_eqb (tk_lexeme r) [c_rbrack]).

Fixpoint semq (p : qtree) : sem :=
  match p with
  | QAtom t => leaf (atom_item t)
  | QApprox t a => leaf (approx_item t a)
  | QBoost p b => leaf (boost_item (sv (semq p)) b)
  | QNot _ p => leaf (Unary KNot meta0 (sv (semq p)))
  | QField name _ p => leaf (SearchField meta0 (tk_lexeme name) (fieldgroup (sv (semq p))))
  | QGroup _ q _ => leaf (Grp KGroup meta0 (sv (semq q)))
  | QAnd a _ b => let ops := sa (semq a) ++ [sv (semq b)] in
                  let v := nary KAnd ops in mkSem v ops [v] [v]
  | QOr a _ b => let ops := so (semq a) ++ [sv (semq b)] in
                 let v := nary KOr ops in mkSem v [v] ops [v]
  | QJuxt a b => let ops := sj (semq a) ++ [sv (semq b)] in
                 let v := nary KUnknown ops in mkSem v [v] [v] ops
  | QSign sg p => leaf (Unary (sign_kind sg) meta0 (sv (semq p)))
  | QTo t => leaf (word (tk_lexeme t))
  | QOpen o v => leaf (ORange (open_kind o) meta0 (atom_item v) (mem_N c_eq (tk_lexeme o)))
  | QRange l lo _ hi r => leaf (range_item l lo hi r)
  end.
Definition valq (p : qtree) : item := sv (semq p).
Definition qops_and (p : qtree) : list item := sa (semq p).
Definition qops_or (p : qtree) : list item := so (semq p).
Definition qops_j (p : qtree) : list item := sj (semq p).

(* ---- the old type is a sub-type: same yield, same tree, and its guard implies the new one *)
Fixpoint emb (p : ptree) : qtree :=
  match p with
  | PAtom t => QAtom t
  | PApprox t a => QApprox t a
  | PBoost p b => QBoost (emb p) b
  | PNot n p => QNot n (emb p)
  | PField name col p => QField name col (emb p)
  | PGroup l q r => QGroup l (emb q) r
  | PAnd a o b => QAnd (emb a) o (emb b)
  | POr a o b => QOr (emb a) o (emb b)
  | PJuxt a b => QJuxt (emb a) (emb b)
  | PSign sg p => QSign sg (emb p)
  | PTo t => QTo t
  | POpen o v => QOpen o v
  end.

Lemma emb_fl p : flq (emb p) = fl p.
Proof. induction p; simpl; congruence. Qed.
Lemma emb_lvl p : lvq (emb p) = lvl p.
Proof. destruct p; reflexivity. Qed.
Lemma emb_signed p : sgq (emb p) = signed p.
Proof. induction p; simpl; auto. Qed.
Lemma emb_sem p : semq (emb p) = semof p.
Proof. induction p; simpl; congruence. Qed.
Lemma emb_val p : valq (emb p) = val p.
Proof. unfold valq, val. rewrite emb_sem. reflexivity. Qed.
Ltac leaf_solve :=
  first [assumption | apply Nat.leb_le; assumption | apply Nat.eqb_eq; assumption
        | match goal with H : tk_type ?t = _ |- tok_eqb (tk_type ?t) _ = true => rewrite H; reflexivity end
        | match goal with H : ?k <= ?x |- _ = true => change (Nat.leb k x = true); apply Nat.leb_le; exact H end
        | solve [auto]].
Lemma emb_wfs p : wfb p = true -> wfs (emb p) = true.
Proof.
  induction p; intros W; wf_split W; simpl; rewrite ?emb_lvl;
    repeat (apply andb_true_intro; split); leaf_solve.
Qed.
Lemma emb_f4free p : wfb p = true -> f4free (emb p) = true.
Proof.
  induction p; intros W; wf_split W; simpl; rewrite ?emb_lvl, ?emb_signed;
    repeat (apply andb_true_intro; split); try leaf_solve.
  rewrite W0. reflexivity.
Qed.

Lemma qval_and p : nary KAnd (qops_and p) = valq p.
Proof. destruct p; reflexivity. Qed.
Lemma qval_or p : nary KOr (qops_or p) = valq p.
Proof. destruct p; reflexivity. Qed.
Lemma qval_j p : nary KUnknown (qops_j p) = valq p.
Proof. destruct p; reflexivity. Qed.

Lemma qops_and_ne p : qops_and p <> [].
Proof. destruct p; try discriminate; apply snoc_nonempty. Qed.
Lemma qops_or_ne p : qops_or p <> [].
Proof. destruct p; try discriminate; apply snoc_nonempty. Qed.
Lemma qops_j_ne p : qops_j p <> [].
Proof. destruct p; try discriminate; apply snoc_nonempty. Qed.

Lemma qval_kind p :
  match lvq p with
  | 2 => exists l, valq p = Op KAnd meta0 l
  | 1 => exists l, valq p = Op KOr meta0 l
  | 0 => exists l, valq p = Op KUnknown meta0 l
  | _ => forall k, same_op k (valq p) = false
  end.
Proof.
  destruct p; simpl lvq; cbv iota; try (intros k; reflexivity).
  - intros k. apply same_op_atom.
  - intros k. unfold valq. simpl. unfold approx_item.
    repeat match goal with |- context [match ?x with _ => _ end] => destruct x end; reflexivity.
  - intros k. unfold valq. simpl. unfold boost_item.
    repeat match goal with |- context [match ?x with _ => _ end] => destruct x end; reflexivity.
  - eexists. unfold valq. simpl. apply nary_snoc. apply qops_and_ne.
  - eexists. unfold valq. simpl. apply nary_snoc. apply qops_or_ne.
  - eexists. unfold valq. simpl. apply nary_snoc. apply qops_j_ne.
Qed.

Lemma qval_notop p k : 3 <= lvq p -> same_op k (valq p) = false.
Proof. intros H. pose proof (qval_kind p) as K. destruct (lvq p) as [|[|[|n]]]; try lia. apply K. Qed.
Lemma qval_not_or p : 2 <= lvq p -> same_op KOr (valq p) = false.
Proof.
  intros H. pose proof (qval_kind p) as K. destruct (lvq p) as [|[|[|n]]]; try lia.
  - destruct K as [l ->]. reflexivity.
  - apply K.
Qed.
Lemma qval_not_j p : 1 <= lvq p -> same_op KUnknown (valq p) = false.
Proof.
  intros H. pose proof (qval_kind p) as K. destruct (lvq p) as [|[|[|n]]]; try lia.
  - destruct K as [l ->]. reflexivity.
  - destruct K as [l ->]. reflexivity.
  - apply K.
Qed.
Lemma qval_not_and_low p : lvq p <= 1 -> same_op KAnd (valq p) = false.
Proof.
  intros H. pose proof (qval_kind p) as K. destruct (lvq p) as [|[|n]]; try lia; destruct K as [l ->]; reflexivity.
Qed.
Lemma qval_not_or_low p : lvq p = 0 -> same_op KOr (valq p) = false.
Proof. intros H. pose proof (qval_kind p) as K. rewrite H in K. destruct K as [l ->]. reflexivity. Qed.

Lemma qsingle_and p : (forall a o b, p <> QAnd a o b) -> qops_and p = [valq p].
Proof. destruct p; intros H; try reflexivity. exfalso. eapply H. reflexivity. Qed.
Lemma qsingle_or p : (forall a o b, p <> QOr a o b) -> qops_or p = [valq p].
Proof. destruct p; intros H; try reflexivity. exfalso. eapply H. reflexivity. Qed.

Lemma qops_and_ok p : wfs p = true -> Forall (fun x => same_op KAnd x = false) (qops_and p).
Proof.
  induction p; intros W;
    try (rewrite qsingle_and by (intros; discriminate); constructor; [|constructor];
         first [apply qval_notop; simpl; lia | apply qval_not_and_low; simpl; lia]).
  wq_split W. unfold qops_and. simpl. apply Forall_snoc; [apply IHp1; assumption|].
  apply qval_notop; assumption.
Qed.
Lemma qops_or_ok p : wfs p = true -> Forall (fun x => same_op KOr x = false) (qops_or p).
Proof.
  induction p; intros W;
    try (rewrite qsingle_or by (intros; discriminate); constructor; [|constructor];
         first [apply qval_not_or; simpl; lia | apply qval_not_or_low; reflexivity]).
  wq_split W. unfold qops_or. simpl. apply Forall_snoc; [apply IHp1; assumption|].
  apply qval_not_or; assumption.
Qed.

(* ---- the operands of a juxtaposition as a list *)
Fixpoint jops (p : qtree) : list qtree :=
  match p with QJuxt a b => jops a ++ [b] | _ => [p] end.
Definition flat (xs : list qtree) : list token := concat (map flq xs).

Lemma flat_app a b : flat (a ++ b) = flat a ++ flat b.
Proof. unfold flat. rewrite map_app, concat_app. reflexivity. Qed.
Lemma flat_cons x r : flat (x :: r) = flq x ++ flat r.
Proof. reflexivity. Qed.

Lemma jops_flat p : flat (jops p) = flq p.
Proof.
  induction p; try (unfold flat; simpl; rewrite ?app_nil_r; reflexivity).
  change (jops (QJuxt p1 p2)) with (jops p1 ++ [p2]). rewrite flat_app, IHp1.
  unfold flat. simpl. rewrite app_nil_r. reflexivity.
Qed.
Lemma jops_vals p : map valq (jops p) = qops_j p.
Proof.
  induction p; try reflexivity.
  simpl jops. rewrite map_app, IHp1. reflexivity.
Qed.
Lemma jops_ne p : jops p <> [].
Proof. destruct p; try discriminate. simpl. apply snoc_nonempty. Qed.
Lemma jops_last p : last (jops p) p = lastj p.
Proof.
  destruct p; try reflexivity. simpl. generalize (jops p1). intros l.
  induction l as [|x l IH]; [reflexivity|]. simpl. destruct (l ++ [p2]) eqn:E; [destruct l; discriminate|exact IH].
Qed.
Lemma jops_forall p : wfs p = true -> Forall (fun x => 1 <= lvq x /\ wfs x = true) (jops p).
Proof.
  induction p; intros W; try (constructor; [split; [simpl; lia|exact W]|constructor]).
  wq_split W. simpl jops. apply Forall_app. split; [apply IHp1; exact W1|].
  constructor; [split; assumption|constructor].
Qed.

(* ================================================================ lookahead sets *)
Definition OPS : list tok := OPSTART ++ [T_LBRACKET].            (* an unsigned operand starts *)
Definition SG : list tok := [T_PLUS; T_MINUS; T_TO].              (* a signed operand starts *)
Definition K1 : list tok := OPS ++ [T_EOF; T_RPAREN].             (* after an orx; no sign follows *)
Definition K2 : list tok := T_OR_OP :: K1.                        (* after an andx *)
Definition K3 : list tok := T_AND_OP :: K2.                       (* after an operand of an AND/OR chain *)
Definition M1 : list tok := K1 ++ SG.                             (* after an orx, anything *)
Definition M2 : list tok := T_OR_OP :: M1.
Definition M3 : list tok := T_AND_OP :: M2.                       (* after an operand, anything *)
Definition M3B : list tok := T_BOOST :: M3.                       (* after a postfix *)

Lemma k1_k2 r : la_in K1 r -> la_in K2 r. Proof. unfold la_in. simpl. tauto. Qed.
Lemma k2_k3 r : la_in K2 r -> la_in K3 r. Proof. unfold la_in. simpl. tauto. Qed.
Lemma k3_m3 r : la_in K3 r -> la_in M3 r. Proof. unfold la_in. simpl. tauto. Qed.
Lemma k1_m1 r : la_in K1 r -> la_in M1 r. Proof. unfold la_in. simpl. tauto. Qed.
Lemma m1_m2 r : la_in M1 r -> la_in M2 r. Proof. unfold la_in. simpl. tauto. Qed.
Lemma m2_m3 r : la_in M2 r -> la_in M3 r. Proof. unfold la_in. simpl. tauto. Qed.
Lemma m3_m3b r : la_in M3 r -> la_in M3B r. Proof. unfold la_in. simpl. tauto. Qed.

Definition hd_in (L : list tok) (ts : list token) : Prop := exists t r, ts = t :: r /\ In (tk_type t) L.
Lemma hd_in_app L ts r : hd_in L ts -> hd_in L (ts ++ r).
Proof. intros [t [r0 [-> H]]]. exists t, (r0 ++ r). split; [reflexivity|exact H]. Qed.
Lemma la_hd L L' ts r : hd_in L ts -> incl L L' -> la_in L' (ts ++ r).
Proof. intros [t [r0 [-> H]]] HL. unfold la_in. simpl. apply HL. exact H. Qed.
Lemma hd_in_incl L L' ts : incl L L' -> hd_in L ts -> hd_in L' ts.
Proof. intros HL [t [r [-> H]]]. exists t, r. split; [reflexivity|apply HL; exact H]. Qed.

Lemma flb_hd b : wfbnd b = true -> exists t r, flb b = t :: r.
Proof. destruct b; simpl; eauto. Qed.

(* the first token of a phrase says whether it is signed *)
Lemma flq_hd p : wfs p = true -> hd_in (if sgq p then SG else OPS) (flq p).
Proof.
  induction p; intros W; wq_split W; simpl flq; simpl sgq;
    try (apply hd_in_app; auto; fail).
  - exists t, []. split; [reflexivity|]. destruct (tk_type t); try discriminate; simpl; auto.
  - exists t, [a]. split; [reflexivity|]. destruct (tk_type t); try discriminate; simpl; auto.
  - exists n, (flq p). split; [reflexivity|]. rewrite W. simpl; tauto.
  - exists name, (col :: flq p). split; [reflexivity|]. rewrite W. simpl; tauto.
  - exists l, (flq p ++ [r]). split; [reflexivity|]. rewrite W. simpl; tauto.
  - exists sg, (flq p). split; [reflexivity|]. destruct (tk_type sg); try discriminate; simpl; tauto.
  - exists t, []. split; [reflexivity|]. rewrite W. simpl; tauto.
  - exists o, [v]. split; [reflexivity|]. destruct (tk_type o); try discriminate; simpl; tauto.
  - eexists l, _. split; [reflexivity|]. rewrite W. simpl; tauto.
Qed.

Lemma flq_len p : 1 <= length (flq p).
Proof. induction p; simpl; rewrite ?app_length; simpl; lia. Qed.

Lemma ops_k1 : incl OPS K1.
Proof. intros x H. unfold K1. apply in_or_app. left. exact H. Qed.
Lemma sg_m3 : incl SG M3.
Proof. intros x H. simpl in *. tauto. Qed.

(* ================================================================ states and table facts *)
Transparent S0 SJ SOR SAND gotoE SLP SJP SNOT STERM SCOL SPLUS SMINUS SLT SGT gotoU.

Definition S14 : nat := gotoE SJ.                                 (* expression expression .           *)
Definition POPNT := N_phrase_or_possibly_negative_term.
Definition PNT := N_possibly_negative_term.
Definition gotoN (s : nat) (n : nonterm) : nat := match gen_goto s n with Some g => g | None => 0 end.
Definition SLB : nat := shift_on S0 T_LBRACKET.                   (* [ .                               *)
Definition SRTO : nat := shift_on (gotoN SLB POPNT) T_TO.         (* [ bound TO .                      *)
Definition SBM : nat := shift_on SLB T_MINUS.                     (* [ - .     and   [ bound TO - .    *)

Definition UCs : list nat := UC ++ [S14].       (* an operand may start; in S14 only a signed one *)
Definition XCs : list nat := XC ++ [S14].
Definition XCAs : list nat := XCA ++ [S14].
Definition XCOs : list nat := XCO ++ [S14].
Definition RC : list nat := XCO ++ [S14].       (* a group of a juxtaposition may start *)
Definition TC : list nat := [SJ; SJP; S14].     (* ... = the states after one expression *)
Definition BC : list nat := [SLB; SRTO].        (* a range bound may start *)
Definition LB : list tok := [T_TO; T_RBRACKET]. (* after a range bound *)

Lemma Q_gotoU : forall s, In s UCs -> gen_goto s U = Some (gotoU s).
Proof. each_state; reflexivity. Qed.

Lemma Q_atom : forall s, In s UC -> forall a, is_atom_tok a = true ->
  exists n, gen_action s a = Shift n /\
  forall la, In la M3B -> exists p act, gen_action n la = Reduce (S p) /\
    nth_error gen_prods p = Some (U, [ST a], act) /\ unit_action act.
Proof.
  each_state; intros a Ha; destruct a; try discriminate Ha; (eexists; split; [reflexivity|]);
    each_la; eexists; eexists; (split; [reflexivity|]); (split; [reflexivity|]); intros v; reflexivity.
Qed.

Lemma Q_fuzzy : forall s, In s UC ->
  exists n m, gen_action s T_TERM = Shift n /\ gen_action n T_APPROX = Shift m /\
  forall la, In la M3B -> exists p, gen_action m la = Reduce (S p) /\
    nth_error gen_prods p = Some (U, [ST T_TERM; ST T_APPROX], A_fuzzy).
Proof. each_state; eexists; eexists; (split; [reflexivity|]); (split; [reflexivity|]); each_la; red_fact. Qed.

Lemma Q_prox : forall s, In s UC ->
  exists n m, gen_action s T_PHRASE = Shift n /\ gen_action n T_APPROX = Shift m /\
  forall la, In la M3B -> exists p, gen_action m la = Reduce (S p) /\
    nth_error gen_prods p = Some (U, [ST T_PHRASE; ST T_APPROX], A_proximity).
Proof. each_state; eexists; eexists; (split; [reflexivity|]); (split; [reflexivity|]); each_la; red_fact. Qed.

Lemma Q_boost : forall s, In s UCs ->
  exists nb, gen_action (gotoU s) T_BOOST = Shift nb /\
  forall la, In la M3B -> exists p, gen_action nb la = Reduce (S p) /\
    nth_error gen_prods p = Some (U, [SN U; ST T_BOOST], A_boosting).
Proof. each_state; eexists; (split; [reflexivity|]); each_la; red_fact. Qed.

Lemma Q_not : forall s, In s UC ->
  gen_action s T_NOT = Shift SNOT /\
  forall la, In la M3 -> exists p, gen_action (gotoU SNOT) la = Reduce (S p) /\
    nth_error gen_prods p = Some (U, [ST T_NOT; SN U], A_expression_not).
Proof. each_state; (split; [reflexivity|]); each_la; red_fact. Qed.

Lemma Q_field : forall s, In s UC ->
  gen_action s T_TERM = Shift STERM /\ gen_action STERM T_COLUMN = Shift SCOL /\
  forall la, In la M3 -> exists p, gen_action (gotoU SCOL) la = Reduce (S p) /\
    nth_error gen_prods p = Some (U, [ST T_TERM; ST T_COLUMN; SN U], A_field_search).
Proof. each_state; (split; [reflexivity|]); (split; [reflexivity|]); each_la; red_fact. Qed.

Lemma Q_group : forall s, In s UC ->
  gen_action s T_LPAREN = Shift SLP /\
  exists nr, gen_action (gotoE SLP) T_RPAREN = Shift nr /\
  forall la, In la M3B -> exists p, gen_action nr la = Reduce (S p) /\
    nth_error gen_prods p = Some (U, [ST T_LPAREN; SN E; ST T_RPAREN], A_grouping).
Proof. each_state; (split; [reflexivity|]); eexists; (split; [reflexivity|]); each_la; red_fact. Qed.

(* + - TO are shifted in every state where an operand may start AND in `E E .` *)
Lemma Q_sign : forall s, In s UCs ->
  gen_action s T_PLUS = Shift SPLUS /\ gen_action s T_MINUS = Shift SMINUS /\
  forall la, In la M3 ->
    (exists p, gen_action (gotoU SPLUS) la = Reduce (S p) /\
       nth_error gen_prods p = Some (U, [ST T_PLUS; SN U], A_expression_plus)) /\
    (exists p, gen_action (gotoU SMINUS) la = Reduce (S p) /\
       nth_error gen_prods p = Some (U, [ST T_MINUS; SN U], A_expression_minus)).
Proof. each_state; (split; [reflexivity|]); (split; [reflexivity|]); each_la; split; red_fact. Qed.

Lemma Q_to : forall s, In s UCs ->
  exists n, gen_action s T_TO = Shift n /\
  forall la, In la M3B -> exists p, gen_action n la = Reduce (S p) /\
    nth_error gen_prods p = Some (U, [ST T_TO], A_to_as_term).
Proof. each_state; eexists; (split; [reflexivity|]); each_la; red_fact. Qed.

Lemma Q_open : forall s, In s UC ->
  gen_action s T_LESSTHAN = Shift SLT /\ gen_action s T_GREATERTHAN = Shift SGT /\
  forall a, is_value_tok a = true ->
    (exists n g, gen_action SLT a = Shift n /\ gen_goto SLT POT = Some g /\
       forall la, In la M3B ->
         (exists p, gen_action n la = Reduce (S p) /\
            nth_error gen_prods p = Some (POT, [ST a], A_phrase_or_term)) /\
         (exists p, gen_action g la = Reduce (S p) /\
            nth_error gen_prods p = Some (U, [ST T_LESSTHAN; SN POT], A_lessthan))) /\
    (exists n g, gen_action SGT a = Shift n /\ gen_goto SGT POT = Some g /\
       forall la, In la M3B ->
         (exists p, gen_action n la = Reduce (S p) /\
            nth_error gen_prods p = Some (POT, [ST a], A_phrase_or_term)) /\
         (exists p, gen_action g la = Reduce (S p) /\
            nth_error gen_prods p = Some (U, [ST T_GREATERTHAN; SN POT], A_greaterthan))).
Proof.
  each_state; (split; [reflexivity|]); (split; [reflexivity|]);
    intros a Ha; destruct a; try discriminate Ha;
    (split; eexists; eexists; (split; [reflexivity|]); (split; [reflexivity|]); each_la; split; red_fact).
Qed.

(* ---- ranges *)
Lemma Q_range : forall s, In s UC ->
  gen_action s T_LBRACKET = Shift SLB /\
  gen_action (gotoN SLB POPNT) T_TO = Shift SRTO /\
  exists nr, gen_action (gotoN SRTO POPNT) T_RBRACKET = Shift nr /\
  forall la, In la M3B -> exists p, gen_action nr la = Reduce (S p) /\
    nth_error gen_prods p = Some (U, [ST T_LBRACKET; SN POPNT; ST T_TO; SN POPNT; ST T_RBRACKET], A_range).
Proof. each_state; (split; [reflexivity|]); (split; [reflexivity|]); eexists; (split; [reflexivity|]); each_la; red_fact. Qed.

(* a bound: TERM goes phrase_or_term -> possibly_negative_term -> phrase_or_possibly_negative_term,
   PHRASE goes directly (PLY resolved the reduce/reduce conflict that way), `-` value through
   possibly_negative_term *)
Lemma Q_bound : forall b, In b BC -> gen_goto b POPNT = Some (gotoN b POPNT) /\ forall la, In la LB ->
  (exists n, gen_action b T_TERM = Shift n /\
     (exists p, gen_action n la = Reduce (S p) /\
        nth_error gen_prods p = Some (POT, [ST T_TERM], A_phrase_or_term)) /\
     gen_goto b POT = Some (gotoN b POT) /\
     (exists p, gen_action (gotoN b POT) la = Reduce (S p) /\
        nth_error gen_prods p = Some (PNT, [SN POT], A_possibly_negative_term)) /\
     gen_goto b PNT = Some (gotoN b PNT) /\
     (exists p, gen_action (gotoN b PNT) la = Reduce (S p) /\
        nth_error gen_prods p = Some (POPNT, [SN PNT], A_phrase_or_possibly_negative_term))) /\
  (exists n, gen_action b T_PHRASE = Shift n /\
     (exists p, gen_action n la = Reduce (S p) /\
        nth_error gen_prods p = Some (POPNT, [ST T_PHRASE], A_phrase_or_possibly_negative_term))) /\
  (gen_action b T_MINUS = Shift SBM /\
   gen_goto SBM POT = Some (gotoN SBM POT) /\
   (exists p, gen_action (gotoN SBM POT) la = Reduce (S p) /\
      nth_error gen_prods p = Some (PNT, [ST T_MINUS; SN POT], A_possibly_negative_term)) /\
   forall a, is_value_tok a = true ->
     exists n, gen_action SBM a = Shift n /\
       exists p, gen_action n la = Reduce (S p) /\
         nth_error gen_prods p = Some (POT, [ST a], A_phrase_or_term)).
Proof.
  each_state; (split; [reflexivity|]); each_la;
    (split; [eexists; (split; [reflexivity|]); (split; [red_fact|]); (split; [reflexivity|]);
             (split; [red_fact|]); (split; [reflexivity|]); red_fact|]);
    (split; [eexists; (split; [reflexivity|]); red_fact|]);
    (split; [reflexivity|]); (split; [reflexivity|]); (split; [red_fact|]);
    intros a Ha; destruct a; try discriminate Ha; eexists; (split; [reflexivity|]); red_fact.
Qed.

(* ---- the expression level *)
Lemma Q_expr : forall s, In s XCs ->
  gen_goto s E = Some (gotoE s) /\
  forall la, In la M3 -> exists p, gen_action (gotoU s) la = Reduce (S p) /\
    nth_error gen_prods p = Some (E, [SN U], A_expression_unary).
Proof. each_state; (split; [reflexivity|]); each_la; red_fact. Qed.

(* `E AND E .` reduces on K3: NOT on + - TO (there it shifts: F4) *)
Lemma Q_and : forall s, In s XCAs ->
  gen_action (gotoE s) T_AND_OP = Shift SAND /\
  forall la, In la K3 -> exists p, gen_action (gotoE SAND) la = Reduce (S p) /\
    nth_error gen_prods p = Some (E, [SN E; ST T_AND_OP; SN E], A_expression_and).
Proof. each_state; (split; [reflexivity|]); each_la; red_fact. Qed.

Lemma Q_or : forall s, In s XCOs ->
  gen_action (gotoE s) T_OR_OP = Shift SOR /\
  forall la, In la K2 -> exists p, gen_action (gotoE SOR) la = Reduce (S p) /\
    nth_error gen_prods p = Some (E, [SN E; ST T_OR_OP; SN E], A_expression_or).
Proof. each_state; (split; [reflexivity|]); each_la; red_fact. Qed.

(* `E E .` (one state, wherever the first E was entered) reduces on K1 *)
Lemma Q_j : forall t, In t RC ->
  gen_goto t E = Some (gotoE t) /\ In (gotoE t) TC /\ gotoE (gotoE t) = S14 /\
  forall la, In la K1 -> exists p, gen_action S14 la = Reduce (S p) /\
    nth_error gen_prods p = Some (E, [SN E; SN E], A_expression_implicit).
Proof.
  each_state; (split; [reflexivity|]); (split; [simpl; auto|]); (split; [reflexivity|]); each_la; red_fact.
Qed.

(* what the tables do on + - TO after `E OR E .` and `E AND E .`: they shift (finding F4) *)
Lemma Q_f4_shifts : forall la, In la SG ->
  (exists n, gen_action (gotoE SOR) la = Shift n) /\ (exists n, gen_action (gotoE SAND) la = Shift n) /\
  (exists n, gen_action S14 la = Shift n).
Proof. each_la; repeat split; eexists; reflexivity. Qed.

Lemma Q_xcj_not14 : forall s, In s XCJ -> s <> S14.
Proof. each_state; discriminate. Qed.
Lemma Q_s14_fix : gotoE S14 = S14.
Proof. reflexivity. Qed.

Global Opaque S14 SLB SRTO SBM gotoN.
Global Opaque S0 SJ SOR SAND gotoE SLP SJP SNOT STERM SCOL SPLUS SMINUS SLT SGT gotoU.

Lemma in_UC_UCs s : In s UC -> In s UCs. Proof. intros H. unfold UCs. apply in_or_app. auto. Qed.
Lemma in_S14_UCs : In S14 UCs. Proof. unfold UCs. apply in_or_app. right. simpl. auto. Qed.

(* the class of states from which a phrase is run: a signed one also from `E E .` *)
Definition cl (C : list nat) (p : qtree) : list nat := if sgq p then C ++ [S14] else C.
Lemma cl_incl C C' p : incl C C' -> incl (cl C p) (cl C' p).
Proof. unfold cl. intros H. destruct (sgq p); [apply incl_app_app; [exact H|apply incl_refl]|exact H]. Qed.
Lemma cl_base C p : incl C (cl C p).
Proof. unfold cl. destruct (sgq p); [apply incl_appl|]; apply incl_refl. Qed.
Lemma cl_s C p : incl (cl C p) (C ++ [S14]).
Proof. unfold cl. destruct (sgq p); [apply incl_refl|apply incl_appl, incl_refl]. Qed.

(* ================================================================ the LR driver, level by level *)
Lemma LRw C C' tgt L L' ts v :
  incl C' C -> (forall r, la_in L' r -> la_in L r) -> LRrun C tgt L ts v -> LRrun C' tgt L' ts v.
Proof. apply LRrun_weaken. Qed.

(* an operand where an expression may start: one more unit reduction (on + - TO too) *)
Lemma q_3X C ts v : incl C XCs -> LRrun C gotoU M3 ts v -> LRrun C gotoE M3 ts v.
Proof.
  intros HC H s ss vals rest d Hs Hla.
  destruct (H s ss vals rest d Hs Hla) as [i [d1 [Hrun Hi]]].
  destruct (Q_expr s (HC _ Hs)) as [Hg Hred]. destruct (Hred _ Hla) as [p [Hp Hprod]].
  exists i. eexists. split; [|exact Hi].
  eapply reach_trans; [exact Hrun|]. apply reach_step.
  eapply step_reduce1; [exact Hp|exact Hprod|reflexivity|exact Hg].
Qed.

(* ---- postfix level *)
Lemma q_atom t : is_atom t -> LRrun UC gotoU M3B [t] (atom_item t).
Proof.
  intros Ht s ss vals rest d Hs Hla.
  destruct (Q_atom s Hs _ Ht) as [n [Hn Hnr]]. destruct (Hnr _ Hla) as [p [act [Hp [Hprod Hact]]]].
  destruct (atom_value t Ht) as [i [Ei Hi]].
  exists i. eexists. split; [|exact Hi]. rewrite <- Ei.
  eapply reach_trans; [apply reach_step, step_shift; exact Hn|].
  apply reach_step. eapply step_reduce1; [exact Hp|exact Hprod|apply Hact|apply Q_gotoU, in_UC_UCs; exact Hs].
Qed.

Lemma q_fuzzy t a : tk_type t = T_TERM -> tk_type a = T_APPROX -> dec_ok a = true ->
  LRrun UC gotoU M3B [t; a] (approx_item t a).
Proof.
  intros Ht Ha Hok s ss vals rest d Hs Hla.
  destruct (Q_fuzzy s Hs) as [n [m [Hn [Hm Hred]]]]. destruct (Hred _ Hla) as [p [Hp Hprod]].
  destruct (approx_value a Ha) as [ma Ea].
  assert (Ev : exists i evs, run_action A_fuzzy [token_value t; token_value a] = Ok (VItem i, evs) /\
                             erase i = approx_item t a).
  { unfold approx_item, dec_ok in *. rewrite Ea. unfold token_value at 1. rewrite Ht. simpl.
    destruct (degree_of (tk_lexeme a)) as [ds|].
    - destruct (dec_of_lexeme ds); [|discriminate]. eexists _, _. split; reflexivity.
    - eexists _, _. split; reflexivity. }
  destruct Ev as [i [evs [Hact Hi]]]. exists i. eexists. split; [|exact Hi].
  eapply reach_trans; [apply reach_step, step_shift; rewrite Ht; exact Hn|].
  eapply reach_trans; [apply reach_step, step_shift; rewrite Ha; exact Hm|].
  apply reach_step. eapply step_reduce2; [exact Hp|exact Hprod|exact Hact|apply Q_gotoU, in_UC_UCs; exact Hs].
Qed.

Lemma q_prox t a : tk_type t = T_PHRASE -> tk_type a = T_APPROX -> int_ok a = true ->
  LRrun UC gotoU M3B [t; a] (approx_item t a).
Proof.
  intros Ht Ha Hok s ss vals rest d Hs Hla.
  destruct (Q_prox s Hs) as [n [m [Hn [Hm Hred]]]]. destruct (Hred _ Hla) as [p [Hp Hprod]].
  destruct (approx_value a Ha) as [ma Ea].
  assert (Ev : exists i evs, run_action A_proximity [token_value t; token_value a] = Ok (VItem i, evs) /\
                             erase i = approx_item t a).
  { unfold approx_item, int_ok in *. rewrite Ea. unfold token_value at 1. rewrite Ht. simpl.
    destruct (degree_of (tk_lexeme a)) as [ds|].
    - destruct (int_of_lexeme ds); [|discriminate]. eexists _, _. split; reflexivity.
    - eexists _, _. split; reflexivity. }
  destruct Ev as [i [evs [Hact Hi]]]. exists i. eexists. split; [|exact Hi].
  eapply reach_trans; [apply reach_step, step_shift; rewrite Ht; exact Hn|].
  eapply reach_trans; [apply reach_step, step_shift; rewrite Ha; exact Hm|].
  apply reach_step. eapply step_reduce2; [exact Hp|exact Hprod|exact Hact|apply Q_gotoU, in_UC_UCs; exact Hs].
Qed.

Lemma q_boost C ts v b : incl C UCs -> LRrun C gotoU M3B ts v -> tk_type b = T_BOOST -> dec_ok b = true ->
  LRrun C gotoU M3B (ts ++ [b]) (boost_item v b).
Proof.
  intros HC H Hb Hok s ss vals rest d Hs Hla. rewrite <- app_assoc. simpl app.
  destruct (H s ss vals (b :: rest) d Hs) as [x [d1 [Hrun Hx]]]; [apply la_tok; rewrite Hb; simpl; auto|].
  destruct (Q_boost s (HC _ Hs)) as [nb [Hnb Hred]]. destruct (Hred _ Hla) as [p [Hp Hprod]].
  destruct (boost_value b Hb) as [mb Eb].
  assert (Ev : exists i evs, run_action A_boosting [VItem x; token_value b] = Ok (VItem i, evs) /\
                             erase i = boost_item v b).
  { unfold boost_item, dec_ok in *. rewrite Eb. simpl.
    destruct (degree_of (tk_lexeme b)) as [ds|].
    - destruct (dec_of_lexeme ds); [|discriminate]. eexists _, _. split; [reflexivity|].
      simpl. rewrite erase_add_tail, Hx. reflexivity.
    - eexists _, _. split; [reflexivity|]. simpl. rewrite erase_add_tail, Hx. reflexivity. }
  destruct Ev as [i [evs [Hact Hi]]]. exists i. eexists. split; [|exact Hi].
  eapply reach_trans; [exact Hrun|].
  eapply reach_trans; [apply reach_step, step_shift; rewrite Hb; exact Hnb|].
  apply reach_step. eapply step_reduce2; [exact Hp|exact Hprod|exact Hact|apply Q_gotoU; exact (HC _ Hs)].
Qed.

Lemma q_group l ts v r : LRrun XCJ gotoE K1 ts v -> tk_type l = T_LPAREN -> tk_type r = T_RPAREN ->
  LRrun UC gotoU M3B (l :: ts ++ [r]) (Grp KGroup meta0 v).
Proof.
  intros H Hl Hr s ss vals rest d Hs Hla. simpl app. rewrite <- app_assoc. simpl app.
  destruct (Q_group s Hs) as [Hsh [nr [Hnr Hred]]]. destruct (Hred _ Hla) as [p [Hp Hprod]].
  destruct (H SLP (s :: ss) (token_value l :: vals) (r :: rest) d in_SLP_XCJ) as [x [d1 [Hrun Hx]]];
    [apply la_tok; rewrite Hr; simpl; tauto|].
  destruct (plain_value l) as [ll [lv [lm El]]]; try (rewrite Hl; discriminate).
  destruct (plain_value r) as [rl [rv [rm Er]]]; try (rewrite Hr; discriminate).
  eexists. eexists. split.
  - eapply reach_trans; [apply reach_step, step_shift; rewrite Hl; exact Hsh|].
    eapply reach_trans; [exact Hrun|].
    eapply reach_trans; [apply reach_step, step_shift; rewrite Hr; exact Hnr|].
    apply reach_step. eapply step_reduce3; [exact Hp|exact Hprod| |apply Q_gotoU, in_UC_UCs; exact Hs].
    rewrite El, Er. reflexivity.
  - simpl. rewrite erase_add_tail, erase_add_head, Hx. reflexivity.
Qed.

(* ---- a range bound, in `[ .` and in `[ bound TO .` *)
Lemma value_value v : is_value_tok (tk_type v) = true ->
  exists i, token_value v = VItem i /\ erase i = atom_item v.
Proof.
  unfold token_value, atom_item. destruct (tk_type v); try discriminate; intros _; eexists; split; reflexivity.
Qed.
Lemma other_value o : tk_type o <> T_TERM -> tk_type o <> T_PHRASE -> tk_type o <> T_REGEX ->
  tk_type o <> T_APPROX -> tk_type o <> T_BOOST ->
  exists m, token_value o = VTok (tk_lexeme o) (Some (tk_lexeme o)) m.
Proof.
  unfold token_value. intros H1 H2 H3 H4 H5. destruct (tk_type o); try congruence; eexists; reflexivity.
Qed.

Lemma q_bound bd : wfbnd bd = true ->
  forall b ss vals rest d, In b BC -> la_in LB rest ->
  exists i d', reach (mkCfg (b :: ss) vals (flb bd ++ rest) d)
                     (mkCfg (gotoN b POPNT :: b :: ss) (VItem i :: vals) rest d') /\ erase i = bval bd.
Proof.
  intros W b ss vals rest d Hb Hla. destruct (Q_bound b Hb) as [Hgp Hf].
  destruct (Hf _ Hla) as [[nt [Hnt [[p1 [Hp1 Hq1]] [Hg1 [[p2 [Hp2 Hq2]] [Hg2 [p3 [Hp3 Hq3]]]]]]]]
                           [[np [Hnp [p4 [Hp4 Hq4]]]]
                            [Hm [Hg5 [[p5 [Hp5 Hq5]] Hv]]]]].
  destruct bd as [v|m v]; simpl in W.
  - destruct (value_value v W) as [i [Ei Hi]]. exists i. simpl flb. simpl app.
    destruct (tk_type v) eqn:Ev; try discriminate.
    + eexists. split; [|exact Hi].
      eapply reach_trans; [apply reach_step, step_shift; rewrite Ev; exact Hnt|]. rewrite Ei.
      eapply reach_trans; [apply reach_step; eapply step_reduce1; [exact Hp1|exact Hq1|reflexivity|exact Hg1]|].
      eapply reach_trans; [apply reach_step; eapply step_reduce1; [exact Hp2|exact Hq2|reflexivity|exact Hg2]|].
      apply reach_step; eapply step_reduce1; [exact Hp3|exact Hq3|reflexivity|exact Hgp].
    + eexists. split; [|exact Hi].
      eapply reach_trans; [apply reach_step, step_shift; rewrite Ev; exact Hnp|]. rewrite Ei.
      apply reach_step; eapply step_reduce1; [exact Hp4|exact Hq4|reflexivity|exact Hgp].
  - apply andb_prop in W. destruct W as [Wm Wv]. apply tok_eqb_eq in Wm.
    destruct (value_value v Wv) as [x [Ex Hx]]. destruct (Hv _ Wv) as [n [Hn [p6 [Hp6 Hq6]]]].
    destruct (other_value m) as [mm Em]; try (rewrite Wm; discriminate).
    simpl flb. simpl app. eexists. eexists. split.
    + eapply reach_trans; [apply reach_step, step_shift; rewrite Wm; exact Hm|].
      eapply reach_trans; [apply reach_step, step_shift; exact Hn|]. rewrite Ex, Em.
      eapply reach_trans; [apply reach_step; eapply step_reduce1; [exact Hp6|exact Hq6|reflexivity|exact Hg5]|].
      eapply reach_trans; [apply reach_step; eapply step_reduce2; [exact Hp5|exact Hq5|reflexivity|exact Hg2]|].
      apply reach_step; eapply step_reduce1; [exact Hp3|exact Hq3|reflexivity|exact Hgp].
    + simpl. rewrite erase_add_head, Hx. reflexivity.
Qed.

Lemma in_SLB_BC : In SLB BC. Proof. simpl. auto. Qed.
Lemma in_SRTO_BC : In SRTO BC. Proof. simpl. auto. Qed.

Lemma step_reduce5 s5 s4 s3 s2 s1 b sts x5 x4 x3 x2 x1 vals toks d p lhs X1 X2 X3 X4 X5 a v evs g :
  gen_action s5 (la_of toks) = Reduce (S p) -> nth_error gen_prods p = Some (lhs, [X1; X2; X3; X4; X5], a) ->
  run_action a [x1; x2; x3; x4; x5] = Ok (v, evs) -> gen_goto b lhs = Some g ->
  step gen_tables None (mkCfg (s5 :: s4 :: s3 :: s2 :: s1 :: b :: sts) (x5 :: x4 :: x3 :: x2 :: x1 :: vals) toks d) =
  Next (mkCfg (g :: b :: sts) (v :: vals) toks (d ++ evs)).
Proof.
  intros H1 H2 H3 H4.
  apply (step_reduce (s5 :: s4 :: s3 :: s2 :: s1 :: b :: sts) (x5 :: x4 :: x3 :: x2 :: x1 :: vals) toks d p lhs
                     [X1; X2; X3; X4; X5] a v evs g); simpl; auto; lia.
Qed.

Lemma q_range l lo t hi r :
  tk_type l = T_LBRACKET -> wfbnd lo = true -> tk_type t = T_TO -> wfbnd hi = true -> tk_type r = T_RBRACKET ->
  LRrun UC gotoU M3B (l :: flb lo ++ t :: flb hi ++ [r]) (range_item l lo hi r).
Proof.
  intros Hl Wlo Ht Whi Hr s ss vals rest d Hs Hla.
  destruct (Q_range s Hs) as [Hsh [Hto [nr [Hnr Hred]]]]. destruct (Hred _ Hla) as [p [Hp Hprod]].
  simpl app. rewrite <- app_assoc. simpl app. rewrite <- app_assoc. simpl app.
  destruct (q_bound lo Wlo SLB (s :: ss) (token_value l :: vals) (t :: flb hi ++ r :: rest) d in_SLB_BC)
    as [ilo [d1 [Hrun1 Hlo]]]; [apply la_tok; rewrite Ht; simpl; auto|].
  destruct (q_bound hi Whi SRTO (gotoN SLB POPNT :: SLB :: s :: ss)
                    (token_value t :: VItem ilo :: token_value l :: vals) (r :: rest) d1 in_SRTO_BC)
    as [ihi [d2 [Hrun2 Hhi]]]; [apply la_tok; rewrite Hr; simpl; auto|].
  destruct (other_value l) as [ml El]; try (rewrite Hl; discriminate).
  destruct (other_value t) as [mt Et]; try (rewrite Ht; discriminate).
  destruct (other_value r) as [mr Er]; try (rewrite Hr; discriminate).
  eexists. eexists. split.
  - eapply reach_trans; [apply reach_step, step_shift; rewrite Hl; exact Hsh|].
    eapply reach_trans; [exact Hrun1|].
    eapply reach_trans; [apply reach_step, step_shift; rewrite Ht; exact Hto|].
    eapply reach_trans; [exact Hrun2|].
    eapply reach_trans; [apply reach_step, step_shift; rewrite Hr; exact Hnr|].
    apply reach_step. eapply step_reduce5; [exact Hp|exact Hprod| |apply Q_gotoU, in_UC_UCs; exact Hs].
    rewrite El, Et, Er. reflexivity.
  - unfold range_item. simpl. rewrite !erase_add_tail, !erase_add_head, Hlo, Hhi. reflexivity.
Qed.

(* ---- operand level *)
Lemma q_not n ts v : LRrun UC gotoU M3 ts v -> tk_type n = T_NOT -> LRrun UC gotoU M3 (n :: ts) (Unary KNot meta0 v).
Proof.
  intros H Hn s ss vals rest d Hs Hla. simpl app.
  destruct (Q_not s Hs) as [Hsh Hred]. destruct (Hred _ Hla) as [p [Hp Hprod]].
  destruct (H SNOT (s :: ss) (token_value n :: vals) rest d in_SNOT_UC Hla) as [x [d1 [Hrun Hx]]].
  destruct (plain_value n) as [nl [nv [nm En]]]; try (rewrite Hn; discriminate).
  eexists. eexists. split.
  - eapply reach_trans; [apply reach_step, step_shift; rewrite Hn; exact Hsh|].
    eapply reach_trans; [exact Hrun|].
    apply reach_step. eapply step_reduce2; [exact Hp|exact Hprod| |apply Q_gotoU, in_UC_UCs; exact Hs].
    rewrite En. reflexivity.
  - simpl. rewrite erase_add_head, Hx. reflexivity.
Qed.

Lemma q_field name col ts v : LRrun UC gotoU M3 ts v -> tk_type name = T_TERM -> tk_type col = T_COLUMN ->
  LRrun UC gotoU M3 (name :: col :: ts) (SearchField meta0 (tk_lexeme name) (fieldgroup v)).
Proof.
  intros H Hn Hc s ss vals rest d Hs Hla. simpl app.
  destruct (Q_field s Hs) as [Hsh [Hsc Hred]]. destruct (Hred _ Hla) as [p [Hp Hprod]].
  destruct (H SCOL (STERM :: s :: ss) (token_value col :: token_value name :: vals) rest d in_SCOL_UC Hla)
    as [x [d1 [Hrun Hx]]].
  destruct (plain_value col) as [cl0 [cv [cm Ec]]]; try (rewrite Hc; discriminate).
  eexists. eexists. split.
  - eapply reach_trans; [apply reach_step, step_shift; rewrite Hn; exact Hsh|].
    eapply reach_trans; [apply reach_step, step_shift; rewrite Hc; exact Hsc|].
    eapply reach_trans; [exact Hrun|].
    apply reach_step. eapply step_reduce3; [exact Hp|exact Hprod| |apply Q_gotoU, in_UC_UCs; exact Hs].
    rewrite Ec. unfold token_value. rewrite Hn. reflexivity.
  - simpl. rewrite erase_add_head, erase_fg, Hx. reflexivity.
Qed.

(* + x and - x: also where only a signed operand may start (`E E .`) *)
Lemma q_sign sg ts v : LRrun UC gotoU M3 ts v -> is_sign_tok (tk_type sg) = true ->
  LRrun UCs gotoU M3 (sg :: ts) (Unary (sign_kind sg) meta0 v).
Proof.
  intros H Hsg s ss vals rest d Hs Hla. simpl app.
  destruct (Q_sign s Hs) as [Hp [Hm Hred]]. destruct (Hred _ Hla) as [[p1 [Hp1 Hprod1]] [p2 [Hp2 Hprod2]]].
  destruct (plain_value sg) as [nl [nv [nm En]]];
    try (intros E; rewrite E in Hsg; discriminate).
  unfold sign_kind. destruct (tk_type sg) eqn:Et; try discriminate.
  - destruct (H SMINUS (s :: ss) (token_value sg :: vals) rest d in_SMINUS_UC Hla) as [x [d1 [Hrun Hx]]].
    eexists. eexists. split.
    + eapply reach_trans; [apply reach_step, step_shift; rewrite Et; exact Hm|].
      eapply reach_trans; [exact Hrun|].
      apply reach_step. eapply step_reduce2; [exact Hp2|exact Hprod2| |apply Q_gotoU; exact Hs].
      rewrite En. reflexivity.
    + simpl. rewrite erase_add_head, Hx. reflexivity.
  - destruct (H SPLUS (s :: ss) (token_value sg :: vals) rest d in_SPLUS_UC Hla) as [x [d1 [Hrun Hx]]].
    eexists. eexists. split.
    + eapply reach_trans; [apply reach_step, step_shift; rewrite Et; exact Hp|].
      eapply reach_trans; [exact Hrun|].
      apply reach_step. eapply step_reduce2; [exact Hp1|exact Hprod1| |apply Q_gotoU; exact Hs].
      rewrite En. reflexivity.
    + simpl. rewrite erase_add_head, Hx. reflexivity.
Qed.

Lemma q_to t : tk_type t = T_TO -> LRrun UCs gotoU M3B [t] (word (tk_lexeme t)).
Proof.
  intros Ht s ss vals rest d Hs Hla.
  destruct (Q_to s Hs) as [n [Hn Hred]]. destruct (Hred _ Hla) as [p [Hp Hprod]].
  eexists. eexists. split.
  - eapply reach_trans; [apply reach_step, step_shift; rewrite Ht; exact Hn|].
    apply reach_step. eapply step_reduce1; [exact Hp|exact Hprod| |apply Q_gotoU; exact Hs].
    unfold token_value. rewrite Ht. reflexivity.
  - reflexivity.
Qed.

Lemma q_open o v : is_open_tok (tk_type o) = true -> is_value_tok (tk_type v) = true ->
  LRrun UC gotoU M3B [o; v] (ORange (open_kind o) meta0 (atom_item v) (mem_N c_eq (tk_lexeme o))).
Proof.
  intros Ho Hv s ss vals rest d Hs Hla.
  destruct (Q_open s Hs) as [Hlt [Hgt Hrest]]. destruct (Hrest _ Hv) as [[n1 [g1 [Hn1 [Hg1 Hr1]]]] [n2 [g2 [Hn2 [Hg2 Hr2]]]]].
  destruct (Hr1 _ Hla) as [[p1 [Hp1 Hprod1]] [q1 [Hq1 Hqprod1]]].
  destruct (Hr2 _ Hla) as [[p2 [Hp2 Hprod2]] [q2 [Hq2 Hqprod2]]].
  destruct (value_value v Hv) as [x [Ex Hx]].
  assert (Eo : exists m, token_value o = VTok (tk_lexeme o) (Some (tk_lexeme o)) m).
  { unfold token_value. destruct (tk_type o); try discriminate; eexists; reflexivity. }
  destruct Eo as [mo Eo].
  unfold open_kind. destruct (tk_type o) eqn:Et; try discriminate.
  - eexists. eexists. split.
    + eapply reach_trans; [apply reach_step, step_shift; rewrite Et; exact Hlt|].
      eapply reach_trans; [apply reach_step, step_shift; exact Hn1|].
      eapply reach_trans; [apply reach_step; eapply step_reduce1; [exact Hp1|exact Hprod1|reflexivity|exact Hg1]|].
      apply reach_step. eapply step_reduce2; [exact Hq1|exact Hqprod1| |apply Q_gotoU, in_UC_UCs; exact Hs].
      rewrite Eo, Ex. reflexivity.
    + simpl. rewrite erase_add_head, Hx. reflexivity.
  - eexists. eexists. split.
    + eapply reach_trans; [apply reach_step, step_shift; rewrite Et; exact Hgt|].
      eapply reach_trans; [apply reach_step, step_shift; exact Hn2|].
      eapply reach_trans; [apply reach_step; eapply step_reduce1; [exact Hp2|exact Hprod2|reflexivity|exact Hg2]|].
      apply reach_step. eapply step_reduce2; [exact Hq2|exact Hqprod2| |apply Q_gotoU, in_UC_UCs; exact Hs].
      rewrite Eo, Ex. reflexivity.
    + simpl. rewrite erase_add_head, Hx. reflexivity.
Qed.

(* ---- the AND and OR chains, from any class of states where such a chain may start *)
Lemma in_XCAs_XCs s : In s XCAs -> In s XCs.
Proof. unfold XCAs, XCs. intros H. apply in_app_or in H. apply in_or_app. destruct H; [left; apply incl_XCA_XC|right]; auto. Qed.
Lemma in_XCOs_XCAs s : In s XCOs -> In s XCAs.
Proof. unfold XCAs, XCOs. intros H. apply in_app_or in H. apply in_or_app. destruct H; [left; apply incl_XCO_XCA|right]; auto. Qed.
Lemma in_XCs_UCs s : In s XCs -> In s UCs.
Proof. unfold UCs, XCs. intros H. apply in_app_or in H. apply in_or_app. destruct H; [left; apply incl_XC_UC|right]; auto. Qed.

Lemma q_and C ta tb o acc vb : incl C XCAs ->
  LRrun C gotoE K3 ta (nary KAnd acc) -> LRrun XC gotoE M3 tb vb -> tk_type o = T_AND_OP ->
  acc <> [] -> Forall (fun x => same_op KAnd x = false) acc -> same_op KAnd vb = false ->
  LRrun C gotoE K3 (ta ++ o :: tb) (nary KAnd (acc ++ [vb])).
Proof.
  intros HC Ha Hb Ho Hne Hacc Hvb s ss vals rest d Hs Hla. rewrite <- app_assoc. simpl app.
  destruct (Ha s ss vals (o :: tb ++ rest) d Hs) as [a [d1 [Hrun1 Ea]]];
    [apply la_tok; rewrite Ho; simpl; auto|].
  destruct (Q_and s (HC _ Hs)) as [Hsh Hred]. destruct (Hred _ Hla) as [p [Hp Hprod]].
  destruct (Hb SAND (gotoE s :: s :: ss) (token_value o :: VItem a :: vals) rest d1 in_SAND_XC (k3_m3 _ Hla))
    as [b [d2 [Hrun2 Eb]]].
  destruct (plain_value o) as [l [v [m Eo]]]; try (rewrite Ho; discriminate).
  destruct (binary_nary KAnd a (Some (VTok l v m)) b acc eq_refl Hne Ea Hacc) as [a' [evs [Hbin Ea']]].
  { eapply same_op_of_erase; [exact Eb|exact Hvb]. }
  exists a'. eexists. split; [|rewrite Ea', Eb; reflexivity].
  eapply reach_trans; [exact Hrun1|].
  eapply reach_trans; [apply reach_step, step_shift; rewrite Ho; exact Hsh|].
  eapply reach_trans; [exact Hrun2|].
  apply reach_step. eapply step_reduce3; [exact Hp|exact Hprod| |apply (Q_expr s (in_XCAs_XCs _ (HC _ Hs)))].
  rewrite Eo. exact Hbin.
Qed.

Lemma q_or C ta tb o acc vb : incl C XCOs ->
  LRrun C gotoE K2 ta (nary KOr acc) -> LRrun XCA gotoE K3 tb vb -> tk_type o = T_OR_OP ->
  acc <> [] -> Forall (fun x => same_op KOr x = false) acc -> same_op KOr vb = false ->
  LRrun C gotoE K2 (ta ++ o :: tb) (nary KOr (acc ++ [vb])).
Proof.
  intros HC Ha Hb Ho Hne Hacc Hvb s ss vals rest d Hs Hla. rewrite <- app_assoc. simpl app.
  destruct (Ha s ss vals (o :: tb ++ rest) d Hs) as [a [d1 [Hrun1 Ea]]];
    [apply la_tok; rewrite Ho; simpl; auto|].
  destruct (Q_or s (HC _ Hs)) as [Hsh Hred]. destruct (Hred _ Hla) as [p [Hp Hprod]].
  destruct (Hb SOR (gotoE s :: s :: ss) (token_value o :: VItem a :: vals) rest d1 in_SOR_XCA (k2_k3 _ Hla))
    as [b [d2 [Hrun2 Eb]]].
  destruct (plain_value o) as [l [v [m Eo]]]; try (rewrite Ho; discriminate).
  destruct (binary_nary KOr a (Some (VTok l v m)) b acc eq_refl Hne Ea Hacc) as [a' [evs [Hbin Ea']]].
  { eapply same_op_of_erase; [exact Eb|exact Hvb]. }
  exists a'. eexists. split; [|rewrite Ea', Eb; reflexivity].
  eapply reach_trans; [exact Hrun1|].
  eapply reach_trans; [apply reach_step, step_shift; rewrite Ho; exact Hsh|].
  eapply reach_trans; [exact Hrun2|].
  apply reach_step. eapply step_reduce3; [exact Hp|exact Hprod| |
    apply (Q_expr s (in_XCAs_XCs _ (in_XCOs_XCAs _ (HC _ Hs))))].
  rewrite Eo. exact Hbin.
Qed.


(* ================================================================ juxtaposition with signed operands *)

(* create_operation flattens on BOTH sides: the right operand may be the n-ary node of `accb` *)
Lemma binary_nary2 k a o b acc accb :
  opk_eqb k k = true -> acc <> [] -> accb <> [] -> erase a = nary k acc -> erase b = nary k accb ->
  Forall (fun x => same_op k x = false) acc -> Forall (fun x => same_op k x = false) accb ->
  exists a' evs, binary k a o b = Ok (VItem a', evs) /\ erase a' = nary k (acc ++ accb).
Proof.
  intros Hk Hne Hneb Ha Hb Hacc Haccb.
  destruct accb as [|y [|y2 rb]]; [congruence| |].
  - simpl in Hb.
    destruct (binary_nary k a o b acc Hk Hne Ha Hacc) as [a' [evs [H1 H2]]].
    { rewrite <- same_op_erase, Hb. inversion Haccb; assumption. }
    exists a', evs. split; [exact H1|]. rewrite H2, Hb. reflexivity.
  - destruct b as [| | | | | | |kb mb lb| | |]; simpl in Hb; try discriminate. injection Hb as -> Hops.
    destruct lb as [|b0 brest]; [discriminate|].
    assert (Hlen : forall l : list item, nary k (l ++ y :: y2 :: rb) = Op k meta0 (l ++ y :: y2 :: rb)).
    { intros l. destruct l as [|l1 [|l2 l3]]; reflexivity. }
    unfold binary. cbv zeta. fold (same_op k a). simpl (match Op k mb (b0 :: brest) with Op k' _ _ => opk_eqb k k' | _ => false end).
    rewrite Hk. cbv iota. simpl (children (Op k mb (b0 :: brest))). cbv iota.
    destruct acc as [|x [|x2 r]]; [congruence| |].
    + simpl in Ha.
      assert (Hs : same_op k a = false) by (rewrite <- same_op_erase, Ha; inversion Hacc; assumption).
      rewrite Hs. cbv iota. destruct (htm_pos _ false false) as [ps sz].
      eexists _, _. split; [reflexivity|]. rewrite Hlen. simpl. simpl in Hops. injection Hops as <- <-.
      rewrite erase_add_head, Ha. reflexivity.
    + destruct a; simpl in Ha; try discriminate. injection Ha as -> Hopsa.
      simpl same_op. rewrite Hk. cbv iota. destruct (htm_pos _ false false) as [ps sz].
      eexists _, _. split; [reflexivity|]. rewrite Hlen. simpl. rewrite map_app, Hopsa. simpl.
      simpl in Hops. injection Hops as <- <-. rewrite erase_add_head. reflexivity.
Qed.

(* a GROUP of a juxtaposition: an operand followed by signed operands; all but the last are level-3
   phrases.  The driver stacks it (`E E .` repeated) and collapses it from the right. *)
Inductive grp : list qtree -> Prop :=
| grp_one x : grp [x]
| grp_cons x y r : 3 <= lvq x -> sgq y = true -> grp (y :: r) -> grp (x :: y :: r).

Definition okop (x : qtree) : Prop := 1 <= lvq x /\ wfs x = true.
Definition OPA (x : qtree) : Prop :=
  LRrun (cl XCO x) gotoE K2 (flq x) (valq x) /\
  (3 <= lvq x -> LRrun (cl XC x) gotoE M3 (flq x) (valq x)).

Definition hd_sg (xs : list qtree) : Prop := match xs with x :: _ => sgq x = true | [] => True end.
Definition hd_unsg (xs : list qtree) : Prop := match xs with x :: _ => sgq x = false | [] => True end.

Lemma rc_cl C x t : incl XCO C -> In t RC -> (t = S14 -> sgq x = true) -> In t (cl C x).
Proof.
  intros HC Ht Hs. unfold RC in Ht. apply in_app_or in Ht. destruct Ht as [Ht|[<-|[]]].
  - apply cl_base, HC, Ht.
  - unfold cl. rewrite (Hs eq_refl). apply in_or_app. right. simpl. auto.
Qed.
Lemma tc_rc : incl TC RC.
Proof. intros x H. unfold RC, XCO. simpl in *. tauto. Qed.
Lemma xco_xc : incl XCO XC.
Proof. intros x H. apply incl_XCA_XC, incl_XCO_XCA, H. Qed.

Lemma okop_notU xs : Forall okop xs -> Forall (fun x => same_op KUnknown x = false) (map valq xs).
Proof.
  induction 1 as [|x r [Hx _] _ IH]; [constructor|]. simpl. constructor; [apply qval_not_j; exact Hx|exact IH].
Qed.

Lemma RL xs : grp xs -> Forall OPA xs -> Forall okop xs ->
  forall t ss vals rest d, In t RC -> (t = S14 -> hd_sg xs) -> la_in K1 rest ->
  exists i d', reach (mkCfg (t :: ss) vals (flat xs ++ rest) d)
                     (mkCfg (gotoE t :: t :: ss) (VItem i :: vals) rest d') /\
               erase i = nary KUnknown (map valq xs).
Proof.
  induction 1 as [x|x y r Hx Hy Hg IH]; intros HA HO t ss vals rest d Ht Hsg Hla.
  - inversion HA as [|? ? [H1 _] _]; subst.
    unfold flat. simpl. rewrite app_nil_r.
    apply (H1 t ss vals rest d); [apply rc_cl; [apply incl_refl|exact Ht|exact Hsg]|apply k1_k2; exact Hla].
  - inversion HA as [|? ? [_ H3] HA']; subst. inversion HO as [|? ? [_ Wx] HO']; subst.
    pose proof HO' as HO''. inversion HO'' as [|? ? [_ Wy] _]; subst.
    rewrite flat_cons, <- app_assoc.
    assert (Hla3 : la_in M3 (flat (y :: r) ++ rest)).
    { rewrite flat_cons, <- app_assoc. apply (la_hd SG M3); [|exact sg_m3].
      pose proof (flq_hd y Wy) as Hh. rewrite Hy in Hh. exact Hh. }
    destruct (H3 Hx t ss vals _ d (rc_cl XC x t xco_xc Ht Hsg) Hla3) as [ix [d1 [Hrun1 Eix]]].
    destruct (Q_j t Ht) as [Hgt [Htc [H14 Hred]]].
    destruct (IH HA' HO' (gotoE t) (t :: ss) (VItem ix :: vals) rest d1 (tc_rc _ Htc) (fun _ => Hy) Hla)
      as [ir [d2 [Hrun2 Eir]]].
    rewrite H14 in Hrun2. destruct (Hred _ Hla) as [p [Hp Hprod]].
    destruct (binary_nary2 KUnknown ix None ir [valq x] (map valq (y :: r)) eq_refl) as [a' [evs [Hbin Ea']]];
      [discriminate|discriminate|exact Eix|exact Eir| |apply okop_notU; exact HO'|].
    { constructor; [apply qval_not_j; lia|constructor]. }
    exists a'. eexists. split; [|exact Ea'].
    eapply reach_trans; [exact Hrun1|]. eapply reach_trans; [exact Hrun2|].
    apply reach_step. eapply step_reduce2; [exact Hp|exact Hprod|exact Hbin|exact Hgt].
Qed.

(* the rest of a juxtaposition: groups, each starting with an unsigned operand *)
Inductive JL : list qtree -> Prop :=
| JL_nil : JL []
| JL_grp g r : grp g -> hd_unsg g -> JL r -> JL (g ++ r).

Lemma JL_la r rest : JL r -> Forall okop r -> la_in K1 rest -> la_in K1 (flat r ++ rest).
Proof.
  destruct 1 as [|g r Hg Hu Hr]; intros HO Hla; [exact Hla|].
  destruct Hg as [x|x y r' _ _ _]; simpl in Hu; inversion HO as [|? ? [_ Wx] _]; subst;
    simpl app; rewrite flat_cons, <- app_assoc; apply (la_hd OPS K1); try exact ops_k1;
    pose proof (flq_hd x Wx) as Hh; rewrite Hu in Hh; exact Hh.
Qed.

Transparent S0 SJ SOR SAND gotoE SLP SJP SNOT STERM SCOL SPLUS SMINUS SLT SGT gotoU S14.
Lemma Q_xcj_t : forall s, In s XCJ -> gotoE s <> S14.
Proof. each_state; discriminate. Qed.
Global Opaque S0 SJ SOR SAND gotoE SLP SJP SNOT STERM SCOL SPLUS SMINUS SLT SGT gotoU S14.

Lemma xcj_rc s : In s XCJ -> In s RC.
Proof. intros H. unfold RC. apply in_or_app. left. apply incl_XCJ_XCO, H. Qed.

Lemma Jloop r : JL r -> Forall OPA r -> Forall okop r ->
  forall s0 ss vals a acc rest d, In s0 XCJ -> acc <> [] -> erase a = nary KUnknown acc ->
    Forall (fun x => same_op KUnknown x = false) acc -> la_in K1 rest ->
  exists a' d', reach (mkCfg (gotoE s0 :: s0 :: ss) (VItem a :: vals) (flat r ++ rest) d)
                      (mkCfg (gotoE s0 :: s0 :: ss) (VItem a' :: vals) rest d') /\
                erase a' = nary KUnknown (acc ++ map valq r).
Proof.
  induction 1 as [|g r Hg Hu Hr IH]; intros HA HO s0 ss vals a acc rest d Hs Hne Ea Hacc Hla.
  - exists a, d. split; [apply reach_refl|]. simpl. rewrite app_nil_r. exact Ea.
  - apply Forall_app in HA. destruct HA as [HAg HAr]. apply Forall_app in HO. destruct HO as [HOg HOr].
    rewrite flat_app, <- app_assoc.
    pose proof (JL_la r rest Hr HOr Hla) as Hla'.
    destruct (Q_j s0 (xcj_rc _ Hs)) as [Hg0 [Htc [H14 Hred]]].
    destruct (RL g Hg HAg HOg (gotoE s0) (s0 :: ss) (VItem a :: vals) (flat r ++ rest) d (tc_rc _ Htc))
      as [ig [d1 [Hrun1 Eig]]]; [intros E; exfalso; exact (Q_xcj_t s0 Hs E)|exact Hla'|].
    rewrite H14 in Hrun1. destruct (Hred _ Hla') as [p [Hp Hprod]].
    assert (Hgne : map valq g <> []) by (destruct Hg; discriminate).
    destruct (binary_nary2 KUnknown a None ig acc (map valq g) eq_refl Hne Hgne Ea Eig Hacc (okop_notU _ HOg))
      as [a1 [evs [Hbin Ea1]]].
    destruct (IH HAr HOr s0 ss vals a1 (acc ++ map valq g) rest (d1 ++ evs) Hs) as [a' [d' [Hrun' Ea']]];
      [destruct acc; [congruence|discriminate]|exact Ea1|
       apply Forall_app; split; [exact Hacc|apply okop_notU; exact HOg]|exact Hla|].
    exists a', d'. split; [|rewrite Ea', map_app, app_assoc; reflexivity].
    eapply reach_trans; [exact Hrun1|]. eapply reach_trans; [|exact Hrun'].
    apply reach_step. eapply step_reduce2; [exact Hp|exact Hprod|exact Hbin|exact Hg0].
Qed.

Lemma LR0_list g r : grp g -> JL r -> Forall OPA (g ++ r) -> Forall okop (g ++ r) ->
  LRrun XCJ gotoE K1 (flat (g ++ r)) (nary KUnknown (map valq (g ++ r))).
Proof.
  intros Hg Hr HA HO s0 ss vals rest d Hs Hla.
  apply Forall_app in HA. destruct HA as [HAg HAr]. apply Forall_app in HO. destruct HO as [HOg HOr].
  rewrite flat_app, <- app_assoc.
  destruct (RL g Hg HAg HOg s0 ss vals (flat r ++ rest) d (xcj_rc _ Hs)) as [ig [d1 [Hrun1 Eig]]];
    [intros E; exfalso; exact (Q_xcj_not14 s0 Hs E)|apply JL_la; assumption|].
  assert (Hgne : map valq g <> []) by (destruct Hg; discriminate).
  destruct (Jloop r Hr HAr HOr s0 ss vals ig (map valq g) rest d1 Hs Hgne Eig (okop_notU _ HOg) Hla)
    as [a' [d' [Hrun' Ea']]].
  exists a', d'. split; [eapply reach_trans; eassumption|rewrite Ea', map_app; reflexivity].
Qed.

(* ---- cutting a juxtaposition into groups: possible exactly under the guard *)
Fixpoint chain (xs : list qtree) : Prop :=
  match xs with
  | x :: ((y :: _) as r) => (sgq y = true -> 3 <= lvq x) /\ chain r
  | _ => True
  end.

Lemma decompose xs : xs <> [] -> chain xs -> exists g r, xs = g ++ r /\ grp g /\ JL r.
Proof.
  induction xs as [|x r IH]; [congruence|]. intros _ Hc. destruct r as [|y r'].
  - exists [x], []. repeat split; constructor.
  - destruct Hc as [Hxy Hc]. destruct (IH ltac:(discriminate) Hc) as [g [r2 [E [Hg Hj]]]].
    destruct g as [|y' g']; [inversion Hg|]. simpl in E. injection E as <- E'.
    destruct (sgq y) eqn:Sy.
    + exists (x :: y :: g'), r2. split; [simpl; rewrite E'; reflexivity|]. split; [apply grp_cons; auto|exact Hj].
    + exists [x], ((y :: g') ++ r2). split; [simpl; rewrite E'; reflexivity|]. split; [constructor|].
      apply JL_grp; auto.
Qed.

Lemma chain_snoc l b d : l <> [] -> chain l -> (sgq b = true -> 3 <= lvq (last l d)) -> chain (l ++ [b]).
Proof.
  induction l as [|x l IH]; [congruence|]. intros _ Hc Hb. destruct l as [|y l'].
  - simpl. split; [exact Hb|exact I].
  - destruct Hc as [Hxy Hc]. change ((x :: y :: l') ++ [b]) with (x :: y :: (l' ++ [b])).
    split; [exact Hxy|]. apply (IH ltac:(discriminate) Hc). exact Hb.
Qed.

Lemma jops_last' p d : last (jops p) d = lastj p.
Proof. destruct p; try reflexivity. simpl. apply last_last. Qed.

Lemma f4_chain p : f4free p = true -> chain (jops p).
Proof.
  induction p; intros F; try exact I.
  simpl in F. apply andb_prop in F. destruct F as [F F3]. apply andb_prop in F. destruct F as [F1 F2].
  simpl jops. apply (chain_snoc _ _ p1 (jops_ne p1) (IHp1 F1)). intros Sb. rewrite Sb in F3. simpl in F3.
  rewrite jops_last'. apply Nat.leb_le. exact F3.
Qed.

Lemma jops_single p : 1 <= lvq p -> jops p = [p].
Proof. destruct p; simpl; intros H; try reflexivity. lia. Qed.

(* ================================================================ the induction *)
Definition LR_all (p : qtree) : Prop :=
  (lvq p = 4 -> LRrun (cl UC p) gotoU M3B (flq p) (valq p)) /\
  (3 <= lvq p -> LRrun (cl UC p) gotoU M3 (flq p) (valq p)) /\
  (3 <= lvq p -> LRrun (cl XC p) gotoE M3 (flq p) (valq p)) /\
  (2 <= lvq p -> LRrun (cl XCA p) gotoE K3 (flq p) (valq p)) /\
  (1 <= lvq p -> LRrun (cl XCO p) gotoE K2 (flq p) (valq p)) /\
  Forall OPA (jops p) /\
  LRrun XCJ gotoE K1 (flq p) (valq p).

Lemma xcj_cl p : incl XCJ (cl XCO p).
Proof. intros x H. apply cl_base, incl_XCJ_XCO, H. Qed.

Lemma lr_up1 p : 1 <= lvq p ->
  (lvq p = 4 -> LRrun (cl UC p) gotoU M3B (flq p) (valq p)) ->
  (3 <= lvq p -> LRrun (cl UC p) gotoU M3 (flq p) (valq p)) ->
  (3 <= lvq p -> LRrun (cl XC p) gotoE M3 (flq p) (valq p)) ->
  (2 <= lvq p -> LRrun (cl XCA p) gotoE K3 (flq p) (valq p)) ->
  LRrun (cl XCO p) gotoE K2 (flq p) (valq p) -> LR_all p.
Proof.
  intros Hl H4 H3 HX H2 H1. repeat split; auto.
  - rewrite (jops_single p Hl). constructor; [split; auto|constructor].
  - exact (LRw _ _ _ _ _ _ _ (xcj_cl p) k1_k2 H1).
Qed.

Lemma lr_up3 p : 3 <= lvq p ->
  (lvq p = 4 -> LRrun (cl UC p) gotoU M3B (flq p) (valq p)) ->
  LRrun (cl UC p) gotoU M3 (flq p) (valq p) -> LR_all p.
Proof.
  intros Hl H4 H3.
  assert (HX : LRrun (cl XC p) gotoE M3 (flq p) (valq p)).
  { apply q_3X; [apply cl_s|]. exact (LRw _ _ _ _ _ _ _ (cl_incl _ _ p incl_XC_UC) (fun r H => H) H3). }
  assert (H2 : LRrun (cl XCA p) gotoE K3 (flq p) (valq p))
    by exact (LRw _ _ _ _ _ _ _ (cl_incl _ _ p incl_XCA_XC) k3_m3 HX).
  assert (H1 : LRrun (cl XCO p) gotoE K2 (flq p) (valq p))
    by exact (LRw _ _ _ _ _ _ _ (cl_incl _ _ p incl_XCO_XCA) k2_k3 H2).
  apply lr_up1; auto. lia.
Qed.

Lemma lr_up4 p : lvq p = 4 -> LRrun (cl UC p) gotoU M3B (flq p) (valq p) -> LR_all p.
Proof.
  intros Hl H4. apply lr_up3; [lia|auto|]. exact (LRw _ _ _ _ _ _ _ (incl_refl _) m3_m3b H4).
Qed.

Lemma lr_up2 p : lvq p = 2 -> LRrun (cl XCA p) gotoE K3 (flq p) (valq p) -> LR_all p.
Proof.
  intros Hl H2.
  assert (H1 : LRrun (cl XCO p) gotoE K2 (flq p) (valq p))
    by exact (LRw _ _ _ _ _ _ _ (cl_incl _ _ p incl_XCO_XCA) k2_k3 H2).
  apply lr_up1; auto; intros; lia.
Qed.

Lemma lr_up1' p : lvq p = 1 -> LRrun (cl XCO p) gotoE K2 (flq p) (valq p) -> LR_all p.
Proof. intros Hl H1. apply lr_up1; auto; intros; lia. Qed.

Theorem lrq_sound p : wfs p = true -> f4free p = true -> LR_all p.
Proof.
  induction p; intros W F; pose proof W as Wq; pose proof F as Fq; wq_split W;
    unfold f4free in F; fold f4free in F;
    repeat match type of F with (_ && _)%bool = true => let F' := fresh "F" in apply andb_prop in F; destruct F as [F F'] end.
  - apply lr_up4; [reflexivity|]. apply q_atom. exact W.
  - apply lr_up4; [reflexivity|]. simpl flq. change (valq (QApprox t a)) with (approx_item t a).
    destruct (tk_type t) eqn:Et; try discriminate; [apply q_fuzzy|apply q_prox]; assumption.
  - apply lr_up4; [reflexivity|]. destruct (IHp W2 F) as [H4 _].
    change (cl UC (QBoost p b)) with (cl UC p). apply q_boost; auto. apply cl_s.
  - apply lr_up3; [simpl; lia|intros; discriminate|]. destruct (IHp W0 F) as [_ [H3 _]].
    apply q_not; auto. exact (LRw _ _ _ _ _ _ _ (cl_base UC p) (fun r H => H) (H3 ltac:(assumption))).
  - apply lr_up3; [simpl; lia|intros; discriminate|]. destruct (IHp W0 F) as [_ [H3 _]].
    apply q_field; auto. exact (LRw _ _ _ _ _ _ _ (cl_base UC p) (fun r H => H) (H3 ltac:(assumption))).
  - apply lr_up4; [reflexivity|]. destruct (IHp W0 F) as [_ [_ [_ [_ [_ [_ H0]]]]]]. apply q_group; auto.
  - apply lr_up2; [reflexivity|]. destruct (IHp1 W1 F) as [_ [_ [_ [H2 _]]]]. destruct (IHp2 W0 F0) as [_ [_ [HX _]]].
    change (cl XCA (QAnd p1 o p2)) with (cl XCA p1).
    change (valq (QAnd p1 o p2)) with (nary KAnd (qops_and p1 ++ [valq p2])).
    apply q_and; auto; [apply cl_s|rewrite qval_and; auto|
                        exact (LRw _ _ _ _ _ _ _ (cl_base XC p2) (fun r H => H) (HX ltac:(assumption)))|
                        apply qops_and_ne|apply qops_and_ok; assumption|apply qval_notop; assumption].
  - apply lr_up1'; [reflexivity|]. destruct (IHp1 W1 F) as [_ [_ [_ [_ [H1 _]]]]].
    destruct (IHp2 W0 F0) as [_ [_ [_ [H2 _]]]].
    change (cl XCO (QOr p1 o p2)) with (cl XCO p1).
    change (valq (QOr p1 o p2)) with (nary KOr (qops_or p1 ++ [valq p2])).
    apply q_or; auto; [apply cl_s|rewrite qval_or; auto|
                       exact (LRw _ _ _ _ _ _ _ (cl_base XCA p2) (fun r H => H) (H2 ltac:(assumption)))|
                       apply qops_or_ne|apply qops_or_ok; assumption|apply qval_not_or; assumption].
  - destruct (IHp1 ltac:(assumption) ltac:(assumption)) as [_ [_ [_ [_ [_ [HA1 _]]]]]].
    destruct (IHp2 ltac:(assumption) ltac:(assumption)) as [_ [_ [_ [_ [_ [HA2 _]]]]]].
    rewrite (jops_single p2 W) in HA2.
    assert (HA : Forall OPA (jops (QJuxt p1 p2))) by (simpl jops; apply Forall_app; split; assumption).
    repeat split; try (simpl; intros; lia); [exact HA|].
    destruct (decompose (jops (QJuxt p1 p2)) (jops_ne _) (f4_chain _ Fq)) as [g [r [E [Hg Hr]]]].
    pose proof (jops_forall _ Wq) as HO. rewrite E in HA, HO.
    pose proof (LR0_list g r Hg Hr HA HO) as H0. rewrite <- E, jops_flat, jops_vals, qval_j in H0. exact H0.
  - apply lr_up3; [simpl; lia|intros; discriminate|]. destruct (IHp W0 F) as [_ [H3 _]].
    change (cl UC (QSign sg p)) with UCs. apply q_sign; auto.
    exact (LRw _ _ _ _ _ _ _ (cl_base UC p) (fun r H => H) (H3 ltac:(assumption))).
  - apply lr_up4; [reflexivity|]. change (cl UC (QTo t)) with UCs. apply q_to. exact W.
  - apply lr_up4; [reflexivity|]. apply q_open; assumption.
  - apply lr_up4; [reflexivity|]. apply q_range; assumption.
Qed.

(* the whole input: accepted, with the dictated tree up to layout *)
Theorem lrq_query p ev0 : wfs p = true -> f4free p = true ->
  exists n t evs, (forall fuel, run gen_tables None (S n + fuel) (init_config (flq p) ev0) = Done (Ok t) evs) /\
                  erase t = valq p.
Proof.
  intros W F. destruct (lrq_sound p W F) as [_ [_ [_ [_ [_ [_ H0]]]]]].
  destruct (H0 S0 [] [] [] ev0 in_S0_XCJ) as [t [d' [[n Hn] Ht]]]; [unfold la_in; simpl; tauto|].
  rewrite app_nil_r in Hn. change (mkCfg [S0] [] (flq p) ev0) with (init_config (flq p) ev0) in Hn.
  destruct (step_accept (gotoE S0) [S0] t [] d' T_accept) as [evs Hst].
  exists n, t, (d' ++ evs). split; [|exact Ht].
  intros fuel. replace (S n + fuel) with (n + S fuel) by lia. rewrite Hn. simpl. rewrite Hst. reflexivity.
Qed.


(* ================================================================ the reference parser, level by level
   (no guard here: Grammar.level reads signed operands in a juxtaposition like any other) *)
Definition QP4 (ts : list token) (v : item) : Prop :=
  forall f rest, la_in M3B rest -> 4 * length ts <= f ->
  exists g, f <= g + length ts /\
            level (S f) 3 (keys_of (ts ++ rest)) = boosts g v (keys_of rest).
Definition QP3 (ts : list token) (v : item) : Prop :=
  forall f rest, la_in M3 rest -> 4 * length ts <= f ->
  level (S f) 3 (keys_of (ts ++ rest)) = Some (v, keys_of rest).
Definition QP2 (ts : list token) (ops : list item) : Prop :=
  forall f rest, la_in M3 rest -> 4 * length ts <= f ->
  exists g, f <= g + length ts /\
            level (S (S f)) 2 (keys_of (ts ++ rest)) = more_and (level (S f)) g ops (keys_of rest).
Definition QP1 (ts : list token) (ops : list item) : Prop :=
  forall f rest, la_in M2 rest -> 4 * length ts <= f ->
  exists g, f <= g + length ts /\
            level (S (S (S f))) 1 (keys_of (ts ++ rest)) = more_or (level (S (S f))) g ops (keys_of rest).
Definition QP0 (ts : list token) (ops : list item) : Prop :=
  forall f rest, la_in M1 rest -> 4 * length ts <= f ->
  exists g, f <= g + length ts /\
            level (S (S (S (S f)))) 0 (keys_of (ts ++ rest)) =
            more_j (level (S (S (S f)))) g ops (keys_of rest).

Lemma not_in_m3 t : t = T_BOOST \/ t = T_APPROX \/ t = T_COLUMN -> ~ In t M3.
Proof. intros [->|[->| ->]] H; simpl in H; intuition discriminate. Qed.

(* ---- ends of chains *)
Lemma qp2_stop ts ops f rest : QP2 ts ops -> 1 <= length ts -> la_in M2 rest -> 4 * length ts <= f ->
  level (S (S f)) 2 (keys_of (ts ++ rest)) = Some (nary KAnd ops, keys_of rest).
Proof.
  intros H Hn Hla Hf. destruct (H f rest (m2_m3 _ Hla) Hf) as [g [Hg E]]. rewrite E.
  destruct g as [|g]; [lia|]. apply more_and_stop. apply (next_is_la _ _ _ Hla). simpl. intuition discriminate.
Qed.
Lemma qp1_stop ts ops f rest : QP1 ts ops -> 1 <= length ts -> la_in M1 rest -> 4 * length ts <= f ->
  level (S (S (S f))) 1 (keys_of (ts ++ rest)) = Some (nary KOr ops, keys_of rest).
Proof.
  intros H Hn Hla Hf. destruct (H f rest (m1_m2 _ Hla) Hf) as [g [Hg E]]. rewrite E.
  destruct g as [|g]; [lia|]. apply more_or_stop. apply (next_is_la _ _ _ Hla). simpl. intuition discriminate.
Qed.
Lemma qp0_stop ts ops f rest : QP0 ts ops -> 1 <= length ts -> la_in [T_EOF; T_RPAREN] rest ->
  4 * length ts <= f ->
  level (S (S (S (S f)))) 0 (keys_of (ts ++ rest)) = Some (nary KUnknown ops, keys_of rest).
Proof.
  intros H Hn Hla Hf.
  destruct (H f rest) as [g [Hg E]]; [unfold la_in in *; simpl in *; tauto|exact Hf|]. rewrite E.
  destruct g as [|g]; [lia|]. apply more_j_stop'. apply starts_unary_end. exact Hla.
Qed.

(* ---- lifting *)
Lemma qp4_3 ts v : QP4 ts v -> 1 <= length ts -> QP3 ts v.
Proof.
  intros H Hn f rest Hla Hf. destruct (H f rest (m3_m3b _ Hla) Hf) as [g [Hg E]]. rewrite E.
  destruct g as [|g]; [lia|]. apply boosts_stop. apply (next_is_la _ _ _ Hla). apply not_in_m3. auto.
Qed.
Lemma qp3_2 ts v : QP3 ts v -> QP2 ts [v].
Proof.
  intros H f rest Hla Hf. exists (S f). split; [lia|]. rewrite level_2, (H f rest Hla Hf). reflexivity.
Qed.
Lemma qp2_1 ts ops : QP2 ts ops -> 1 <= length ts -> QP1 ts [nary KAnd ops].
Proof.
  intros H Hn f rest Hla Hf. exists (S (S f)). split; [lia|].
  rewrite level_1, (qp2_stop _ _ _ _ H Hn Hla Hf). reflexivity.
Qed.
Lemma qp1_0 ts ops : QP1 ts ops -> 1 <= length ts -> QP0 ts [nary KOr ops].
Proof.
  intros H Hn f rest Hla Hf. exists (S (S (S f))). split; [lia|].
  rewrite level_0, (qp1_stop _ _ _ _ H Hn Hla Hf). reflexivity.
Qed.

(* ---- postfix level *)
Lemma qp_atom t : is_atom t -> QP4 [t] (atom_item t).
Proof.
  unfold is_atom, atom_item. intros Ht f rest Hla Hf. exists f. split; [lia|].
  destruct t as [ty lx po hd tl]. simpl in *.
  destruct rest as [|[ty2 lx2 po2 hd2 tl2] r].
  - destruct ty; try discriminate; reflexivity.
  - la_cases Hla; simpl in Hla; subst ty2; destruct ty; try discriminate; reflexivity.
Qed.

Lemma qp_fuzzy t a : tk_type t = T_TERM -> tk_type a = T_APPROX -> dec_ok a = true ->
  QP4 [t; a] (approx_item t a).
Proof.
  intros Ht Ha Hok f rest Hla Hf. exists f. split; [lia|].
  unfold approx_item, dec_ok in *. simpl app. unfold keys_of. simpl map. unfold tok_key at 1 2.
  rewrite Ht, Ha. simpl.
  destruct (degree_of (tk_lexeme a)) as [ds|]; [|reflexivity].
  destruct (dec_of_lexeme ds); [reflexivity|discriminate].
Qed.
Lemma qp_prox t a : tk_type t = T_PHRASE -> tk_type a = T_APPROX -> int_ok a = true ->
  QP4 [t; a] (approx_item t a).
Proof.
  intros Ht Ha Hok f rest Hla Hf. exists f. split; [lia|].
  unfold approx_item, int_ok in *. simpl app. unfold keys_of. simpl map. unfold tok_key at 1 2.
  rewrite Ht, Ha. simpl.
  destruct (degree_of (tk_lexeme a)) as [ds|]; [|reflexivity].
  destruct (int_of_lexeme ds); [reflexivity|discriminate].
Qed.

Lemma qp_boost ts v b : QP4 ts v -> tk_type b = T_BOOST -> dec_ok b = true -> QP4 (ts ++ [b]) (boost_item v b).
Proof.
  intros H Hb Hok f rest Hla Hf. rewrite app_length in Hf. simpl in Hf.
  rewrite <- app_assoc. simpl app.
  destruct (H f (b :: rest)) as [g [Hg E]]; [apply la_tok; rewrite Hb; simpl; auto|lia|].
  destruct g as [|g]; [lia|]. exists g. split; [rewrite app_length; simpl; lia|].
  rewrite E. change (keys_of (b :: rest)) with (tok_key b :: keys_of rest). unfold tok_key at 1.
  rewrite Hb, boosts_go. unfold boost_item, dec_ok in *.
  destruct (degree_of (tk_lexeme b)) as [ds|]; [|reflexivity].
  destruct (dec_of_lexeme ds); [reflexivity|discriminate].
Qed.

Lemma qp_group l ts ops r : QP0 ts ops -> 1 <= length ts -> tk_type l = T_LPAREN -> tk_type r = T_RPAREN ->
  QP4 (l :: ts ++ [r]) (Grp KGroup meta0 (nary KUnknown ops)).
Proof.
  intros H Hn Hl Hr f rest Hla Hf. simpl length in Hf. rewrite app_length in Hf. simpl in Hf.
  exists f. split; [lia|].
  simpl app. rewrite <- app_assoc. simpl app.
  change (keys_of (l :: ts ++ r :: rest)) with (tok_key l :: keys_of (ts ++ r :: rest)).
  unfold tok_key at 1. rewrite Hl.
  do 4 (destruct f as [|f]; [lia|]).
  assert (E : level (S (S (S (S f)))) 0 (keys_of (ts ++ r :: rest)) =
              Some (nary KUnknown ops, keys_of (r :: rest))).
  { apply qp0_stop; auto; [apply la_tok; rewrite Hr; simpl; auto|lia]. }
  change (level (S (S (S (S (S f))))) 3 ((T_LPAREN, tk_lexeme l) :: keys_of (ts ++ r :: rest)))
    with (match level (S (S (S (S f)))) 0 (keys_of (ts ++ r :: rest)) with
          | Some (e, (T_RPAREN, _) :: r0) => boosts (S (S (S (S f)))) (Grp KGroup meta0 e) r0
          | _ => None
          end).
  rewrite E. change (keys_of (r :: rest)) with (tok_key r :: keys_of rest). unfold tok_key at 1. rewrite Hr.
  reflexivity.
Qed.

(* ---- ranges *)
Lemma bound_spec bd rest : wfbnd bd = true -> bound (keys_of (flb bd ++ rest)) = Some (bval bd, keys_of rest).
Proof.
  destruct bd as [v|m v]; simpl; intros W.
  - destruct v as [ty lx po hd tl]. unfold atom_item, tok_key. simpl in *.
    destruct ty; try discriminate; reflexivity.
  - apply andb_prop in W. destruct W as [Wm Wv]. apply tok_eqb_eq in Wm.
    destruct v as [ty lx po hd tl]. destruct m as [tym lxm pom hdm tlm]. unfold atom_item, tok_key. simpl in *.
    subst tym. destruct ty; try discriminate; reflexivity.
Qed.

Lemma flb_len b : length (flb b) <= 2.
Proof. destruct b; simpl; lia. Qed.

Lemma qp_range l lo t hi r :
  tk_type l = T_LBRACKET -> wfbnd lo = true -> tk_type t = T_TO -> wfbnd hi = true -> tk_type r = T_RBRACKET ->
  QP4 (l :: flb lo ++ t :: flb hi ++ [r]) (range_item l lo hi r).
Proof.
  intros Hl Wlo Ht Whi Hr f rest Hla Hf. exists f. split; [lia|].
  simpl app. rewrite <- app_assoc. simpl app. rewrite <- app_assoc. simpl app.
  change (keys_of (l :: flb lo ++ t :: flb hi ++ r :: rest))
    with (tok_key l :: keys_of (flb lo ++ t :: flb hi ++ r :: rest)).
  unfold tok_key at 1. rewrite Hl.
  change (level (S f) 3 ((T_LBRACKET, tk_lexeme l) :: keys_of (flb lo ++ t :: flb hi ++ r :: rest)))
    with (match bound (keys_of (flb lo ++ t :: flb hi ++ r :: rest)) with
          | Some (lo0, (T_TO, _) :: ks2) =>
              match bound ks2 with
              | Some (hi0, (T_RBRACKET, rb) :: r0) =>
                  boosts f (Range meta0 lo0 hi0 (str_eqb (tk_lexeme l) [c_lbrack]) (str_eqb rb [c_rbrack])) r0
              | _ => None
              end
          | _ => None
          end).
  rewrite (bound_spec lo _ Wlo).
  change (keys_of (t :: flb hi ++ r :: rest)) with (tok_key t :: keys_of (flb hi ++ r :: rest)).
  unfold tok_key at 1. rewrite Ht. cbv iota beta.
  rewrite (bound_spec hi _ Whi).
  change (keys_of (r :: rest)) with (tok_key r :: keys_of rest). unfold tok_key at 1. rewrite Hr.
  reflexivity.
Qed.

(* ---- operand level *)
Lemma qp_not n ts v : QP3 ts v -> tk_type n = T_NOT -> QP3 (n :: ts) (Unary KNot meta0 v).
Proof.
  intros H Hn f rest Hla Hf. simpl length in Hf. destruct f as [|f]; [lia|].
  simpl app. change (keys_of (n :: ts ++ rest)) with (tok_key n :: keys_of (ts ++ rest)).
  unfold tok_key at 1. rewrite Hn.
  change (level (S (S f)) 3 ((T_NOT, tk_lexeme n) :: keys_of (ts ++ rest)))
    with (match level (S f) 3 (keys_of (ts ++ rest)) with
          | Some (x, r) => Some (Unary KNot meta0 x, r) | None => None end).
  rewrite (H f rest Hla) by lia. reflexivity.
Qed.

Lemma qp_field name col ts v : QP3 ts v -> tk_type name = T_TERM -> tk_type col = T_COLUMN ->
  QP3 (name :: col :: ts) (SearchField meta0 (tk_lexeme name) (fieldgroup v)).
Proof.
  intros H Hn Hc f rest Hla Hf. simpl length in Hf. destruct f as [|f]; [lia|].
  simpl app. change (keys_of (name :: col :: ts ++ rest))
    with (tok_key name :: tok_key col :: keys_of (ts ++ rest)).
  unfold tok_key at 1 2. rewrite Hn, Hc.
  change (level (S (S f)) 3 ((T_TERM, tk_lexeme name) :: (T_COLUMN, tk_lexeme col) :: keys_of (ts ++ rest)))
    with (match level (S f) 3 (keys_of (ts ++ rest)) with
          | Some (x, r) => Some (SearchField meta0 (tk_lexeme name) (fieldgroup x), r) | None => None end).
  rewrite (H f rest Hla) by lia. reflexivity.
Qed.

Lemma qp_sign sg ts v : QP3 ts v -> is_sign_tok (tk_type sg) = true ->
  QP3 (sg :: ts) (Unary (sign_kind sg) meta0 v).
Proof.
  intros H Hsg f rest Hla Hf. simpl length in Hf. destruct f as [|f]; [lia|].
  simpl app. change (keys_of (sg :: ts ++ rest)) with (tok_key sg :: keys_of (ts ++ rest)).
  unfold tok_key at 1. unfold sign_kind. destruct (tk_type sg) eqn:Et; try discriminate.
  - change (level (S (S f)) 3 ((T_MINUS, tk_lexeme sg) :: keys_of (ts ++ rest)))
      with (match level (S f) 3 (keys_of (ts ++ rest)) with
            | Some (x, r) => Some (Unary KProhibit meta0 x, r) | None => None end).
    rewrite (H f rest Hla) by lia. reflexivity.
  - change (level (S (S f)) 3 ((T_PLUS, tk_lexeme sg) :: keys_of (ts ++ rest)))
      with (match level (S f) 3 (keys_of (ts ++ rest)) with
            | Some (x, r) => Some (Unary KPlus meta0 x, r) | None => None end).
    rewrite (H f rest Hla) by lia. reflexivity.
Qed.

Lemma qp_to t : tk_type t = T_TO -> QP4 [t] (word (tk_lexeme t)).
Proof.
  intros Ht f rest Hla Hf. exists f. split; [lia|].
  simpl app. change (keys_of (t :: rest)) with (tok_key t :: keys_of rest). unfold tok_key at 1. rewrite Ht.
  reflexivity.
Qed.

Lemma qp_open o v : is_open_tok (tk_type o) = true -> is_value_tok (tk_type v) = true ->
  QP4 [o; v] (ORange (open_kind o) meta0 (atom_item v) (mem_N c_eq (tk_lexeme o))).
Proof.
  intros Ho Hv f rest Hla Hf. exists f. split; [lia|].
  simpl app. change (keys_of (o :: v :: rest)) with (tok_key o :: tok_key v :: keys_of rest).
  unfold tok_key at 1 2. unfold open_kind, atom_item.
  destruct (tk_type o); try discriminate; destruct (tk_type v); try discriminate; reflexivity.
Qed.

(* ---- the three chains *)
Lemma qp_and ta tb o acc vb : QP2 ta acc -> QP3 tb vb -> tk_type o = T_AND_OP -> QP2 (ta ++ o :: tb) (acc ++ [vb]).
Proof.
  intros Ha Hb Ho f rest Hla Hf. rewrite app_length in Hf. simpl length in Hf.
  rewrite <- app_assoc. simpl app.
  destruct (Ha f (o :: tb ++ rest)) as [g [Hg E]]; [apply la_tok; rewrite Ho; simpl; auto|lia|].
  destruct g as [|g]; [lia|]. exists g. split; [rewrite app_length; simpl; lia|].
  rewrite E. change (keys_of (o :: tb ++ rest)) with (tok_key o :: keys_of (tb ++ rest)).
  unfold tok_key at 1. rewrite Ho, more_and_go, (Hb f rest Hla) by lia. reflexivity.
Qed.

Lemma qp_or ta tb o acc opsb : QP1 ta acc -> QP2 tb opsb -> 1 <= length tb -> tk_type o = T_OR_OP ->
  QP1 (ta ++ o :: tb) (acc ++ [nary KAnd opsb]).
Proof.
  intros Ha Hb Hnb Ho f rest Hla Hf. rewrite app_length in Hf. simpl length in Hf.
  rewrite <- app_assoc. simpl app.
  destruct (Ha f (o :: tb ++ rest)) as [g [Hg E]]; [apply la_tok; rewrite Ho; simpl; auto|lia|].
  destruct g as [|g]; [lia|]. exists g. split; [rewrite app_length; simpl; lia|].
  rewrite E. change (keys_of (o :: tb ++ rest)) with (tok_key o :: keys_of (tb ++ rest)).
  unfold tok_key at 1. rewrite Ho, more_or_go, (qp2_stop _ _ _ _ Hb Hnb Hla) by lia. reflexivity.
Qed.

Definition ANYSTART : list tok := OPS ++ SG.
Lemma starts_unary_hd ts rest : hd_in ANYSTART ts -> starts_unary (keys_of (ts ++ rest)) = true.
Proof.
  intros [t [r [-> H]]]. simpl. simpl in H. decompose [or] H; try contradiction;
    match goal with E : _ = tk_type t |- _ => rewrite <- E end; reflexivity.
Qed.
Lemma anystart_m1 : incl ANYSTART M1.
Proof. intros x H. simpl in *. tauto. Qed.
Lemma flq_hd_any p : wfs p = true -> hd_in ANYSTART (flq p).
Proof.
  intros W. pose proof (flq_hd p W) as H. destruct (sgq p);
    (eapply hd_in_incl; [|exact H]); intros x Hx; unfold ANYSTART; apply in_or_app; auto.
Qed.

Lemma qp_j ta tb acc opsb : QP0 ta acc -> QP1 tb opsb -> hd_in ANYSTART tb ->
  QP0 (ta ++ tb) (acc ++ [nary KOr opsb]).
Proof.
  intros Ha Hb Hst f rest Hla Hf. rewrite app_length in Hf.
  assert (Hnb : 1 <= length tb) by (destruct Hst as [t [r [-> _]]]; simpl; lia).
  rewrite <- app_assoc.
  destruct (Ha f (tb ++ rest)) as [g [Hg E]]; [apply (la_hd ANYSTART M1); [exact Hst|exact anystart_m1]|lia|].
  destruct g as [|g]; [lia|]. exists g. split; [rewrite app_length; lia|].
  rewrite E, more_j_go by (apply starts_unary_hd; exact Hst).
  rewrite (qp1_stop _ _ _ _ Hb Hnb Hla) by lia. reflexivity.
Qed.

(* ---- the induction *)
Definition QP_all (p : qtree) : Prop :=
  (lvq p = 4 -> QP4 (flq p) (valq p)) /\ (3 <= lvq p -> QP3 (flq p) (valq p)) /\
  (2 <= lvq p -> QP2 (flq p) (qops_and p)) /\ (1 <= lvq p -> QP1 (flq p) (qops_or p)) /\ QP0 (flq p) (qops_j p).

Lemma qp_from3 p : 3 <= lvq p -> QP3 (flq p) (valq p) ->
  QP2 (flq p) (qops_and p) /\ QP1 (flq p) (qops_or p) /\ QP0 (flq p) (qops_j p).
Proof.
  intros Hl H3. pose proof (flq_len p) as Hn.
  assert (Ea : qops_and p = [valq p]) by (destruct p; simpl in Hl; try lia; reflexivity).
  assert (Eo : qops_or p = [valq p]) by (destruct p; simpl in Hl; try lia; reflexivity).
  assert (Ej : qops_j p = [valq p]) by (destruct p; simpl in Hl; try lia; reflexivity).
  pose proof (qp3_2 _ _ H3) as H2. pose proof (qp2_1 _ _ H2 Hn) as H1. pose proof (qp1_0 _ _ H1 Hn) as H0.
  rewrite Ea, Eo, Ej. simpl nary in *. auto.
Qed.

Lemma qp_from4 p : lvq p = 4 -> QP4 (flq p) (valq p) -> QP_all p.
Proof.
  intros Hl H4. pose proof (qp4_3 _ _ H4 (flq_len p)) as H3.
  destruct (qp_from3 p ltac:(lia) H3) as [H2 [H1 H0]]. repeat split; auto.
Qed.
Lemma qp_from3' p : lvq p = 3 -> QP3 (flq p) (valq p) -> QP_all p.
Proof.
  intros Hl H3. destruct (qp_from3 p ltac:(lia) H3) as [H2 [H1 H0]]. repeat split; auto. intros; lia.
Qed.

Theorem qp_sound p : wfs p = true -> QP_all p.
Proof.
  induction p; intros W; pose proof W as W'; wq_split W.
  - apply qp_from4; auto. apply qp_atom. exact W.
  - apply qp_from4; auto. simpl flq. change (valq (QApprox t a)) with (approx_item t a).
    destruct (tk_type t) eqn:Et; try discriminate; [apply qp_fuzzy|apply qp_prox]; assumption.
  - apply qp_from4; auto. destruct (IHp ltac:(assumption)) as [H4 _]. apply qp_boost; auto.
  - apply qp_from3'; auto. destruct (IHp ltac:(assumption)) as [_ [H3 _]]. apply qp_not; auto.
  - apply qp_from3'; auto. destruct (IHp ltac:(assumption)) as [_ [H3 _]]. apply qp_field; auto.
  - apply qp_from4; auto. destruct (IHp ltac:(assumption)) as [_ [_ [_ [_ H0]]]].
    change (valq (QGroup l p r)) with (Grp KGroup meta0 (valq p)). rewrite <- qval_j.
    apply qp_group; auto. apply flq_len.
  - destruct (IHp1 ltac:(assumption)) as [_ [_ [H2a _]]]. destruct (IHp2 ltac:(assumption)) as [_ [H3b _]].
    assert (H2 : QP2 (flq (QAnd p1 o p2)) (qops_and (QAnd p1 o p2))) by (apply qp_and; auto).
    pose proof (flq_len (QAnd p1 o p2)) as Hn.
    pose proof (qp2_1 _ _ H2 Hn) as H1. pose proof (qp1_0 _ _ H1 Hn) as H0.
    repeat split; auto; simpl; intros; lia.
  - destruct (IHp1 ltac:(assumption)) as [_ [_ [_ [H1a _]]]]. destruct (IHp2 ltac:(assumption)) as [_ [_ [H2b _]]].
    assert (H1 : QP1 (flq (QOr p1 o p2)) (qops_or (QOr p1 o p2))).
    { change (qops_or (QOr p1 o p2)) with (qops_or p1 ++ [valq p2]). rewrite <- qval_and.
      apply qp_or; auto. apply flq_len. }
    pose proof (flq_len (QOr p1 o p2)) as Hn. pose proof (qp1_0 _ _ H1 Hn) as H0.
    repeat split; auto; simpl; intros; lia.
  - destruct (IHp1 ltac:(assumption)) as [_ [_ [_ [_ H0a]]]]. destruct (IHp2 ltac:(assumption)) as [_ [_ [_ [H1b _]]]].
    assert (H0 : QP0 (flq (QJuxt p1 p2)) (qops_j (QJuxt p1 p2))).
    { change (qops_j (QJuxt p1 p2)) with (qops_j p1 ++ [valq p2]). rewrite <- qval_or.
      apply qp_j; auto. apply flq_hd_any; assumption. }
    repeat split; auto; simpl; intros; lia.
  - apply qp_from3'; auto. destruct (IHp ltac:(assumption)) as [_ [H3 _]]. apply qp_sign; auto.
  - apply qp_from4; auto. apply qp_to. exact W.
  - apply qp_from4; auto. apply qp_open; assumption.
  - apply qp_from4; auto. apply qp_range; assumption.
Qed.

Theorem qp_query p : wfs p = true -> spec_parse (keys_of (flq p)) = Some (valq p).
Proof.
  intros W. destruct (qp_sound p W) as [_ [_ [_ [_ H0]]]]. pose proof (flq_len p) as Hn.
  assert (El : length (keys_of (flq p)) = length (flq p)) by apply map_length.
  unfold spec_parse. rewrite El.
  replace (4 * length (flq p) + 8) with (S (S (S (S (4 * length (flq p) + 4))))) by lia.
  pose proof (qp0_stop _ _ (4 * length (flq p) + 4) [] H0 Hn) as E. rewrite app_nil_r in E.
  rewrite E; [rewrite qval_j; reflexivity|unfold la_in; simpl; auto|lia].
Qed.

(* ================================================================ the theorems on token lists *)
Theorem more_core p ev0 : wfs p = true -> f4free p = true ->
  exists t evs, run gen_tables None (parse_fuel (flq p)) (init_config (flq p) ev0) = Done (Ok t) evs /\
                spec_parse (map tok_key (flq p)) = Some (erase t) /\ erase t = valq p.
Proof.
  intros W F. destruct (lrq_query p ev0 W F) as [n [t [evs [Hrun Ht]]]].
  exists t, evs. split; [|split; [rewrite Ht; apply qp_query; exact W|exact Ht]].
  pose proof (run_terminates None (parse_fuel (flq p)) (init_config (flq p) ev0)) as Hterm.
  destruct (run gen_tables None (parse_fuel (flq p)) (init_config (flq p) ev0)) as [r e|] eqn:Hr.
  - pose proof (run_mono _ _ _ _ _ _ Hr (S n + parse_fuel (flq p)) ltac:(lia)) as H1.
    rewrite Hrun in H1. symmetry. exact H1.
  - exfalso. apply Hterm; [reflexivity| |reflexivity].
    unfold phi, parse_fuel, init_config, rank_of, K. simpl. lia.
Qed.

(* any token list with the same (type, lexeme) sequence as the yield of a tree, whatever its layout *)
Theorem more_core_keys toks ev0 p : wfs p = true -> f4free p = true -> map tok_key toks = map tok_key (flq p) ->
  exists t evs, run gen_tables None (parse_fuel toks) (init_config toks ev0) = Done (Ok t) evs /\
                spec_parse (map tok_key toks) = Some (erase t) /\ erase t = valq p.
Proof.
  intros W F Hk. destruct (more_core p ev0 W F) as [t0 [evs0 [Hr0 [Hs0 Hv0]]]].
  assert (Hf : parse_fuel toks = parse_fuel (flq p)).
  { unfold parse_fuel. rewrite <- (map_length tok_key toks), Hk, map_length. reflexivity. }
  assert (Hsim : outcome_sim (run gen_tables None (parse_fuel toks) (init_config toks ev0))
                             (run gen_tables None (parse_fuel toks) (init_config (flq p) ev0))).
  { apply run_simulation; [tauto|]. unfold cfg_sim, init_config. simpl.
    split; [reflexivity|]. split; [constructor|exact Hk]. }
  rewrite Hf in Hsim at 2. rewrite Hr0 in Hsim.
  destruct (run gen_tables None (parse_fuel toks) (init_config toks ev0)) as [r e|]; [|contradiction].
  simpl in Hsim. destruct r as [t|[m|m|k]]; simpl in Hsim; try discriminate.
  exists t, e. split; [reflexivity|]. inversion Hsim as [E]. rewrite Hk, Hs0, E. split; [reflexivity|exact Hv0].
Qed.


(* ================================================================ the guard is the complement of F4's predicate
   `Grammar.has_f4` looks at the dictated TREE (an Unknown operation with an AND/OR operand followed by
   one that starts with Plus / Prohibit / the word TO); `f4free` looks at the SYNTAX tree.  They agree
   as soon as the tokens are what the lexer makes them: the word TO is a T_TO token, never a T_TERM. *)
Fixpoint lexok (p : qtree) : bool :=
  match p with
  | QAtom t => negb (tok_eqb (tk_type t) T_TERM && str_eqb (tk_lexeme t) s_TO)
  | QTo t => str_eqb (tk_lexeme t) s_TO
  | QApprox _ _ | QOpen _ _ | QRange _ _ _ _ _ => true
  | QBoost p _ | QNot _ p | QField _ _ p | QGroup _ p _ | QSign _ p => lexok p
  | QAnd a _ b | QOr a _ b | QJuxt a b => lexok a && lexok b
  end.

Definition hdv (l : list item) : bool := match l with x :: _ => starts_signed x | [] => false end.
Lemma hdv_app l x : l <> [] -> hdv (l ++ x) = hdv l.
Proof. destruct l; [congruence|reflexivity]. Qed.
Lemma ss_nary k l : l <> [] -> starts_signed (nary k l) = hdv l.
Proof. destruct l as [|x [|y r]]; [congruence|reflexivity|reflexivity]. Qed.

Lemma starts_ok p : wfs p = true -> lexok p = true ->
  starts_signed (valq p) = sgq p /\ hdv (qops_and p) = sgq p /\ hdv (qops_or p) = sgq p /\ hdv (qops_j p) = sgq p.
Proof.
  induction p; intros W L; wq_split W; simpl in L;
    repeat match type of L with (_ && _)%bool = true => let L' := fresh "L" in apply andb_prop in L; destruct L as [L L'] end.
  - assert (E : starts_signed (valq (QAtom t)) = false).
    { unfold valq. simpl. unfold atom_item. destruct (tk_type t); try discriminate; try reflexivity.
      simpl in L. simpl. destruct (str_eqb (tk_lexeme t) s_TO); [discriminate|reflexivity]. }
    repeat split; exact E.
  - assert (E : starts_signed (valq (QApprox t a)) = false).
    { unfold valq. simpl. unfold approx_item.
      repeat match goal with |- context [match ?x with _ => _ end] => destruct x end; reflexivity. }
    repeat split; exact E.
  - destruct (IHp ltac:(assumption) L) as [E _].
    assert (E' : starts_signed (valq (QBoost p b)) = sgq p).
    { unfold valq. simpl. unfold boost_item. unfold dec_ok in *. fold (valq p).
      destruct (degree_of (tk_lexeme b)); [destruct (dec_of_lexeme s); [|discriminate]|]; exact E. }
    repeat split; exact E'.
  - repeat split; reflexivity.
  - repeat split; reflexivity.
  - repeat split; reflexivity.
  - destruct (IHp1 ltac:(assumption) L) as [_ [E _]].
    assert (E' : hdv (qops_and (QAnd p1 o p2)) = sgq p1).
    { change (qops_and (QAnd p1 o p2)) with (qops_and p1 ++ [valq p2]). rewrite hdv_app by apply qops_and_ne. exact E. }
    assert (E'' : starts_signed (valq (QAnd p1 o p2)) = sgq p1).
    { rewrite <- qval_and, ss_nary by apply qops_and_ne. exact E'. }
    repeat split; assumption.
  - destruct (IHp1 ltac:(assumption) L) as [_ [_ [E _]]].
    assert (E' : hdv (qops_or (QOr p1 o p2)) = sgq p1).
    { change (qops_or (QOr p1 o p2)) with (qops_or p1 ++ [valq p2]). rewrite hdv_app by apply qops_or_ne. exact E. }
    assert (E'' : starts_signed (valq (QOr p1 o p2)) = sgq p1).
    { rewrite <- qval_or, ss_nary by apply qops_or_ne. exact E'. }
    repeat split; assumption.
  - destruct (IHp1 ltac:(assumption) L) as [_ [_ [_ E]]].
    assert (E' : hdv (qops_j (QJuxt p1 p2)) = sgq p1).
    { change (qops_j (QJuxt p1 p2)) with (qops_j p1 ++ [valq p2]). rewrite hdv_app by apply qops_j_ne. exact E. }
    assert (E'' : starts_signed (valq (QJuxt p1 p2)) = sgq p1).
    { rewrite <- qval_j, ss_nary by apply qops_j_ne. exact E'. }
    repeat split; assumption.
  - assert (E : starts_signed (valq (QSign sg p)) = true).
    { unfold valq. simpl. unfold sign_kind. destruct (tk_type sg); try discriminate; reflexivity. }
    repeat split; exact E.
  - assert (E : starts_signed (valq (QTo t)) = true) by (unfold valq; simpl; exact L).
    repeat split; exact E.
  - repeat split; reflexivity.
  - repeat split; reflexivity.
Qed.

Definition EF (l : list item) : bool := existsb has_f4 l.
Lemma has_f4_op k m ops :
  has_f4 (Op k m ops) = (match k with KUnknown => adjacent_f4 ops | _ => false end) || EF ops.
Proof.
  reflexivity.
Qed.
Lemma EF_snoc l x : EF (l ++ [x]) = EF l || has_f4 x.
Proof. unfold EF. rewrite existsb_app. simpl. rewrite Bool.orb_false_r. reflexivity. Qed.
Lemma adjacent_snoc l x d : l <> [] ->
  adjacent_f4 (l ++ [x]) = adjacent_f4 l || (is_andor (last l d) && starts_signed x).
Proof.
  induction l as [|a l IH]; [congruence|]. intros _. destruct l as [|b l'].
  - simpl. rewrite Bool.orb_false_r. reflexivity.
  - change ((a :: b :: l') ++ [x]) with (a :: (b :: l') ++ [x]).
    change (adjacent_f4 (a :: (b :: l') ++ [x]))
      with ((is_andor a && starts_signed b) || adjacent_f4 ((b :: l') ++ [x])).
    rewrite IH by discriminate.
    change (adjacent_f4 (a :: b :: l')) with ((is_andor a && starts_signed b) || adjacent_f4 (b :: l')).
    change (last (a :: b :: l') d) with (last (b :: l') d). rewrite Bool.orb_assoc. reflexivity.
Qed.

Lemma f4_nary_and l : l <> [] -> has_f4 (nary KAnd l) = EF l.
Proof.
  destruct l as [|x [|y r]]; [congruence| |]; intros _.
  - simpl. rewrite Bool.orb_false_r. reflexivity.
  - unfold nary. rewrite has_f4_op. reflexivity.
Qed.
Lemma f4_nary_or l : l <> [] -> has_f4 (nary KOr l) = EF l.
Proof.
  destruct l as [|x [|y r]]; [congruence| |]; intros _.
  - simpl. rewrite Bool.orb_false_r. reflexivity.
  - unfold nary. rewrite has_f4_op. reflexivity.
Qed.
Lemma f4_nary_j l : l <> [] -> has_f4 (nary KUnknown l) = adjacent_f4 l || EF l.
Proof.
  destruct l as [|x [|y r]]; [congruence| |]; intros _.
  - simpl. rewrite Bool.orb_false_r. reflexivity.
  - unfold nary. rewrite has_f4_op. reflexivity.
Qed.

Lemma is_andor_lvl x : 1 <= lvq x -> is_andor (valq x) = negb (Nat.leb 3 (lvq x)).
Proof.
  intros H. pose proof (qval_kind x) as K. destruct (lvq x) as [|[|[|n]]]; try lia.
  - destruct K as [l ->]. reflexivity.
  - destruct K as [l ->]. reflexivity.
  - simpl. pose proof (K KAnd) as K1. pose proof (K KOr) as K2.
    destruct (valq x); try reflexivity. destruct k; simpl in *; try reflexivity; discriminate.
Qed.

Lemma last_map {A B} (f : A -> B) l d : l <> [] -> last (map f l) (f d) = f (last l d).
Proof.
  induction l as [|a l IH]; [congruence|]. intros _. destruct l as [|b l']; [reflexivity|].
  change (last (map f (a :: b :: l')) (f d)) with (last (map f (b :: l')) (f d)).
  change (last (a :: b :: l') d) with (last (b :: l') d). apply IH. discriminate.
Qed.

Lemma lastj_ok p : wfs p = true -> 1 <= lvq (lastj p).
Proof. destruct p; intros W; try (simpl; lia). wq_split W. exact W. Qed.

Lemma f4_ok p : wfs p = true -> lexok p = true ->
  has_f4 (valq p) = negb (f4free p) /\ EF (qops_and p) = negb (f4free p) /\ EF (qops_or p) = negb (f4free p) /\
  adjacent_f4 (qops_j p) || EF (qops_j p) = negb (f4free p).
Proof.
  assert (single : forall v b, has_f4 v = b ->
            has_f4 v = b /\ EF [v] = b /\ EF [v] = b /\ adjacent_f4 [v] || EF [v] = b).
  { intros v b E. unfold EF. simpl. rewrite Bool.orb_false_r. auto. }
  induction p; intros W L; pose proof W as Wq; pose proof L as Lq; wq_split W; simpl in L;
    repeat match type of L with (_ && _)%bool = true => let L' := fresh "L" in apply andb_prop in L; destruct L as [L L'] end.
  - apply single. unfold valq. simpl. unfold atom_item. destruct (tk_type t); reflexivity.
  - apply single. unfold valq. simpl. unfold approx_item.
    repeat match goal with |- context [match ?x with _ => _ end] => destruct x end; reflexivity.
  - destruct (IHp ltac:(assumption) L) as [E _]. apply single.
    unfold valq. simpl. unfold boost_item. unfold dec_ok in *. fold (valq p).
    destruct (degree_of (tk_lexeme b)); [destruct (dec_of_lexeme s); [|discriminate]|]; exact E.
  - destruct (IHp ltac:(assumption) L) as [E _]. apply single. exact E.
  - destruct (IHp ltac:(assumption) L) as [E _]. apply single.
    unfold valq. simpl. fold (valq p). rewrite <- E. unfold fieldgroup.
    destruct (valq p); try reflexivity. destruct k; reflexivity.
  - destruct (IHp ltac:(assumption) L) as [E _]. apply single. exact E.
  - destruct (IHp1 ltac:(assumption) L) as [_ [E1 _]]. destruct (IHp2 ltac:(assumption) L0) as [E2 _].
    assert (E : EF (qops_and (QAnd p1 o p2)) = negb (f4free (QAnd p1 o p2))).
    { change (qops_and (QAnd p1 o p2)) with (qops_and p1 ++ [valq p2]). rewrite EF_snoc, E1, E2.
      simpl. destruct (f4free p1), (f4free p2); reflexivity. }
    assert (E' : has_f4 (valq (QAnd p1 o p2)) = negb (f4free (QAnd p1 o p2))).
    { rewrite <- qval_and, f4_nary_and by apply qops_and_ne. exact E. }
    destruct (single _ _ E') as [_ [S1 [_ S2]]]. repeat split; assumption.
  - destruct (IHp1 ltac:(assumption) L) as [_ [_ [E1 _]]]. destruct (IHp2 ltac:(assumption) L0) as [E2 _].
    assert (E : EF (qops_or (QOr p1 o p2)) = negb (f4free (QOr p1 o p2))).
    { change (qops_or (QOr p1 o p2)) with (qops_or p1 ++ [valq p2]). rewrite EF_snoc, E1, E2.
      simpl. destruct (f4free p1), (f4free p2); reflexivity. }
    assert (E' : has_f4 (valq (QOr p1 o p2)) = negb (f4free (QOr p1 o p2))).
    { rewrite <- qval_or, f4_nary_or by apply qops_or_ne. exact E. }
    destruct (single _ _ E') as [_ [S1 [_ S2]]]. repeat split; assumption.
  - destruct (IHp1 ltac:(assumption) L) as [_ [_ [_ E1]]]. destruct (IHp2 ltac:(assumption) L0) as [E2 _].
    destruct (starts_ok p2 ltac:(assumption) L0) as [S2 _].
    assert (E : adjacent_f4 (qops_j (QJuxt p1 p2)) || EF (qops_j (QJuxt p1 p2)) = negb (f4free (QJuxt p1 p2))).
    { change (qops_j (QJuxt p1 p2)) with (qops_j p1 ++ [valq p2]).
      rewrite EF_snoc, (adjacent_snoc _ _ (valq p1)) by apply qops_j_ne.
      rewrite <- jops_vals, last_map by apply jops_ne. rewrite jops_last'.
      rewrite is_andor_lvl by (apply lastj_ok; assumption). rewrite S2, E2.
      rewrite <- jops_vals in E1.
      change (f4free (QJuxt p1 p2)) with (f4free p1 && f4free p2 && (negb (sgq p2) || Nat.leb 3 (lvq (lastj p1)))).
      destruct (adjacent_f4 (map valq (jops p1))), (EF (map valq (jops p1))), (f4free p1), (f4free p2), (sgq p2),
               (Nat.leb 3 (lvq (lastj p1))); simpl in *; try reflexivity; discriminate. }
    assert (E' : has_f4 (valq (QJuxt p1 p2)) = negb (f4free (QJuxt p1 p2))).
    { rewrite <- qval_j, f4_nary_j by apply qops_j_ne. exact E. }
    destruct (single _ _ E') as [_ [S1 _]]. repeat split; assumption.
  - destruct (IHp ltac:(assumption) L) as [E _]. apply single. exact E.
  - apply single. reflexivity.
  - apply single. unfold valq. simpl. unfold atom_item. destruct (tk_type v); reflexivity.
  - apply single. unfold valq. simpl. unfold range_item. simpl.
    destruct lo, hi; simpl; unfold atom_item;
      repeat match goal with |- context [match tk_type ?x with _ => _ end] => destruct (tk_type x) end; reflexivity.
Qed.

Theorem f4free_iff_no_f4 p : wfs p = true -> lexok p = true ->
  f4_input (keys_of (flq p)) = negb (f4free p).
Proof.
  intros W L. unfold f4_input. rewrite (qp_query p W). apply (f4_ok p W L).
Qed.


(* ================================================================ the converse, first half:
   ACCEPTED  =>  DERIVABLE in the PLY grammar, and the returned tree is the semantic value of that
   derivation.  An invariant over driver steps in the style of LRTyping.v (C04): every stack cell
   carries, besides its symbol, a derivation of a segment of the consumed input from that symbol
   whose semantic value is the value on the stack.  Only validated table facts are used
   (`cells_ok`, `incoming_0` of LRTyping.v and one more: Accept only in a state entered from state 0). *)
Inductive deriv : sym -> list token -> symval -> Prop :=
| d_tok t : deriv (ST (tk_type t)) [t] (token_value t)
| d_prod p lhs rhs a ts args v evs :
    nth_error gen_prods p = Some (lhs, rhs, a) ->
    derivs rhs ts args -> run_action a args = Ok (v, evs) -> deriv (SN lhs) ts v
with derivs : list sym -> list token -> list symval -> Prop :=
| ds_nil : derivs [] [] []
| ds_cons X Xs seg rest v vs :
    deriv X seg v -> derivs Xs rest vs -> derivs (X :: Xs) (seg ++ rest) (v :: vs).

Scheme deriv_ind2 := Minimality for deriv Sort Prop
  with derivs_ind2 := Minimality for derivs Sort Prop.
Combined Scheme deriv_mutind from deriv_ind2, derivs_ind2.

Lemma derivs_app A B s1 s2 a1 a2 : derivs A s1 a1 -> derivs B s2 a2 -> derivs (A ++ B) (s1 ++ s2) (a1 ++ a2).
Proof.
  induction 1 as [|X Xs seg rest v vs Hd Hds IH]; intros HB; [exact HB|].
  simpl. rewrite <- app_assoc. constructor; [exact Hd|apply IH; exact HB].
Qed.

Inductive stack_d : list nat -> list symval -> list token -> Prop :=
| sd_nil : stack_d [0] [] []
| sd_cons s t X v ss vs pre seg :
    stack_d (t :: ss) vs pre -> trans t X = Some s -> deriv X seg v ->
    stack_d (s :: t :: ss) (v :: vs) (pre ++ seg).

Local Opaque incoming.

Lemma path_sound_d lhs : forall rrhs s ss vs pre,
  stack_d (s :: ss) vs pre -> path_check lhs rrhs s = true ->
  length rrhs <= length vs /\
  exists pre' seg t ss' g,
    pre = pre' ++ seg /\ derivs (rev rrhs) seg (rev (firstn (length rrhs) vs)) /\
    skipn (length rrhs) (s :: ss) = t :: ss' /\
    stack_d (t :: ss') (skipn (length rrhs) vs) pre' /\ gen_goto t lhs = Some g.
Proof.
  induction rrhs as [|X rest IH]; intros s ss vs pre Hst Hpc.
  - simpl in *. split; [lia|].
    destruct (gen_goto s lhs) as [g|] eqn:Hg; [|discriminate].
    exists pre, [], s, ss, g. rewrite app_nil_r. repeat split; auto. constructor.
  - rewrite path_check_cons in Hpc. inversion Hst as [|s0 t X' v ss0 vs0 pre0 seg0 Hst' Htr Hd]; subst.
    + rewrite incoming_0 in Hpc. discriminate.
    + destruct (incoming s) as [|e inc] eqn:Hinc; [discriminate|]. rewrite <- Hinc in Hpc.
      rewrite forallb_forall in Hpc. specialize (Hpc _ (in_incoming _ _ _ Htr)). simpl in Hpc.
      apply andb_true_iff in Hpc. destruct Hpc as [Hx Hrest]. apply sym_eqb_eq in Hx. subst X'.
      destruct (IH _ _ _ _ Hst' Hrest) as [Hlen [pre' [seg' [t' [ss' [g [Hpre [Hds [Hsk [Hst'' Hg]]]]]]]]]].
      split; [simpl; lia|].
      exists pre', (seg' ++ seg0), t', ss', g. split; [rewrite Hpre, app_assoc; reflexivity|].
      split; [|simpl; auto].
      simpl. apply derivs_app; [exact Hds|].
      rewrite <- (app_nil_r seg0). constructor; [exact Hd|constructor].
Qed.

(* one more validated fact: an accepting state is entered from the initial state only *)
Definition accept_from_initial : bool :=
  forallb (fun s => forallb (fun la =>
    match gen_action s la with
    | Accept => forallb (fun e => Nat.eqb (fst e) 0) (incoming s)
    | _ => true
    end) all_toks) all_states.
Lemma accept_from_initial_ok : accept_from_initial = true.
Proof. vm_compute. reflexivity. Qed.

Lemma accept_pred s la t X : gen_action s la = Accept -> trans t X = Some s -> t = 0.
Proof.
  intros Ha Htr.
  destruct (le_lt_dec gen_nstates s) as [Hs|Hs]; [rewrite gen_action_oob in Ha by exact Hs; discriminate|].
  pose proof accept_from_initial_ok as F. unfold accept_from_initial in F.
  rewrite forallb_forall in F. specialize (F s (all_states_complete s Hs)).
  rewrite forallb_forall in F. specialize (F la (all_toks_complete la)). rewrite Ha in F.
  rewrite forallb_forall in F. specialize (F _ (in_incoming _ _ _ Htr)). simpl in F.
  apply Nat.eqb_eq in F. exact F.
Qed.

Lemma stack_d_bottom ss vs pre : stack_d (0 :: ss) vs pre -> ss = [] /\ vs = [] /\ pre = [].
Proof.
  intros H. inversion H as [|s t X v ss0 vs0 pre0 seg0 Hst Htr Hd]; subst; [auto|].
  pose proof (in_incoming _ _ _ Htr) as Hin. rewrite incoming_0 in Hin. destruct Hin.
Qed.

Definition inv (toks : list token) (c : config) : Prop :=
  exists pre, stack_d (c_states c) (c_vals c) pre /\ pre ++ c_toks c = toks.

Definition no_eof (toks : list token) : Prop := Forall (fun t => tk_type t <> T_EOF) toks.

Definition stepres_d (toks : list token) (r : stepres) : Prop :=
  match r with
  | Next c' => inv toks c'
  | Final (Ok i) _ => deriv (SN N_expression) toks (VItem i)
  | Final (Err _) _ => True
  end.

Lemma step_inv toks c : no_eof toks -> inv toks c -> stepres_d toks (step gen_tables None c).
Proof.
  intros Hne [pre [Hst Hpre]].
  assert (Htop : exists s ss, c_states c = s :: ss) by (inversion Hst; eauto).
  destruct Htop as [s [ss Hs]].
  rewrite step_eq. simpl tb_action. rewrite Hs. simpl hd.
  assert (Hmain : stepres_d toks
            match gen_action s (la_of (c_toks c)) with
            | Shift n => do_shift c n
            | Reduce p => do_reduce gen_tables c p
            | Accept => do_accept None c
            | ActErr => Final (Err (syntax_error (hd_error (c_toks c)))) []
            end).
  { destruct (gen_action s (la_of (c_toks c))) as [n|p| |] eqn:Ha; [| | |exact I].
    - (* shift *)
      unfold do_shift. destruct (c_toks c) as [|t rest] eqn:Htoks; [exact I|].
      simpl. exists (pre ++ [t]). simpl. split; [|rewrite <- app_assoc; exact Hpre].
      rewrite Hs in *. eapply sd_cons with (X := ST (tk_type t)); [exact Hst| |constructor].
      simpl. simpl in Ha. rewrite Ha. reflexivity.
    - (* reduce *)
      pose proof (cells_ok s (la_of (c_toks c))) as Hc. unfold cell_ok in Hc. rewrite Ha in Hc.
      destruct (prod_of p) as [[[lhs rhs] a]|] eqn:Hp; [|discriminate].
      rewrite Hs in Hst.
      destruct (path_sound_d lhs _ _ _ _ _ Hst Hc) as [Hlen [pre' [seg [t [ss' [g [Epre [Hds [Hsk [Hst' Hg]]]]]]]]]].
      rewrite rev_length in *. rewrite rev_involutive in Hds.
      unfold do_reduce. destruct p as [|p']; [discriminate|]. simpl pred. simpl tb_prods. simpl tb_goto.
      simpl in Hp. rewrite Hp. cbv zeta.
      assert (Hl : Nat.ltb (length (c_vals c)) (length rhs) = false) by (apply Nat.ltb_ge; exact Hlen).
      rewrite Hl.
      destruct (run_action a (rev (firstn (length rhs) (c_vals c)))) as [[v d]|e] eqn:Hact; [|exact I].
      rewrite Hs, Hsk. simpl hd. rewrite Hg. simpl.
      exists (pre' ++ seg). simpl. split; [|rewrite <- Epre; exact Hpre].
      eapply sd_cons with (X := SN lhs); [exact Hst'|exact Hg|].
      eapply d_prod; [exact Hp|exact Hds|exact Hact].
    - (* accept: on $end, in a state entered from state 0 by `expression` *)
      pose proof (accept_only_at_end _ _ Ha) as Hla.
      assert (Hnil : c_toks c = []).
      { destruct (c_toks c) as [|t rest] eqn:Htoks; [reflexivity|]. exfalso. simpl in Hla.
        rewrite <- Hpre in Hne. unfold no_eof in Hne. rewrite Forall_app in Hne. destruct Hne as [_ Hne].
        inversion Hne; subst. contradiction. }
      pose proof (cells_ok s (la_of (c_toks c))) as Hc. unfold cell_ok in Hc. rewrite Ha in Hc.
      apply andb_true_iff in Hc. destruct Hc as [_ Hc]. unfold accept_state_ok in Hc.
      rewrite Hs in Hst. inversion Hst as [|s0 t X v ss0 vs0 pre0 seg0 Hst' Htr Hd Es Ev Ep]; subst.
      + rewrite incoming_0 in Hc. discriminate.
      + destruct (incoming s) as [|e inc] eqn:Hinc; [discriminate|]. rewrite <- Hinc in Hc.
        rewrite forallb_forall in Hc. specialize (Hc _ (in_incoming _ _ _ Htr)). simpl in Hc.
        apply sym_eqb_eq in Hc. subst X.
        pose proof (accept_pred _ _ _ _ Ha Htr) as Et. subst t.
        destruct (stack_d_bottom _ _ _ Hst') as [-> [-> ->]].
        unfold do_accept. rewrite <- Ev. rewrite Hnil, app_nil_r in *. simpl in *.
        destruct v as [i|]; [exact Hd|exact I]. }
  destruct (c_toks c); exact Hmain.
Qed.

Lemma run_inv toks : no_eof toks -> forall fuel c, inv toks c ->
  match run gen_tables None fuel c with
  | Done (Ok i) _ => deriv (SN N_expression) toks (VItem i)
  | _ => True
  end.
Proof.
  intros Hne. induction fuel as [|f IH]; intros c Hi; simpl; [exact I|].
  pose proof (step_inv toks c Hne Hi) as Hs.
  destruct (step gen_tables None c) as [c'|r evs]; [apply IH; exact Hs|].
  destruct r; [exact Hs|exact I].
Qed.

(* ACCEPTED => DERIVABLE: if the driver returns a tree for a token list, the whole list is derivable
   from `expression` by the productions PLY generated, and the tree is the value the semantic
   actions compute along that derivation *)
Theorem accepted_derivable toks ev0 fuel t evs : no_eof toks ->
  run gen_tables None fuel (init_config toks ev0) = Done (Ok t) evs ->
  deriv (SN N_expression) toks (VItem t).
Proof.
  intros Hne Hr.
  pose proof (run_inv toks Hne fuel (init_config toks ev0)) as H.
  rewrite Hr in H. apply H. exists []. split; [constructor|reflexivity].
Qed.


(* ================================================================ the converse, second half:
   DERIVABLE in the PLY grammar  =>  a yield of the documented grammar.
   The PLY grammar is ambiguous (`E : E OR E | E AND E | E E | U`, `U : U BOOST | - U | ...`); its
   LANGUAGE is that of the stratified documented grammar: an expression is a sequence of operands
   joined by AND / OR / nothing (`SEQ`), an operand is the yield of a level-3 tree (`OPND`), a boost
   after an operand re-attaches to its last postfix (`pushb`), and every such sequence is the yield
   of a well-formed `qtree` (`ins_or`, `ins_and`: insertion on the right spine by precedence). *)
Definition OPND (ts : list token) : Prop := exists p, wfs p = true /\ 3 <= lvq p /\ flq p = ts.
Definition QRY (ts : list token) : Prop := exists p, wfs p = true /\ flq p = ts.

Inductive SEQ : list token -> Prop :=
| seq_one ts : OPND ts -> SEQ ts
| seq_and a o b : SEQ a -> tk_type o = T_AND_OP -> OPND b -> SEQ (a ++ o :: b)
| seq_or a o b : SEQ a -> tk_type o = T_OR_OP -> OPND b -> SEQ (a ++ o :: b)
| seq_j a b : SEQ a -> OPND b -> SEQ (a ++ b).

Lemma seq_app_j a b : SEQ a -> SEQ b -> SEQ (a ++ b).
Proof.
  intros Ha Hb. induction Hb as [b Hb|b1 o b2 Hb1 IH Ho Hb2|b1 o b2 Hb1 IH Ho Hb2|b1 b2 Hb1 IH Hb2].
  - apply seq_j; assumption.
  - rewrite app_assoc. apply seq_and; assumption.
  - rewrite app_assoc. apply seq_or; assumption.
  - rewrite app_assoc. apply seq_j; assumption.
Qed.
Lemma seq_app_and a o b : SEQ a -> tk_type o = T_AND_OP -> SEQ b -> SEQ (a ++ o :: b).
Proof.
  intros Ha Ho Hb. induction Hb as [b Hb|b1 o' b2 Hb1 IH Ho' Hb2|b1 o' b2 Hb1 IH Ho' Hb2|b1 b2 Hb1 IH Hb2].
  - apply seq_and; assumption.
  - change (a ++ o :: b1 ++ o' :: b2) with (a ++ (o :: b1) ++ o' :: b2). rewrite app_assoc. apply seq_and; assumption.
  - change (a ++ o :: b1 ++ o' :: b2) with (a ++ (o :: b1) ++ o' :: b2). rewrite app_assoc. apply seq_or; assumption.
  - change (a ++ o :: b1 ++ b2) with (a ++ (o :: b1) ++ b2). rewrite app_assoc. apply seq_j; assumption.
Qed.
Lemma seq_app_or a o b : SEQ a -> tk_type o = T_OR_OP -> SEQ b -> SEQ (a ++ o :: b).
Proof.
  intros Ha Ho Hb. induction Hb as [b Hb|b1 o' b2 Hb1 IH Ho' Hb2|b1 o' b2 Hb1 IH Ho' Hb2|b1 b2 Hb1 IH Hb2].
  - apply seq_or; assumption.
  - change (a ++ o :: b1 ++ o' :: b2) with (a ++ (o :: b1) ++ o' :: b2). rewrite app_assoc. apply seq_and; assumption.
  - change (a ++ o :: b1 ++ o' :: b2) with (a ++ (o :: b1) ++ o' :: b2). rewrite app_assoc. apply seq_or; assumption.
  - change (a ++ o :: b1 ++ b2) with (a ++ (o :: b1) ++ b2). rewrite app_assoc. apply seq_j; assumption.
Qed.

(* ---- a boost after an operand belongs to its last postfix *)
Fixpoint pushb (p : qtree) (b : token) : qtree :=
  match p with
  | QNot n q => QNot n (pushb q b)
  | QField n c q => QField n c (pushb q b)
  | QSign s q => QSign s (pushb q b)
  | _ => QBoost p b
  end.

Lemma wfs_and a b : a = true -> b = true -> (a && b)%bool = true.
Proof. intros -> ->. reflexivity. Qed.

Ltac wfs_leaf :=
  first [assumption
        | apply Nat.leb_le; simpl; lia
        | apply Nat.eqb_eq; simpl; lia
        | match goal with H : tk_type ?t = _ |- context [tk_type ?t] => rewrite H; first [reflexivity|assumption] end
        | reflexivity].
Ltac wfs_solve := unfold wfs; fold wfs; repeat (apply wfs_and); wfs_leaf.

Lemma boost_wf p b : wfs p = true -> lvq p = 4 -> tk_type b = T_BOOST -> dec_ok b = true -> wfs (QBoost p b) = true.
Proof. intros W L Hb Hd. unfold wfs; fold wfs. rewrite W, L, Hb, Hd. reflexivity. Qed.

Lemma pushb_ok b : tk_type b = T_BOOST -> dec_ok b = true -> forall p, wfs p = true -> 3 <= lvq p ->
  wfs (pushb p b) = true /\ lvq (pushb p b) = lvq p /\ flq (pushb p b) = flq p ++ [b].
Proof.
  intros Hb Hd. induction p; intros W Hl; pose proof W as Wq; wq_split W; simpl in Hl; try lia;
    try (simpl pushb; split; [apply boost_wf; auto|split; reflexivity]).
  - destruct (IHp ltac:(assumption) ltac:(assumption)) as [W' [L' F']]. simpl pushb.
    split; [|split; [reflexivity|simpl; rewrite F'; reflexivity]].
    unfold wfs; fold wfs. rewrite L'. repeat (apply wfs_and); wfs_leaf.
  - destruct (IHp ltac:(assumption) ltac:(assumption)) as [W' [L' F']]. simpl pushb.
    split; [|split; [reflexivity|simpl; rewrite F'; reflexivity]].
    unfold wfs; fold wfs. rewrite L'. repeat (apply wfs_and); wfs_leaf.
  - destruct (IHp ltac:(assumption) ltac:(assumption)) as [W' [L' F']]. simpl pushb.
    split; [|split; [reflexivity|simpl; rewrite F'; reflexivity]].
    unfold wfs; fold wfs. rewrite L'. repeat (apply wfs_and); wfs_leaf.
Qed.

Lemma opnd_boost ts b : OPND ts -> tk_type b = T_BOOST -> dec_ok b = true -> OPND (ts ++ [b]).
Proof.
  intros [p [W [Hl <-]]] Hb Hd. destruct (pushb_ok b Hb Hd p W Hl) as [W' [L' F']].
  exists (pushb p b). split; [exact W'|]. split; [lia|exact F'].
Qed.

(* ---- every sequence of operands is the yield of a well-formed tree *)
Definition ins_or (p : qtree) (o : token) (q : qtree) : qtree :=
  match p with QJuxt p1 p2 => QJuxt p1 (QOr p2 o q) | _ => QOr p o q end.
Definition ins_and (p : qtree) (o : token) (q : qtree) : qtree :=
  match p with
  | QJuxt p1 p2 => QJuxt p1 (match p2 with QOr a o' b => QOr a o' (QAnd b o q) | _ => QAnd p2 o q end)
  | QOr a o' b => QOr a o' (QAnd b o q)
  | _ => QAnd p o q
  end.

Lemma leb_true a b : a <= b -> Nat.leb a b = true. Proof. apply Nat.leb_le. Qed.

Ltac flq_solve := do 4 (simpl; rewrite <- ?app_assoc); reflexivity.

Lemma ins_or_ok p o q : wfs p = true -> wfs q = true -> 3 <= lvq q -> tk_type o = T_OR_OP ->
  wfs (ins_or p o q) = true /\ flq (ins_or p o q) = flq p ++ o :: flq q.
Proof.
  intros Wp Wq Hq Ho.
  destruct p; wq_split Wp; try (split; [wfs_solve|reflexivity]).
  simpl ins_or. split; [wfs_solve|flq_solve].
Qed.

Lemma ins_and_ok p o q : wfs p = true -> wfs q = true -> 3 <= lvq q -> tk_type o = T_AND_OP ->
  wfs (ins_and p o q) = true /\ flq (ins_and p o q) = flq p ++ o :: flq q.
Proof.
  intros Wp Wq Hq Ho.
  destruct p; wq_split Wp; try (split; [wfs_solve|reflexivity]).
  - simpl ins_and. split; [wfs_solve|flq_solve].
  - simpl ins_and.
    match goal with H : wfs p2 = true |- _ => rename H into W2' end.
    destruct p2; wq_split W2'; try (simpl in Wp; lia); (split; [wfs_solve|flq_solve]).
Qed.

Lemma seq_qry ts : SEQ ts -> QRY ts.
Proof.
  induction 1 as [ts [p [W [_ E]]]|a o b _ [p [Wp <-]] Ho [q [Wq [Hq <-]]]
                 |a o b _ [p [Wp <-]] Ho [q [Wq [Hq <-]]]|a b _ [p [Wp <-]] [q [Wq [Hq <-]]]].
  - exists p. auto.
  - exists (ins_and p o q). apply ins_and_ok; assumption.
  - exists (ins_or p o q). apply ins_or_ok; assumption.
  - exists (QJuxt p q). split; [wfs_solve|reflexivity].
Qed.

(* ---- the numerals: an action that succeeded has read a number *)
Lemma boost_act_ok x b v evs : tk_type b = T_BOOST ->
  run_action A_boosting [x; token_value b] = Ok (v, evs) -> dec_ok b = true.
Proof.
  intros Hb. destruct (boost_value b Hb) as [m E]. rewrite E. destruct x; simpl; [|discriminate].
  unfold dec_ok. destruct (degree_of (tk_lexeme b)); [|reflexivity].
  destruct (dec_of_lexeme s); [reflexivity|discriminate].
Qed.
Lemma fuzzy_act_ok t a v evs : tk_type t = T_TERM -> tk_type a = T_APPROX ->
  run_action A_fuzzy [token_value t; token_value a] = Ok (v, evs) -> dec_ok a = true.
Proof.
  intros Ht Ha. destruct (approx_value a Ha) as [m E]. rewrite E. unfold token_value at 1. rewrite Ht. simpl.
  unfold dec_ok. destruct (degree_of (tk_lexeme a)); [|reflexivity].
  destruct (dec_of_lexeme s); [reflexivity|discriminate].
Qed.
Lemma prox_act_ok t a v evs : tk_type t = T_PHRASE -> tk_type a = T_APPROX ->
  run_action A_proximity [token_value t; token_value a] = Ok (v, evs) -> int_ok a = true.
Proof.
  intros Ht Ha. destruct (approx_value a Ha) as [m E]. rewrite E. unfold token_value at 1. rewrite Ht. simpl.
  unfold int_ok. destruct (degree_of (tk_lexeme a)); [|reflexivity].
  destruct (int_of_lexeme s); [reflexivity|discriminate].
Qed.

(* ---- the language of each grammar symbol *)
Definition PL (X : sym) (ts : list token) (v : symval) : Prop :=
  match X with
  | ST ty => exists t, ts = [t] /\ tk_type t = ty /\ v = token_value t
  | SN N_expression => SEQ ts
  | SN N_unary_expression => OPND ts
  | SN N_phrase_or_term => exists t, ts = [t] /\ is_value_tok (tk_type t) = true
  | SN N_possibly_negative_term | SN N_phrase_or_possibly_negative_term =>
      exists b, wfbnd b = true /\ flb b = ts
  end.
Inductive pders : list sym -> list token -> list symval -> Prop :=
| pd_nil : pders [] [] []
| pd_cons X Xs seg rest v vs : PL X seg v -> pders Xs rest vs -> pders (X :: Xs) (seg ++ rest) (v :: vs).

Ltac inv_pd :=
  repeat match goal with
  | H : pders (_ :: _) _ _ |- _ => inversion H; subst; clear H
  | H : pders [] _ _ |- _ => inversion H; subst; clear H
  end;
  repeat match goal with
  | H : PL _ _ _ |- _ => simpl in H
  end;
  repeat match goal with
  | H : exists _, _ |- _ => destruct H
  | H : _ /\ _ |- _ => destruct H
  end; subst.

Ltac opnd_leaf p := exists p; split; [unfold wfs; fold wfs;
    repeat match goal with H : tk_type _ = _ |- _ => rewrite H end;
    repeat match goal with H : _ = true |- _ => rewrite H end; try reflexivity|split; [simpl; lia|reflexivity]].

Lemma prod_lang p lhs rhs a ts args v evs :
  nth_error gen_prods p = Some (lhs, rhs, a) -> pders rhs ts args -> run_action a args = Ok (v, evs) ->
  PL (SN lhs) ts v.
Proof.
  intros Hp Hd Hact.
  apply nth_error_In in Hp. unfold gen_prods in Hp. simpl in Hp.
  repeat (destruct Hp as [Hp|Hp]; [inversion Hp; subst; clear Hp; inv_pd; simpl app; rewrite ?app_nil_r; simpl PL|]);
    [..|destruct Hp].
  - (* E OR E *) apply seq_app_or; assumption.
  - apply seq_app_and; assumption.
  - apply seq_app_j; assumption.
  - (* + U *) match goal with H : OPND _ |- _ => destruct H as [q [Wq [Hq <-]]] end.
    match goal with H : tk_type ?sg = T_PLUS |- _ => exists (QSign sg q) end.
    split; [wfs_solve|split; [simpl; lia|reflexivity]].
  - match goal with H : OPND _ |- _ => destruct H as [q [Wq [Hq <-]]] end.
    match goal with H : tk_type ?sg = T_MINUS |- _ => exists (QSign sg q) end.
    split; [wfs_solve|split; [simpl; lia|reflexivity]].
  - match goal with H : OPND _ |- _ => destruct H as [q [Wq [Hq <-]]] end.
    match goal with H : tk_type ?n = T_NOT |- _ => exists (QNot n q) end.
    split; [wfs_solve|split; [simpl; lia|reflexivity]].
  - (* E -> U *) apply seq_one. assumption.
  - (* ( E ) *) match goal with H : SEQ _ |- _ => destruct (seq_qry _ H) as [q [Wq <-]] end.
    match goal with H1 : tk_type ?l = T_LPAREN, H2 : tk_type ?r = T_RPAREN |- _ => exists (QGroup l q r) end.
    split; [wfs_solve|split; [simpl; lia|reflexivity]].
  - (* [ b TO b ] *)
    match goal with H1 : tk_type ?l = T_LBRACKET, H2 : tk_type ?t = T_TO, H3 : tk_type ?r = T_RBRACKET,
                    B1 : wfbnd ?lo = true, B2 : wfbnd ?hi = true |- OPND (?l :: flb ?lo ++ _) =>
      exists (QRange l lo t hi r) end.
    split; [wfs_solve|split; [simpl; lia|reflexivity]].
  - (* - value *)
    match goal with H1 : tk_type ?m = T_MINUS, H2 : is_value_tok (tk_type ?v) = true |- _ => exists (BNeg m v) end.
    split; [simpl; apply wfs_and; wfs_leaf|reflexivity].
  - match goal with H2 : is_value_tok (tk_type ?v) = true |- _ => exists (BVal v) end.
    split; [simpl; assumption|reflexivity].
  - match goal with B : wfbnd ?b = true |- _ => exists b end. split; [assumption|reflexivity].
  - match goal with H : tk_type ?v = T_PHRASE |- _ => exists (BVal v) end.
    split; [simpl; wfs_leaf|reflexivity].
  - (* < value *)
    match goal with H1 : tk_type ?o = T_LESSTHAN, H2 : is_value_tok (tk_type ?v) = true |- _ => exists (QOpen o v) end.
    split; [wfs_solve|split; [simpl; lia|reflexivity]].
  - match goal with H1 : tk_type ?o = T_GREATERTHAN, H2 : is_value_tok (tk_type ?v) = true |- _ => exists (QOpen o v) end.
    split; [wfs_solve|split; [simpl; lia|reflexivity]].
  - (* TERM : U *) match goal with H : OPND _ |- _ => destruct H as [q [Wq [Hq <-]]] end.
    match goal with H1 : tk_type ?n = T_TERM, H2 : tk_type ?c = T_COLUMN |- _ => exists (QField n c q) end.
    split; [wfs_solve|split; [simpl; lia|reflexivity]].
  - match goal with H : tk_type ?t = T_PHRASE |- _ => exists (QAtom t) end.
    split; [wfs_solve|split; [simpl; lia|reflexivity]].
  - (* PHRASE ~ *)
    match goal with H1 : tk_type ?t = T_PHRASE, H2 : tk_type ?a = T_APPROX |- _ =>
      pose proof (prox_act_ok _ _ _ _ H1 H2 Hact) as Hok; exists (QApprox t a) end.
    split; [wfs_solve|split; [simpl; lia|reflexivity]].
  - (* U ^ *)
    match goal with H2 : tk_type ?b = T_BOOST |- _ => pose proof (boost_act_ok _ _ _ _ H2 Hact) as Hok end.
    apply opnd_boost; assumption.
  - match goal with H : tk_type ?t = T_TERM |- _ => exists (QAtom t) end.
    split; [wfs_solve|split; [simpl; lia|reflexivity]].
  - match goal with H1 : tk_type ?t = T_TERM, H2 : tk_type ?a = T_APPROX |- _ =>
      pose proof (fuzzy_act_ok _ _ _ _ H1 H2 Hact) as Hok; exists (QApprox t a) end.
    split; [wfs_solve|split; [simpl; lia|reflexivity]].
  - match goal with H : tk_type ?t = T_REGEX |- _ => exists (QAtom t) end.
    split; [wfs_solve|split; [simpl; lia|reflexivity]].
  - match goal with H : tk_type ?t = T_TO |- _ => exists (QTo t) end.
    split; [wfs_solve|split; [simpl; lia|reflexivity]].
  - match goal with H : tk_type ?t = T_TERM |- _ => exists t end. split; [reflexivity|wfs_leaf].
  - match goal with H : tk_type ?t = T_PHRASE |- _ => exists t end. split; [reflexivity|wfs_leaf].
Qed.

Lemma deriv_lang :
  (forall X ts v, deriv X ts v -> PL X ts v) /\ (forall Xs ts vs, derivs Xs ts vs -> pders Xs ts vs).
Proof.
  apply deriv_mutind.
  - intros t. simpl. exists t. auto.
  - intros p lhs rhs a ts args v evs Hp _ Hpd Hact. eapply prod_lang; eassumption.
  - constructor.
  - intros X Xs seg rest v vs _ HP _ HPs. constructor; assumption.
Qed.

Theorem derivable_in_grammar ts v : deriv (SN N_expression) ts v -> exists p, wfs p = true /\ flq p = ts.
Proof. intros H. apply seq_qry. exact (proj1 deriv_lang _ _ _ H). Qed.


(* ================================================================ the converse, assembled *)

(* the lexer never makes a token of type $end *)
Lemma reserved_no_eof : Forall (fun p => snd p <> T_EOF) gen_reserved.
Proof. unfold gen_reserved. repeat constructor; discriminate. Qed.

Lemma lex_one_no_eof rp s k l r : lex_one rp s = Some (RTok k, l, r) -> k <> T_EOF.
Proof.
  intros H. unfold lex_one in H. destruct s as [|c s1]; [discriminate|].
  destruct (is_space c).
  { destruct (span_while is_space (c :: s1) []). discriminate. }
  destruct (lex_term rp (c :: s1)) as [[l0 r0]|] eqn:Ht.
  - cbv zeta in H.
    destruct (find (fun p => str_eqb l0 (fst p)) gen_reserved) as [[w t]|] eqn:Hf;
      inversion H; subst; clear H; [|discriminate].
    apply find_some in Hf. destruct Hf as [Hin _].
    pose proof reserved_no_eof as F. rewrite Forall_forall in F. exact (F _ Hin).
  - repeat match type of H with
    | (if ?b then _ else _) = _ => destruct b eqn:?
    | match ?x with _ => _ end = _ => destruct x eqn:?; try discriminate
    | (let '(_, _) := ?x in _) = _ => destruct x eqn:?
    end; inversion H; subst; clear H; discriminate.
Qed.

Local Opaque lex_one.
Definition raw_ok (r : rawtok) : Prop := rk_kind r <> RTok T_EOF.
Lemma lex_raw_no_eof : forall fuel rp pos s, Forall raw_ok (fst (lex_raw fuel rp pos s)).
Proof.
  induction fuel as [|f IH]; intros rp pos s; simpl; [constructor|].
  destruct s as [|c s1]; [constructor|].
  destruct (lex_one rp (c :: s1)) as [[[k l] r]|] eqn:H1; [|constructor].
  specialize (IH (rev l ++ rp) (pos + length l) r).
  destruct (lex_raw f (rev l ++ rp) (pos + length l) r) as [ts e]. simpl in *.
  constructor; [|exact IH]. unfold raw_ok. simpl. destruct k as [|k]; [discriminate|].
  intros E. inversion E; subst. exact (lex_one_no_eof _ _ _ _ _ H1 eq_refl).
Qed.

Lemma head_tail_no_eof : forall raws pending racc, Forall raw_ok raws -> no_eof racc ->
  no_eof (head_tail_fold raws pending racc).
Proof.
  induction raws as [|r raws IH]; intros pending racc Hr Ha; simpl.
  - unfold no_eof in *. apply Forall_rev. exact Ha.
  - inversion Hr as [|? ? Hr1 Hr2]; subst. destruct (rk_kind r) as [|t] eqn:Hk.
    + destruct (Nat.eqb (rk_pos r) 0); [apply IH; assumption|].
      destruct racc as [|last racc']; [apply IH; assumption|].
      apply IH; [assumption|]. inversion Ha; subst. constructor; assumption.
    + apply IH; [assumption|]. constructor; [|exact Ha]. simpl. intros E. subst t. apply Hr1. exact Hk.
Qed.

Lemma lex_no_eof s : no_eof (fst (lex s)).
Proof.
  unfold lex. pose proof (lex_raw_no_eof (S (length s)) [] 0 s) as H.
  destruct (lex_raw (S (length s)) [] 0 s) as [raws e]. simpl in *.
  apply head_tail_no_eof; [exact H|constructor].
Qed.

(* ACCEPTED => a yield of the documented grammar *)
Theorem accepted_is_query toks ev0 fuel t evs : no_eof toks ->
  run gen_tables None fuel (init_config toks ev0) = Done (Ok t) evs ->
  exists p, wfs p = true /\ flq p = toks.
Proof.
  intros Hne Hr. eapply derivable_in_grammar. eapply accepted_derivable; eassumption.
Qed.

(* NOT a query of the documented grammar => never accepted *)
Theorem non_query_not_accepted toks ev0 fuel t evs : no_eof toks ->
  spec_parse (map tok_key toks) = None ->
  run gen_tables None fuel (init_config toks ev0) <> Done (Ok t) evs.
Proof.
  intros Hne Hs Hr. destruct (accepted_is_query toks ev0 fuel t evs Hne Hr) as [p [W E]].
  pose proof (qp_query p W) as Hq. unfold keys_of in Hq. rewrite E, Hs in Hq. discriminate.
Qed.

(* on strings: rejected, with a ParseError *)
Theorem non_query_rejected s : snd (lex s) = None -> spec_parse (map tok_key (fst (lex s))) = None ->
  exists e, parse s = Some (Err e) /\ match e with EOther _ => False | _ => True end.
Proof.
  intros He Hs. destruct (parse_total s) as [r Hr]. pose proof (parse_only_parse_errors s r Hr) as Hk.
  destruct r as [t|e]; [|exists e; split; [exact Hr|destruct e; auto]].
  exfalso. unfold parse, parse_full, parse_with in Hr. pose proof (lex_no_eof s) as Hne.
  destruct (lex s) as [toks le]. simpl in *. subst le.
  destruct (run gen_tables None (parse_fuel toks) _) as [r0 evs|] eqn:Hrun; [|discriminate].
  inversion Hr; subst. exact (non_query_not_accepted _ _ _ _ _ Hne Hs Hrun).
Qed.

(* the guard, read off the tokens: every well-formed tree with a given yield has the same value of
   `f4free`, namely the complement of F4's predicate on the (type, lexeme) sequence *)
Definition tokok (t : token) : bool :=
  match tk_type t with
  | T_TERM => negb (str_eqb (tk_lexeme t) s_TO)
  | T_TO => str_eqb (tk_lexeme t) s_TO
  | _ => true
  end.
Lemma lexok_of_tokens p : wfs p = true -> (forall t, In t (flq p) -> tokok t = true) -> lexok p = true.
Proof.
  induction p; intros W L; wq_split W; simpl lexok; auto;
    try (apply IHp; [assumption|]; intros x Hx; apply L; simpl; rewrite ?in_app_iff; simpl; tauto);
    try (rewrite IHp1, IHp2; [reflexivity|assumption| |assumption|];
         intros x Hx; apply L; simpl; rewrite ?in_app_iff; simpl; tauto).
  all: specialize (L t (or_introl eq_refl)); unfold tokok in L.
  all: try (rewrite W in L; exact L).
  all: destruct (tk_type t); try discriminate; simpl; auto.
  all: destruct (str_eqb (tk_lexeme t) s_TO); [discriminate|reflexivity].
Qed.


(* ================================================================ the syntax trees are ALL of the documented grammar:
   whatever the reference parser accepts is the yield of a well-formed `qtree` (so the theorems
   above quantify over every query of the documented grammar, and `qtree`/`wfs` add no restriction) *)
Definition tk (k : key) : token := mkTok (fst k) (snd k) 0 [] [].
Lemma tk_key ty lx : tok_key (tk (ty, lx)) = (ty, lx). Proof. reflexivity. Qed.

Definition lvok (lv : nat) (p : qtree) : Prop :=
  match lv with 0 => True | 1 => 1 <= lvq p | 2 => 2 <= lvq p | _ => 3 <= lvq p end.

Definition TREE (lv : nat) (ks : list key) (r : list key) : Prop :=
  exists p, wfs p = true /\ lvok lv p /\ ks = keys_of (flq p) ++ r.

Lemma boosts_tree : forall g e ks x r pa, boosts g e ks = Some (x, r) -> wfs pa = true -> lvq pa = 4 ->
  exists p, wfs p = true /\ lvq p = 4 /\ keys_of (flq pa) ++ ks = keys_of (flq p) ++ r.
Proof.
  induction g as [|g IH]; intros e ks x r pa H W L; [discriminate|].
  destruct ks as [|[ty lx] ks']; [simpl in H; inversion H; subst; exists pa; auto|].
  destruct ty; try (simpl in H; inversion H; subst; exists pa; auto; fail).
  rewrite boosts_go in H.
  assert (Hb : dec_ok (tk (T_BOOST, lx)) = true /\ exists e', boosts g e' ks' = Some (x, r)).
  { unfold dec_ok. simpl tk_lexeme. destruct (degree_of lx) as [d|]; [|eauto].
    destruct (dec_of_lexeme d); [eauto|discriminate]. }
  destruct Hb as [Hd [e' H']].
  destruct (IH e' ks' x r (QBoost pa (tk (T_BOOST, lx))) H') as [p [Wp [Lp E]]];
    [unfold wfs; fold wfs; rewrite W, L, Hd; reflexivity|reflexivity|].
  exists p. split; [exact Wp|split; [exact Lp|]]. rewrite <- E. simpl flq. rewrite keys_app, <- app_assoc. reflexivity.
Qed.

Lemma post_tree pa f e K x r : wfs pa = true -> lvq pa = 4 -> boosts f e K = Some (x, r) ->
  exists p, wfs p = true /\ 3 <= lvq p /\ keys_of (flq pa) ++ K = keys_of (flq p) ++ r.
Proof.
  intros W L H. destruct (boosts_tree f e K x r pa H W L) as [p [Wp [Lp E]]]. exists p. split; [auto|split; [lia|auto]].
Qed.

Definition LEV (lev : nat -> list key -> option (item * list key)) : Prop :=
  forall lv ks x r, lev lv ks = Some (x, r) -> TREE lv ks r.

Lemma more_and_tree lev : LEV lev -> forall g acc ks y r pa,
  more_and lev g acc ks = Some (y, r) -> wfs pa = true -> 2 <= lvq pa ->
  exists p, wfs p = true /\ 2 <= lvq p /\ keys_of (flq pa) ++ ks = keys_of (flq p) ++ r.
Proof.
  intros HL. induction g as [|g IH]; intros acc ks y r pa H W L; [discriminate|].
  destruct ks as [|[ty lx] ks']; [simpl in H; inversion H; subst; exists pa; auto|].
  destruct ty; try (simpl in H; inversion H; subst; exists pa; auto; fail).
  rewrite more_and_go in H. destruct (lev 3 ks') as [[y1 k1]|] eqn:E1; [|discriminate].
  destruct (HL _ _ _ _ E1) as [q [Wq [Lq Eq]]]. simpl in Lq.
  destruct (IH _ _ _ _ (QAnd pa (tk (T_AND_OP, lx)) q) H) as [p [Wp [Lp E]]];
    [unfold wfs; fold wfs; rewrite W, Wq, (leb_true _ _ L), (leb_true _ _ Lq); reflexivity|simpl; lia|].
  exists p. split; [exact Wp|split; [exact Lp|]]. rewrite <- E, Eq. simpl flq.
  rewrite keys_app, <- app_assoc. reflexivity.
Qed.

Lemma more_or_tree lev : LEV lev -> forall g acc ks y r pa,
  more_or lev g acc ks = Some (y, r) -> wfs pa = true -> 1 <= lvq pa ->
  exists p, wfs p = true /\ 1 <= lvq p /\ keys_of (flq pa) ++ ks = keys_of (flq p) ++ r.
Proof.
  intros HL. induction g as [|g IH]; intros acc ks y r pa H W L; [discriminate|].
  destruct ks as [|[ty lx] ks']; [simpl in H; inversion H; subst; exists pa; auto|].
  destruct ty; try (simpl in H; inversion H; subst; exists pa; auto; fail).
  rewrite more_or_go in H. destruct (lev 2 ks') as [[y1 k1]|] eqn:E1; [|discriminate].
  destruct (HL _ _ _ _ E1) as [q [Wq [Lq Eq]]]. simpl in Lq.
  destruct (IH _ _ _ _ (QOr pa (tk (T_OR_OP, lx)) q) H) as [p [Wp [Lp E]]];
    [unfold wfs; fold wfs; rewrite W, Wq, (leb_true _ _ L), (leb_true _ _ Lq); reflexivity|simpl; lia|].
  exists p. split; [exact Wp|split; [exact Lp|]]. rewrite <- E, Eq. simpl flq.
  rewrite keys_app, <- app_assoc. reflexivity.
Qed.

Lemma more_j_tree lev : LEV lev -> forall g acc ks y r pa,
  more_j lev g acc ks = Some (y, r) -> wfs pa = true ->
  exists p, wfs p = true /\ keys_of (flq pa) ++ ks = keys_of (flq p) ++ r.
Proof.
  intros HL. induction g as [|g IH]; intros acc ks y r pa H W; [discriminate|].
  simpl in H. destruct (starts_unary ks); [|inversion H; subst; exists pa; auto].
  destruct (lev 1 ks) as [[y1 k1]|] eqn:E1; [|discriminate].
  destruct (HL _ _ _ _ E1) as [q [Wq [Lq Eq]]]. simpl in Lq.
  destruct (IH _ _ _ _ (QJuxt pa q) H) as [p [Wp E]];
    [unfold wfs; fold wfs; rewrite W, Wq, (leb_true _ _ Lq); reflexivity|].
  exists p. split; [exact Wp|]. rewrite <- E, Eq. simpl flq. rewrite keys_app, <- app_assoc. reflexivity.
Qed.

Lemma value_item_tok k v : value_item k = Some v -> is_value_tok (tk_type (tk k)) = true.
Proof. destruct k as [ty lx]. unfold value_item. simpl. destruct ty; try discriminate; reflexivity. Qed.

Lemma bound_tree ks v r : bound ks = Some (v, r) -> exists b, wfbnd b = true /\ ks = keys_of (flb b) ++ r.
Proof.
  intros H. destruct ks as [|[ty lx] ks']; [discriminate|].
  assert (D : (ty = T_MINUS /\ exists k ks'', ks' = k :: ks'' /\ exists w, value_item k = Some w /\ r = ks'') \/
              (exists w, value_item (ty, lx) = Some w /\ r = ks')).
  { destruct ty; simpl in H; try discriminate;
      try (right; eexists; split; [reflexivity|inversion H; reflexivity]; fail).
    left. split; [reflexivity|]. destruct ks' as [|k ks'']; [discriminate|].
    destruct (value_item k) eqn:E; [|discriminate]. inversion H; subst. eauto 8. }
  destruct D as [[-> [k [ks'' [-> [w [Hw ->]]]]]]|[w [Hw ->]]].
  - exists (BNeg (tk (T_MINUS, lx)) (tk k)). split; [simpl; exact (value_item_tok _ _ Hw)|].
    destruct k. reflexivity.
  - exists (BVal (tk (ty, lx))). split; [simpl; exact (value_item_tok _ _ Hw)|reflexivity].
Qed.

Ltac post_case pa H :=
  destruct (post_tree pa _ _ _ _ _ eq_refl eq_refl H) as [p [Wp [Lp Ep]]];
  exists p; split; [exact Wp|split; [exact Lp|exact Ep]].

Lemma level_tree : forall f, LEV (level f).
Proof.
  induction f as [|f IH]; intros lv ks x r H; [discriminate|].
  destruct lv as [|[|[|lv]]].
  - rewrite level_0 in H. destruct (level f 1 ks) as [[x1 k1]|] eqn:E1; [|discriminate].
    destruct (IH _ _ _ _ E1) as [q [Wq [Lq Eq]]].
    destruct (more_j_tree _ IH _ _ _ _ _ q H Wq) as [p [Wp E]].
    exists p. split; [exact Wp|split; [exact I|]]. rewrite Eq. exact E.
  - rewrite level_1 in H. destruct (level f 2 ks) as [[x1 k1]|] eqn:E1; [|discriminate].
    destruct (IH _ _ _ _ E1) as [q [Wq [Lq Eq]]]. simpl in Lq.
    destruct (more_or_tree _ IH _ _ _ _ _ q H Wq ltac:(lia)) as [p [Wp [Lp E]]].
    exists p. split; [exact Wp|split; [exact Lp|]]. rewrite Eq. exact E.
  - rewrite level_2 in H. destruct (level f 3 ks) as [[x1 k1]|] eqn:E1; [|discriminate].
    destruct (IH _ _ _ _ E1) as [q [Wq [Lq Eq]]]. simpl in Lq.
    destruct (more_and_tree _ IH _ _ _ _ _ q H Wq ltac:(lia)) as [p [Wp [Lp E]]].
    exists p. split; [exact Wp|split; [exact Lp|]]. rewrite Eq. exact E.
  - unfold TREE. simpl lvok.
    destruct ks as [|[ty lx] ks']; [discriminate|].
    destruct ty; simpl in H; try discriminate.
    + (* TERM ... *)
      destruct ks' as [|[ty2 lx2] ks''];
        [post_case (QAtom (tk (T_TERM, lx))) H|].
      destruct ty2; try (post_case (QAtom (tk (T_TERM, lx))) H).
      * (* TERM ~ *)
        assert (Hb : dec_ok (tk (T_APPROX, lx2)) = true /\ exists e', boosts f e' ks'' = Some (x, r)).
        { unfold dec_ok. simpl tk_lexeme. destruct (degree_of lx2) as [d|]; [|eauto].
          destruct (dec_of_lexeme d); [eauto|discriminate]. }
        destruct Hb as [Hd [e' H']].
        destruct (post_tree (QApprox (tk (T_TERM, lx)) (tk (T_APPROX, lx2))) _ _ _ _ _
                            ltac:(unfold wfs; simpl; exact Hd) eq_refl H') as [p [Wp [Lp Ep]]].
        exists p. split; [exact Wp|split; [exact Lp|exact Ep]].
      * (* TERM : *)
        destruct (level f 3 ks'') as [[x1 k1]|] eqn:E1; [|discriminate]. inversion H; subst.
        destruct (IH _ _ _ _ E1) as [q [Wq [Lq Eq]]]. simpl in Lq.
        exists (QField (tk (T_TERM, lx)) (tk (T_COLUMN, lx2)) q).
        split; [wfs_solve|split; [simpl; lia|]].
        rewrite Eq. reflexivity.
    + (* PHRASE ... *)
      destruct ks' as [|[ty2 lx2] ks''];
        [post_case (QAtom (tk (T_PHRASE, lx))) H|].
      destruct ty2; try (post_case (QAtom (tk (T_PHRASE, lx))) H).
      assert (Hb : int_ok (tk (T_APPROX, lx2)) = true /\ exists e', boosts f e' ks'' = Some (x, r)).
      { unfold int_ok. simpl tk_lexeme. destruct (degree_of lx2) as [d|]; [|eauto].
        destruct (int_of_lexeme d); [eauto|discriminate]. }
      destruct Hb as [Hd [e' H']].
      destruct (post_tree (QApprox (tk (T_PHRASE, lx)) (tk (T_APPROX, lx2))) _ _ _ _ _
                          ltac:(unfold wfs; simpl; exact Hd) eq_refl H') as [p [Wp [Lp Ep]]].
      exists p. split; [exact Wp|split; [exact Lp|exact Ep]].
    + (* REGEX *) post_case (QAtom (tk (T_REGEX, lx))) H.
    + (* - x *)
      destruct (level f 3 ks') as [[x1 k1]|] eqn:E1; [|discriminate]. inversion H; subst.
      destruct (IH _ _ _ _ E1) as [q [Wq [Lq Eq]]]. simpl in Lq.
      exists (QSign (tk (T_MINUS, lx)) q).
      split; [wfs_solve|split; [simpl; lia|]].
      rewrite Eq. reflexivity.
    + (* + x *)
      destruct (level f 3 ks') as [[x1 k1]|] eqn:E1; [|discriminate]. inversion H; subst.
      destruct (IH _ _ _ _ E1) as [q [Wq [Lq Eq]]]. simpl in Lq.
      exists (QSign (tk (T_PLUS, lx)) q).
      split; [wfs_solve|split; [simpl; lia|]].
      rewrite Eq. reflexivity.
    + (* ( query ) *)
      destruct (level f 0 ks') as [[e0 k0]|] eqn:E1; [|discriminate].
      destruct k0 as [|[ty2 lx2] k0']; [discriminate|]. destruct ty2; try discriminate.
      destruct (IH _ _ _ _ E1) as [q [Wq [_ Eq]]].
      destruct (post_tree (QGroup (tk (T_LPAREN, lx)) q (tk (T_RPAREN, lx2))) _ _ _ _ _
                          ltac:(unfold wfs; fold wfs; simpl; exact Wq) eq_refl H) as [p [Wp [Lp Ep]]].
      exists p. split; [exact Wp|split; [exact Lp|]]. rewrite <- Ep, Eq. simpl flq.
      change (keys_of (tk (T_LPAREN, lx) :: flq q ++ [tk (T_RPAREN, lx2)]))
        with ((T_LPAREN, lx) :: keys_of (flq q ++ [tk (T_RPAREN, lx2)])).
      rewrite keys_app. simpl. rewrite <- app_assoc. reflexivity.
    + (* [ lo TO hi ] *)
      destruct (bound ks') as [[lo k1]|] eqn:E1; [|discriminate].
      destruct k1 as [|[ty2 lx2] k1']; [discriminate|]. destruct ty2; try discriminate.
      destruct (bound k1') as [[hi k2]|] eqn:E2; [|discriminate].
      destruct k2 as [|[ty3 lx3] k2']; [discriminate|]. destruct ty3; try discriminate.
      destruct (bound_tree _ _ _ E1) as [blo [Wlo Elo]]. destruct (bound_tree _ _ _ E2) as [bhi [Whi Ehi]].
      destruct (post_tree (QRange (tk (T_LBRACKET, lx)) blo (tk (T_TO, lx2)) bhi (tk (T_RBRACKET, lx3))) _ _ _ _ _
                          ltac:(unfold wfs; simpl; rewrite Wlo, Whi; reflexivity) eq_refl H) as [p [Wp [Lp Ep]]].
      exists p. split; [exact Wp|split; [exact Lp|]]. rewrite <- Ep, Elo, Ehi. simpl flq.
      change (keys_of (tk (T_LBRACKET, lx) :: flb blo ++ tk (T_TO, lx2) :: flb bhi ++ [tk (T_RBRACKET, lx3)]))
        with ((T_LBRACKET, lx) :: keys_of (flb blo ++ tk (T_TO, lx2) :: flb bhi ++ [tk (T_RBRACKET, lx3)])).
      rewrite keys_app. change (keys_of (tk (T_TO, lx2) :: flb bhi ++ [tk (T_RBRACKET, lx3)]))
        with ((T_TO, lx2) :: keys_of (flb bhi ++ [tk (T_RBRACKET, lx3)])).
      rewrite keys_app. simpl. rewrite <- !app_assoc. simpl. rewrite <- !app_assoc. reflexivity.
    + (* < value *)
      destruct ks' as [|k ks'']; [discriminate|]. destruct (value_item k) as [w|] eqn:Ew; [|discriminate].
      destruct (post_tree (QOpen (tk (T_LESSTHAN, lx)) (tk k)) _ _ _ _ _
                          ltac:(unfold wfs; simpl; exact (value_item_tok _ _ Ew)) eq_refl H) as [p [Wp [Lp Ep]]].
      exists p. split; [exact Wp|split; [exact Lp|]]. rewrite <- Ep. destruct k. reflexivity.
    + (* > value *)
      destruct ks' as [|k ks'']; [discriminate|]. destruct (value_item k) as [w|] eqn:Ew; [|discriminate].
      destruct (post_tree (QOpen (tk (T_GREATERTHAN, lx)) (tk k)) _ _ _ _ _
                          ltac:(unfold wfs; simpl; exact (value_item_tok _ _ Ew)) eq_refl H) as [p [Wp [Lp Ep]]].
      exists p. split; [exact Wp|split; [exact Lp|]]. rewrite <- Ep. destruct k. reflexivity.
    + (* NOT x *)
      destruct (level f 3 ks') as [[x1 k1]|] eqn:E1; [|discriminate]. inversion H; subst.
      destruct (IH _ _ _ _ E1) as [q [Wq [Lq Eq]]]. simpl in Lq.
      exists (QNot (tk (T_NOT, lx)) q).
      split; [wfs_solve|split; [simpl; lia|]].
      rewrite Eq. reflexivity.
    + (* TO *) post_case (QTo (tk (T_TO, lx))) H.
Qed.

(* every query of the documented grammar is the yield of a well-formed syntax tree *)
Theorem spec_is_tree ks u : spec_parse ks = Some u ->
  exists p, wfs p = true /\ keys_of (flq p) = ks /\ valq p = u.
Proof.
  unfold spec_parse. intros H.
  destruct (level (4 * length ks + 8) 0 ks) as [[t r]|] eqn:E; [|discriminate].
  destruct r; [|discriminate]. inversion H; subst.
  destruct (level_tree _ _ _ _ _ E) as [p [W [_ Ek]]]. rewrite app_nil_r in Ek.
  exists p. split; [exact W|split; [auto|]].
  pose proof (qp_query p W) as Hq. rewrite <- Ek in Hq. unfold spec_parse in Hq.
  rewrite E in Hq. inversion Hq. reflexivity.
Qed.


(* ================================================================ clause (c) for EVERY token list outside F4 *)
Definition keyok (k : key) : bool :=
  match fst k with
  | T_TERM => negb (str_eqb (snd k) s_TO)
  | T_TO => str_eqb (snd k) s_TO
  | _ => true
  end.
Lemma tokok_key t : tokok t = keyok (tok_key t). Proof. reflexivity. Qed.

(* the lexer's tokens are such: the word TO is a T_TO token and nothing else is *)
Lemma reserved_keyok : Forall (fun p => keyok (snd p, fst p) = true) gen_reserved.
Proof. unfold gen_reserved. repeat constructor. Qed.
Lemma reserved_has_TO : In (s_TO, T_TO) gen_reserved.
Proof. unfold gen_reserved. simpl. auto 6. Qed.

Local Transparent lex_one.
Lemma lex_one_keyok rp s k l r : lex_one rp s = Some (RTok k, l, r) -> keyok (k, l) = true.
Proof.
  intros H. unfold lex_one in H. destruct s as [|c s1]; [discriminate|].
  destruct (is_space c).
  { destruct (span_while is_space (c :: s1) []). discriminate. }
  destruct (lex_term rp (c :: s1)) as [[l0 r0]|] eqn:Ht.
  - cbv zeta in H.
    destruct (find (fun p => str_eqb l0 (fst p)) gen_reserved) as [[w t]|] eqn:Hf;
      inversion H; subst; clear H.
    + apply find_some in Hf. destruct Hf as [Hin He]. simpl in He. apply str_eqb_eq in He. subst w.
      pose proof reserved_keyok as F. rewrite Forall_forall in F. exact (F _ Hin).
    + pose proof (find_none _ _ Hf _ reserved_has_TO) as Hn. simpl in Hn. unfold keyok. simpl. rewrite Hn. reflexivity.
  - repeat match type of H with
    | (if ?b then _ else _) = _ => destruct b eqn:?
    | match ?x with _ => _ end = _ => destruct x eqn:?; try discriminate
    | (let '(_, _) := ?x in _) = _ => destruct x eqn:?
    end; inversion H; subst; clear H; reflexivity.
Qed.
Local Opaque lex_one.

Definition raw_kok (r : rawtok) : Prop := match rk_kind r with RTok k => keyok (k, rk_lexeme r) = true | RSep => True end.
Lemma lex_raw_keyok : forall fuel rp pos s, Forall raw_kok (fst (lex_raw fuel rp pos s)).
Proof.
  induction fuel as [|f IH]; intros rp pos s; simpl; [constructor|].
  destruct s as [|c s1]; [constructor|].
  destruct (lex_one rp (c :: s1)) as [[[k l] r]|] eqn:H1; [|constructor].
  specialize (IH (rev l ++ rp) (pos + length l) r).
  destruct (lex_raw f (rev l ++ rp) (pos + length l) r) as [ts e]. simpl in *.
  constructor; [|exact IH]. unfold raw_kok. simpl. destruct k as [|k]; [exact I|].
  exact (lex_one_keyok _ _ _ _ _ H1).
Qed.
Lemma head_tail_keyok : forall raws pending racc, Forall raw_kok raws -> Forall (fun t => tokok t = true) racc ->
  Forall (fun t => tokok t = true) (head_tail_fold raws pending racc).
Proof.
  induction raws as [|r raws IH]; intros pending racc Hr Ha; simpl.
  - apply Forall_rev. exact Ha.
  - inversion Hr as [|? ? Hr1 Hr2]; subst. unfold raw_kok in Hr1. destruct (rk_kind r) as [|t] eqn:Hk.
    + destruct (Nat.eqb (rk_pos r) 0); [apply IH; assumption|].
      destruct racc as [|last racc']; [apply IH; assumption|].
      apply IH; [assumption|]. inversion Ha; subst. constructor; assumption.
    + apply IH; [assumption|]. constructor; [|exact Ha]. exact Hr1.
Qed.
Lemma lex_tokok s : forallb tokok (fst (lex s)) = true.
Proof.
  apply forallb_forall. apply Forall_forall.
  unfold lex. pose proof (lex_raw_keyok (S (length s)) [] 0 s) as H.
  destruct (lex_raw (S (length s)) [] 0 s) as [raws e]. simpl in *.
  apply head_tail_keyok; [exact H|constructor].
Qed.

(* THE statement of C03 clause (c), for every token list the lexer can produce, outside F4:
   accepted <=> a query of the documented grammar, and then the tree is the dictated one *)
Theorem grammar_outside_f4 toks ev0 : no_eof toks -> forallb tokok toks = true ->
  f4_input (keys_of toks) = false ->
  match run gen_tables None (parse_fuel toks) (init_config toks ev0) with
  | Done (Ok t) _ => spec_parse (keys_of toks) = Some (erase t)
  | Done (Err _) _ => spec_parse (keys_of toks) = None
  | OutOfFuel => False
  end.
Proof.
  intros Hne Hok Hf4. destruct (spec_parse (keys_of toks)) as [u|] eqn:Es.
  - destruct (spec_is_tree _ _ Es) as [p [W [Ek Ev]]].
    assert (L : lexok p = true).
    { apply lexok_of_tokens; [exact W|]. intros t Ht. rewrite tokok_key.
      assert (Hin : In (tok_key t) (keys_of toks)) by (rewrite <- Ek; apply in_map; exact Ht).
      apply in_map_iff in Hin. destruct Hin as [t' [Ek' Hin']]. rewrite <- Ek', <- tokok_key.
      rewrite forallb_forall in Hok. apply Hok. exact Hin'. }
    assert (F : f4free p = true).
    { pose proof (f4free_iff_no_f4 p W L) as Hx. rewrite Ek, Hf4 in Hx. destruct (f4free p); [reflexivity|discriminate]. }
    destruct (more_core_keys toks ev0 p W F (eq_sym Ek)) as [t [evs [Hr [Hs _]]]].
    rewrite Hr. unfold keys_of in Es. rewrite Es in Hs. exact Hs.
  - pose proof (run_terminates None (parse_fuel toks) (init_config toks ev0)) as Hterm.
    destruct (run gen_tables None (parse_fuel toks) (init_config toks ev0)) as [r e|] eqn:Hr.
    + destruct r as [t|err]; [|reflexivity]. exfalso. exact (non_query_not_accepted _ _ _ _ _ Hne Es Hr).
    + apply Hterm; [reflexivity| |reflexivity].
      unfold phi, parse_fuel, init_config, rank_of, K. simpl. lia.
Qed.

(* on strings: no side condition left but "the lexer accepts s" and "s is not in F4's class" *)
Theorem grammar_outside_f4_parse s : snd (lex s) = None -> f4_input (map tok_key (fst (lex s))) = false ->
  match parse s with
  | Some (Ok t) => spec_parse (map tok_key (fst (lex s))) = Some (erase t)
  | Some (Err _) => spec_parse (map tok_key (fst (lex s))) = None
  | None => False
  end.
Proof.
  intros He Hf. pose proof (lex_no_eof s) as Hne. pose proof (lex_tokok s) as Hok.
  unfold parse, parse_full, parse_with. destruct (lex s) as [toks le]. simpl in *. subst le.
  pose proof (grammar_outside_f4 toks (match toks with [] => [GDrop s] | _ => [] end) Hne Hok Hf) as H.
  destruct (run gen_tables None (parse_fuel toks) _) as [[t|e] evs|]; exact H.
Qed.
