(* Decimal.v — the fragment of Python's decimal.Decimal / int that luqum exercises on the
   numerals written after ~ and ^ (lexemes matching [0-9.]+), plus programmatic integer
   degrees.  Executable definitions only.

   Modelled: Decimal(str) construction (exact), luqum's _normalize_number (trailing zeros stripped, no
   rounding), format(Decimal, 'f') (positional), str(Decimal) (to-scientific-string), numeric equality, int(str).
   Not modelled: NaN/Infinity, exponents beyond Emax/Emin (needs a lexeme of ~10^6 chars),
   construction from float. *)
Require Import Base.

Record dec := mkDec { dsign : bool; dcoef : N; dexp : Z }.

Definition is_ascii_digit (c : char) : bool := (48 <=? c)%N && (c <=? 57)%N.

(* --- digits ------------------------------------------------------------------------- *)

Fixpoint digits_fuel (fuel : nat) (n : N) (acc : str) : str :=
  match fuel with
  | O => acc
  | S f =>
      let acc' := (48 + n mod 10)%N :: acc in
      if (n <? 10)%N then acc' else digits_fuel f (n / 10)%N acc'
  end.

(* decimal digits of n, most significant first; "0" for 0 *)
Definition digits_of (n : N) : str := digits_fuel (S (N.to_nat (N.size n))) n [].

Definition ndigits (n : N) : Z := Z.of_nat (length (digits_of n)).

Fixpoint N_of_digits (acc : N) (s : str) : N :=
  match s with
  | [] => acc
  | c :: s' => N_of_digits (acc * 10 + (c - 48))%N s'
  end.

(* --- Decimal("...") on [0-9.]+ ------------------------------------------------------ *)

Fixpoint split_dot (s : str) (int_acc : str) : option (str * option str) :=
  (* returns (integer digits, Some fraction digits if a dot was seen); None if a char is
     neither digit nor dot *)
  match s with
  | [] => Some (rev int_acc, None)
  | c :: s' =>
      if N.eqb c c_dot then
        if forallb is_ascii_digit s' then Some (rev int_acc, Some s') else None
      else if is_ascii_digit c then split_dot s' (c :: int_acc)
      else None
  end.

(* None = decimal.InvalidOperation (".", "1.2.3", "") *)
Definition dec_of_lexeme (s : str) : option dec :=
  match split_dot s [] with
  | None => None
  | Some (ip, None) =>
      match ip with [] => None | _ => Some (mkDec false (N_of_digits 0 ip) 0) end
  | Some (ip, Some fp) =>
      match ip, fp with
      | [], [] => None
      | _, _ => Some (mkDec false (N_of_digits 0 (ip ++ fp)) (- Z.of_nat (length fp)))
      end
  end.

Definition dec_of_Z (z : Z) : dec := mkDec (z <? 0)%Z (Z.abs_N z) 0.

(* None = ValueError from int("1.5"), int("."), int("") *)
Definition int_of_lexeme (s : str) : option Z :=
  match s with
  | [] => None
  | _ => if forallb is_ascii_digit s then Some (Z.of_N (N_of_digits 0 s)) else None
  end.

(* --- normalize ---------------------------------------------------------------------- *)

Definition prec : Z := 28.

(* context rounding to 28 significant digits, ROUND_HALF_EVEN *)
Definition dec_round (d : dec) : dec :=
  let n := ndigits (dcoef d) in
  if (n <=? prec)%Z then d
  else
    let k := (n - prec)%Z in
    let p := N.pow 10 (Z.to_N k) in
    let q := (dcoef d / p)%N in
    let r := (dcoef d mod p)%N in
    let half := (5 * N.pow 10 (Z.to_N (k - 1)))%N in
    let up := (half <? r)%N || (N.eqb r half && N.odd q) in
    mkDec (dsign d) (if up then q + 1 else q)%N (dexp d + k)%Z.

Fixpoint strip_zeros (fuel : nat) (c : N) (e : Z) : N * Z :=
  match fuel with
  | O => (c, e)
  | S f =>
      if N.eqb c 0 then (c, e)
      else if N.eqb (c mod 10) 0 then strip_zeros f (c / 10)%N (e + 1)%Z
      else (c, e)
  end.

(* luqum.tree._normalize_number: Decimal.normalize() under a context whose precision is the number
   of digits given, i.e. NO rounding: strip trailing zeros; zero becomes 0E0 (sign kept).
   (dec_round above is the default-context rounding luqum used to apply; kept for reference.) *)
Definition dec_normalize (d : dec) : dec :=
  if N.eqb (dcoef d) 0 then mkDec (dsign d) 0 0
  else
    let '(c, e) := strip_zeros (S (N.to_nat (N.size (dcoef d)))) (dcoef d) (dexp d) in
    mkDec (dsign d) c e.

(* canonical form for numeric comparison: like normalize but without rounding and with +0 *)
Definition dec_canon (d : dec) : dec :=
  if N.eqb (dcoef d) 0 then mkDec false 0 0
  else
    let '(c, e) := strip_zeros (S (N.to_nat (N.size (dcoef d)))) (dcoef d) (dexp d) in
    mkDec (dsign d) c e.

Definition dec_struct_eqb (a b : dec) : bool :=
  Bool.eqb (dsign a) (dsign b) && N.eqb (dcoef a) (dcoef b) && Z.eqb (dexp a) (dexp b).

(* Python's Decimal.__eq__ (also against int): numeric equality *)
Definition dec_eqb (a b : dec) : bool := dec_struct_eqb (dec_canon a) (dec_canon b).

(* --- str(Decimal) ------------------------------------------------------------------- *)

Fixpoint repeat_char (c : char) (n : nat) : str :=
  match n with O => [] | S n' => c :: repeat_char c n' end.

Definition Z_to_str (z : Z) : str :=
  (if (z <? 0)%Z then [c_minus] else []) ++ digits_of (Z.abs_N z).

Definition exp_to_str (z : Z) : str :=   (* "%+d" *)
  (if (z <? 0)%Z then [c_minus] else [c_plus]) ++ digits_of (Z.abs_N z).

Definition dec_to_str (d : dec) : str :=
  let ds := digits_of (dcoef d) in
  let len := Z.of_nat (length ds) in
  let leftdigits := (dexp d + len)%Z in
  let dotplace := if ((dexp d <=? 0) && (-6 <? leftdigits))%Z then leftdigits else 1%Z in
  let body :=
    if (dotplace <=? 0)%Z then
      [c_zero; c_dot] ++ repeat_char c_zero (Z.to_nat (- dotplace)) ++ ds
    else if (len <=? dotplace)%Z then
      ds ++ repeat_char c_zero (Z.to_nat (dotplace - len))
    else
      firstn (Z.to_nat dotplace) ds ++ [c_dot] ++ skipn (Z.to_nat dotplace) ds in
  let e := if (leftdigits =? dotplace)%Z then [] else c_E :: exp_to_str (leftdigits - dotplace) in
  (if dsign d then [c_minus] else []) ++ body ++ e.

(* format(d, "f"): positional notation, as luqum.tree._number_to_str prints degrees and forces *)
Definition dec_to_fstr (d : dec) : str :=
  let ds := digits_of (dcoef d) in
  let len := length ds in
  let body :=
    if (0 <=? dexp d)%Z then
      if N.eqb (dcoef d) 0 then [c_zero] else ds ++ repeat_char c_zero (Z.to_nat (dexp d))
    else
      let n := Z.to_nat (- dexp d) in
      if Nat.ltb n len then firstn (len - n) ds ++ [c_dot] ++ skipn (len - n) ds
      else [c_zero; c_dot] ++ repeat_char c_zero (n - len) ++ ds in
  (if dsign d then [c_minus] else []) ++ body.

(* is the printed form a plain decimal literal [0-9]+(\.[0-9]+)? ? *)
Definition plain_decimal (s : str) : bool :=
  match split_dot s [] with
  | Some (ip, None) => negb (match ip with [] => true | _ => false end)
  | Some (ip, Some fp) =>
      negb (match ip with [] => true | _ => false end) &&
      negb (match fp with [] => true | _ => false end)
  | None => false
  end.

Definition dec_half : dec := mkDec false 5 (-1).
Definition dec_one : dec := mkDec false 1 0.
