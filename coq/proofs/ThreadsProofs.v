(* ThreadsProofs.v — non-interference of concurrent luqum.thread.parse calls by STATE PARTITION (C14).

   Part 1 (any scopes): sink locations (attributes of the shared parser object, PLY's module globals)
           are never observed: a step's effect on the thread-local state and on the rest of the store
           does not depend on them; declared write footprints are complete.
   Part 2 (Section GoodScopes: the lexer is a clone kept in a threading.local, the tracker is kept on
           the token's lexer and re-created at lexpos 0 — discharged for the GENERATED scopes by
           reflexivity at the end): the view of thread t (its slot, its lexer, the module lexer, the
           trackers it creates, its token objects) determines its steps, is preserved by every step
           of every other thread, hence the thread's run under ANY schedule is its run alone
           (projection over the schedule, no enumeration).
   Part 3: a thread alone, from ANY store (stale tracker references included), returns
           Parser.parse of each of its inputs. *)
Require Import Base Decimal Tree GenParser Lexer Actions LR Parser Threads LexerProofs.
From Coq Require Import Lia.

(* ---------------------------------------------------------------- small facts *)
Lemma lexer_id_eqb_refl lx : lexer_id_eqb lx lx = true.
Proof. destruct lx; simpl; auto using Nat.eqb_refl. Qed.
Lemma tref_eqb_refl r : tref_eqb r r = true.
Proof. destruct r; simpl; rewrite ?Nat.eqb_refl; reflexivity. Qed.
Lemma lexer_id_eqb_eq a b : lexer_id_eqb a b = true -> a = b.
Proof. destruct a, b; simpl; try discriminate; auto. intros H; apply Nat.eqb_eq in H; subst; auto. Qed.
Lemma tref_eqb_eq a b : tref_eqb a b = true -> a = b.
Proof.
  destruct a, b; simpl; try discriminate.
  - intros H; apply Nat.eqb_eq in H; subst; auto.
  - intros H; apply andb_prop in H; destruct H as [H1 H2].
    apply Nat.eqb_eq in H1; apply Nat.eqb_eq in H2; subst; auto.
Qed.
Lemma pattr_eqb_eq a b : pattr_eqb a b = true -> a = b.
Proof. destruct a, b; simpl; try discriminate; auto. Qed.
Lemma pglobal_eqb_eq a b : pglobal_eqb a b = true -> a = b.
Proof. destruct a, b; simpl; try discriminate; auto. Qed.

Lemma eqb_neq_false u t : u <> t -> Nat.eqb u t = false.
Proof. intros H; apply Nat.eqb_neq; exact H. Qed.
Lemma eqb_neq_false' u t : u <> t -> Nat.eqb t u = false.
Proof. intros H; apply Nat.eqb_neq; auto. Qed.

Lemma skipn_split {A} : forall pos (s l r : list A),
  skipn pos s = l ++ r -> l <> [] ->
  skipn (pos + length l) s = r /\ firstn (pos + length l) s = firstn pos s ++ l.
Proof.
  induction pos as [|p IH]; intros s l r H Hne.
  - simpl in H. subst s. simpl. split.
    + clear Hne. induction l as [|x l IHl]; simpl; auto.
    + clear Hne. induction l as [|x l IHl]; simpl; [reflexivity|]. f_equal. exact IHl.
  - destruct s as [|x s'].
    + simpl in H. destruct l; [congruence|discriminate].
    + simpl in H. destruct (IH s' l r H Hne) as [H1 H2]. simpl. split; [exact H1|]. f_equal. exact H2.
Qed.

Lemma upd_nth_0 {A} (f : A -> A) x l : upd_nth 0 f (x :: l) = f x :: l.
Proof. reflexivity. Qed.

Definition observe (o : outcome) : option (res item) :=
  match o with Done r _ => Some r | OutOfFuel => None end.

Lemma parse_observe s : parse s = observe (parse_full s).
Proof. reflexivity. Qed.

Ltac proj := cbn [s_slot s_lexer s_tslot s_tracker s_toks s_parser s_ply fst snd set_slot set_lexer set_tslot
                  set_tracker set_toks set_parser set_ply] in *.
Ltac fin := proj; repeat split; reflexivity.
Ltac crush :=
  repeat (proj; first [ fin | match goal with |- context [match ?x with _ => _ end] =>
                                lazymatch x with
                                | context [match _ with _ => _ end] => fail
                                | _ => destruct x
                                end end ]).

(* ---------------------------------------------------------------- Part 1: sinks, any scopes *)
(* two stores that agree on everything but the sinks *)
Definition nonsink_eq (σ σ' : store) : Prop :=
  s_slot σ = s_slot σ' /\ s_lexer σ = s_lexer σ' /\ s_tslot σ = s_tslot σ' /\
  s_tracker σ = s_tracker σ' /\ s_toks σ = s_toks σ'.

Lemma sinks_never_observed sc t l σ σ' :
  nonsink_eq σ σ' ->
  fst (step sc t l σ) = fst (step sc t l σ') /\ nonsink_eq (snd (step sc t l σ)) (snd (step sc t l σ')).
Proof.
  destruct σ as [a b c d e p q], σ' as [a' b' c' d' e' p' q'].
  unfold nonsink_eq; simpl. intros (-> & -> & -> & -> & ->).
  unfold step, obtain, acquire, get_tref, set_tref, handle_token, add_tail_ref, lr_writes, start_parse.
  crush.
Qed.

(* ---------------------------------------------------------------- Part 2: the generated scopes *)
Definition same_view (t : tid) (σ σ' : store) : Prop :=
  s_slot σ t = s_slot σ' t /\
  s_lexer σ (LxThread t) = s_lexer σ' (LxThread t) /\
  s_lexer σ LxModule = s_lexer σ' LxModule /\
  (forall c, s_tracker σ (TrNew t c) = s_tracker σ' (TrNew t c)) /\
  s_toks σ t = s_toks σ' t.

Lemma same_view_refl t σ : same_view t σ σ.
Proof. unfold same_view; auto. Qed.
Lemma same_view_sym t σ σ' : same_view t σ σ' -> same_view t σ' σ.
Proof. unfold same_view; intros (A & B & C & D & E); repeat split; auto. Qed.
Lemma same_view_trans t σ1 σ2 σ3 : same_view t σ1 σ2 -> same_view t σ2 σ3 -> same_view t σ1 σ3.
Proof.
  unfold same_view; intros (A & B & C & D & E) (A' & B' & C' & D' & E'); repeat split; try congruence.
Qed.

(* the same own-write on both sides *)
Lemma view_set_lexer t σ σ' o :
  same_view t σ σ' -> same_view t (set_lexer σ (LxThread t) o) (set_lexer σ' (LxThread t) o).
Proof. unfold same_view; proj; cbn [lexer_id_eqb]; intros (A & B & C & D & E); rewrite Nat.eqb_refl; repeat split; auto. Qed.
Lemma view_set_tracker t σ σ' r x :
  same_view t σ σ' -> same_view t (set_tracker σ r x) (set_tracker σ' r x).
Proof.
  unfold same_view; proj; intros (A & B & C & D & E); repeat split; auto.
  intros; match goal with |- context [if ?b then _ else _] => destruct b end; auto.
Qed.
Lemma view_set_toks t σ σ' u b :
  same_view t σ σ' -> same_view t (set_toks σ u b) (set_toks σ' u b).
Proof.
  unfold same_view; proj; intros (A & B & C & D & E); repeat split; auto.
  destruct (Nat.eqb t u); auto.
Qed.
Lemma view_set_slot t σ σ' u :
  same_view t σ σ' -> same_view t (set_slot σ u) (set_slot σ' u).
Proof.
  unfold same_view; proj; intros (A & B & C & D & E); repeat split; auto.
  destruct (Nat.eqb t u); auto.
Qed.
Lemma view_set_parser t σ σ' a g g' :
  same_view t σ σ' -> same_view t (set_parser σ a g) (set_parser σ' a g').
Proof. unfold same_view; simpl; auto. Qed.
Lemma view_set_ply t σ σ' a g g' :
  same_view t σ σ' -> same_view t (set_ply σ a g) (set_ply σ' a g').
Proof. unfold same_view; simpl; auto. Qed.

(* writes of another thread, or to a sink, are invisible *)
Lemma frame_set_lexer t u σ o : u <> t -> same_view t σ (set_lexer σ (LxThread u) o).
Proof. intros H. unfold same_view; proj; cbn [lexer_id_eqb]. rewrite (eqb_neq_false' _ _ H). auto. Qed.
Lemma frame_set_tracker t u c σ x : u <> t -> same_view t σ (set_tracker σ (TrNew u c) x).
Proof.
  intros H. unfold same_view; proj; cbn [tref_eqb]. repeat split; auto.
  intros; rewrite (eqb_neq_false' _ _ H). reflexivity.
Qed.
Lemma frame_set_toks t u σ b : u <> t -> same_view t σ (set_toks σ u b).
Proof. intros H. unfold same_view; proj. rewrite (eqb_neq_false' _ _ H). auto. Qed.
Lemma frame_set_slot t u σ : u <> t -> same_view t σ (set_slot σ u).
Proof. intros H. unfold same_view; proj. rewrite (eqb_neq_false' _ _ H). auto. Qed.
Lemma frame_set_parser t σ a g : same_view t σ (set_parser σ a g).
Proof. unfold same_view; simpl; auto. Qed.
Lemma frame_set_ply t σ a g : same_view t σ (set_ply σ a g).
Proof. unfold same_view; simpl; auto. Qed.

Lemma lr_writes_frame t u call k σ : same_view t σ (lr_writes u call k σ).
Proof. unfold lr_writes, same_view; destruct k; simpl; auto. Qed.
Lemma lr_writes_view t u call k σ σ' : same_view t σ σ' -> same_view t (lr_writes u call k σ) (lr_writes u call k σ').
Proof. unfold lr_writes, same_view; destruct k; simpl; auto. Qed.

(* how the tracker of the current call relates to the token objects made so far *)
Definition link (t : tid) (call : nat) (tr : tracker_obj) (racc : list token) : Prop :=
  (tr_last tr = None /\ racc = []) \/
  (exists x racc', racc = x :: racc' /\ tr_last tr = Some (t, call, length racc')).

Definition finish_res (s : str) (e : option (nat * str)) (toks : list token) : option (res item) :=
  let ev0 := match toks with [] => [GDrop s] | _ => [] end in
  observe (run gen_tables e (parse_fuel toks) (init_config toks ev0)).

(* while tokenising input s: what the rest of the tokenisation and the driver will return is parse s *)
Definition lex_inv (t : tid) (call : nat) (s : str) (o : lexer_obj) (tr : tracker_obj) (b : tokbuf) : Prop :=
  lx_data o = s /\ tb_call b = call /\
  (lx_pos o = 0 -> tb_racc b = []) /\
  (0 < lx_pos o -> lx_attr o = Some (TrNew t call) /\ link t call tr (tb_racc b)) /\
  exists f raws e,
    length (skipn (lx_pos o) s) < f /\
    lex_raw f (rev (firstn (lx_pos o) s)) (lx_pos o) (skipn (lx_pos o) s) = (raws, e) /\
    finish_res s e (head_tail_fold raws (if Nat.eqb (lx_pos o) 0 then None else tr_head tr) (tb_racc b))
    = parse s.

Definition inv' (t : tid) (l : local) (o : lexer_obj) (tr : tracker_obj) (b : tokbuf) : Prop :=
  match l_phase l with
  | PAttr s _ => lx_data o = s /\ lx_pos o = 0 /\ tb_call b = length (l_done l) /\ tb_racc b = []
  | PLex s => lex_inv t (length (l_done l)) s o tr b
  | _ => True
  end.
(* depends on the thread's own objects only *)
Definition inv (t : tid) (l : local) (σ : store) : Prop :=
  inv' t l (s_lexer σ (LxThread t)) (s_tracker σ (TrNew t (length (l_done l)))) (s_toks σ t).

Lemma inv_view t l σ σ' : same_view t σ σ' -> inv t l σ -> inv t l σ'.
Proof. unfold inv. intros (A & B & C & D & E). rewrite B, D, E. auto. Qed.

(* results: finished calls, the call in progress, the calls still to make *)
Definition cur_results (l : local) : list (option (res item)) :=
  match l_phase l with
  | PIdle => []
  | PInput s | PAttr s _ | PLex s => [parse s]
  | PParse f e c => [observe (run gen_tables e f c)]
  end.
Definition future (l : local) : list (option (res item)) :=
  l_done l ++ cur_results l ++ map parse (l_todo l).

Lemma lex_raw_unfold f rp pos rest k l r :
  lex_one rp rest = Some (k, l, r) -> rest <> [] ->
  lex_raw (S f) rp pos rest =
  (let '(ts, e) := lex_raw f (rev l ++ rp) (pos + length l) r in (mkRaw k l pos :: ts, e)).
Proof.
  intros H Hne. destruct rest as [|c rest']; [congruence|].
  cbn [lex_raw]. rewrite H. reflexivity.
Qed.

(* the tracker of the call and the token objects after HeadTailLexer.handle on one raw token *)
Definition next_tr_b (t : tid) (call pos : nat) (k : rawkind) (lexeme : str) (tr : tracker_obj) (b : tokbuf)
  : tracker_obj * tokbuf :=
  let tr0 := if Nat.eqb pos 0 then mkTr None None else tr in
  match k with
  | RSep =>
      if Nat.eqb pos 0 then (mkTr (Some lexeme) (tr_last tr0), b)
      else (tr0, match tb_racc b with
                 | x :: racc' => mkTb call (add_tail x lexeme :: racc')
                 | [] => b
                 end)
  | RTok ty =>
      (mkTr None (Some (t, call, length (tb_racc b))),
       mkTb call (mkTok ty lexeme pos (match tr_head tr0 with Some h => h | None => [] end) [] :: tb_racc b))
  end.

Lemma lex_token_inv t call s o tr b k lexeme r0 :
  lex_inv t call s o tr b ->
  skipn (lx_pos o) s <> [] ->
  lex_one (rev (firstn (lx_pos o) s)) (skipn (lx_pos o) s) = Some (k, lexeme, r0) ->
  lex_inv t call s (mkLx s (lx_pos o + length lexeme) (Some (TrNew t call)))
          (fst (next_tr_b t call (lx_pos o) k lexeme tr b)) (snd (next_tr_b t call (lx_pos o) k lexeme tr b)).
Proof.
  intros (Hd & Hc & Hz & Hp & f & raws & e & Hf & Hraw & Hgoal) Hne Hone.
  destruct (lex_one_spec _ _ _ _ _ Hone) as (Hsplit & Hlne & _).
  destruct (skipn_split _ _ _ _ Hsplit Hlne) as (Hskip & Hfirst).
  destruct f as [|f']; [lia|].
  rewrite (lex_raw_unfold _ _ _ _ _ _ _ Hone Hne) in Hraw.
  destruct (lex_raw f' (rev lexeme ++ rev (firstn (lx_pos o) s)) (lx_pos o + length lexeme) r0)
    as [ts e'] eqn:Hraw'.
  inversion Hraw; subst raws e; clear Hraw.
  assert (Hlen : 0 < length lexeme) by (destruct lexeme; [congruence|simpl; lia]).
  assert (Hposne : Nat.eqb (lx_pos o + length lexeme) 0 = false) by (apply Nat.eqb_neq; lia).
  assert (Hrest : exists f raws e,
             length (skipn (lx_pos o + length lexeme) s) < f /\
             lex_raw f (rev (firstn (lx_pos o + length lexeme) s)) (lx_pos o + length lexeme)
                     (skipn (lx_pos o + length lexeme) s) = (raws, e) /\ raws = ts /\ e = e').
  { exists f', ts, e'. rewrite Hskip, Hfirst, rev_app_distr. repeat split; auto.
    rewrite Hsplit, app_length in Hf. lia. }
  cbn [head_tail_fold rk_kind rk_pos rk_lexeme] in Hgoal.
  unfold lex_inv. cbn [lx_data lx_pos lx_attr]. rewrite Hposne.
  unfold next_tr_b.
  destruct (Nat.eqb (lx_pos o) 0) eqn:Hpos0.
  - (* first raw token of the input: the tracker was just created *)
    apply Nat.eqb_eq in Hpos0. specialize (Hz Hpos0). rewrite Hz in *.
    destruct k as [|ty]; cbn [fst snd tb_call tb_racc tr_head tr_last].
    + split; [reflexivity|]. split; [exact Hc|]. split; [intros; lia|]. split.
      * intros _. split; [reflexivity|]. left. rewrite Hz. auto.
      * destruct Hrest as (f1 & raws1 & e1 & H1 & H2 & -> & ->). exists f1, ts, e'. repeat split; auto.
        rewrite Hz. exact Hgoal.
    + split; [reflexivity|]. split; [reflexivity|]. split; [intros; lia|]. split.
      * intros _. split; [reflexivity|]. right. exists (mkTok ty lexeme (lx_pos o) [] []), []. auto.
      * destruct Hrest as (f1 & raws1 & e1 & H1 & H2 & -> & ->). exists f1, ts, e'. repeat split; auto.
  - apply Nat.eqb_neq in Hpos0. assert (Hpos : 0 < lx_pos o) by lia.
    destruct (Hp Hpos) as (Hattr & Hlink).
    destruct k as [|ty]; cbn [fst snd tb_call tb_racc tr_head tr_last].
    + destruct Hlink as [(Hlast & Hracc)|(x & racc' & Hracc & Hlast)]; rewrite Hracc in *.
      * split; [reflexivity|]. split; [exact Hc|]. split; [intros; lia|]. split.
        -- intros _. split; [reflexivity|]. left. auto.
        -- destruct Hrest as (f1 & raws1 & e1 & H1 & H2 & -> & ->). exists f1, ts, e'. repeat split; auto.
           rewrite Hracc. exact Hgoal.
      * cbn [tb_call tb_racc]. split; [reflexivity|]. split; [reflexivity|]. split; [intros; lia|]. split.
        -- intros _. split; [reflexivity|]. right. exists (add_tail x lexeme), racc'. auto.
        -- destruct Hrest as (f1 & raws1 & e1 & H1 & H2 & -> & ->). exists f1, ts, e'. repeat split; auto.
    + split; [reflexivity|]. split; [reflexivity|]. split; [intros; lia|]. split.
      * intros _. split; [reflexivity|]. right. exists (mkTok ty lexeme (lx_pos o)
            (match tr_head tr with Some h => h | None => [] end) []), (tb_racc b). auto.
      * destruct Hrest as (f1 & raws1 & e1 & H1 & H2 & -> & ->). exists f1, ts, e'. repeat split; auto.
Qed.

Lemma handle_token_frame t u call c k lexeme pos σ :
  u <> t ->
  (Nat.eqb pos 0 = false ->
   tr_last (s_tracker σ (TrNew u c)) = None \/ exists i, tr_last (s_tracker σ (TrNew u c)) = Some (u, call, i)) ->
  same_view t σ (handle_token u call (TrNew u c) k lexeme pos σ).
Proof.
  intros Hne Hlast. unfold handle_token. destruct k as [|ty].
  - destruct (Nat.eqb pos 0) eqn:Hp; [apply frame_set_tracker; exact Hne|].
    destruct (Hlast eq_refl) as [->|[i ->]]; [apply same_view_refl|].
    unfold add_tail_ref. destruct (_ && _); [apply frame_set_toks; exact Hne|apply same_view_refl].
  - eapply same_view_trans; [apply frame_set_tracker; exact Hne|apply frame_set_toks; exact Hne].
Qed.

Lemma handle_token_view t call c k lexeme pos σ σ' :
  same_view t σ σ' ->
  (Nat.eqb pos 0 = false ->
   tr_last (s_tracker σ (TrNew t c)) = None \/ exists i, tr_last (s_tracker σ (TrNew t c)) = Some (t, call, i)) ->
  same_view t (handle_token t call (TrNew t c) k lexeme pos σ) (handle_token t call (TrNew t c) k lexeme pos σ').
Proof.
  intros Hv Hlast. pose proof Hv as (A & B & C & D & E).
  unfold handle_token. rewrite <- (D c), <- E. destruct k as [|ty].
  - destruct (Nat.eqb pos 0) eqn:Hp; [apply view_set_tracker; exact Hv|].
    destruct (Hlast eq_refl) as [->|[i ->]]; [exact Hv|].
    unfold add_tail_ref. rewrite <- E. destruct (_ && _); [apply view_set_toks; exact Hv|exact Hv].
  - apply view_set_toks. apply view_set_tracker. exact Hv.
Qed.

Section GoodScopes.
Variable sc : scopes.
Hypothesis Hlx : sc_lexer sc = LexerCloneInThreadLocal.
Hypothesis Htr : sc_tracker sc = TrackerOnTokenLexerResetAtPos0.

Lemma lexer_of_good t : lexer_of sc t = LxThread t.
Proof. unfold lexer_of; rewrite Hlx; reflexivity. Qed.

Lemma link_last t call tr racc :
  link t call tr racc -> tr_last tr = None \/ exists i, tr_last tr = Some (t, call, i).
Proof. intros [[H _]|(x & r & _ & H)]; [left; exact H|right; eexists; exact H]. Qed.

(* L2: a step of another thread does not touch the view of t *)
Lemma step_frame t u l σ : u <> t -> inv u l σ -> same_view t σ (snd (step sc u l σ)).
Proof.
  intros Hne Hinv. unfold step. rewrite lexer_of_good.
  unfold inv, inv' in Hinv.
  destruct (l_phase l) as [|s|s a|s|fuel e c]; cbn [snd].
  - destruct (l_todo l); cbn [snd]; [apply same_view_refl|].
    unfold obtain. rewrite Hlx. destruct (s_slot σ u); [apply same_view_refl|].
    eapply same_view_trans; [apply frame_set_lexer; exact Hne|apply frame_set_slot; exact Hne].
  - eapply same_view_trans; [apply frame_set_lexer; exact Hne|apply frame_set_toks; exact Hne].
  - apply frame_set_parser.
  - destruct Hinv as (Hd & Hc & Hz & Hp & _).
    destruct (skipn _ _) eqn:Hrest; cbn [snd]; [apply frame_set_lexer; exact Hne|].
    destruct (lex_one _ _) as [[[k lexeme] r0]|]; cbn [snd]; [|apply same_view_refl].
    unfold acquire, get_tref, set_tref. rewrite Htr.
    destruct (Nat.eqb (lx_pos (s_lexer σ (LxThread u))) 0) eqn:Hpos.
    + cbn [snd]. eapply same_view_trans; [apply frame_set_lexer; exact Hne|].
      eapply same_view_trans; [apply frame_set_tracker; exact Hne|].
      eapply same_view_trans; [apply frame_set_lexer; exact Hne|].
      apply handle_token_frame; [exact Hne|]. intros Hc'. rewrite Hpos in Hc'. discriminate.
    + proj. cbn [lexer_id_eqb]. rewrite Nat.eqb_refl. cbn [lx_attr].
      apply Nat.eqb_neq in Hpos.
      destruct Hp as (Hattr & Hlink); [lia|]. rewrite Hattr. cbn [snd].
      eapply same_view_trans; [apply frame_set_lexer; exact Hne|].
      apply handle_token_frame; [exact Hne|]. intros _. proj. apply (link_last _ _ _ _ Hlink).
  - destruct fuel; cbn [snd]; [apply same_view_refl|].
    destruct (LR.step gen_tables e c); cbn [snd]; apply lr_writes_frame.
Qed.

(* L1: the view of t determines its step *)
Lemma step_view t l σ σ' :
  inv t l σ -> same_view t σ σ' ->
  fst (step sc t l σ) = fst (step sc t l σ') /\ same_view t (snd (step sc t l σ)) (snd (step sc t l σ')).
Proof.
  intros Hinv Hv. pose proof Hv as (A & B & C & D & E).
  unfold step. rewrite lexer_of_good. unfold inv, inv' in Hinv.
  destruct (l_phase l) as [|s|s a|s|fuel e c].
  - destruct (l_todo l); cbn [fst snd]; [split; [reflexivity|exact Hv]|].
    split; [reflexivity|]. unfold obtain. rewrite Hlx, <- A, <- C.
    destruct (s_slot σ t); [exact Hv|]. apply view_set_slot. apply view_set_lexer. exact Hv.
  - cbn [fst snd]. split; [reflexivity|]. rewrite <- B. apply view_set_toks. apply view_set_lexer. exact Hv.
  - cbn [fst snd]. split; [reflexivity|]. apply view_set_parser. exact Hv.
  - rewrite <- B. unfold start_parse. rewrite <- E.
    destruct Hinv as (Hd & Hc & Hz & Hp & _).
    destruct (skipn _ _) eqn:Hrest; cbn [fst snd].
    { split; [reflexivity|]. apply view_set_lexer. exact Hv. }
    destruct (lex_one _ _) as [[[k lexeme] r0]|]; cbn [fst snd]; [|split; [reflexivity|exact Hv]].
    unfold acquire, get_tref, set_tref. rewrite Htr.
    destruct (Nat.eqb (lx_pos (s_lexer σ (LxThread t))) 0) eqn:Hpos.
    + cbn [fst snd]. split; [reflexivity|].
      proj. cbn [lexer_id_eqb]. rewrite Nat.eqb_refl.
      apply handle_token_view.
      * apply view_set_lexer. apply view_set_tracker. apply view_set_lexer. exact Hv.
      * intros Hc'. rewrite Hpos in Hc'. discriminate.
    + proj. cbn [lexer_id_eqb]. rewrite Nat.eqb_refl. cbn [lx_attr].
      apply Nat.eqb_neq in Hpos.
      destruct Hp as (Hattr & Hlink); [lia|]. rewrite Hattr. cbn [fst snd].
      split; [reflexivity|].
      apply handle_token_view; [apply view_set_lexer; exact Hv|].
      intros _. proj. apply (link_last _ _ _ _ Hlink).
  - destruct fuel; cbn [fst snd]; [split; [reflexivity|exact Hv]|].
    destruct (LR.step gen_tables e c); cbn [fst snd]; (split; [reflexivity|apply lr_writes_view; exact Hv]).
Qed.

Lemma lex_inv_start t call s o tr b :
  lx_data o = s -> lx_pos o = 0 -> tb_call b = call -> tb_racc b = [] -> lex_inv t call s o tr b.
Proof.
  intros Hd Hp Hc Hr. unfold lex_inv. rewrite Hp, Hr. cbn [Nat.eqb firstn skipn rev].
  split; [exact Hd|]. split; [exact Hc|]. split; [reflexivity|]. split; [intros; lia|].
  destruct (lex_raw (S (length s)) [] 0 s) as [raws e] eqn:Hraw.
  exists (S (length s)), raws, e. split; [lia|]. split; [exact Hraw|].
  unfold finish_res, parse, parse_full, parse_with, lex. rewrite Hraw. reflexivity.
Qed.

(* L3: the invariant of t is kept by its own steps *)
Lemma step_inv t l σ : inv t l σ -> inv t (fst (step sc t l σ)) (snd (step sc t l σ)).
Proof.
  intros Hinv. unfold step. rewrite lexer_of_good. unfold inv, inv' in Hinv. unfold inv, inv'.
  destruct (l_phase l) as [|s|s a|s|fuel e c] eqn:Hph.
  - destruct (l_todo l); cbn [fst snd l_phase]; [rewrite Hph|]; exact I.
  - cbn [fst snd set_phase l_phase l_done]. proj. cbn [lexer_id_eqb]. rewrite !Nat.eqb_refl.
    cbn [lx_data lx_pos tb_call tb_racc]. auto.
  - cbn [fst snd set_phase l_phase l_done]. proj.
    destruct Hinv as (Hd & Hp & Hc & Hr).
    destruct a; cbn [next_attr]; auto; apply lex_inv_start; auto.
  - pose proof Hinv as (Hd & Hc & Hz & Hp & _).
    destruct (skipn (lx_pos (s_lexer σ (LxThread t))) (lx_data (s_lexer σ (LxThread t)))) eqn:Hrest; cbn [fst snd set_phase l_phase]; [exact I|].
    destruct (lex_one _ _) as [[[k lexeme] r0]|] eqn:Hone; cbn [fst snd set_phase l_phase]; [|exact I].
    rewrite Hd in Hrest, Hone.
    assert (Hne : skipn (lx_pos (s_lexer σ (LxThread t))) s <> []) by (rewrite Hrest; discriminate).
    rewrite <- Hrest in Hone.
    pose proof (lex_token_inv _ _ _ _ _ _ _ _ _ Hinv Hne Hone) as Hnew.
    unfold acquire, get_tref, set_tref. rewrite Htr.
    unfold next_tr_b in Hnew.
    destruct (Nat.eqb (lx_pos (s_lexer σ (LxThread t))) 0) eqn:Hpos.
    + cbn [fst snd]. rewrite Hph.
      unfold handle_token. proj. cbn [lexer_id_eqb]. rewrite !Nat.eqb_refl, !tref_eqb_refl.
      cbn [lx_data lx_pos lx_attr tr_head tr_last] in *.
      destruct k as [|ty]; rewrite ?Hpos; proj; cbn [lexer_id_eqb fst snd] in *;
        rewrite ?Nat.eqb_refl, ?tref_eqb_refl; rewrite Hd; exact Hnew.
    + proj. cbn [lexer_id_eqb]. rewrite Nat.eqb_refl. cbn [lx_attr].
      apply Nat.eqb_neq in Hpos.
      destruct Hp as (Hattr & Hlink); [lia|]. rewrite Hattr. cbn [fst snd]. rewrite Hph.
      assert (Hpos' : Nat.eqb (lx_pos (s_lexer σ (LxThread t))) 0 = false) by (apply Nat.eqb_neq; exact Hpos).
      unfold handle_token. proj. cbn [lexer_id_eqb]. rewrite Hpos'.
      destruct k as [|ty]; cbn [fst snd] in Hnew.
      * destruct Hlink as [(Hlast & Hracc)|(x & racc' & Hracc & Hlast)]; rewrite Hlast.
        -- proj. cbn [lexer_id_eqb]. rewrite Nat.eqb_refl. rewrite Hracc in Hnew. rewrite ?Hd, ?Hattr.
           exact Hnew.
        -- unfold add_tail_ref. proj. rewrite Hc, Hracc. cbn [length].
           rewrite Nat.eqb_refl. replace (Nat.ltb (length racc') (S (length racc'))) with true
             by (symmetry; apply Nat.ltb_lt; lia).
           cbn [andb]. replace (S (length racc') - 1 - length racc') with 0 by lia.
           cbn [upd_nth]. proj. cbn [lexer_id_eqb]. rewrite !Nat.eqb_refl.
           rewrite Hracc in Hnew. rewrite ?Hd, ?Hattr. exact Hnew.
      * proj. cbn [lexer_id_eqb]. rewrite !Nat.eqb_refl, !tref_eqb_refl. rewrite ?Hd, ?Hattr. exact Hnew.
  - destruct fuel; cbn [fst snd finish l_phase]; [exact I|].
    destruct (LR.step gen_tables e c); cbn [fst snd finish set_phase l_phase]; exact I.
Qed.

Lemma run_S tb e f c :
  observe (run tb e (S f) c) =
  match LR.step tb e c with Final r _ => Some r | Next c' => observe (run tb e f c') end.
Proof. cbn [run]. destruct (LR.step tb e c); reflexivity. Qed.

(* what the thread will have returned in the end does not change along its own steps *)
Lemma step_future t l σ : inv t l σ -> future (fst (step sc t l σ)) = future l.
Proof.
  intros Hinv. unfold step. rewrite lexer_of_good. unfold inv, inv' in Hinv. unfold future, cur_results.
  destruct (l_phase l) as [|s|s a|s|fuel e c] eqn:Hph.
  - destruct (l_todo l) eqn:Htodo; cbn [fst l_phase l_done l_todo]; [rewrite Hph, Htodo; reflexivity|].
    reflexivity.
  - reflexivity.
  - cbn [fst set_phase l_phase l_done l_todo]. destruct a; reflexivity.
  - destruct Hinv as (Hd & Hc & Hz & Hp & f & raws & e & Hf & Hraw & Hgoal).
    rewrite Hd.
    destruct (skipn (lx_pos (s_lexer σ (LxThread t))) s) as [|c0 rest'] eqn:Hrest.
    + cbn [fst set_phase l_phase l_done l_todo]. unfold start_parse.
      destruct f as [|f']; [simpl in Hf; lia|]. cbn [lex_raw] in Hraw. inversion Hraw; subst raws e.
      cbn [head_tail_fold] in Hgoal. unfold finish_res in Hgoal. rewrite <- Hgoal. reflexivity.
    + destruct (lex_one _ _) as [[[k lexeme] r0]|] eqn:Hone.
      * unfold acquire, get_tref. rewrite Htr.
        destruct (Nat.eqb (lx_pos (s_lexer σ (LxThread t))) 0) eqn:Hpos.
        -- cbn [fst]. rewrite Hph. reflexivity.
        -- proj. cbn [lexer_id_eqb]. rewrite Nat.eqb_refl. cbn [lx_attr].
           apply Nat.eqb_neq in Hpos. destruct Hp as (Hattr & _); [lia|]. rewrite Hattr.
           cbn [fst]. rewrite Hph. reflexivity.
      * cbn [fst set_phase l_phase l_done l_todo]. unfold start_parse.
        destruct f as [|f']; [lia|]. cbn [lex_raw] in Hraw. rewrite Hone in Hraw.
        inversion Hraw; subst raws e.
        cbn [head_tail_fold] in Hgoal. unfold finish_res in Hgoal. rewrite <- Hgoal. reflexivity.
  - destruct fuel as [|f].
    + cbn [fst finish l_phase l_done l_todo run observe]. rewrite <- app_assoc. reflexivity.
    + rewrite run_S. destruct (LR.step gen_tables e c); cbn [fst finish set_phase l_phase l_done l_todo].
      * reflexivity.
      * rewrite <- app_assoc. reflexivity.
Qed.

Lemma solo_S t k l σ :
  solo sc t (S k) l σ = solo sc t k (fst (step sc t l σ)) (snd (step sc t l σ)).
Proof. reflexivity. Qed.

Lemma solo_inv t : forall k l σ, inv t l σ ->
  inv t (fst (solo sc t k l σ)) (snd (solo sc t k l σ)) /\ future (fst (solo sc t k l σ)) = future l.
Proof.
  induction k as [|k IH]; intros l σ Hinv; [split; [exact Hinv|reflexivity]|].
  rewrite solo_S. destruct (IH _ _ (step_inv t l σ Hinv)) as [H1 H2].
  split; [exact H1|]. rewrite H2. apply step_future. exact Hinv.
Qed.

Lemma solo_view t : forall k l σ σ', inv t l σ -> same_view t σ σ' ->
  fst (solo sc t k l σ) = fst (solo sc t k l σ') /\
  same_view t (snd (solo sc t k l σ)) (snd (solo sc t k l σ')).
Proof.
  induction k as [|k IH]; intros l σ σ' Hinv Hv; [split; [reflexivity|exact Hv]|].
  rewrite !solo_S. destruct (step_view t l σ σ' Hinv Hv) as [H1 H2]. rewrite <- H1.
  apply IH; [apply step_inv; exact Hinv|exact H2].
Qed.

Definition all_inv (w : world) : Prop := forall u, inv u (w_locals w u) (w_store w).

Lemma step_thread_all_inv t w : all_inv w -> all_inv (step_thread sc t w).
Proof.
  intros Hall u. unfold step_thread. cbn [w_locals w_store].
  destruct (Nat.eqb u t) eqn:Hut.
  - apply Nat.eqb_eq in Hut. subst u. apply step_inv. apply Hall.
  - apply Nat.eqb_neq in Hut.
    apply (inv_view u _ (w_store w)); [|apply Hall].
    apply step_frame; [auto|apply Hall].
Qed.

(* projection: under ANY schedule, thread t does what it does alone in as many turns *)
Lemma projection t : forall sched w, all_inv w ->
  w_locals (run_threads sc sched w) t = fst (solo sc t (turns t sched) (w_locals w t) (w_store w)) /\
  same_view t (w_store (run_threads sc sched w)) (snd (solo sc t (turns t sched) (w_locals w t) (w_store w))).
Proof.
  induction sched as [|u sched IH]; intros w Hall; [split; [reflexivity|apply same_view_refl]|].
  cbn [run_threads turns].
  destruct (IH _ (step_thread_all_inv u w Hall)) as [H1 H2].
  rewrite H1. unfold step_thread in H2 |- *. cbn [w_locals w_store] in H2 |- *.
  destruct (Nat.eqb u t) eqn:Hut.
  - apply Nat.eqb_eq in Hut. subst u. rewrite Nat.eqb_refl in H2 |- *.
    cbn [Nat.add]. rewrite solo_S. split; [reflexivity|exact H2].
  - rewrite Nat.eqb_sym in Hut. rewrite Hut in H2 |- *. cbn [Nat.add].
    apply Nat.eqb_neq in Hut.
    destruct (solo_view t (turns t sched) (w_locals w t) (w_store w)
                (snd (step sc u (w_locals w u) (w_store w))) (Hall t)) as [E1 E2].
    { apply step_frame; [auto|apply Hall]. }
    split; [symmetry; exact E1|].
    eapply same_view_trans; [exact H2|]. apply same_view_sym. exact E2.
Qed.

Lemma init_all_inv inputs σ : all_inv (init_world inputs σ).
Proof. intros u. unfold inv, inv', init_world, init_local. cbn. exact I. Qed.

Lemma finished_future l : finished l = true -> future l = l_done l.
Proof.
  unfold finished, future, cur_results. destruct (l_phase l); try discriminate.
  destruct (l_todo l); [|discriminate]. intros _. cbn. rewrite app_nil_r. reflexivity.
Qed.

(* every result a thread has obtained so far, under any schedule, is the sequential one *)
Theorem results_so_far inputs σ sched t :
  future (w_locals (run_threads sc sched (init_world inputs σ)) t) = map parse (inputs t).
Proof.
  destruct (projection t sched _ (init_all_inv inputs σ)) as [H1 _]. rewrite H1.
  cbn [init_world w_locals w_store].
  destruct (solo_inv t (turns t sched) (init_local (inputs t)) σ) as [_ H2].
  { unfold inv, inv', init_local. cbn. exact I. }
  rewrite H2. unfold future, cur_results, init_local. cbn. reflexivity.
Qed.

Theorem interleaving_independent inputs σ sched t :
  enough_turns sc inputs σ sched t = true ->
  outcomes (run_threads sc sched (init_world inputs σ)) t = map parse (inputs t).
Proof.
  intros Hen. unfold outcomes. rewrite <- (results_so_far inputs σ sched t).
  symmetry. apply finished_future.
  destruct (projection t sched _ (init_all_inv inputs σ)) as [H1 _]. rewrite H1. exact Hen.
Qed.

(* alone, from any store *)
Theorem solo_parse t inputs σ k :
  finished (fst (solo sc t k (init_local inputs) σ)) = true ->
  l_done (fst (solo sc t k (init_local inputs) σ)) = map parse inputs.
Proof.
  intros Hfin. rewrite <- (finished_future _ Hfin).
  destruct (solo_inv t k (init_local inputs) σ) as [_ H2].
  { unfold inv, inv', init_local. cbn. exact I. }
  rewrite H2. unfold future, cur_results, init_local. cbn. reflexivity.
Qed.

End GoodScopes.

(* ---------------------------------------------------------------- footprints *)
Ltac eqb_subst :=
  repeat match goal with
  | H : Nat.eqb _ _ = true |- _ => apply Nat.eqb_eq in H
  | H : lexer_id_eqb _ _ = true |- _ => apply lexer_id_eqb_eq in H
  | H : tref_eqb _ _ = true |- _ => apply tref_eqb_eq in H
  | H : pattr_eqb _ _ = true |- _ => apply pattr_eqb_eq in H
  | H : pglobal_eqb _ _ = true |- _ => apply pglobal_eqb_eq in H
  end; subst.

Ltac norm_some :=
  cbn [lx_attr lx_data lx_pos tr_head tr_last] in *;
  repeat match goal with
  | H : Some _ = Some _ |- _ => inversion H; clear H; subst
  | H1 : ?a = Some _, H2 : ?a = Some _ |- _ => rewrite H1 in H2
  | H1 : ?a = Some _, H2 : ?a = None |- _ => rewrite H1 in H2; discriminate
  end.

Ltac split_innermost :=
  match goal with |- context [match ?y with _ => _ end] =>
    lazymatch y with
    | context [match _ with _ => _ end] => fail
    | _ => destruct y eqn:?
    end end.

(* the declared write set is complete, for ANY scopes: every other location keeps its value *)
Lemma writes_sound sc t l σ x : ~ In x (writes sc t l σ) -> sel x (snd (step sc t l σ)) = sel x σ.
Proof.
  unfold writes, step, obtain, acquire, get_tref, set_tref, handle_token, add_tail_ref, lr_writes, start_parse,
         token_writes, lr_write_locs, tref_loc, lexer_locs, tracker_locs, sel.
  repeat (proj; split_innermost);
    proj; intros Hnot; try reflexivity;
    eqb_subst; try (cbn; reflexivity); try (cbn; congruence);
    norm_some; try discriminate; try congruence; try (exfalso; apply Hnot; cbn; tauto).
Qed.

Section GoodFootprints.
Variable sc : scopes.
Hypothesis Hlx : sc_lexer sc = LexerCloneInThreadLocal.
Hypothesis Htr : sc_tracker sc = TrackerOnTokenLexerResetAtPos0.

Ltac in_cases :=
  cbn [In app lexer_locs tracker_locs token_writes token_reads lr_write_locs lr_read_locs];
  intuition (subst; cbn [owned sink module_lexer_loc]; rewrite ?Nat.eqb_refl; auto).

(* under the generated scopes a step writes only objects of its own thread, and sinks *)
Lemma writes_owned t l σ x :
  inv t l σ -> In x (writes sc t l σ) -> owned t x = true \/ sink x = true.
Proof.
  intros Hinv. unfold writes. rewrite (lexer_of_good sc Hlx). unfold inv, inv' in Hinv.
  destruct (l_phase l) as [|s|s a|s|fuel e c].
  - destruct (l_todo l); [contradiction|]. rewrite Hlx. destruct (s_slot σ t); [contradiction|]. in_cases.
  - in_cases.
  - in_cases.
  - destruct Hinv as (Hd & Hc & Hz & Hp & _).
    destruct (skipn _ _); [in_cases|]. destruct (lex_one _ _) as [[[k lexeme] r0]|]; [|in_cases].
    unfold get_tref, tref_loc. rewrite Htr.
    destruct (Nat.eqb (lx_pos (s_lexer σ (LxThread t))) 0) eqn:Hpos.
    + destruct k; cbn [token_writes]; rewrite ?Hpos; in_cases.
    + apply Nat.eqb_neq in Hpos. destruct Hp as (Hattr & Hlink); [lia|]. rewrite Hattr.
      assert (Hpos' : Nat.eqb (lx_pos (s_lexer σ (LxThread t))) 0 = false) by (apply Nat.eqb_neq; exact Hpos).
      destruct k; cbn [token_writes]; rewrite ?Hpos'; [|in_cases].
      destruct (link_last _ _ _ _ Hlink) as [->|[i ->]]; in_cases.
  - destruct fuel; [contradiction|]. destruct (lr_kind e c); in_cases.
Qed.

(* ... and reads only objects of its own thread, the module lexer (while cloning), and the sink
   `parser.token` (copied into another sink) *)
Lemma reads_owned t l σ x :
  inv t l σ -> In x (reads sc t l σ) ->
  owned t x = true \/ module_lexer_loc x = true \/ x = LParser AToken.
Proof.
  intros Hinv. unfold reads. rewrite (lexer_of_good sc Hlx). unfold inv, inv' in Hinv.
  destruct (l_phase l) as [|s|s a|s|fuel e c].
  - destruct (l_todo l); [contradiction|]. rewrite Hlx. destruct (s_slot σ t); in_cases.
  - contradiction.
  - contradiction.
  - destruct Hinv as (Hd & Hc & Hz & Hp & _).
    destruct (skipn _ _); [in_cases|]. destruct (lex_one _ _) as [[[k lexeme] r0]|]; [|in_cases].
    unfold get_tref, tref_loc. rewrite Htr.
    destruct (Nat.eqb (lx_pos (s_lexer σ (LxThread t))) 0) eqn:Hpos.
    + destruct k; cbn [token_reads]; rewrite ?Hpos; in_cases.
    + apply Nat.eqb_neq in Hpos. destruct Hp as (Hattr & Hlink); [lia|]. rewrite Hattr.
      assert (Hpos' : Nat.eqb (lx_pos (s_lexer σ (LxThread t))) 0 = false) by (apply Nat.eqb_neq; exact Hpos).
      destruct k; cbn [token_reads]; rewrite ?Hpos'; [|in_cases].
      destruct (link_last _ _ _ _ Hlink) as [->|[i ->]]; in_cases.
  - destruct fuel; [contradiction|]. destruct (lr_kind e c); in_cases.
Qed.

Lemma owned_unique t u x : owned t x = true -> owned u x = true -> t = u.
Proof.
  destruct x as [v|[|v] f| |[n|v c] f|v|a|g]; cbn [owned]; try discriminate;
    intros H1 H2; apply Nat.eqb_eq in H1; apply Nat.eqb_eq in H2; congruence.
Qed.
Lemma owned_not_shared t x : owned t x = true -> module_lexer_loc x = false /\ sink x = false.
Proof. destruct x as [v|[|v] f| |[n|v c] f|v|a|g]; cbn; try discriminate; auto. Qed.

(* (1) footprints of steps of different threads meet only in sinks and in the module lexer, which
   neither of them writes *)
Theorem footprints_disjoint t u lt lu σ x :
  t <> u -> inv t lt σ -> inv u lu σ ->
  In x (reads sc t lt σ ++ writes sc t lt σ) -> In x (reads sc u lu σ ++ writes sc u lu σ) ->
  sink x = true \/
  (module_lexer_loc x = true /\ ~ In x (writes sc t lt σ) /\ ~ In x (writes sc u lu σ)).
Proof.
  intros Hne It Iu Ht Hu.
  assert (Ct : owned t x = true \/ module_lexer_loc x = true \/ sink x = true).
  { apply in_app_or in Ht. destruct Ht as [Ht|Ht].
    - destruct (reads_owned _ _ _ _ It Ht) as [H|[H| ->]]; auto.
    - destruct (writes_owned _ _ _ _ It Ht); auto. }
  assert (Cu : owned u x = true \/ module_lexer_loc x = true \/ sink x = true).
  { apply in_app_or in Hu. destruct Hu as [Hu|Hu].
    - destruct (reads_owned _ _ _ _ Iu Hu) as [H|[H| ->]]; auto.
    - destruct (writes_owned _ _ _ _ Iu Hu); auto. }
  destruct Ct as [Ot|[Mt|St]]; [|right|left; exact St].
  - destruct Cu as [Ou|[Mu|Su]]; [|right|left; exact Su].
    + exfalso. apply Hne. apply (owned_unique _ _ _ Ot Ou).
    + destruct (owned_not_shared _ _ Ot) as [H _]. congruence.
  - split; [exact Mt|]. split; intros Hw.
    + destruct (writes_owned _ _ _ _ It Hw) as [H|H].
      * destruct (owned_not_shared _ _ H) as [H' _]. congruence.
      * destruct x as [v|[|v] f| |r f|v|a|g]; cbn in *; discriminate.
    + destruct (writes_owned _ _ _ _ Iu Hw) as [H|H].
      * destruct (owned_not_shared _ _ H) as [H' _]. congruence.
      * destruct x as [v|[|v] f| |r f|v|a|g]; cbn in *; discriminate.
Qed.

(* the tracker reference a clone inherits from the module lexer, and any tracker made by another
   thread, is never dereferenced *)
Theorem foreign_tracker_never_touched t l σ r f :
  inv t l σ -> (forall c, r <> TrNew t c) ->
  ~ In (LTracker r f) (reads sc t l σ ++ writes sc t l σ).
Proof.
  intros Hinv Hr Hin. apply in_app_or in Hin.
  assert (H : owned t (LTracker r f) = true).
  { destruct Hin as [Hin|Hin].
    - destruct (reads_owned _ _ _ _ Hinv Hin) as [H|[H|H]]; [exact H|discriminate|discriminate].
    - destruct (writes_owned _ _ _ _ Hinv Hin) as [H|H]; [exact H|discriminate]. }
  destruct r as [n|v c]; cbn in H; [discriminate|]. apply Nat.eqb_eq in H. subst v. apply (Hr c). reflexivity.
Qed.

End GoodFootprints.

(* ---------------------------------------------------------------- reachable worlds, schedules *)
Lemma run_all_inv sc (Hlx : sc_lexer sc = LexerCloneInThreadLocal)
      (Htr : sc_tracker sc = TrackerOnTokenLexerResetAtPos0) :
  forall sched w, all_inv w -> all_inv (run_threads sc sched w).
Proof.
  induction sched as [|u sched IH]; intros w H; [exact H|].
  cbn [run_threads]. apply IH. apply step_thread_all_inv; assumption.
Qed.

Lemma firstn_length_app {A} (a b : list A) : firstn (length a) (a ++ b) = a.
Proof. induction a as [|x a IH]; cbn; [destruct b; reflexivity|]. f_equal. exact IH. Qed.

(* a scheduled turn of a finished thread is a no-op, for any scopes *)
Lemma finished_noop sc t l σ : finished l = true -> step sc t l σ = (l, σ).
Proof.
  unfold finished, step. destruct (l_phase l); try discriminate.
  destruct (l_todo l); [reflexivity|discriminate].
Qed.

Lemma turns_app t a b : turns t (a ++ b) = turns t a + turns t b.
Proof. induction a as [|x a IH]; cbn [app turns]; [reflexivity|]. rewrite IH. lia. Qed.
Lemma turns_repeat t u k : turns t (repeat u k) = if Nat.eqb u t then k else 0.
Proof.
  induction k as [|k IH]; cbn [repeat turns]; [destruct (Nat.eqb u t); reflexivity|].
  rewrite IH. destruct (Nat.eqb u t); lia.
Qed.
Lemma turns_sequential_notin t k : forall order, ~ In t order -> turns t (sequential order k) = 0.
Proof.
  induction order as [|u order IH]; intros Hn; [reflexivity|].
  unfold sequential in *. cbn [flat_map]. rewrite turns_app, turns_repeat.
  rewrite IH by (intros H; apply Hn; right; exact H).
  destruct (Nat.eqb u t) eqn:E; [|lia]. apply Nat.eqb_eq in E. exfalso. apply Hn. left. exact E.
Qed.
Lemma turns_sequential t k : forall order, NoDup order -> In t order -> turns t (sequential order k) = k.
Proof.
  induction order as [|u order IH]; intros Hnd Hin; [contradiction|].
  unfold sequential in *. cbn [flat_map]. rewrite turns_app, turns_repeat.
  inversion Hnd as [|? ? Hnotin Hnd']; subst.
  destruct Hin as [->|Hin].
  - rewrite Nat.eqb_refl. fold (sequential order k). rewrite (turns_sequential_notin t k order Hnotin). lia.
  - destruct (Nat.eqb u t) eqn:E.
    + apply Nat.eqb_eq in E. subst u. contradiction.
    + rewrite (IH Hnd' Hin). lia.
Qed.
