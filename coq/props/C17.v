(* C17 — HTML marking wraps exactly the marked elements' text and keeps the query intact.
   Only statements, `exact`-closed theorems, non-vacuity examples and Print Assumptions.
   Model: model/Marker.v (faithful tree-level `mark` / `html`, segment-level `mark_segs`, specification
   `owner_class`); lemmas: proofs/MarkerProofs.v.  clone_item, print and the class / method tables are
   the shared, generated ones, so the theorems are re-checked against what the code says now.

   Property text -> statements
     "removing the inserted elements from the output gives back the original query text exactly"
          C17_segments_are_output   the flat HTML string IS the flattening of the segments
          C17_strip_gives_copy      texts = the text of the default transformer's copy (all trees)
          C17_strip_gives_text      texts = the text of the input tree: REFUTED on arbitrary trees
                                    (a Boost whose `force` attribute was overwritten with a non-normalised
                                    Decimal), proved under the narrowest guard `force_stable` (_partial);
                                    parsed queries and trees built with the constructors satisfy the guard
     "the inserted elements are properly nested"
          C17_nested
     "each character ... the class of the innermost marked sub-expression whose text (surrounding
      whitespace included) contains it"
          C17_classes_of_copy       against owner_class of the copy (all trees, both modes)
          C17_classes               against owner_class of the input: REFUTED / _partial as above
          C17_owner_class_is_innermost_marked   owner_class = map innermost_marked char_owners
     "The parsimonious mode changes only how many elements are emitted, never the class ..."
          C17_parsimony             (all trees; also the text is the same)
   The property speaks of disjoint path sets; the code gives paths_ok precedence and the statements
   hold WITHOUT disjointness, with that precedence written in `css` (used by `owner_class`).
   Paths that are not in the tree are never matched (no hypothesis on ok / ko at all).
   A marked NoneItem receives the elements in its head / tail, which NoneItem.__str__ never prints:
   it contributes no character and no element, consistently on both sides of every statement. *)
Require Import Base Decimal Tree GenTree GenVisitors Visitor Print Eq TreeInd Marker MarkerProofs.

(* ---- tie obligation on generated data: HTMLMarker sends every class to generic_visit *)
Lemma marker_all_generic_ok : marker_all_generic = true.
Proof. vm_compute. reflexivity. Qed.

(* ---- statements *)

(* no exception, whatever the tree and the path collections *)
Definition C17_total_statement : Prop :=
  forall okc koc elem parci t ok ko,
    exists h sg, html okc koc elem parci t ok ko = Some h /\ mark_segs okc koc parci t ok ko = Some sg.

(* the implementation's string is the flattening of the segments: Open c as <elem class="c">, Close as
   </elem>, Text verbatim *)
Definition C17_segments_are_output_statement : Prop :=
  forall okc koc elem parci t ok ko sg,
    mark_segs okc koc parci t ok ko = Some sg ->
    html okc koc elem parci t ok ko = Some (flatten elem sg).

(* (1) removing the inserted elements gives the text of the default copy of the tree ... *)
Definition C17_strip_gives_copy_statement : Prop :=
  forall okc koc parci t ok ko sg,
    mark_segs okc koc parci t ok ko = Some sg ->
    exists t', tcopy t = Some t' /\ texts sg = print true t'.

(* ... which is the original text: full strength, over arbitrary trees *)
Definition C17_strip_gives_text_statement : Prop :=
  forall okc koc parci t ok ko sg,
    mark_segs okc koc parci t ok ko = Some sg -> texts sg = print true t.

Definition C17_strip_gives_text_partial_statement : Prop :=
  forall okc koc parci t ok ko sg,
    force_stable t = true ->
    mark_segs okc koc parci t ok ko = Some sg -> texts sg = print true t.

(* (2) proper nesting *)
Definition C17_nested_statement : Prop :=
  forall okc koc parci t ok ko sg,
    mark_segs okc koc parci t ok ko = Some sg -> balanced sg.

(* (3) every character has the class of the innermost marked node whose widened text contains it *)
Definition C17_classes_of_copy_statement : Prop :=
  forall okc koc parci t ok ko sg,
    mark_segs okc koc parci t ok ko = Some sg ->
    exists t', tcopy t = Some t' /\ classes_per_char sg = owner_class okc koc ok ko t'.

Definition C17_classes_statement : Prop :=
  forall okc koc parci t ok ko sg,
    mark_segs okc koc parci t ok ko = Some sg ->
    classes_per_char sg = owner_class okc koc ok ko t.

Definition C17_classes_partial_statement : Prop :=
  forall okc koc parci t ok ko sg,
    force_stable t = true ->
    mark_segs okc koc parci t ok ko = Some sg ->
    classes_per_char sg = owner_class okc koc ok ko t.

(* the specification in two steps: the owner of a character is the deepest node whose widened text
   contains it; a path is rendered with the css class of its longest marked prefix *)
Definition C17_owner_class_is_innermost_marked_statement : Prop :=
  forall okc koc ok ko t,
    owner_class okc koc ok ko t = map (innermost_marked okc koc ok ko) (char_owners t).

(* (4) parsimony changes neither the class of any character nor the text *)
Definition C17_parsimony_statement : Prop :=
  forall okc koc t ok ko s1 s2,
    mark_segs okc koc true t ok ko = Some s1 ->
    mark_segs okc koc false t ok ko = Some s2 ->
    classes_per_char s1 = classes_per_char s2 /\ texts s1 = texts s2.

(* ---- proofs (lemmas live in proofs/MarkerProofs.v) *)
Lemma mark_segs_inv okc koc parci t ok ko sg :
  mark_segs okc koc parci t ok ko = Some sg ->
  exists t', tcopy t = Some t' /\ sg = msegs (tag_class okc koc parci ok ko) t' [].
Proof.
  unfold mark_segs. destruct (tcopy t) as [t'|]; [|discriminate].
  intros H; inversion H; subst. eauto.
Qed.

Theorem C17_total : C17_total_statement.
Proof.
  intros okc koc elem parci t ok ko. unfold html, mark, mark_segs.
  destruct (mark_go_total okc koc elem parci ok ko t []) as [m Hm].
  destruct (tcopy_total t) as [t' Ht']. rewrite Hm, Ht'. eauto.
Qed.

Theorem C17_segments_are_output : C17_segments_are_output_statement.
Proof.
  intros okc koc elem parci t ok ko sg H.
  destruct (mark_segs_inv _ _ _ _ _ _ _ H) as [t' [Ht' Hsg]]. subst sg.
  unfold html, mark. destruct (mark_go_total okc koc elem parci ok ko t []) as [m Hm]. rewrite Hm.
  f_equal. exact (flat_mark_go okc koc elem parci ok ko t [] m t' Hm Ht').
Qed.

Theorem C17_strip_gives_copy : C17_strip_gives_copy_statement.
Proof.
  intros okc koc parci t ok ko sg H.
  destruct (mark_segs_inv _ _ _ _ _ _ _ H) as [t' [Ht' Hsg]]. subst sg.
  exists t'. split; [exact Ht'|]. apply texts_msegs.
Qed.

Theorem C17_strip_gives_text_partial : C17_strip_gives_text_partial_statement.
Proof.
  intros okc koc parci t ok ko sg Hfs H.
  destruct (mark_segs_inv _ _ _ _ _ _ _ H) as [t' [Ht' Hsg]]. subst sg.
  rewrite texts_msegs. exact (copy_print t t' Hfs Ht').
Qed.

Theorem C17_nested : C17_nested_statement.
Proof.
  intros okc koc parci t ok ko sg H.
  destruct (mark_segs_inv _ _ _ _ _ _ _ H) as [t' [Ht' Hsg]]. subst sg. apply balanced_msegs.
Qed.

Theorem C17_classes_of_copy : C17_classes_of_copy_statement.
Proof.
  intros okc koc parci t ok ko sg H.
  destruct (mark_segs_inv _ _ _ _ _ _ _ H) as [t' [Ht' Hsg]]. subst sg.
  exists t'. split; [exact Ht'|].
  exact (classes_msegs okc koc ok ko _ (sound_tag_class okc koc ok ko parci) t').
Qed.

Theorem C17_classes_partial : C17_classes_partial_statement.
Proof.
  intros okc koc parci t ok ko sg Hfs H.
  destruct (C17_classes_of_copy _ _ _ _ _ _ _ H) as [t' [Ht' Hc]]. rewrite Hc.
  unfold owner_class. exact (copy_owner okc koc ok ko t t' [] None Hfs Ht').
Qed.

Theorem C17_owner_class_is_innermost_marked : C17_owner_class_is_innermost_marked_statement.
Proof. intros okc koc ok ko t. apply owner_class_two_steps. Qed.

Theorem C17_parsimony : C17_parsimony_statement.
Proof.
  intros okc koc t ok ko s1 s2 H1 H2.
  destruct (C17_classes_of_copy _ _ _ _ _ _ _ H1) as [t1 [Ht1 Hc1]].
  destruct (C17_classes_of_copy _ _ _ _ _ _ _ H2) as [t2 [Ht2 Hc2]].
  destruct (C17_strip_gives_copy _ _ _ _ _ _ _ H1) as [u1 [Hu1 Hx1]].
  destruct (C17_strip_gives_copy _ _ _ _ _ _ _ H2) as [u2 [Hu2 Hx2]].
  rewrite Hc1, Hc2, Hx1, Hx2.
  rewrite Ht1 in Ht2, Hu1, Hu2. inversion Ht2; inversion Hu1; inversion Hu2; subst. split; reflexivity.
Qed.

(* ---- refutation of the unguarded tree-level clauses.  Witness: b = Boost(Word("a"), 1);
   b.force = Decimal("1.50").  On the real code str(b) = 'a^1.50' and HTMLMarker()(b, [], []) =
   'a^1.5' (clone_item passes the force through Boost.__init__, which normalises it). *)
Definition bad_boost : item :=
  Boost meta0 (Term KWord meta0 [97]%N) (mkDec false 150%N (-2)%Z) false.

Example bad_boost_text :
  print true bad_boost = [97;94;49;46;53;48]%N /\
  html [111;107]%N [107;111]%N [115;112;97;110]%N true bad_boost [] [] = Some [97;94;49;46;53]%N.
Proof. vm_compute. split; reflexivity. Qed.

Theorem C17_strip_gives_text_refuted : ~ C17_strip_gives_text_statement.
Proof.
  intros H. specialize (H [] [] true bad_boost [] [] _ eq_refl). vm_compute in H. discriminate H.
Qed.

Theorem C17_classes_refuted : ~ C17_classes_statement.
Proof.
  intros H. specialize (H [] [] true bad_boost [] [] _ eq_refl). vm_compute in H. discriminate H.
Qed.

(* ---- non-vacuity.  The tree of   a AND f:b^1.5   (heads / tails as the parser sets them), root and first
   operand ok, the field, the boost and the word b ko: both outputs are the real ones. *)
Definition ex_tree : item :=
  Op KAnd meta0
    [Term KWord (mkMeta None None [] [32]%N None) [97]%N;
     SearchField (mkMeta None None [32]%N [] None) [102]%N
       (Boost meta0 (Term KWord meta0 [98]%N) (mkDec false 15%N (-1)%Z) false)].
Definition ex_ok : list path := [[]; [0]].
Definition ex_ko : list path := [[1]; [1; 0]; [1; 0; 0]].
Definition s_ok : str := [111;107]%N.
Definition s_ko : str := [107;111]%N.
Definition s_span : str := [115;112;97;110]%N.

(* the guard holds: the explicit force 1.5 is normalised *)
Example ex_force_stable : force_stable ex_tree = true.
Proof. vm_compute. reflexivity. Qed.

(* <span class="ok">a AND<span class="ko"> f:b^1.5</span></span> *)
Example ex_parsimonious :
  html s_ok s_ko s_span true ex_tree ex_ok ex_ko =
  Some [60;115;112;97;110;32;99;108;97;115;115;61;34;111;107;34;62;97;32;65;78;68;60;115;112;97;110;32;99;108;97;115;115;61;34;107;111;34;62;32;102;58;98;94;49;46;53;60;47;115;112;97;110;62;60;47;115;112;97;110;62]%N.
Proof. vm_compute. reflexivity. Qed.

(* <span class="ok"><span class="ok">a </span>AND<span class="ko"> f:<span class="ko"><span class="ko">b</span>^1.5</span></span></span> *)
Example ex_exhaustive :
  html s_ok s_ko s_span false ex_tree ex_ok ex_ko =
  Some [60;115;112;97;110;32;99;108;97;115;115;61;34;111;107;34;62;60;115;112;97;110;32;99;108;97;115;115;61;34;111;107;34;62;97;32;60;47;115;112;97;110;62;65;78;68;60;115;112;97;110;32;99;108;97;115;115;61;34;107;111;34;62;32;102;58;60;115;112;97;110;32;99;108;97;115;115;61;34;107;111;34;62;60;115;112;97;110;32;99;108;97;115;115;61;34;107;111;34;62;98;60;47;115;112;97;110;62;94;49;46;53;60;47;115;112;97;110;62;60;47;115;112;97;110;62;60;47;115;112;97;110;62]%N.
Proof. vm_compute. reflexivity. Qed.

(* the segments of the parsimonious output, the text  a AND f:b^1.5  and the classes
   ok x5 ("a AND"), ko x8 (" f:b^1.5") *)
Example ex_segments :
  exists sg, mark_segs s_ok s_ko true ex_tree ex_ok ex_ko = Some sg /\
    texts sg = [97;32;65;78;68;32;102;58;98;94;49;46;53]%N /\
    classes_per_char sg =
      [Some s_ok; Some s_ok; Some s_ok; Some s_ok; Some s_ok;
       Some s_ko; Some s_ko; Some s_ko; Some s_ko; Some s_ko; Some s_ko; Some s_ko; Some s_ko] /\
    owner_class s_ok s_ko ex_ok ex_ko ex_tree = classes_per_char sg.
Proof. eexists. split; [reflexivity|]. vm_compute. repeat split; reflexivity. Qed.

(* overlapping sets: paths_ok wins *)
(* owners of the 13 characters of  a AND f:b^1.5 : a and its tail -> [0]; AND -> []; " f:" -> [1];
   b -> [1;0;0]; ^1.5 -> [1;0] *)
Example ex_owners :
  char_owners ex_tree = [[0]; [0]; []; []; []; [1]; [1]; [1]; [1; 0; 0]; [1; 0]; [1; 0]; [1; 0]; [1; 0]].
Proof. vm_compute. reflexivity. Qed.

Example ex_overlap :
  classes_per_char
    (msegs (tag_class s_ok s_ko false [[]] [[]]) (Term KWord meta0 [97]%N) []) = [Some s_ok].
Proof. vm_compute. reflexivity. Qed.

(* a marked NoneItem inside a range: nothing is emitted for it, the other characters keep their class *)
Example ex_none_item :
  html s_ok s_ko s_span true
    (Range meta0 (NoneItem (mkMeta None None [32]%N [32]%N None)) (Term KWord meta0 [98]%N) true true)
    [[0]] [] = Some [91;84;79;98;93]%N.
Proof. vm_compute. reflexivity. Qed.

Print Assumptions C17_total.
Print Assumptions C17_segments_are_output.
Print Assumptions C17_strip_gives_copy.
Print Assumptions C17_strip_gives_text_partial.
Print Assumptions C17_strip_gives_text_refuted.
Print Assumptions C17_nested.
Print Assumptions C17_classes_of_copy.
Print Assumptions C17_classes_partial.
Print Assumptions C17_classes_refuted.
Print Assumptions C17_owner_class_is_innermost_marked.
Print Assumptions C17_parsimony.
