(* SpanProofs.v — C02: pos/size/head/tail locate every node's text.
   1. from the layout predicate `spans_ok` to `located`/`tiled` for every node (spans_ok_root);
   2. every semantic action keeps `spans_ok` when its ghost events are trivial (run_action_spans);
   3. the lexer's positions are offsets (lex_pos) and the driver keeps the value stack laid out over
      the consumed prefix, for ANY tables (parse_with_spans);
   4. with PLY's tables the one shape of reduction whose size arithmetic is wrong never happens
      (gen_no_rflat: table facts by computation). *)
Require Import Base Decimal Tree GenTree GenParser Lexer Print Actions LR Parser Spans.
Require Import TreeInd LexerProofs ActionProofs LRProofs.
From Coq Require Import Lia.

(* ================================================================ part 1 *)
Local Open Scope Z_scope.

(* ---- lengths *)
Lemma zlen_app (a b : str) : zlen (a ++ b) = zlen a + zlen b.
Proof. unfold zlen. rewrite app_length. lia. Qed.
Lemma zlen_nil : zlen [] = 0. Proof. reflexivity. Qed.
Lemma zlen_cons c (a : str) : zlen (c :: a) = 1 + zlen a.
Proof. unfold zlen. simpl length. lia. Qed.
Lemma zlen_nonneg (a : str) : 0 <= zlen a.
Proof. unfold zlen. lia. Qed.

Ltac zl := repeat (rewrite zlen_app || rewrite zlen_cons || rewrite zlen_nil).
Ltac zl_in H := repeat (rewrite zlen_app in H || rewrite zlen_cons in H || rewrite zlen_nil in H).

(* ---- slices *)
Lemma skipn_length_app {A} (a b : list A) : skipn (length a) (a ++ b) = b.
Proof. induction a; simpl; auto. Qed.
Lemma firstn_length_app {A} (a b : list A) : firstn (length a) (a ++ b) = a.
Proof. induction a; simpl; [destruct b; reflexivity|]. f_equal. assumption. Qed.

Lemma slice_at (pre x post : str) : slice (pre ++ x ++ post) (zlen pre) (zlen pre + zlen x) = x.
Proof.
  unfold slice, zlen. replace (Z.of_nat (length pre) + Z.of_nat (length x) - Z.of_nat (length pre)) with (Z.of_nat (length x)) by lia.
  rewrite !Nat2Z.id, skipn_length_app, firstn_length_app. reflexivity.
Qed.

(* x occurs in s at offset b *)
Definition at_off (s : str) (b : Z) (x : str) : Prop :=
  exists pre post, s = pre ++ x ++ post /\ zlen pre = b.

Lemma at_off_inner s b x y z : at_off s b (x ++ y ++ z) -> at_off s (b + zlen x) y.
Proof.
  intros [pre [post [E L]]]. exists (pre ++ x), (z ++ post). split.
  - rewrite E, <- !app_assoc. reflexivity.
  - zl. lia.
Qed.

Lemma at_off_suffix s b x y : at_off s b (x ++ y) -> at_off s (b + zlen x) y.
Proof. intros H. apply at_off_inner with (z := []). rewrite app_nil_r. exact H. Qed.

Lemma at_off_slice s b x : at_off s b x -> slice s b (b + zlen x) = x /\ 0 <= b /\ b + zlen x <= zlen s.
Proof.
  intros [pre [post [E L]]]. subst s b. split; [apply slice_at|]. zl.
  pose proof (zlen_nonneg pre). pose proof (zlen_nonneg post). lia.
Qed.

(* ---- the node's own text as literal pieces and children *)
Lemma weave_sepl_cons op : forall l first c,
  weave (first :: map (fun _ : item => op) l) (map (print true) (c :: l)) = first ++ join op (map (print true) (c :: l)).
Proof.
  induction l as [|d l IH]; intros first c.
  - simpl. rewrite app_nil_r. reflexivity.
  - simpl map. simpl weave. f_equal. specialize (IH op d). simpl map in IH. simpl weave in IH.
    change (join op (print true c :: print true d :: map (print true) l))
      with (print true c ++ op ++ join op (print true d :: map (print true) l)).
    f_equal. exact IH.
Qed.

Lemma weave_sepl first op : forall l, l <> [] ->
  weave (sepl first op l) (map (print true) l) = first ++ join op (map (print true) l).
Proof. intros [|c l] H; [congruence|]. apply weave_sepl_cons. Qed.

Lemma print_pieces n : print false n = weave (seps n) (map (print true) (children n)) ++ post n.
Proof.
  destruct n; simpl; unfold wrap; simpl; rewrite <- ?app_assoc; simpl; rewrite ?app_nil_r; try reflexivity.
  destruct ops as [|c ops]; [reflexivity|].
  rewrite (weave_sepl [] _ (c :: ops)) by discriminate. reflexivity.
Qed.

Lemma node_ok_unfold p n :
  node_ok p n <->
  not_none n /\ m_pos (meta_of n) = Some p /\ m_size (meta_of n) = Some (zlen (print false n)) /\
  walk node_ok p (seps n) (children n).
Proof. destruct n; simpl; tauto. Qed.

Lemma node_ok_not_none p n : node_ok p n -> not_none n.
Proof. intros H. apply node_ok_unfold in H. apply H. Qed.

Lemma node_ok_span p n : node_ok p n ->
  span false n = Some (p, p + zlen (print false n)) /\
  span true n = Some (p - zlen (head_of n), p + zlen (print false n) + zlen (tail_of n)) /\
  print true n = head_of n ++ print false n ++ tail_of n.
Proof.
  intros H. apply node_ok_unfold in H. destruct H as [Hn [Hp [Hs _]]].
  unfold span. rewrite Hp, Hs. repeat split. apply print_true_split. exact Hn.
Qed.

Lemma walk_nth s (f : Z -> item -> Prop) : forall l sps b rest,
  walk f b sps l -> at_off s b (weave sps (map (print true) l) ++ rest) ->
  forall i c, nth_error l i = Some c ->
  exists bc, f (bc + zlen (head_of c)) c /\ at_off s bc (print true c).
Proof.
  induction l as [|d l IH]; intros sps b rest Hw Hat i c Hn; [destruct i; discriminate|].
  destruct sps as [|sp sps]; [destruct Hw|]. destruct Hw as [Hd Hw].
  simpl map in Hat. simpl weave in Hat. rewrite <- !app_assoc in Hat.
  destruct i as [|i]; simpl in Hn.
  - inversion Hn; subst. exists (b + zlen sp). split; [exact Hd|]. eapply at_off_inner. exact Hat.
  - eapply (IH sps _ rest Hw); [|exact Hn].
    replace (b + zlen sp + zlen (print true d)) with (b + zlen (sp ++ print true d)) by (zl; lia).
    apply at_off_inner with (z := []). rewrite app_nil_r, <- app_assoc. exact Hat.
Qed.

Lemma ordered_in_weaken : forall l lo hi hi', ordered_in lo hi l -> hi <= hi' -> ordered_in lo hi' l.
Proof.
  induction l as [|[a b] l IH]; simpl; intros lo hi hi' H Hle; [lia|].
  destruct H as [H1 H2]. split; [exact H1|]. eapply IH; eauto.
Qed.

Lemma walk_spans : forall l sps b, walk node_ok b sps l ->
  exists cs, map (span true) l = map Some cs /\
             ordered_in b (b + zlen (weave sps (map (print true) l))) cs.
Proof.
  induction l as [|d l IH]; intros sps b Hw.
  - exists []. simpl. split; [reflexivity|]. destruct sps; simpl; zl; lia.
  - destruct sps as [|sp sps]; [destruct Hw|]. destruct Hw as [Hd Hw].
    destruct (IH _ _ Hw) as [cs [Hm Ho]].
    destruct (node_ok_span _ _ Hd) as [_ [Hs Hpr]].
    exists ((b + zlen sp, b + zlen sp + zlen (print true d)) :: cs). split.
    + simpl. rewrite Hm, Hs. f_equal. f_equal. rewrite Hpr. zl. f_equal; lia.
    + simpl. pose proof (zlen_nonneg sp). pose proof (zlen_nonneg (print true d)).
      split; [lia|]. eapply ordered_in_weaken; [exact Ho|]. zl. lia.
Qed.

(* ---- Lemma A: from the layout predicate to the property, for every node *)
Lemma node_located s p n :
  node_ok p n -> at_off s (p - zlen (head_of n)) (print true n) -> located s n.
Proof.
  intros Hn Hat. destruct (node_ok_span _ _ Hn) as [Hf [Ht Hpr]].
  destruct (at_off_slice _ _ _ Hat) as [Hs1 [Hlo Hhi]].
  rewrite Hpr in Hat. pose proof (at_off_inner _ _ _ _ _ Hat) as Hat2.
  destruct (at_off_slice _ _ _ Hat2) as [Hs2 _].
  pose proof (zlen_nonneg (head_of n)). pose proof (zlen_nonneg (tail_of n)).
  pose proof (zlen_nonneg (print false n)).
  rewrite Hpr in Hhi, Hs1. zl_in Hhi. zl_in Hs1.
  do 4 eexists. split; [exact Hf|]. split; [exact Ht|]. split; [lia|]. split.
  - etransitivity; [|exact Hs2]. f_equal; lia.
  - rewrite Hpr. etransitivity; [|exact Hs1]. f_equal; lia.
Qed.

Lemma node_tiled p n : node_ok p n -> tiled n.
Proof.
  intros Hn. destruct (node_ok_span _ _ Hn) as [Hf _].
  apply node_ok_unfold in Hn. destruct Hn as [_ [_ [_ Hw]]].
  destruct (walk_spans _ _ _ Hw) as [cs [Hm Ho]].
  exists p, (p + zlen (print false n)), cs. split; [exact Hf|]. split; [exact Hm|].
  eapply ordered_in_weaken; [exact Ho|]. rewrite (print_pieces n). zl.
  pose proof (zlen_nonneg (post n)). lia.
Qed.

Lemma node_child s p n i c :
  node_ok p n -> at_off s (p - zlen (head_of n)) (print true n) -> nth_error (children n) i = Some c ->
  exists pc, node_ok pc c /\ at_off s (pc - zlen (head_of c)) (print true c).
Proof.
  intros Hn Hat Hc. destruct (node_ok_span _ _ Hn) as [_ [_ Hpr]].
  apply node_ok_unfold in Hn. destruct Hn as [_ [_ [_ Hw]]].
  rewrite Hpr, (print_pieces n), <- app_assoc in Hat. apply at_off_suffix in Hat.
  replace (p - zlen (head_of n) + zlen (head_of n)) with p in Hat by lia.
  destruct (walk_nth s _ _ _ _ _ Hw Hat _ _ Hc) as [bc [H1 H2]].
  exists (bc + zlen (head_of c)). split; [exact H1|].
  replace (bc + zlen (head_of c) - zlen (head_of c)) with bc by lia. exact H2.
Qed.

Theorem spans_ok_everywhere s : forall q n p d,
  node_ok p n -> at_off s (p - zlen (head_of n)) (print true n) -> subtree_at n q = Some d ->
  located s d /\ tiled d.
Proof.
  induction q as [|i q IH]; intros n p d Hn Hat Hsub; simpl in Hsub.
  - inversion Hsub; subst. split; [eapply node_located; eauto|eapply node_tiled; eauto].
  - destruct (nth_error (children n) i) as [c|] eqn:Hc; [|discriminate].
    destruct (node_child _ _ _ _ _ Hn Hat Hc) as [pc [H1 H2]]. eapply IH; eauto.
Qed.

Theorem spans_ok_root s t :
  spans_ok 0 t -> print true t = s ->
  (forall q d, subtree_at t q = Some d -> located s d /\ tiled d) /\ span true t = Some (0, zlen s).
Proof.
  intros Hn Hpr. unfold spans_ok in Hn. split.
  - intros q d Hsub. eapply spans_ok_everywhere; [exact Hn| |exact Hsub].
    exists [], []. rewrite app_nil_r. simpl. split; [symmetry; exact Hpr|]. unfold zlen; simpl; lia.
  - destruct (node_ok_span _ _ Hn) as [_ [Ht Hp]]. rewrite Ht, <- Hpr, Hp. zl. f_equal. f_equal; lia.
Qed.

(* ================================================================ part 2 *)

(* ---- moving heads and tails does not move the node's own text *)
Lemma seps_set_meta i m : seps (set_meta i m) = seps i.
Proof. destruct i; reflexivity. Qed.

Lemma node_ok_cast p p' n : node_ok p n -> p = p' -> node_ok p' n.
Proof. intros H E. subst. exact H. Qed.

Lemma walk_cast (f : Z -> item -> Prop) b b' sps l : walk f b sps l -> b = b' -> walk f b' sps l.
Proof. intros H E. subst. exact H. Qed.

Lemma node_ok_set_meta p i m :
  m_pos m = m_pos (meta_of i) -> m_size m = m_size (meta_of i) -> node_ok p i -> node_ok p (set_meta i m).
Proof.
  intros Hp Hs H. apply node_ok_unfold in H. destruct H as [Hn [H1 [H2 Hw]]].
  apply node_ok_unfold. rewrite meta_set_meta, print_false_set_meta, seps_set_meta, children_set_meta.
  split; [apply not_none_set_meta; exact Hn|]. rewrite Hp, Hs. auto.
Qed.

Lemma node_ok_add_head p i s : node_ok p i -> node_ok p (add_head i s).
Proof. intros H. apply node_ok_set_meta; auto. Qed.
Lemma node_ok_add_tail p i s : node_ok p i -> node_ok p (add_tail_i i s).
Proof. intros H. apply node_ok_set_meta; auto. Qed.

Lemma head_add_head i s : head_of (add_head i s) = s ++ head_of i.
Proof. unfold add_head, set_head, head_of. rewrite meta_set_meta. reflexivity. Qed.
Lemma head_add_tail i s : head_of (add_tail_i i s) = head_of i.
Proof. unfold add_tail_i, set_tail, head_of. rewrite meta_set_meta. reflexivity. Qed.
Lemma tail_add_head i s : tail_of (add_head i s) = tail_of i.
Proof. unfold add_head, set_head, tail_of. rewrite meta_set_meta. reflexivity. Qed.
Lemma print_false_add_head i s : print false (add_head i s) = print false i.
Proof. apply print_false_set_meta. Qed.
Lemma meta_add_head_size i s : m_size (meta_of (add_head i s)) = m_size (meta_of i).
Proof. unfold add_head, set_head. rewrite meta_set_meta. reflexivity. Qed.
Lemma meta_add_head_pos i s : m_pos (meta_of (add_head i s)) = m_pos (meta_of i).
Proof. unfold add_head, set_head. rewrite meta_set_meta. reflexivity. Qed.

Lemma walk_not_none : forall l sps b, walk node_ok b sps l -> Forall not_none l.
Proof.
  induction l as [|c l IH]; intros sps b H; [constructor|].
  destruct sps as [|sp sps]; [destruct H|]. destruct H as [H1 H2].
  constructor; [eapply node_ok_not_none; exact H1|eapply IH; exact H2].
Qed.

Lemma node_ok_children p n : node_ok p n -> Forall not_none (children n).
Proof. intros H. apply node_ok_unfold in H. destruct H as [_ [_ [_ Hw]]]. eapply walk_not_none; exact Hw. Qed.

(* ---- stack values *)
Definition sv_len (v : symval) : Z := zlen (sv_head v) + zlen (sv_inner v) + zlen (sv_tail v).
Definition sv_size_ok (v : symval) : Prop := m_size (sv_meta v) = Some (zlen (sv_inner v)).

Lemma sv_spans_ok_facts b v : sv_spans_ok b v ->
  val_ok v /\ children_ok v /\ m_pos (sv_meta v) = Some (b + zlen (sv_head v)) /\ sv_size_ok v /\
  full_text v = sv_head v ++ sv_inner v ++ sv_tail v.
Proof.
  destruct v as [i|l vv m]; unfold sv_spans_ok, sv_size_ok; simpl.
  - intros H. pose proof (node_ok_children _ _ H) as Hc. pose proof (node_ok_span _ _ H) as [_ [_ Hp]].
    apply node_ok_unfold in H. destruct H as [Hn [H1 [H2 _]]]. auto.
  - intros [H1 H2]. auto.
Qed.

Lemma args_ok_app : forall x y b,
  args_ok b (x ++ y) <-> args_ok b x /\ args_ok (b + zlen (concat (map full_text x))) y.
Proof.
  induction x as [|v x IH]; intros y b; simpl.
  - replace (b + zlen []) with b by (zl; lia). tauto.
  - rewrite IH. zl. rewrite Z.add_assoc. tauto.
Qed.

Lemma args_ok_vals : forall args b, args_ok b args -> Forall val_ok args /\ Forall children_ok args.
Proof.
  induction args as [|v r IH]; intros b H; [split; constructor|]. destruct H as [H1 H2].
  destruct (sv_spans_ok_facts _ _ H1) as [A [B _]]. destruct (IH _ H2). split; constructor; auto.
Qed.

(* ---- HeadTailManager.pos *)
Definition sum_len (args : list symval) : Z := fold_right (fun v acc => sv_len v + acc) 0 args.

Lemma htm_fold : forall args acc, Forall sv_size_ok args ->
  fold_left (fun acc v => acc + oz (m_size (sv_meta v)) + zlen (sv_head v) + zlen (sv_tail v)) args acc
  = acc + sum_len args.
Proof.
  induction args as [|v r IH]; intros acc H; simpl; [lia|].
  inversion H as [|? ? Hv Hr]; subst. rewrite IH by exact Hr. unfold sv_size_ok in Hv. rewrite Hv.
  unfold sv_len. simpl. lia.
Qed.

Lemma htm_pos_spec q p1 rest ht tt :
  m_pos (sv_meta p1) = Some q -> Forall sv_size_ok (p1 :: rest) ->
  htm_pos (p1 :: rest) ht tt =
  (Some (if ht then q else q - zlen (sv_head p1)),
   Some (sum_len (p1 :: rest) - (if ht then zlen (sv_head p1) else 0)
         - (if tt then zlen (sv_tail (last (p1 :: rest) p1)) else 0))).
Proof.
  intros Hq Hs. unfold htm_pos. rewrite Hq, htm_fold by exact Hs.
  destruct ht, tt; f_equal; f_equal; lia.
Qed.

Local Opaque htm_pos.

Lemma node_ok_fieldgroup p e :
  node_ok p e ->
  node_ok p (match e with Grp KGroup m x => Grp KFieldGroup (clone_meta_nameless m) x | _ => e end)
  /\ head_of (match e with Grp KGroup m x => Grp KFieldGroup (clone_meta_nameless m) x | _ => e end) = head_of e
  /\ print true (match e with Grp KGroup m x => Grp KFieldGroup (clone_meta_nameless m) x | _ => e end) = print true e.
Proof. destruct e; auto. destruct k; auto. Qed.

(* OP expr *)
Lemma unary_ht_spans mk l vv m x printed v evs b :
  unary_ht mk (VTok l vv m) x printed = (v, evs) -> all_trivial evs ->
  args_ok b [VTok l vv m; VItem x] ->
  (forall m' y, print false (mk m' y) = printed ++ print true y) ->
  (forall m' y, seps (mk m' y) = [printed]) ->
  (forall m' y, children (mk m' y) = [y]) ->
  (forall m' y, not_none (mk m' y)) ->
  (forall m' y, meta_of (mk m' y) = m') ->
  sv_spans_ok b v.
Proof.
  unfold unary_ht. intros H Ht [Ho [Hx _]] Hpf Hseps Hch Hnn Hmeta. inversion H; subst; clear H.
  apply Forall_cons_iff in Ht. destruct Ht as [Hl _]. simpl in Hl. subst printed.
  destruct (sv_spans_ok_facts _ _ Ho) as [_ [_ [Hpo [Hso _]]]].
  destruct (sv_spans_ok_facts _ _ Hx) as [Hvx [_ [_ [Hsx _]]]].
  unfold sv_spans_ok in Hx. simpl in Hx, Hpo, Hvx.
  rewrite (htm_pos_spec _ (VTok l vv m) [VItem x] true false Hpo) by (repeat constructor; assumption).
  unfold sv_spans_ok, sv_head. simpl sv_meta. simpl sv_node_ok. rewrite Hmeta. simpl m_head.
  apply node_ok_unfold. rewrite Hmeta, Hpf, Hseps, Hch. simpl.
  rewrite print_add_head by exact Hvx. rewrite (print_true_split x Hvx). unfold sv_head. simpl.
  split; [apply Hnn|]. split; [reflexivity|]. split.
  - f_equal. unfold sv_len, sv_head, sv_tail, head_of, tail_of. simpl. zl. lia.
  - split; [|exact I]. apply node_ok_add_head. eapply node_ok_cast; [exact Hx|].
    rewrite head_add_head. unfold sv_head, sv_tail, head_of. simpl. zl. lia.
Qed.

(* expr OP *)
Lemma post_unary_ht_spans mk l vv m x printed v evs b :
  post_unary_ht mk x (VTok l vv m) [GRespell l printed] = (v, evs) -> all_trivial evs ->
  args_ok b [VItem x; VTok l vv m] ->
  (forall m' y, print false (mk m' y) = print true y ++ printed) ->
  (forall m' y, seps (mk m' y) = [[]]) ->
  (forall m' y, children (mk m' y) = [y]) ->
  (forall m' y, not_none (mk m' y)) ->
  (forall m' y, meta_of (mk m' y) = m') ->
  sv_spans_ok b v.
Proof.
  unfold post_unary_ht. intros H Ht [Hx [Ho _]] Hpf Hseps Hch Hnn Hmeta. inversion H; subst; clear H.
  apply Forall_cons_iff in Ht. destruct Ht as [Hl _]. simpl in Hl. subst printed.
  destruct (sv_spans_ok_facts _ _ Ho) as [_ [_ [_ [Hso _]]]].
  destruct (sv_spans_ok_facts _ _ Hx) as [Hvx [_ [Hpx [Hsx _]]]].
  unfold sv_spans_ok in Hx. simpl in Hx, Hpx, Hvx.
  rewrite (htm_pos_spec _ (VItem x) [VTok l vv m] false true Hpx) by (repeat constructor; assumption).
  unfold sv_spans_ok, sv_head. simpl sv_meta. simpl sv_node_ok. rewrite Hmeta. simpl m_head.
  apply node_ok_unfold. rewrite Hmeta, Hpf, Hseps, Hch. simpl.
  rewrite print_add_tail by exact Hvx. rewrite (print_true_split x Hvx). unfold sv_head. simpl.
  split; [apply Hnn|]. split; [f_equal; zl; lia|]. split.
  - f_equal. unfold sv_len, sv_head, sv_tail, head_of, tail_of. simpl. zl. lia.
  - split; [|exact I]. apply node_ok_add_tail. eapply node_ok_cast; [exact Hx|].
    rewrite head_add_tail. unfold sv_head, sv_tail, head_of. simpl. zl. lia.
Qed.

(* ================================================================ part 3 *)

Lemma walk_app (f : Z -> item -> Prop) : forall x s1 s2 y b, length s1 = length x ->
  (walk f b (s1 ++ s2) (x ++ y) <->
   walk f b s1 x /\ walk f (b + zlen (weave s1 (map (print true) x))) s2 y).
Proof.
  induction x as [|c x IH]; intros s1 s2 y b Hl; destruct s1 as [|sp s1]; try discriminate.
  - simpl app. replace (b + zlen (weave [] (map (print true) []))) with b by (simpl; zl; lia).
    simpl. tauto.
  - simpl in Hl. injection Hl as Hl. simpl app. simpl walk. rewrite (IH s1 s2 y _ Hl).
    simpl map. simpl weave.
    replace (b + zlen (sp ++ print true c ++ weave s1 (map (print true) x)))
      with (b + zlen sp + zlen (print true c) + zlen (weave s1 (map (print true) x))) by (zl; lia).
    tauto.
Qed.

Lemma sepl_length first op l : length (sepl first op l) = length l.
Proof. destruct l; simpl; [reflexivity|]. rewrite map_length. reflexivity. Qed.

Lemma binary_spans k a opv b_ v evs base :
  binary k a opv b_ = Ok (v, evs) -> all_trivial evs ->
  ((match b_ with Op k' _ _ => opk_eqb k k' | _ => false end) = true ->
   (match opv with Some o => sv_tail o | None => [] end) = []) ->
  spans_ok base a ->
  (match opv with Some o => sv_spans_ok (base + zlen (print true a)) o | None => True end) ->
  spans_ok (base + zlen (print true a) + zlen (opt_text opv)) b_ ->
  sv_spans_ok base v.
Proof.
  intros H Htriv Hguard Ha Hopv Hb. unfold spans_ok in Ha, Hb.
  pose proof (node_ok_not_none _ _ Ha) as Hna. pose proof (node_ok_not_none _ _ Hb) as Hnb.
  pose proof (node_ok_children _ _ Hb) as Hcb.
  destruct (binary_text _ _ _ _ _ _ H Htriv Hna Hnb Hcb) as [Htext _].
  pose proof (print_true_split _ Hna) as Hpa. pose proof (print_true_split _ Hnb) as Hpb.
  unfold binary in H.
  set (a_same := match a with Op k' _ _ => opk_eqb k k' | _ => false end) in *.
  set (b_same := match b_ with Op k' _ _ => opk_eqb k k' | _ => false end) in *.
  set (T := match opv with Some o => sv_tail o | None => [] end) in *.
  set (opsA := if a_same then children a else [a]) in *.
  destruct (if b_same then children b_ else [b_]) as [|b0 brest] eqn:HopsB; [discriminate|].
  set (b_after := if b_same then b_ else add_head b_ T) in *.
  destruct (htm_pos _ false false) as [pos size] eqn:Hhtm.
  inversion H; subst v evs; clear H.
  apply all_trivial_app in Htriv. destruct Htriv as [Hd Hr].
  apply all_trivial_drops in Hd. rewrite !Forall_app in Hd. destruct Hd as [HdA [HdB [HdO HdE]]].
  set (op := op_str (cls_of_opk k)).
  assert (FA : a_same = true -> head_of a = [] /\ tail_of a = []).
  { intros E. rewrite E in HdA. inversion HdA as [|? ? Hh Ht']; subst. inversion Ht'; subst. auto. }
  assert (FB : b_same = true -> head_of b_ = [] /\ tail_of b_ = []).
  { intros E. rewrite E in HdB. inversion HdB as [|? ? Hh Ht']; subst. inversion Ht'; subst. auto. }
  assert (FE : opsA = [] -> op = []).
  { intros E. rewrite E in HdE. inversion HdE; subst. assumption. }
  (* the operator token *)
  assert (Fop : opt_text opv = op ++ T /\
                match opv with
                | Some o => sv_head o = [] /\ sv_inner o = op /\ sv_size_ok o
                | None => True end).
  { destruct opv as [[i|l vv m]|].
    - inversion HdO as [|? ? Hx _]. discriminate.
    - inversion HdO as [|? ? Hh _]; subst. inversion Hr as [|? ? Hre _]; subst. simpl in Hre.
      destruct (sv_spans_ok_facts _ _ Hopv) as [_ [_ [_ [Hso _]]]].
      unfold sv_head. simpl. rewrite Hh. subst l. repeat split; auto.
    - inversion Hr as [|? ? Hre _]; subst. simpl in Hre. unfold op. simpl.
      change (op_str (cls_of_opk k)) with (op_text k). rewrite <- Hre. auto. }
  destruct Fop as [Fop1 Fop2].
  (* the left operands *)
  assert (WA : walk node_ok base (sepl [] op opsA) opsA /\
               zlen (weave (sepl [] op opsA) (map (print true) opsA)) = zlen (print true a)).
  { subst opsA. destruct a_same eqn:Has.
    - destruct (FA eq_refl) as [Hh Ht'].
      subst a_same. destruct a; try discriminate. apply opk_eqb_eq in Has. subst k0.
      rewrite Hh in Ha. apply node_ok_unfold in Ha. destruct Ha as [_ [_ [_ Hw]]].
      split; [eapply walk_cast; [exact Hw|zl; lia]|].
      rewrite Hpa, Hh, Ht'. rewrite (print_pieces (Op k m ops)). simpl. rewrite !app_nil_r. reflexivity.
    - split.
      + simpl. split; [|exact I]. eapply node_ok_cast; [exact Ha|zl; lia].
      + simpl. rewrite app_nil_r. reflexivity. }
  destruct WA as [WA LA].
  (* the right operands, before the operator's tail moves *)
  set (Bb := base + zlen (print true a) + zlen (opt_text opv)) in *.
  assert (WB : walk node_ok Bb ([] :: map (fun _ : item => op) brest) (b0 :: brest)).
  { destruct b_same eqn:Hbs.
    - destruct (FB eq_refl) as [Hh Ht'].
      subst b_same. destruct b_; try discriminate. apply opk_eqb_eq in Hbs. subst k0.
      simpl in HopsB. subst ops.
      rewrite Hh in Hb. apply node_ok_unfold in Hb. destruct Hb as [_ [_ [_ Hw]]].
      eapply walk_cast; [exact Hw|zl; lia].
    - inversion HopsB; subst. simpl. split; [|exact I]. eapply node_ok_cast; [exact Hb|zl; lia]. }
  assert (Hnb0 : not_none b0).
  { destruct WB as [W1 _]. eapply node_ok_not_none. exact W1. }
  (* pos and size *)
  assert (Hpos : m_pos (meta_of a) = Some (base + zlen (head_of a))).
  { apply node_ok_unfold in Ha. apply Ha. }
  assert (Hsa : sv_size_ok (VItem a)).
  { apply node_ok_unfold in Ha. apply Ha. }
  assert (Hsb : sv_size_ok (VItem b_after) /\
                sv_len (VItem b_after) = zlen T + zlen (print true b_)).
  { unfold sv_size_ok, sv_len, sv_head, sv_tail. subst b_after. destruct b_same eqn:Hbs.
    - rewrite (Hguard eq_refl). simpl. apply node_ok_unfold in Hb. split; [apply Hb|].
      rewrite Hpb. unfold head_of, tail_of. zl. lia.
    - simpl. rewrite meta_add_head_size, print_false_add_head. apply node_ok_unfold in Hb.
      split; [apply Hb|]. fold (head_of (add_head b_ T)). fold (tail_of (add_head b_ T)).
      rewrite head_add_head, tail_add_head, Hpb. zl. lia. }
  destruct Hsb as [Hsb Hlb].
  assert (Hps : pos = Some base /\
                size = Some (zlen (print true a) + zlen (opt_text opv) + zlen (print true b_) + zlen T)).
  { destruct opv as [o|].
    - destruct Fop2 as [F1 [F2 F3]].
      rewrite (htm_pos_spec _ (VItem a) [o; VItem b_after] false false Hpos) in Hhtm
        by (repeat constructor; assumption).
      inversion Hhtm; subst pos size. split; [f_equal; unfold sv_head, head_of; simpl; lia|].
      f_equal. simpl sum_len. rewrite Hlb. rewrite Fop1. unfold sv_len at 1 2. rewrite F1, F2.
      subst T. unfold sv_head, sv_tail. simpl. rewrite Hpa. unfold head_of, tail_of. zl. lia.
    - rewrite (htm_pos_spec _ (VItem a) [VItem b_after] false false Hpos) in Hhtm
        by (repeat constructor; assumption).
      inversion Hhtm; subst pos size. split; [f_equal; unfold sv_head, head_of; simpl; lia|].
      f_equal. simpl sum_len. rewrite Hlb. unfold sv_len at 1. subst T.
      unfold sv_head, sv_tail. simpl. rewrite Hpa. unfold head_of, tail_of. zl. lia. }
  destruct Hps as [Hp1 Hp2]. subst pos size.
  unfold sv_spans_ok, sv_head. simpl sv_meta. simpl sv_node_ok. simpl m_head.
  split; [f_equal; zl; lia|]. split.
  { f_equal. simpl in Htext. unfold wrap in Htext. simpl in Htext.
    rewrite app_nil_r in Htext. rewrite Htext. zl. lia. }
  (* the operands are laid out one after the other *)
  fold op.
  pose proof (zlen_nonneg T) as HT0.
  assert (Hb0' : forall q, node_ok (q + zlen (head_of b0)) b0 ->
                 node_ok (q - zlen T + zlen (head_of (add_head b0 T))) (add_head b0 T)).
  { intros q Hq. apply node_ok_add_head. eapply node_ok_cast; [exact Hq|]. rewrite head_add_head. zl. lia. }
  destruct WB as [WB1 WB2].
  destruct opsA as [|c x] eqn:HA.
  - specialize (FE eq_refl). simpl app. simpl sepl. simpl walk. simpl in LA.
    subst Bb. rewrite Fop1, FE in *. zl_in WB1. zl_in WB2. zl_in LA. split.
    + eapply node_ok_cast; [apply (Hb0' (base + zlen (print true a) + zlen T))|].
      * eapply node_ok_cast; [exact WB1|]. zl. lia.
      * zl. lia.
    + eapply walk_cast; [exact WB2|]. rewrite print_add_head by exact Hnb0. zl. lia.
  - change (sepl [] op ((c :: x) ++ add_head b0 T :: brest))
      with (([] : str) :: map (fun _ : item => op) (x ++ add_head b0 T :: brest)).
    rewrite map_app. change (([] : str) :: map (fun _ : item => op) x ++ map (fun _ : item => op) (add_head b0 T :: brest))
      with (sepl [] op (c :: x) ++ map (fun _ : item => op) (add_head b0 T :: brest)).
    apply walk_app; [apply sepl_length|]. split; [eapply walk_cast; [exact WA|zl; lia]|].
    rewrite LA. simpl map. simpl walk. subst Bb. rewrite Fop1 in *. zl_in WB1. zl_in WB2. split.
    + eapply node_ok_cast; [apply (Hb0' (base + zlen (print true a) + zlen op + zlen T))|].
      * eapply node_ok_cast; [exact WB1|]. zl. lia.
      * zl. lia.
    + eapply walk_cast; [exact WB2|]. rewrite print_add_head by exact Hnb0. zl. lia.
Qed.

(* ================================================================ part 4 *)

Ltac mk_facts := try (intros; reflexivity); try (intros; exact I);
                 try (intros; simpl; unfold wrap; rewrite <- ?app_assoc; reflexivity).

Theorem run_action_spans a args v evs b :
  run_action a args = Ok (v, evs) -> all_trivial evs -> rflat_args a args = false ->
  args_ok b args -> sv_spans_ok b v.
Proof.
  intros H Ht Hg Hargs.
  assert (Hunit : forall x, args = [x] -> v = x -> sv_spans_ok b v).
  { intros x E1 E2. subst. apply Hargs. }
  destruct a; simpl in H;
    repeat match type of H with
    | match ?l with [] => _ | _ :: _ => _ end = _ => destruct l as [|? ?]; try discriminate
    | match ?x with VItem _ => _ | VTok _ _ _ => _ end = _ => destruct x; try discriminate
    | match ?o with Some _ => _ | None => _ end = _ => destruct o eqn:?; try discriminate
    | match ?i with Term _ _ _ => _ | _ => _ end = _ => destruct i; try discriminate
    end;
    try (inv_ok H; eapply Hunit; reflexivity).
  - (* or *)
    destruct Hargs as [A1 [A2 [A3 _]]]. eapply binary_spans; eauto.
    intros E. destruct i0; try discriminate. destruct k; try discriminate. simpl in Hg.
    apply Bool.negb_false_iff, str_eqb_eq in Hg. exact Hg.
  - (* and *)
    destruct Hargs as [A1 [A2 [A3 _]]]. eapply binary_spans; eauto.
    intros E. destruct i0; try discriminate. destruct k; try discriminate. simpl in Hg.
    apply Bool.negb_false_iff, str_eqb_eq in Hg. exact Hg.
  - (* implicit *)
    destruct Hargs as [A1 [A2 _]]. eapply binary_spans; eauto; simpl; auto.
    replace (b + zlen (print true i) + zlen []) with (b + zlen (print true i)) by (zl; lia). exact A2.
  - (* plus *) match type of H with Ok ?e = Ok _ => assert (Hu : e = (v, evs)) by congruence end.
    eapply unary_ht_spans; [exact Hu|exact Ht|exact Hargs| | | | |]; mk_facts.
  - (* minus *) match type of H with Ok ?e = Ok _ => assert (Hu : e = (v, evs)) by congruence end.
    eapply unary_ht_spans; [exact Hu|exact Ht|exact Hargs| | | | |]; mk_facts.
  - (* not *) match type of H with Ok ?e = Ok _ => assert (Hu : e = (v, evs)) by congruence end.
    eapply unary_ht_spans; [exact Hu|exact Ht|exact Hargs| | | | |]; mk_facts.
  - (* grouping *)
    inv_ok H. apply Forall_cons_iff in Ht. destruct Ht as [Hl Ht]. apply Forall_cons_iff in Ht.
    destruct Ht as [Hr _]. simpl in Hl, Hr. subst.
    destruct Hargs as [A1 [A2 [A3 _]]].
    destruct (sv_spans_ok_facts _ _ A1) as [_ [_ [P1 [S1 _]]]].
    destruct (sv_spans_ok_facts _ _ A2) as [V2 [_ [_ [S2 _]]]].
    destruct (sv_spans_ok_facts _ _ A3) as [_ [_ [_ [S3 _]]]].
    clear Hunit Hg. simpl in V2.
    rewrite (htm_pos_spec _ _ _ true true P1) by (repeat constructor; assumption).
    unfold sv_spans_ok in *. simpl sv_node_ok in *.
    split; [unfold sv_head; simpl; reflexivity|]. split.
    + f_equal. simpl print. unfold wrap.
      rewrite print_add_tail by (apply not_none_add_head; assumption).
      rewrite print_add_head by assumption. rewrite (print_true_split i V2).
      unfold sum_len, sv_len, sv_head, sv_tail, head_of, tail_of. simpl. zl. lia.
    + split; [|exact I]. apply node_ok_add_tail, node_ok_add_head. eapply node_ok_cast; [exact A2|].
      rewrite head_add_tail, head_add_head. unfold sv_head, sv_tail, head_of. simpl. zl. lia.
  - (* range *)
    inv_ok H. apply Forall_cons_iff in Ht. destruct Ht as [Hl Ht]. apply Forall_cons_iff in Ht.
    destruct Ht as [Hto Ht]. apply Forall_cons_iff in Ht. destruct Ht as [Hr _]. simpl in Hl, Hto, Hr. subst.
    destruct Hargs as [A1 [A2 [A3 [A4 [A5 _]]]]].
    destruct (sv_spans_ok_facts _ _ A1) as [_ [_ [P1 [S1 _]]]].
    destruct (sv_spans_ok_facts _ _ A2) as [V2 [_ [_ [S2 _]]]].
    destruct (sv_spans_ok_facts _ _ A3) as [_ [_ [_ [S3 _]]]].
    destruct (sv_spans_ok_facts _ _ A4) as [V4 [_ [_ [S4 _]]]].
    destruct (sv_spans_ok_facts _ _ A5) as [_ [_ [_ [S5 _]]]].
    clear Hunit Hg. simpl in V2, V4.
    rewrite (htm_pos_spec _ _ _ true true P1) by (repeat constructor; assumption).
    unfold sv_spans_ok in *. simpl sv_node_ok in *.
    split; [unfold sv_head; simpl; reflexivity|].
    assert (E1 : print true (add_tail_i (add_head i (sv_tail (VTok (gen_low_char (ostr_eqb value (Some [c_lbrack]))) value m))) (sv_head (VTok s_TO value0 m0)))
                 = m_tail m ++ print true i ++ m_head m0).
    { rewrite print_add_tail by (apply not_none_add_head; assumption).
      rewrite print_add_head by assumption. rewrite <- app_assoc. reflexivity. }
    split.
    + f_equal. simpl print. unfold wrap. rewrite E1.
      rewrite print_add_tail by (apply not_none_add_head; assumption).
      rewrite print_add_head by assumption.
      rewrite (print_true_split i V2), (print_true_split i0 V4).
      unfold sum_len, sv_len, sv_head, sv_tail, head_of, tail_of. simpl. zl.
      change (zlen s_TO) with 2. lia.
    + split; [|split; [|exact I]].
      * apply node_ok_add_tail, node_ok_add_head. eapply node_ok_cast; [exact A2|].
        rewrite head_add_tail, head_add_head. unfold sv_head, sv_tail, head_of. simpl. zl. lia.
      * apply node_ok_add_tail, node_ok_add_head. eapply node_ok_cast; [exact A4|].
        rewrite head_add_tail, head_add_head. rewrite E1. rewrite (print_true_split i V2).
        unfold sv_head, sv_tail, head_of, tail_of. simpl. zl. change (zlen s_TO) with 2. lia.
  - (* possibly negative: MINUS phrase_or_term *)
    match type of H with Ok ?e = Ok _ => assert (Hu : e = (v, evs)) by congruence end.
    eapply unary_ht_spans; [exact Hu|exact Ht|exact Hargs| | | | |]; mk_facts.
  - (* lessthan *)
    match type of H with Ok ?e = Ok _ => assert (Hu : e = (v, evs)) by congruence end.
    eapply unary_ht_spans; [exact Hu|exact Ht|exact Hargs| | | | |]; mk_facts.
  - (* greaterthan *)
    match type of H with Ok ?e = Ok _ => assert (Hu : e = (v, evs)) by congruence end.
    eapply unary_ht_spans; [exact Hu|exact Ht|exact Hargs| | | | |]; mk_facts.
  - (* field search *)
    inv_ok H. apply Forall_cons_iff in Ht. destruct Ht as [Hd1 Ht]. apply Forall_cons_iff in Ht.
    destruct Ht as [Hd2 Ht]. apply Forall_cons_iff in Ht. destruct Ht as [Hr _]. simpl in Hr, Hd1, Hd2. subst.
    destruct Hargs as [A1 [A2 [A3 _]]].
    destruct (sv_spans_ok_facts _ _ A1) as [_ [_ [P1 [S1 _]]]].
    destruct (sv_spans_ok_facts _ _ A2) as [_ [_ [_ [S2 _]]]].
    destruct (sv_spans_ok_facts _ _ A3) as [V3 [_ [_ [S3 _]]]].
    clear Hunit Hg. simpl in V3.
    rewrite (htm_pos_spec _ _ _ true false P1) by (repeat constructor; assumption).
    unfold sv_spans_ok in *. simpl sv_node_ok in A3.
    destruct (node_ok_fieldgroup _ _ A3) as [F1 [F2 F3]].
    pose proof (node_ok_not_none _ _ F1) as Hn1.
    simpl sv_node_ok.
    split; [unfold sv_head; simpl; reflexivity|]. split.
    + f_equal. simpl print. unfold wrap. rewrite print_add_head by exact Hn1. rewrite F3.
      rewrite (print_true_split i V3).
      unfold sum_len, sv_len, sv_head, sv_tail, head_of, tail_of in *. simpl in *. rewrite Hd1, Hd2. zl. lia.
    + split; [|exact I]. apply node_ok_add_head. eapply node_ok_cast; [exact F1|].
      rewrite head_add_head, F2.
      unfold sv_head, sv_tail, head_of, tail_of in *. simpl in *. rewrite Hd1, Hd2. zl. lia.
  - (* proximity, explicit *)
    destruct (int_of_lexeme s); [|discriminate].
    match type of H with Ok ?e = Ok _ => assert (Hu : e = (v, evs)) by congruence end.
    eapply post_unary_ht_spans; [exact Hu|exact Ht|exact Hargs| | | | |]; mk_facts.
  - (* proximity, implicit *)
    match type of H with Ok ?e = Ok _ => assert (Hu : e = (v, evs)) by congruence end.
    eapply post_unary_ht_spans; [exact Hu|exact Ht|exact Hargs| | | | |]; mk_facts.
  - (* boost, explicit *)
    destruct (dec_of_lexeme s); [|discriminate].
    match type of H with Ok ?e = Ok _ => assert (Hu : e = (v, evs)) by congruence end.
    eapply post_unary_ht_spans; [exact Hu|exact Ht|exact Hargs| | | | |]; mk_facts.
  - (* boost, implicit *)
    match type of H with Ok ?e = Ok _ => assert (Hu : e = (v, evs)) by congruence end.
    eapply post_unary_ht_spans; [exact Hu|exact Ht|exact Hargs| | | | |]; mk_facts.
  - (* fuzzy, explicit *)
    destruct (dec_of_lexeme s); [|discriminate].
    match type of H with Ok ?e = Ok _ => assert (Hu : e = (v, evs)) by congruence end.
    eapply post_unary_ht_spans; [exact Hu|exact Ht|exact Hargs| | | | |]; mk_facts.
  - (* fuzzy, implicit *)
    match type of H with Ok ?e = Ok _ => assert (Hu : e = (v, evs)) by congruence end.
    eapply post_unary_ht_spans; [exact Hu|exact Ht|exact Hargs| | | | |]; mk_facts.
  - (* TO as a term *)
    inv_ok H. apply Forall_cons_iff in Ht. destruct Ht as [Hl _]. simpl in Hl. subst.
    destruct Hargs as [A1 _].
    destruct (sv_spans_ok_facts _ _ A1) as [_ [_ [P1 [S1 _]]]].
    clear Hunit Hg.
    rewrite (htm_pos_spec _ _ _ true true P1) by (repeat constructor; assumption).
    unfold sv_spans_ok in *. simpl sv_node_ok in *.
    split; [unfold sv_head; simpl; reflexivity|]. split; [|exact I].
    f_equal. unfold sum_len, sv_len, sv_head, sv_tail. simpl. zl. lia.
Qed.

(* ================================================================ part 5 *)
Local Close Scope Z_scope.

(* ---- the lexer: tk_pos is the offset of the lexeme *)
Fixpoint rpos_ok (racc : list token) : Prop :=
  match racc with
  | [] => True
  | t :: r => tk_pos t = length (render (rev r)) + length (tk_head t) /\ rpos_ok r
  end.

Lemma render_snoc x t : render (x ++ [t]) = render x ++ tok_text t.
Proof. rewrite render_app. unfold render at 2. simpl. rewrite app_nil_r. reflexivity. Qed.

Lemma toks_pos_ok_snoc : forall x b t,
  toks_pos_ok b (x ++ [t]) <-> toks_pos_ok b x /\ tk_pos t = b + length (render x) + length (tk_head t).
Proof.
  induction x as [|a x IH]; intros b t; simpl.
  - unfold render. simpl. rewrite Nat.add_0_r. tauto.
  - rewrite IH. change (render (a :: x)) with (tok_text a ++ render x). rewrite app_length.
    rewrite Nat.add_assoc. tauto.
Qed.

Lemma rpos_fwd : forall racc, rpos_ok racc -> toks_pos_ok 0 (rev racc).
Proof.
  induction racc as [|t r IH]; simpl; intros H; [exact I|]. destruct H as [H1 H2].
  apply toks_pos_ok_snoc. split; [apply IH; exact H2|]. simpl. exact H1.
Qed.

Lemma fold_pos : forall raws racc pos after,
  raw_ok pos after raws -> 0 < pos -> racc <> [] -> rpos_ok racc -> length (render (rev racc)) = pos ->
  toks_pos_ok 0 (head_tail_fold raws None racc).
Proof.
  induction raws as [|r raws IH]; intros racc pos after Hok Hpos Hne Hr Hlen; simpl.
  - apply rpos_fwd. exact Hr.
  - simpl in Hok. destruct Hok as [Hp [Hl [_ Hrest]]].
    destruct (rk_kind r) eqn:Hk.
    + assert (E : Nat.eqb (rk_pos r) 0 = false) by (apply Nat.eqb_neq; lia). rewrite E.
      destruct racc as [|lastt racc']; [congruence|].
      eapply IH; [exact Hrest|lia|discriminate| |].
      * simpl in Hr |- *. exact Hr.
      * simpl in Hlen |- *. rewrite render_snoc in Hlen |- *. rewrite app_length in Hlen |- *.
        unfold tok_text, add_tail in *. simpl. rewrite !app_length in *. lia.
    + eapply IH; [exact Hrest|lia|discriminate| |].
      * simpl. split; [|exact Hr]. lia.
      * simpl. rewrite render_snoc, app_length. unfold tok_text. simpl. rewrite app_nil_r. lia.
Qed.

Theorem lex_pos s toks e : lex s = (toks, e) -> toks_pos_ok 0 toks.
Proof.
  unfold lex. destruct (lex_raw (S (length s)) [] 0 s) as [raws e0] eqn:Hraw.
  intros H; inversion H; subst; clear H.
  destruct (lex_raw_spec _ _ _ _ _ _ false Hraw) as [_ [Hok _]]; [lia|discriminate|].
  destruct raws as [|r1 raws]; [exact I|].
  simpl in Hok. destruct Hok as [Hp1 [Hl1 [_ Hrest]]].
  assert (Hpos1 : 0 < 0 + length (rk_lexeme r1)) by (destruct (rk_lexeme r1); [congruence|simpl; lia]).
  simpl. destruct (rk_kind r1) eqn:Hk1.
  - rewrite Hp1. simpl.
    destruct raws as [|r2 raws]; [exact I|].
    simpl in Hrest. destruct Hrest as [Hp2 [Hl2 [Hns2 Hrest2]]].
    simpl. destruct (rk_kind r2) eqn:Hk2; [exfalso; apply Hns2; reflexivity|].
    eapply fold_pos; [exact Hrest2|lia|discriminate| |].
    + simpl. split; [|exact I]. unfold render. simpl. lia.
    + unfold render, tok_text. simpl. rewrite !app_nil_r, app_length. lia.
  - eapply fold_pos; [exact Hrest|lia|discriminate| |].
    + simpl. split; [|exact I]. unfold render. simpl. lia.
    + unfold render, tok_text. simpl. rewrite !app_nil_r. lia.
Qed.

(* ---- the driver *)
Lemma step_cases tb lexerr c c' : step tb lexerr c = Next c' ->
  (exists t rest n, c_toks c = t :: rest /\ tb_action tb (hd 0 (c_states c)) (tk_type t) = Shift n /\
      c' = mkCfg (n :: c_states c) (token_value t :: c_vals c) rest (c_dropped c)) \/
  (exists p lhs rhs a v evs g,
      tb_action tb (hd 0 (c_states c))
                (match hd_error (c_toks c) with Some t => tk_type t | None => T_EOF end) = Reduce p /\
      nth_error (tb_prods tb) (pred p) = Some (lhs, rhs, a) /\
      length rhs <= length (c_vals c) /\
      next_reduction tb lexerr c = Some (a, rev (firstn (length rhs) (c_vals c))) /\
      run_action a (rev (firstn (length rhs) (c_vals c))) = Ok (v, evs) /\
      tb_goto tb (hd 0 (skipn (length rhs) (c_states c))) lhs = Some g /\
      c' = mkCfg (g :: skipn (length rhs) (c_states c)) (v :: skipn (length rhs) (c_vals c))
                 (c_toks c) (c_dropped c ++ evs)).
Proof.
  unfold step. intros H.
  assert (R : forall lat,
    (match c_toks c, lexerr with [], Some _ => False | _, _ => True end) ->
    lat = match hd_error (c_toks c) with Some t => tk_type t | None => T_EOF end ->
    forall p, tb_action tb (hd 0 (c_states c)) lat = Reduce p -> do_reduce tb c p = Next c' ->
    exists p lhs rhs a v evs g,
      tb_action tb (hd 0 (c_states c)) lat = Reduce p /\
      nth_error (tb_prods tb) (pred p) = Some (lhs, rhs, a) /\
      length rhs <= length (c_vals c) /\
      next_reduction tb lexerr c = Some (a, rev (firstn (length rhs) (c_vals c))) /\
      run_action a (rev (firstn (length rhs) (c_vals c))) = Ok (v, evs) /\
      tb_goto tb (hd 0 (skipn (length rhs) (c_states c))) lhs = Some g /\
      c' = mkCfg (g :: skipn (length rhs) (c_states c)) (v :: skipn (length rhs) (c_vals c))
                 (c_toks c) (c_dropped c ++ evs)).
  { intros lat Hne Hlat p Hact Hred. unfold do_reduce in Hred.
    destruct p as [|p']; [discriminate|].
    destruct (nth_error (tb_prods tb) (pred (S p'))) as [[[lhs rhs] a]|] eqn:Hnth; [|discriminate].
    destruct (Nat.ltb (length (c_vals c)) (length rhs)) eqn:Hlt; [discriminate|].
    destruct (run_action a (rev (firstn (length rhs) (c_vals c)))) as [[v evs]|] eqn:Hrun; [|discriminate].
    destruct (tb_goto tb (hd 0 (skipn (length rhs) (c_states c))) lhs) as [g|] eqn:Hg; [|discriminate].
    inversion Hred; subst c'. apply Nat.ltb_ge in Hlt.
    exists (S p'), lhs, rhs, a, v, evs, g. repeat split; auto.
    unfold next_reduction. rewrite <- Hlat, Hact, Hnth.
    destruct (c_toks c); [destruct lexerr; [destruct Hne|reflexivity]|reflexivity]. }
  destruct (c_toks c) as [|t rest] eqn:Htoks.
  - destruct lexerr as [e|]; [discriminate|]. simpl in H.
    destruct (tb_action tb (hd 0 (c_states c)) T_EOF) as [n|p| |] eqn:Hact.
    + unfold do_shift in H. rewrite Htoks in H. discriminate.
    + right. eapply R; eauto.
    + unfold do_accept in H. destruct (c_vals c) as [|[?|? ? ?] ?]; discriminate.
    + discriminate.
  - assert (H' : match tb_action tb (hd 0 (c_states c)) (tk_type t) with
                 | Shift n => do_shift c n | Reduce p => do_reduce tb c p
                 | Accept => do_accept lexerr c | ActErr => Final (Err (syntax_error (Some t))) [] end = Next c').
    { destruct lexerr; exact H. }
    clear H. destruct (tb_action tb (hd 0 (c_states c)) (tk_type t)) as [n|p| |] eqn:Hact.
    + left. unfold do_shift in H'. rewrite Htoks in H'. inversion H'. exists t, rest, n. auto.
    + right. eapply R; eauto.
    + unfold do_accept in H'. destruct (c_vals c) as [|[?|? ? ?] ?]; discriminate.
    + discriminate.
Qed.

Lemma step_final tb lexerr c t evs : step tb lexerr c = Final (Ok t) evs ->
  exists below, c_vals c = VItem t :: below /\
    evs = drops [stack_text below; render (c_toks c); match lexerr with Some e => snd e | None => [] end].
Proof.
  unfold step, do_shift, do_reduce, do_accept. intros H.
  destruct (c_toks c) as [|tk rest] eqn:Htoks; simpl in H;
    repeat match type of H with
    | match ?x with _ => _ end = _ => destruct x eqn:?; try discriminate
    | (if ?b then _ else _) = _ => destruct b eqn:?; try discriminate
    end; inversion H; subst; eexists; split; reflexivity.
Qed.

Section AnyTables.
  Variable tb : tables.
  Variable s : str.

  Definition SInv (c : config) : Prop :=
    args_ok 0 (rev (c_vals c)) /\ toks_pos_ok (length (stack_text (c_vals c))) (c_toks c).

  Lemma token_value_spans t b :
    tk_pos t = b + length (tk_head t) -> sv_spans_ok (Z.of_nat b) (token_value t).
  Proof.
    intros H. unfold token_value, sv_spans_ok, sv_head.
    destruct (tk_type t); simpl; unfold zlen; rewrite H; repeat split; try (f_equal; lia).
  Qed.

  Lemma zlen_stack_text vals : zlen (concat (map full_text (rev vals))) = Z.of_nat (length (stack_text vals)).
  Proof. reflexivity. Qed.

  Lemma step_next_spans lexerr c c' :
    step tb lexerr c = Next c' -> Inv s lexerr c -> SInv c -> rflat_step tb lexerr c = false ->
    exists evs, c_dropped c' = c_dropped c ++ evs /\ (all_trivial evs -> Inv s lexerr c' /\ SInv c').
  Proof.
    intros Hs HI [HA HT] Hrf.
    destruct (step_next tb s _ _ _ Hs HI) as [evs0 [Hd0 HI0]].
    destruct (step_cases _ _ _ _ Hs) as [[t [rest [n [Htoks [Hact Hc']]]]]|
                                         [p [lhs [rhs [a [v [evs [g [Hact [Hnth [Hlen [Hnr [Hrun [Hg Hc']]]]]]]]]]]]]].
    - subst c'. simpl in *. exists []. split; [rewrite app_nil_r; reflexivity|]. intros _.
      assert (E : evs0 = []) by (rewrite <- (app_nil_r (c_dropped c)) in Hd0 at 1; apply app_inv_head in Hd0; auto).
      split; [apply HI0; rewrite E; constructor|]. unfold SInv. simpl.
      rewrite Htoks in HT. simpl in HT. destruct HT as [HT1 HT2]. split.
      + apply args_ok_app. split; [exact HA|]. simpl. split; [|exact I].
        rewrite zlen_stack_text. simpl. apply token_value_spans. exact HT1.
      + rewrite (stack_text_cons _ _), app_length, token_value_text. exact HT2.
    - subst c'. simpl in *. exists evs. split; [reflexivity|]. intros Htriv.
      apply app_inv_head in Hd0. subst evs0. split; [apply HI0; exact Htriv|].
      unfold rflat_step in Hrf. rewrite Hnr in Hrf.
      set (nn := length rhs) in *.
      rewrite <- (firstn_skipn nn (c_vals c)), rev_app_distr in HA. apply args_ok_app in HA.
      destruct HA as [HA1 HA2].
      pose proof (run_action_spans _ _ _ _ _ Hrun Htriv Hrf HA2) as Hv.
      destruct (args_ok_vals _ _ HA2) as [Hvo Hco].
      destruct (run_action_text _ _ _ _ Hrun Htriv Hvo Hco) as [Htxt _].
      unfold SInv. simpl. split.
      + apply args_ok_app. split; [exact HA1|]. simpl. split; [exact Hv|exact I].
      + rewrite (stack_text_cons _ _), Htxt.
        rewrite (stack_text_split nn (c_vals c)) in HT. exact HT.
  Qed.

  Lemma run_spans lexerr : forall fuel c t evs,
    run tb lexerr fuel c = Done (Ok t) evs -> Inv s lexerr c -> SInv c ->
    rflat_run tb lexerr fuel c = false ->
    (forall evs', evs = c_dropped c ++ evs' -> all_trivial evs') -> spans_ok 0 t.
  Proof.
    induction fuel as [|f IH]; intros c t evs H HI HS Hrf Htriv; simpl in H; [discriminate|].
    simpl in Hrf. apply Bool.orb_false_iff in Hrf. destruct Hrf as [Hrf1 Hrf2].
    destruct (step tb lexerr c) as [c'|r evs1] eqn:Hs.
    - destruct (step_next_spans _ _ _ Hs HI HS Hrf1) as [evs2 [Hd HI']].
      destruct (run_dropped_prefix _ _ _ _ _ _ H) as [rest Hrest].
      assert (Ha : all_trivial (evs2 ++ rest)) by (apply Htriv; rewrite Hrest, Hd, <- app_assoc; reflexivity).
      apply all_trivial_app in Ha. destruct (HI' (proj1 Ha)) as [HI2 HS2].
      eapply IH; [exact H|exact HI2|exact HS2|exact Hrf2|].
      intros evs' He. specialize (Htriv (evs2 ++ evs')).
      assert (Hb : all_trivial (evs2 ++ evs')) by (apply Htriv; rewrite He, Hd, <- app_assoc; reflexivity).
      apply all_trivial_app in Hb. apply Hb.
    - inversion H; subst; clear H. destruct (step_final _ _ _ _ _ Hs) as [below [Hv He]].
      specialize (Htriv evs1 eq_refl). subst evs1. unfold drops in Htriv. simpl in Htriv.
      apply Forall_cons_iff in Htriv. destruct Htriv as [E1 _]. simpl in E1.
      destruct HS as [HA _]. rewrite Hv in HA. simpl in HA. apply args_ok_app in HA.
      destruct HA as [_ [HA _]]. rewrite zlen_stack_text, E1 in HA. exact HA.
  Qed.
End AnyTables.

Theorem parse_with_spans tb s t evs :
  parse_with tb s = Done (Ok t) evs -> all_trivial evs -> parse_rflat tb s = false ->
  spans_ok 0 t /\ print true t = s.
Proof.
  intros H Htriv Hrf. split; [|eapply parse_with_lossless; eauto].
  unfold parse_with in H. unfold parse_rflat in Hrf. destruct (lex s) as [toks e] eqn:Hlex.
  destruct (run_dropped_prefix _ _ _ _ _ _ H) as [rest Hrest]. simpl in Hrest.
  eapply (run_spans tb s e); [exact H| | |exact Hrf|].
  - unfold Inv, init_config. simpl. split; [|split; constructor].
    destruct toks as [|t0 toks'].
    + subst evs. apply Forall_cons_iff in Htriv. destruct Htriv as [E _]. simpl in E. subst s.
      unfold lex in Hlex. simpl in Hlex. inversion Hlex; subst. reflexivity.
    + apply (lex_lossless s (t0 :: toks') e Hlex). discriminate.
  - unfold SInv, init_config. simpl. split; [exact I|]. eapply lex_pos. exact Hlex.
  - intros evs' He. simpl in He. subst evs. apply app_inv_head in He. subst evs'.
    apply all_trivial_app in Htriv. apply Htriv.
Qed.

(* ================================================================ part 6 *)

(* ---- with PLY's tables the right operand of OR / AND is never an operation of the same class
   (left associativity), so the latent size defect of binary_operation is not reachable.
   Table facts are boolean checks over all states, discharged by vm_compute for the generated tables. *)
Definition all_toks : list tok :=
  [T_TERM; T_PHRASE; T_REGEX; T_APPROX; T_BOOST; T_MINUS; T_PLUS; T_COLUMN; T_LPAREN; T_RPAREN; T_LBRACKET;
   T_RBRACKET; T_LESSTHAN; T_GREATERTHAN; T_AND_OP; T_NOT; T_OR_OP; T_TO; T_EOF].
Definition all_nts : list nonterm :=
  [N_expression; N_unary_expression; N_possibly_negative_term; N_phrase_or_possibly_negative_term; N_phrase_or_term].
Lemma all_toks_in t : In t all_toks. Proof. destruct t; simpl; tauto. Qed.
Lemma all_nts_in n : In n all_nts. Proof. destruct n; simpl; tauto. Qed.

Definition binkind (a : action_name) : option opk :=
  match a with A_expression_or => Some KOr | A_expression_and => Some KAnd | _ => None end.
Definition is_unit (a : action_name) : bool :=
  match a with
  | A_expression_unary | A_possibly_negative_term | A_phrase_or_possibly_negative_term | A_quoting
  | A_terms | A_regex | A_phrase_or_term => true
  | _ => false
  end.

Ltac break_args H :=
  repeat match type of H with
    | match ?l with [] => _ | _ :: _ => _ end = _ => destruct l as [|? ?]; try discriminate
    | match ?x with VItem _ => _ | VTok _ _ _ => _ end = _ => destruct x; try discriminate
    | match ?o with Some _ => _ | None => _ end = _ => destruct o eqn:?; try discriminate
    | match ?i with Term _ _ _ => _ | _ => _ end = _ => destruct i; try discriminate
    end.

Lemma binary_kind k a opv b v evs : binary k a opv b = Ok (v, evs) -> exists m ops, v = VItem (Op k m ops).
Proof.
  unfold binary. destruct (if match b with Op k' _ _ => opk_eqb k k' | _ => false end then children b else [b]);
    [discriminate|]. destruct (htm_pos _ false false). intros H. inversion H. eauto.
Qed.

Lemma action_op_result a args k m ops evs :
  run_action a args = Ok (VItem (Op k m ops), evs) ->
  binkind a = Some k \/ k = KUnknown \/ (is_unit a = true /\ args = [VItem (Op k m ops)]).
Proof.
  intros H. destruct a; simpl in H; break_args H;
    try (right; right; split; [reflexivity|]; inversion H; reflexivity);
    try (apply binary_kind in H; destruct H as [? [? H]]; inversion H; subst; auto; fail);
    try (repeat match type of H with
         | match ?x with _ => _ end = _ => destruct x; try discriminate
         end; unfold unary_ht, post_unary_ht in H; inversion H; fail).
Qed.

Lemma rflat_args_last a args k d :
  binkind a = Some k -> (forall m ops, last args d <> VItem (Op k m ops)) -> rflat_args a args = false.
Proof.
  intros Hk Hl.
  destruct args as [|x1 [|x2 [|x3 [|x4 r]]]];
    try (destruct a; try discriminate; simpl; try reflexivity;
         repeat match goal with |- context [match ?x with _ => _ end] => destruct x; try reflexivity end; fail).
  simpl in Hl.
  destruct a; try discriminate; inversion Hk; subst k; simpl;
    (destruct x1; try reflexivity; destruct x2; try reflexivity; destruct x3 as [i3|]; try reflexivity;
     destruct i3; try reflexivity; destruct k; try reflexivity; exfalso; eapply Hl; reflexivity).
Qed.

Section RFlat.
  Variable tb : tables.
  Variable N : nat.
  Variable opst : opk -> nat -> bool.

  Definition succb (b a : nat) : bool :=
    existsb (fun t => match tb_action tb b t with Shift n => Nat.eqb n a | _ => false end) all_toks ||
    existsb (fun nt => match tb_goto tb b nt with Some g => Nat.eqb g a | None => false end) all_nts.
  Definition preds (st : nat) : list nat := filter (fun s' => succb s' st) (seq 0 N).
  (* the states n transitions below st *)
  Fixpoint bases (n st : nat) : list nat :=
    match n with O => [st] | S n' => flat_map (bases n') (preds st) end.

  Definition chk_range : bool :=
    forallb (fun st =>
      forallb (fun t => match tb_action tb st t with Shift n => Nat.ltb n N | _ => true end) all_toks &&
      forallb (fun nt => match tb_goto tb st nt with Some g => Nat.ltb g N | None => true end) all_nts)
      (seq 0 N).

  Definition chk_prod (st : nat) (p : nat) : bool :=
    match nth_error (tb_prods tb) (pred p) with
    | Some (lhs, rhs, a) =>
        (match binkind a with
         | Some k =>
             negb (opst k st) &&
             forallb (fun s' => match tb_goto tb s' lhs with Some g => opst k g | None => true end)
                     (bases (length rhs) st)
         | None => true
         end) &&
        (if is_unit a then
           forallb (fun s' => match tb_goto tb s' lhs with
                              | Some g => implb (opst KOr st) (opst KOr g) && implb (opst KAnd st) (opst KAnd g)
                              | None => true end) (preds st)
         else true)
    | None => true
    end.

  Definition chk_red : bool :=
    forallb (fun st => forallb (fun lat => match tb_action tb st lat with Reduce p => chk_prod st p | _ => true end)
                               all_toks) (seq 0 N).

  Hypothesis Hrange : chk_range = true.
  Hypothesis Hred : chk_red = true.
  Hypothesis HN : 0 < N.

  Lemma in_seqN st : st < N -> In st (seq 0 N).
  Proof. intros H. apply in_seq. lia. Qed.

  Lemma shift_range st t n : st < N -> tb_action tb st t = Shift n -> n < N /\ succb st n = true.
  Proof.
    intros Hst Ha. unfold chk_range in Hrange. rewrite forallb_forall in Hrange.
    specialize (Hrange st (in_seqN _ Hst)). apply andb_prop in Hrange. destruct Hrange as [H1 _].
    rewrite forallb_forall in H1. specialize (H1 t (all_toks_in t)). rewrite Ha in H1.
    apply Nat.ltb_lt in H1. split; [exact H1|]. unfold succb. apply Bool.orb_true_iff. left.
    apply existsb_exists. exists t. split; [apply all_toks_in|]. rewrite Ha. apply Nat.eqb_refl.
  Qed.

  Lemma goto_range st nt g : st < N -> tb_goto tb st nt = Some g -> g < N /\ succb st g = true.
  Proof.
    intros Hst Ha. unfold chk_range in Hrange. rewrite forallb_forall in Hrange.
    specialize (Hrange st (in_seqN _ Hst)). apply andb_prop in Hrange. destruct Hrange as [_ H1].
    rewrite forallb_forall in H1. specialize (H1 nt (all_nts_in nt)). rewrite Ha in H1.
    apply Nat.ltb_lt in H1. split; [exact H1|]. unfold succb. apply Bool.orb_true_iff. right.
    apply existsb_exists. exists nt. split; [apply all_nts_in|]. rewrite Ha. apply Nat.eqb_refl.
  Qed.

  Lemma red_facts st lat p : st < N -> tb_action tb st lat = Reduce p -> chk_prod st p = true.
  Proof.
    intros Hst Ha. unfold chk_red in Hred. rewrite forallb_forall in Hred.
    specialize (Hred st (in_seqN _ Hst)). rewrite forallb_forall in Hred.
    specialize (Hred lat (all_toks_in lat)). rewrite Ha in Hred. exact Hred.
  Qed.

  Fixpoint chain_ok (l : list nat) : Prop :=
    match l with
    | [] => True
    | a :: r => a < N /\ (match r with b :: _ => succb b a = true | [] => True end) /\ chain_ok r
    end.

  Definition val_st_ok (st : nat) (v : symval) : Prop :=
    forall k m ops, v = VItem (Op k m ops) -> k = KOr \/ k = KAnd -> opst k st = true.

  Fixpoint vals_ok (sts : list nat) (vals : list symval) {struct vals} : Prop :=
    match vals, sts with
    | [], _ => True
    | v :: vr, st :: sr => val_st_ok st v /\ vals_ok sr vr
    | _ :: _, [] => False
    end.

  Definition J (c : config) : Prop :=
    length (c_states c) = S (length (c_vals c)) /\ chain_ok (c_states c) /\ vals_ok (c_states c) (c_vals c).

  Lemma chain_ok_skipn : forall n l, chain_ok l -> chain_ok (skipn n l).
  Proof. induction n; intros l H; simpl; [exact H|]. destruct l; [exact I|]. apply IHn. apply H. Qed.

  Lemma vals_ok_skipn : forall n sts vals, vals_ok sts vals -> vals_ok (skipn n sts) (skipn n vals).
  Proof.
    induction n; intros sts vals H; simpl; [exact H|]. destruct vals as [|v vr]; [destruct sts; exact I|].
    destruct sts as [|st sr]; [destruct H|]. apply IHn. apply H.
  Qed.

  Lemma chain_bases : forall n l st s', chain_ok l -> hd_error l = Some st -> nth_error l n = Some s' ->
    In s' (bases n st).
  Proof.
    induction n; intros l st s' Hc Hh Hn; destruct l as [|a r]; try discriminate; simpl in *.
    - inversion Hh; inversion Hn; subst. auto.
    - inversion Hh; subst. destruct r as [|b r']; [destruct n; discriminate|].
      destruct Hc as [Ha [Hs Hc]]. apply in_flat_map. exists b. split.
      + unfold preds. apply filter_In. split; [apply in_seqN; apply Hc|exact Hs].
      + eapply IHn; [exact Hc|reflexivity|exact Hn].
  Qed.

  Lemma chain_lt : forall n l s', chain_ok l -> nth_error l n = Some s' -> s' < N.
  Proof.
    induction n; intros l s' Hc Hn; destruct l; try discriminate; simpl in *.
    - inversion Hn; subst. apply Hc.
    - eapply IHn; [|exact Hn]. apply Hc.
  Qed.

  Lemma skipn_nth {A} : forall n (l : list A) x, nth_error l n = Some x -> exists r, skipn n l = x :: r.
  Proof.
    induction n; intros l x H; destruct l; try discriminate; simpl in *.
    - inversion H; subst. eauto.
    - apply IHn. exact H.
  Qed.

  Lemma J_step lexerr c c' : step tb lexerr c = Next c' -> J c -> J c'.
  Proof.
    intros Hs [J1 [J2 J3]].
    destruct (step_cases _ _ _ _ Hs) as [[t [rest [n [Htoks [Hact Hc']]]]]|
                                         [p [lhs [rhs [a [v [evs [g [Hact [Hnth [Hlen [Hnr [Hrun [Hg Hc']]]]]]]]]]]]]].
    - subst c'. unfold J. simpl. destruct (c_states c) as [|st sr] eqn:Hst; [discriminate|]. simpl in Hact.
      destruct J2 as [Hlt J2']. destruct (shift_range _ _ _ Hlt Hact) as [Hn Hsucc].
      split; [simpl in *; lia|]. split; [simpl; auto|]. split; [|exact J3].
      intros k m ops E. unfold token_value in E. destruct (tk_type t); discriminate.
    - subst c'. unfold J. simpl. set (nn := length rhs) in *.
      assert (Hex : exists s', nth_error (c_states c) nn = Some s').
      { destruct (nth_error (c_states c) nn) eqn:E; [eauto|]. apply nth_error_None in E. lia. }
      destruct Hex as [s' Hs']. destruct (skipn_nth _ _ _ Hs') as [r Hskip]. rewrite Hskip in *. simpl in Hg.
      pose proof (chain_lt _ _ _ J2 Hs') as Hs'lt.
      destruct (goto_range _ _ _ Hs'lt Hg) as [Hglt Hgs].
      pose proof (chain_ok_skipn nn _ J2) as J2s. rewrite Hskip in J2s.
      destruct (c_states c) as [|st sr] eqn:Hst; [discriminate|]. simpl in Hact.
      assert (Hstlt : st < N) by apply J2.
      pose proof (red_facts _ _ _ Hstlt Hact) as Hchk. unfold chk_prod in Hchk. rewrite Hnth in Hchk.
      apply andb_prop in Hchk. destruct Hchk as [Hbin Hunit].
      split.
      { pose proof (f_equal (@length nat) Hskip) as L. rewrite skipn_length in L.
        simpl length in *. rewrite skipn_length. lia. }
      split; [simpl; auto|]. simpl. split.
      + intros k m ops E Hk. subst v.
        destruct (action_op_result _ _ _ _ _ _ Hrun) as [Hb|[Hb|[Hu Hargs]]].
        * rewrite Hb in Hbin. apply andb_prop in Hbin. destruct Hbin as [_ Hland].
          rewrite forallb_forall in Hland.
          assert (Hin : In s' (bases nn (st))).
          { eapply chain_bases; [exact J2|reflexivity|exact Hs']. }
          specialize (Hland _ Hin). rewrite Hg in Hland. exact Hland.
        * subst k. destruct Hk; discriminate.
        * rewrite Hu in Hunit. rewrite forallb_forall in Hunit.
          assert (Hn1 : nn = 1).
          { apply (f_equal (@length symval)) in Hargs. rewrite rev_length, firstn_length_le in Hargs by exact Hlen.
            exact Hargs. }
          rewrite Hn1 in *. destruct sr as [|s1 sr']; [discriminate|]. simpl in Hs'. inversion Hs'; subst s1.
          destruct (c_vals c) as [|v0 vr] eqn:Hv; [simpl in Hlen; lia|]. simpl in Hargs. inversion Hargs; subst v0.
          destruct J3 as [J3a _]. specialize (J3a _ _ _ eq_refl Hk).
          assert (Hin : In s' (preds st)).
          { unfold preds. apply filter_In. split; [apply in_seqN; exact Hs'lt|]. destruct J2 as [_ [Hsu _]]. exact Hsu. }
          specialize (Hunit _ Hin). rewrite Hg in Hunit. apply andb_prop in Hunit. destruct Hunit as [U1 U2].
          destruct Hk; subst k; rewrite J3a in *; simpl in *; assumption.
      + pose proof (vals_ok_skipn nn _ _ J3) as J3s. rewrite Hskip in J3s.
        destruct (skipn nn (c_vals c)); [exact I|]. apply J3s.
  Qed.

  Lemma J_rflat lexerr c : J c -> rflat_step tb lexerr c = false.
  Proof.
    intros [J1 [J2 J3]]. unfold rflat_step. destruct (next_reduction tb lexerr c) as [[a args]|] eqn:Hnr; [|reflexivity].
    unfold next_reduction in Hnr.
    assert (Hnr' : match tb_action tb (hd 0 (c_states c))
                         (match hd_error (c_toks c) with Some t => tk_type t | None => T_EOF end) with
                   | Reduce p => match p, nth_error (tb_prods tb) (pred p) with
                                 | S _, Some (_, rhs, a) => Some (a, rev (firstn (length rhs) (c_vals c)))
                                 | _, _ => None end
                   | _ => None end = Some (a, args)).
    { destruct (c_toks c); [destruct lexerr; [discriminate|exact Hnr]|exact Hnr]. }
    clear Hnr. destruct (tb_action tb _ _) as [|p| |] eqn:Hact; try discriminate.
    destruct p as [|p']; [discriminate|].
    destruct (nth_error (tb_prods tb) (pred (S p'))) as [[[lhs rhs] a0]|] eqn:Hnth; [|discriminate].
    inversion Hnr'; subst a0 args; clear Hnr'.
    destruct (c_states c) as [|st sr] eqn:Hst; [discriminate|]. simpl in Hact.
    assert (Hstlt : st < N) by apply J2.
    pose proof (red_facts _ _ _ Hstlt Hact) as Hchk. unfold chk_prod in Hchk. rewrite Hnth in Hchk.
    apply andb_prop in Hchk. destruct Hchk as [Hbin _].
    destruct (binkind a) as [k|] eqn:Hk; [|destruct a; try discriminate; reflexivity].
    apply andb_prop in Hbin. destruct Hbin as [Hneg _]. apply Bool.negb_true_iff in Hneg.
    (* the top value sits in state st: it is not an operation of kind k *)
    destruct (c_vals c) as [|y vr] eqn:Hv.
    { destruct (length rhs); simpl; destruct a; reflexivity. }
    destruct J3 as [J3a _].
    assert (Hy : forall m ops, y <> VItem (Op k m ops)).
    { intros m ops E. specialize (J3a _ _ _ E). destruct a; try discriminate; inversion Hk; subst k;
        rewrite J3a in Hneg; auto; discriminate. }
    destruct (length rhs) as [|n1]; [destruct a; reflexivity|]. simpl firstn. simpl rev.
    eapply rflat_args_last with (d := y); [exact Hk|]. rewrite last_last. exact Hy.
  Qed.

  Lemma J_run lexerr : forall fuel c, J c -> rflat_run tb lexerr fuel c = false.
  Proof.
    induction fuel as [|f IH]; intros c HJ; simpl; [reflexivity|].
    rewrite (J_rflat lexerr c HJ). simpl. destruct (step tb lexerr c) as [c'|] eqn:Hs; [|reflexivity].
    apply IH. eapply J_step; eauto.
  Qed.

  Theorem no_rflat s : parse_rflat tb s = false.
  Proof.
    unfold parse_rflat. destruct (lex s) as [toks e]. apply J_run.
    unfold J, init_config. simpl. auto.
  Qed.
End RFlat.

(* the states in which an OrOperation / AndOperation value can sit, computed from the tables *)
Definition landing (tb : tables) (N : nat) (k : opk) : list nat :=
  flat_map (fun st =>
    flat_map (fun lat =>
      match tb_action tb st lat with
      | Reduce p =>
          match nth_error (tb_prods tb) (pred p) with
          | Some (lhs, rhs, a) =>
              match binkind a with
              | Some k' =>
                  if opk_eqb k k' then
                    flat_map (fun s' => match tb_goto tb s' lhs with Some g => [g] | None => [] end)
                             (bases tb N (length rhs) st)
                  else []
              | None => []
              end
          | None => []
          end
      | _ => []
      end) all_toks) (seq 0 N).

Definition unit_step (tb : tables) (N : nat) (S : list nat) : list nat :=
  S ++ flat_map (fun st =>
    if existsb (Nat.eqb st) S then
      flat_map (fun lat =>
        match tb_action tb st lat with
        | Reduce p =>
            match nth_error (tb_prods tb) (pred p) with
            | Some (lhs, rhs, a) =>
                if is_unit a then
                  flat_map (fun s' => match tb_goto tb s' lhs with Some g => [g] | None => [] end) (preds tb N st)
                else []
            | None => []
            end
        | _ => []
        end) all_toks
    else []) (seq 0 N).

Definition opset (tb : tables) (N : nat) (k : opk) : list nat :=
  nodup Nat.eq_dec (unit_step tb N (unit_step tb N (unit_step tb N (unit_step tb N (nodup Nat.eq_dec (landing tb N k)))))).

Definition gen_or_states : list nat := Eval vm_compute in opset gen_tables gen_nstates KOr.
Definition gen_and_states : list nat := Eval vm_compute in opset gen_tables gen_nstates KAnd.
Definition gen_opst (k : opk) (st : nat) : bool :=
  match k with
  | KOr => existsb (Nat.eqb st) gen_or_states
  | KAnd => existsb (Nat.eqb st) gen_and_states
  | _ => false
  end.

Theorem gen_no_rflat s : parse_rflat gen_tables s = false.
Proof.
  apply (no_rflat gen_tables gen_nstates gen_opst).
  - vm_compute. reflexivity.
  - vm_compute. reflexivity.
  - vm_compute. lia.
Qed.

(* ================================================================ part 7 *)
Local Open Scope Z_scope.

(* ---- "in order" means pairwise disjoint *)
Lemma ordered_in_nth : forall l lo hi j c d,
  ordered_in lo hi l -> nth_error l j = Some (c, d) -> lo <= c /\ c <= d /\ d <= hi.
Proof.
  induction l as [|[a b] l IH]; intros lo hi j c d H Hn; [destruct j; discriminate|].
  simpl in H. destruct H as [[H1 H2] H3]. destruct j as [|j]; simpl in Hn.
  - inversion Hn; subst. split; [exact H1|]. split; [exact H2|].
    clear -H3. revert H3. generalize d. induction l as [|[x y] l IHl]; simpl; intros d0 H; [exact H|].
    destruct H as [[Ha Hb] Hc]. apply IHl in Hc. lia.
  - destruct (IH _ _ _ _ _ H3 Hn) as [A [B C]]. lia.
Qed.

Lemma ordered_in_pairwise : forall l lo hi i j a b c d,
  ordered_in lo hi l -> (i < j)%nat -> nth_error l i = Some (a, b) -> nth_error l j = Some (c, d) ->
  lo <= a /\ a <= b /\ b <= c /\ c <= d /\ d <= hi.
Proof.
  induction l as [|[x y] l IH]; intros lo hi i j a b c d H Hij Hi Hj; [destruct i; discriminate|].
  simpl in H. destruct H as [[H1 H2] H3]. destruct j as [|j]; [lia|]. simpl in Hj.
  destruct i as [|i]; simpl in Hi.
  - inversion Hi; subst. destruct (ordered_in_nth _ _ _ _ _ _ H3 Hj) as [A [B C]]. lia.
  - assert (Hij' : (i < j)%nat) by lia.
    destruct (IH _ _ _ _ _ _ _ _ H3 Hij' Hi Hj) as [A [B [C [D E]]]]. lia.
Qed.

(* ---- the boolean predicate decides the layout predicate *)
Lemma oZ_eqb_some x p : oZ_eqb x (Some p) = true <-> x = Some p.
Proof.
  destruct x as [z|]; simpl; [|split; discriminate]. rewrite Z.eqb_eq. split; [intros; subst; reflexivity|].
  intros H; inversion H; reflexivity.
Qed.

Lemma node_okb_unfold p n :
  node_okb p n =
  match n with
  | NoneItem _ => false
  | _ => oZ_eqb (m_pos (meta_of n)) (Some p) && oZ_eqb (m_size (meta_of n)) (Some (zlen (print false n))) &&
         walkb node_okb p (seps n) (children n)
  end.
Proof. destruct n; reflexivity. Qed.

Lemma walkb_iff : forall l, Forall (fun c => forall p, node_okb p c = true <-> node_ok p c) l ->
  forall sps b, walkb node_okb b sps l = true <-> walk node_ok b sps l.
Proof.
  induction l as [|c l IH]; intros HF sps b; simpl; [tauto|].
  inversion HF as [|? ? Hc Hl]; subst. destruct sps as [|sp sps]; [split; [discriminate|tauto]|].
  rewrite Bool.andb_true_iff, Hc, (IH Hl). tauto.
Qed.

Lemma node_okb_iff : forall n p, node_okb p n = true <-> node_ok p n.
Proof.
  apply (item_children_ind (fun n => forall p, node_okb p n = true <-> node_ok p n)).
  intros n IH p. rewrite node_okb_unfold, node_ok_unfold.
  destruct n; try (simpl; split; [discriminate|tauto]);
    rewrite !Bool.andb_true_iff, !oZ_eqb_some, (walkb_iff _ IH); simpl not_none; tauto.
Qed.

Lemma spans_okb_iff base n : spans_okb base n = true <-> spans_ok base n.
Proof. apply node_okb_iff. Qed.
