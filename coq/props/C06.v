(* C06 — each query term becomes exactly one ES clause: right field, value, kind, name; plain JSON;
   identical on every call.  Statements, theorems, witnesses, examples, Print Assumptions only.
   Model: model/EsBuild.v; vocabulary: model/EsSpec.v; lemmas: proofs/EsProofs.v.

   Clauses of the property text:
   (a) "each word, phrase or range appears exactly once as a leaf clause addressed to the fully
       qualified field, carrying the term's own text ... kind follows the documented table ...
       fuzziness / slop / boost from ~ and ^ ... per-field options merged in, its _name is the name of the
       nearest named enclosing element"
       -> C06_leaves_statement (multiset of the leaf clauses of the JSON = clauses of
       EsSpec.expected_leaves, which is computed on the tree and the declared paths alone: a ~ / ^ applies to
       the single leaf below it through parentheses and field wrappers), C06_eleaves_statement (the same in
       document order on the E-tree) and C06_leaf_names (the names alone, against the direct reading
       EsSpec.expected_names; FULL).
       The unguarded statements are FALSE of the faithful model: F22 — a ^ / ~ placed above a field that gets
       a nested clause is dropped by the builder: `(a.b:x)^2` with a.b nested gives the clause of `a.b:x`
       without its boost, while `a.b:x^2`, `(c:x)^2` keep it (C06_leaves_refuted_F22,
       C06_eleaves_refuted_F22; witness replayed on the real code).  They are proved under the executable guard
       EsSpec.modifier_over_nested cfg t = false (C06_leaves_partial, C06_eleaves_partial), which excludes
       exactly the trees with a ^ / ~ separated from its single leaf by a field that crosses a nested
       boundary; C06_modifier_guard_needed shows the guard cannot be dropped, C06_guard_accepts_boosted_nested
       that a boosted nested field in the accepted spelling `a.b:x^2` is inside it.
       History: until that audit the expected leaves asked the builder's own split_nested whether a modifier
       reaches its leaf, so the deviation was invisible; that builder-following reading now lives in
       proofs/EsProofs.v (xl_b) as a proof device only.
       F16 (names lost by simplify_if_same) was repaired in the code (d55d914): regression examples
       C06_F16_regression_plus / _and on the former witnesses.
       "zero_terms_query 'all' only directly under a conjunction": part of expected_leaves (tagz / direct_leaf
       / ekind); the constants are pinned by C06_tie_ztq.
   (b) "the result is plain JSON data"                                -> C06_plain_json (full)
   (c) "identical on every call of the same or of a fresh builder"   -> C06_calls_independent in the
       pure model; what ties it to the code: the generated facts C06_tie_* (class-level defaults are
       tuples / str, the builder uses the standard E-classes) and the call-sequence correspondence.
   The rendering of ONE expected leaf record to its clause is EsBuild.leaf_json (kind = leaf_method,
   field, value under query / value, generated keys over the field options); that table is also
   checked on the implementation by the independent Python oracle of harness/c06.py. *)
Require Import Base Decimal Tree GenTree GenVisitors GenEs Visitor Json EsSpecs EsCheck EsBuild EsSpec
               TreeInd EsProofs.
From Coq Require Import Permutation.

(* ---- tie obligations on generated data *)
Lemma C06_tie_e_consts_immutable : gen_e_consts_immutable = true.
Proof. vm_compute. reflexivity. Qed.
Lemma C06_tie_builder_eclasses_standard : gen_builder_eclasses_standard = true.
Proof. vm_compute. reflexivity. Qed.
Lemma C06_tie_methods_known : builder_methods_known = true /\ chk_methods_known = true.
Proof. vm_compute. split; reflexivity. Qed.

(* zero_terms_query: "all" is what an EMust pushes onto its direct leaf items, "none" what an EMustNot pushes
   and what a leaf keeps by default (alone, under an EShould / EBoolOperation, inside a nested clause); the
   constants are generated from luqum/elasticsearch/tree.py on every run *)
Definition C06_tie_ztq_statement : Prop :=
  gen_EMust_zero_terms_query = k_all /\ gen_EMustNot_zero_terms_query = k_none /\
  gen_default_zero_terms_query = k_none /\
  ztq_of_op EKMust = Some k_all /\ ztq_of_op EKMustNot = Some k_none /\
  ztq_of_op EKShould = None /\ ztq_of_op EKBool = None /\ ztq_default = k_none /\
  op_key EKMust = k_must /\ op_key EKShould = k_should /\ op_key EKMustNot = k_must_not.
Lemma C06_tie_ztq : C06_tie_ztq_statement.
Proof. vm_compute. repeat split; reflexivity. Qed.

(* ---- history clause: "identical on every call of the same or of a fresh builder" *)
(* call number k of a builder instance returns what a fresh builder returns for that tree *)
Definition C06_calls_independent_statement : Prop :=
  forall cfg ts k t, nth_error ts k = Some t ->
    nth_error (build_calls cfg ts) k = Some (build cfg t).

Theorem C06_calls_independent : C06_calls_independent_statement.
Proof. intros cfg ts k t H. unfold build_calls. apply map_nth_error. exact H. Qed.

(* what makes the pure model adequate: the per-instance ADDITIONAL_KEYS_TO_ADD is always the class-level
   tuple (generated: gen/GenEs.v) followed by what the instance appended, for every way the builder
   creates or updates a leaf item *)
Definition keys_extend_class (l : leaf) : Prop :=
  exists extra, l_addkeys l = class_addkeys (l_kind l) ++ extra.

Definition C06_class_defaults_untouched_statement : Prop :=
  (forall q m f n, keys_extend_class (mk_word q m f n)) /\
  (forall p f n, keys_extend_class (mk_phrase p f n)) /\
  (forall lk lo hk hi f n, keys_extend_class (mk_range lk lo hk hi f n)) /\
  (forall l d, keys_extend_class l ->
     keys_extend_class (leaf_set_boost d l) /\ keys_extend_class (leaf_set_fuzziness d l) /\
     keys_extend_class (leaf_set_slop d l) /\ forall z, keys_extend_class (leaf_set_ztq z l)).

Theorem C06_class_defaults_untouched : C06_class_defaults_untouched_statement.
Proof.
  unfold keys_extend_class. repeat split.
  - intros. exists []. reflexivity.
  - intros. exists []. reflexivity.
  - intros. eexists. reflexivity.
  - destruct H as [extra H]. exists extra. exact H.
  - destruct H as [extra H]. exists extra. exact H.
  - destruct H as [extra H]. unfold keys_extend_class. simpl. rewrite H.
    destruct (l_kind l); try (exists extra; reflexivity).
    exists (extra ++ [k_slop]). rewrite app_assoc. reflexivity.
  - intros z. destruct H as [extra H]. exists extra. exact H.
Qed.

(* ---- the `_name` clause: every leaf clause carries the name of the nearest named enclosing element *)
Definition C06_leaf_names_statement : Prop :=
  forall cfg t e, supported t = true -> wf_config cfg = true -> build_etree cfg t = ROk e ->
    map l_name (eleaves e) = expected_names t None.

Theorem C06_leaf_names : C06_leaf_names_statement.
Proof. intros cfg t e Hs _ Hb. exact (build_etree_names cfg t e Hs Hb). Qed.

(* ---- regression examples on the former witnesses of F16 (the inputs on which the unrepaired code lost
   the name) *)
Definition named_as (n : str) (t : item) : item := set_name t (Some n).
(*  + +a  with the inner Plus named "x" *)
Definition t_F16 : item :=
  Unary KPlus meta0 (named_as [120]%N (Unary KPlus meta0 (Term KWord meta0 [97]%N))).
(*  (a AND b) AND c  built as And(And(a, b), c), the inner AndOperation named "x" *)
Definition t_F16_and : item :=
  Op KAnd meta0 [named_as [120]%N (Op KAnd meta0 [Term KWord meta0 [97]%N; Term KWord meta0 [98]%N]);
                 Term KWord meta0 [99]%N].

(* match clause on the default field "text" with zero_terms_query "all", with / without a name *)
Definition must_clause (q : str) (name : option str) : json :=
  JObj [(k_match, JObj [([116;101;120;116]%N,
     JObj (match name with Some n => [(k_name, JStr n)] | None => [] end ++
           [(k_query, JStr q); (k_zero_terms_query, JStr k_all)]))])].
Definition must_of (js : list json) : json := JObj [(k_bool, JObj [(k_must, JList js)])].

(* the named inner `+` is kept as a nested bool clause and its element carries `_name: "x"` *)
Example C06_F16_regression_plus :
  supported t_F16 = true /\ no_named_flattened t_F16 = false  /\
  build default_config t_F16 = ROk (must_of [must_of [must_clause [97]%N (Some [120]%N)]])  /\
  expected_names t_F16 None = [Some [120]%N].
Proof. vm_compute. repeat split. Qed.

(* the named inner AndOperation is kept; the clauses of a and b carry `_name: "x"`, the one of c none *)
Example C06_F16_regression_and :
  supported t_F16_and = true /\ no_named_flattened t_F16_and = false  /\
  build default_config t_F16_and =
    ROk (must_of [must_of [must_clause [97]%N (Some [120]%N); must_clause [98]%N (Some [120]%N)];
                  must_clause [99]%N None])  /\
  expected_names t_F16_and None = [Some [120]%N; Some [120]%N; None].
Proof. vm_compute. repeat split. Qed.

(* un-named nesting is flattened as before *)
Example C06_unnamed_still_flattened :
  build default_config (Op KAnd meta0 [Op KAnd meta0 [Term KWord meta0 [97]%N; Term KWord meta0 [98]%N];
                                       Term KWord meta0 [99]%N]) =
  ROk (must_of [must_clause [97]%N None; must_clause [98]%N None; must_clause [99]%N None]).
Proof. vm_compute. reflexivity. Qed.

(* '' is a name for `get_name(child) is None` (the operand is kept) but is not propagated (`if name:`) *)
Example C06_empty_name_kept_not_propagated :
  build default_config (Op KAnd meta0 [named_as [] (Op KAnd meta0 [Term KWord meta0 [97]%N; Term KWord meta0 [98]%N]);
                                       Term KWord meta0 [99]%N]) =
  ROk (must_of [must_of [must_clause [97]%N None; must_clause [98]%N None]; must_clause [99]%N None]).
Proof. vm_compute. reflexivity. Qed.

(* ---- rows of the documented table, evaluated in the model (regression examples) *)
(* a.b:"x  y"~2^3 OR c:w?ld* with a.b nested and c not analysed, names n1 on the phrase *)
Definition cfg_tab : es_config :=
  mkEsConfig DShould [116;101;120;116]%N [[99]%N] (SDict [([97]%N, SList [[98]%N])]) SNone SNone
             [([97;46;98]%N, [([97;110;97;108;121;122;101;114]%N, JStr [115;116;100]%N)])] false.
Definition t_tab : item :=
  Op KOr meta0
     [SearchField meta0 [97;46;98]%N
        (Boost meta0 (Proximity meta0 (named_as [110;49]%N (Term KPhrase meta0 [34;120;32;32;121;34]%N)) 2 false)
               (mkDec false 3 0) false);
      SearchField meta0 [99]%N (Term KWord meta0 [119;63;108;100;42]%N)].

Example C06_table_rows :
  build cfg_tab t_tab =
  ROk (JObj [(k_bool, JObj [(k_should, JList [
    JObj [(k_nested, JObj [(k_path, JStr [97]%N);
      (k_query, JObj [(k_match_phrase, JObj [([97;46;98]%N, JObj [
         ([97;110;97;108;121;122;101;114]%N, JStr [115;116;100]%N);
         (k_boost, JNum (mkDec false 3 0)); (k_name, JStr [110;49]%N);
         (k_query, JStr [120;32;121]%N); (k_slop, JNum (mkDec false 2 0))])])])])];
    JObj [(k_wildcard, JObj [([99]%N, JObj [(k_value, JStr [119;63;108;100;42]%N)])])]])])]).
Proof. vm_compute. reflexivity. Qed.

Example C06_names_nonvacuous :
  exists e, build_etree cfg_tab t_tab = ROk e /\
            map l_name (eleaves e) = expected_names t_tab None /\
            expected_names t_tab None = [Some [110;49]%N; None] /\
            no_named_flattened t_tab = true.
Proof. eexists. split; [vm_compute; reflexivity|]. vm_compute. repeat split. Qed.

(* ---- clause (a): the leaf clauses *)
(* full strength: for every supported tree and well-formed configuration (options_not_reserved: no
   match_type / type option renames a clause kind to "bool" or "nested", which would make a leaf clause
   indistinguishable from a compound one) *)
Definition C06_leaves_statement : Prop :=
  forall cfg t j, supported t = true -> wf_config cfg = true -> options_not_reserved cfg = true ->
    build cfg t = ROk j -> Permutation (leaves j) (expected_clauses cfg t).

(* in document order, on the E-tree the JSON is rendered from (the json of a BoolOperation lists its
   must clauses first, so only the multiset survives in the JSON) *)
Definition C06_eleaves_statement : Prop :=
  forall cfg t e, supported t = true ->
    build_etree cfg t = ROk e -> eleaves e = expected_leaves cfg t.

(* F22.  nested_fields={'a': ['b']};  (a.b:x)^2  = Boost(Group(SearchField('a.b', Word('x'))), 2) *)
Definition cfg_n : es_config :=
  mkEsConfig DShould [116;101;120;116]%N [] (SDict [([97]%N, SList [[98]%N])]) SNone SNone [] false.
Definition two : dec := mkDec false 2 0.
Definition t_F22 : item :=
  Boost meta0 (Grp KGroup meta0 (SearchField meta0 [97;46;98]%N (Term KWord meta0 [120]%N))) two false.
(* a.b:x^2 = SearchField('a.b', Boost(Word('x'), 2)) : the accepted spelling *)
Definition t_boost_inside : item :=
  SearchField meta0 [97;46;98]%N (Boost meta0 (Term KWord meta0 [120]%N) two false).
(* (a:(b:x))^2 : the field that crosses is the OUTER one, still below the modifier *)
Definition t_F22_chain : item :=
  Boost meta0 (Grp KGroup meta0 (SearchField meta0 [97]%N (Grp KFieldGroup meta0
      (SearchField meta0 [98]%N (Term KWord meta0 [120]%N))))) two false.
(* a:((b:x)^2) : the modifier is below the field that crosses *)
Definition t_boost_between : item :=
  SearchField meta0 [97]%N (Grp KFieldGroup meta0 (Grp KGroup meta0
      (Boost meta0 (Grp KGroup meta0 (SearchField meta0 [98]%N (Term KWord meta0 [120]%N))) two false))).

(* the match clause on a.b, with / without the boost, and the nested clause around it *)
Definition ab_clause (boost : option dec) : json :=
  JObj [(k_match, JObj [([97;46;98]%N,
     JObj (match boost with Some d => [(k_boost, JNum d)] | None => [] end ++
           [(k_query, JStr [120]%N); (k_zero_terms_query, JStr k_none)]))])].
Definition nested_a (j : json) : json := JObj [(k_nested, JObj [(k_path, JStr [97]%N); (k_query, j)])].

(* what the model (= the code, replayed) answers, and what the property expects *)
Example C06_F22_witness :
  supported t_F22 = true /\ wf_config cfg_n = true /\ options_not_reserved cfg_n = true /\
  modifier_over_nested cfg_n t_F22 = true /\
  build cfg_n t_F22 = ROk (nested_a (ab_clause None)) /\
  expected_clauses cfg_n t_F22 = [ab_clause (Some two)] /\
  build cfg_n t_boost_inside = ROk (nested_a (ab_clause (Some two))) /\
  expected_clauses cfg_n t_boost_inside = [ab_clause (Some two)].
Proof. vm_compute. repeat split; reflexivity. Qed.

Theorem C06_leaves_refuted_F22 : ~ C06_leaves_statement.
Proof.
  intros H.
  assert (Hb : build cfg_n t_F22 = ROk (nested_a (ab_clause None))) by (vm_compute; reflexivity).
  specialize (H cfg_n t_F22 _ eq_refl eq_refl eq_refl Hb).
  assert (Hl : leaves (nested_a (ab_clause None)) = [ab_clause None]) by (vm_compute; reflexivity).
  assert (He : expected_clauses cfg_n t_F22 = [ab_clause (Some two)]) by (vm_compute; reflexivity).
  rewrite Hl, He in H. apply Permutation_length_1 in H. vm_compute in H. discriminate H.
Qed.

Theorem C06_eleaves_refuted_F22 : ~ C06_eleaves_statement.
Proof.
  intros H. destruct (build_etree cfg_n t_F22) as [e|] eqn:Hb; [|vm_compute in Hb; discriminate Hb].
  specialize (H cfg_n t_F22 e eq_refl Hb). vm_compute in Hb. inversion Hb; subst e.
  vm_compute in H. discriminate H.
Qed.

(* the statements under the guard that excludes exactly F22's class *)
Definition C06_leaves_partial_statement : Prop :=
  forall cfg t j, supported t = true -> wf_config cfg = true -> options_not_reserved cfg = true ->
    modifier_over_nested cfg t = false ->
    build cfg t = ROk j -> Permutation (leaves j) (expected_clauses cfg t).

Theorem C06_leaves_partial : C06_leaves_partial_statement.
Proof.
  intros cfg t j Hs _ Hk Hm Hb.
  exact (build_leaves cfg t j Hs (options_kinds_not_reserved cfg t Hk) Hm Hb).
Qed.

Definition C06_eleaves_partial_statement : Prop :=
  forall cfg t e, supported t = true -> modifier_over_nested cfg t = false ->
    build_etree cfg t = ROk e -> eleaves e = expected_leaves cfg t.

Theorem C06_eleaves_partial : C06_eleaves_partial_statement.
Proof. intros cfg t e Hs Hm Hb. exact (build_etree_leaves cfg t e Hs Hm Hb). Qed.

(* the guard cannot be dropped: a supported tree and a well-formed configuration outside the guard on which the
   conclusion fails.  (The guard is not necessary on EVERY tree it excludes: when the dropped modifier repeats
   a value the leaf already has — `(a.b:x^2)^2` — nothing is lost.) *)
Definition C06_modifier_guard_needed_statement : Prop :=
  exists cfg t j, supported t = true /\ wf_config cfg = true /\ options_not_reserved cfg = true /\
    modifier_over_nested cfg t = true /\ build cfg t = ROk j /\
    ~ Permutation (leaves j) (expected_clauses cfg t).

Theorem C06_modifier_guard_needed : C06_modifier_guard_needed_statement.
Proof.
  exists cfg_n, t_F22, (nested_a (ab_clause None)). repeat split; try (vm_compute; reflexivity).
  intros H.
  assert (Hl : leaves (nested_a (ab_clause None)) = [ab_clause None]) by (vm_compute; reflexivity).
  assert (He : expected_clauses cfg_n t_F22 = [ab_clause (Some two)]) by (vm_compute; reflexivity).
  rewrite Hl, He in H. apply Permutation_length_1 in H. vm_compute in H. discriminate H.
Qed.

(* the class, on the spellings replayed on the real code: lost above the field that crosses, kept below *)
Example C06_F22_class :
  modifier_over_nested cfg_n t_F22 = true /\ modifier_over_nested cfg_n t_F22_chain = true /\
  modifier_over_nested cfg_n t_boost_inside = false /\ modifier_over_nested cfg_n t_boost_between = false /\
  build cfg_n t_F22_chain = ROk (nested_a (ab_clause None)) /\
  build cfg_n t_boost_between = ROk (nested_a (ab_clause (Some two))) /\
  (* no nested field declared: nothing is in the class *)
  modifier_over_nested (mkEsConfig DShould [116;101;120;116]%N [] SNone SNone SNone [] false) t_F22 = false.
Proof. vm_compute. repeat split; reflexivity. Qed.

(* non-vacuity of the guard: a boosted nested field in the accepted spelling is inside it, and the theorem's
   conclusion is about a clause that carries the boost *)
Example C06_guard_accepts_boosted_nested :
  supported t_boost_inside = true /\ wf_config cfg_n = true /\ options_not_reserved cfg_n = true /\
  modifier_over_nested cfg_n t_boost_inside = false /\
  exists j, build cfg_n t_boost_inside = ROk j /\ leaves j = [ab_clause (Some two)] /\
            expected_clauses cfg_n t_boost_inside = [ab_clause (Some two)].
Proof. repeat split; try (vm_compute; reflexivity). eexists. repeat split; vm_compute; reflexivity. Qed.

(* zero_terms_query under a conjunction:  c:y AND a.b:x  with a.b nested — "all" on the clause that is a direct item
   of `must`, "none" on the one inside the nested clause (an item of the nested clause); model and expectation *)
Definition t_and_nested : item :=
  Op KAnd meta0 [SearchField meta0 [99]%N (Term KWord meta0 [121]%N);
                 SearchField meta0 [97;46;98]%N (Term KWord meta0 [120]%N)].
Definition c_clause_all : json :=
  JObj [(k_match, JObj [([99]%N, JObj [(k_query, JStr [121]%N); (k_zero_terms_query, JStr k_all)])])].
Example C06_ztq_direct_items_only :
  build cfg_n t_and_nested = ROk (must_of [c_clause_all; nested_a (ab_clause None)]) /\
  expected_clauses cfg_n t_and_nested = [c_clause_all; ab_clause None] /\
  modifier_over_nested cfg_n t_and_nested = false.
Proof. vm_compute. repeat split; reflexivity. Qed.

(* ---- clause (b): plain JSON data (every dict has pairwise distinct str keys, values are JSON) —
   for every tree, supported or not *)
Definition C06_plain_json_statement : Prop :=
  forall cfg t j, wf_config cfg = true -> build cfg t = ROk j -> json_wf j = true.

Theorem C06_plain_json : C06_plain_json_statement.
Proof. intros cfg t j Hwf Hb. exact (build_wf cfg t j Hwf Hb). Qed.

(* ---- non-vacuity of the guards *)
(* t_tab: a.b:"x  y"~2^3 OR c:w?ld* with a.b nested — proximity and boost on a nested field, inside the guard *)
Example C06_leaves_nonvacuous :
  supported t_tab = true /\ wf_config cfg_tab = true /\ options_not_reserved cfg_tab = true /\
  modifier_over_nested cfg_tab t_tab = false /\
  exists j, build cfg_tab t_tab = ROk j /\ length (leaves j) = 2.
Proof. repeat split; try (vm_compute; reflexivity). eexists. split; vm_compute; reflexivity. Qed.

Print Assumptions C06_tie_ztq.
Print Assumptions C06_calls_independent.
Print Assumptions C06_class_defaults_untouched.
Print Assumptions C06_leaf_names.
Print Assumptions C06_leaves_refuted_F22.
Print Assumptions C06_eleaves_refuted_F22.
Print Assumptions C06_leaves_partial.
Print Assumptions C06_eleaves_partial.
Print Assumptions C06_modifier_guard_needed.
Print Assumptions C06_plain_json.
