(* Threads.v — small-step interleaving model of concurrent `luqum.thread.parse` calls (C14).
   Executable definitions only.

   Thread safety of luqum.thread.parse is STATE PARTITION: which mutable objects one call touches
   and who else can reach them.  The model has an explicit shared store of LOCATIONS and a
   thread-local control state; every atomic step of one call reads and writes declared locations.
   WHICH lexer object and WHICH head/tail tracker a thread uses is computed from the GENERATED
   scopes (GenParser.gen_thread_lexer_scope, gen_tracker_scope, read by the translator from the AST
   of luqum/thread.py and luqum/head_tail.py), so the same step function gives the partition theorem
   for the code as it is and a refuting schedule when a scope is anything else.

   What is in the store (read in luqum/thread.py, luqum/parser.py, luqum/head_tail.py, ply/lex.py
   `Lexer.clone/input/token`, ply/yacc.py `LRParser.parseopt_notrack`, `call_errorfunc`):
     * `thread_local.lexer` as seen by thread t (threading.local: one slot per thread);
     * PLY lexer objects — the module-level `luqum.parser.lexer` and the per-thread clones — with
       `lexdata`(+`lexlen`), `lexpos` and the attribute `_luqum_headtail` (`token()` also assigns
       `lexmatch` on the same object and reads `lineno`, `lexre`, `lexignore`; luqum never reads
       `lexmatch` and nothing assigns the others: not locations here); `lexer.clone()` is a shallow
       `copy.copy`, so a clone starts with the SAME tracker reference as the module lexer;
     * HeadTailLexer instances ("trackers": pending head, `last_elt` = reference to a token object);
     * the token objects of the current call of each thread (reachable through `last_elt`, whose
       `value.tail` is appended to by a LATER separator);
     * attributes of the one shared `luqum.parser.parser` object that parseopt_notrack assigns:
       `token`, `statestack`, `symstack` (prologue), `state` (every reduce and on error), `errorok`
       (on error).  The stacks themselves are locals of the call; after the assignment only the
       local aliases are used;
     * PLY's module globals `_errok`, `_token`, `_restart`, set by `call_errorfunc` and never deleted
       because luqum's p_error raises (`_token = parser.token` READS the shared attribute).
   The last two groups are SINKS: the model stores in them a ghost value naming the call that wrote
   last; nothing but another sink is ever computed from them (theorem C14_sinks_never_observed).

   PARTIAL BY DESIGN.  One step = one PLY-level operation: obtain-or-create the thread's lexer
   (`hasattr`+`clone()`), `lexer.input`, one attribute assignment of the prologue, ONE raw token of
   `lexer.token()` (one master-regex match with its token function and HeadTailLexer.handle — finer
   than a `token()` call, which loops over separators), one shift / reduce / accept / error of the
   driver.  Preemption INSIDE such an operation (CPython byte code, the C regex engine,
   `copy.copy`), the GIL and interpreter internals are outside an executable Gallina model.
   Within one thread the model performs all token steps of a call before its driver steps (as
   Parser.parse and Histories.v do) while PLY pulls tokens on demand; driver steps touch sinks
   only, so this changes no footprint — but it is a modelling choice, validated by the scheduler
   harness (harness/c14.py), not a theorem.  Under a scope other than the generated ones the model
   is only used to exhibit a failing schedule. *)
Require Import Base Decimal Tree GenParser Lexer Actions LR Parser.

Definition tid := nat.

(* ---- objects *)
Inductive lexer_id := LxModule | LxThread (t : tid).
(* a HeadTailLexer instance: one that exists before the run, or the one made by call #call of thread t *)
Inductive tref := TrPre (n : nat) | TrNew (t : tid) (call : nat).
(* a token object: thread, call number, index in that call's token list *)
Definition tokref := (tid * nat * nat)%type.

Record lexer_obj := mkLx { lx_data : str; lx_pos : nat; lx_attr : option tref }.
Record tracker_obj := mkTr { tr_head : option str; tr_last : option tokref }.
Record tokbuf := mkTb { tb_call : nat; tb_racc : list token }.       (* newest first *)

Inductive pattr := AToken | AStatestack | ASymstack | AState | AErrorok.
Inductive pglobal := GErrok | GToken | GRestart.
Inductive ghost := GInit | GBy (t : tid) (call : nat).

Record store := mkSt {
  s_slot : tid -> bool;                 (* hasattr(thread_local, "lexer") in thread t *)
  s_lexer : lexer_id -> lexer_obj;      (* LxThread t is meaningful once s_slot t *)
  s_tslot : option tref;                (* where a tracker NOT kept on the token's lexer would live *)
  s_tracker : tref -> tracker_obj;
  s_toks : tid -> tokbuf;
  s_parser : pattr -> ghost;
  s_ply : pglobal -> ghost
}.

Definition lexer_id_eqb (a b : lexer_id) : bool :=
  match a, b with
  | LxModule, LxModule => true
  | LxThread x, LxThread y => Nat.eqb x y
  | _, _ => false
  end.
Definition tref_eqb (a b : tref) : bool :=
  match a, b with
  | TrPre x, TrPre y => Nat.eqb x y
  | TrNew t c, TrNew t' c' => Nat.eqb t t' && Nat.eqb c c'
  | _, _ => false
  end.
Definition pattr_eqb (a b : pattr) : bool :=
  match a, b with
  | AToken, AToken | AStatestack, AStatestack | ASymstack, ASymstack | AState, AState
  | AErrorok, AErrorok => true
  | _, _ => false
  end.
Definition pglobal_eqb (a b : pglobal) : bool :=
  match a, b with
  | GErrok, GErrok | GToken, GToken | GRestart, GRestart => true
  | _, _ => false
  end.

Definition set_slot (σ : store) (t : tid) : store :=
  mkSt (fun u => if Nat.eqb u t then true else s_slot σ u) (s_lexer σ) (s_tslot σ) (s_tracker σ)
       (s_toks σ) (s_parser σ) (s_ply σ).
Definition set_lexer (σ : store) (lx : lexer_id) (o : lexer_obj) : store :=
  mkSt (s_slot σ) (fun l => if lexer_id_eqb l lx then o else s_lexer σ l) (s_tslot σ) (s_tracker σ)
       (s_toks σ) (s_parser σ) (s_ply σ).
Definition set_tslot (σ : store) (r : option tref) : store :=
  mkSt (s_slot σ) (s_lexer σ) r (s_tracker σ) (s_toks σ) (s_parser σ) (s_ply σ).
Definition set_tracker (σ : store) (r : tref) (o : tracker_obj) : store :=
  mkSt (s_slot σ) (s_lexer σ) (s_tslot σ) (fun x => if tref_eqb x r then o else s_tracker σ x)
       (s_toks σ) (s_parser σ) (s_ply σ).
Definition set_toks (σ : store) (t : tid) (b : tokbuf) : store :=
  mkSt (s_slot σ) (s_lexer σ) (s_tslot σ) (s_tracker σ)
       (fun u => if Nat.eqb u t then b else s_toks σ u) (s_parser σ) (s_ply σ).
Definition set_parser (σ : store) (a : pattr) (g : ghost) : store :=
  mkSt (s_slot σ) (s_lexer σ) (s_tslot σ) (s_tracker σ) (s_toks σ)
       (fun x => if pattr_eqb x a then g else s_parser σ x) (s_ply σ).
Definition set_ply (σ : store) (p : pglobal) (g : ghost) : store :=
  mkSt (s_slot σ) (s_lexer σ) (s_tslot σ) (s_tracker σ) (s_toks σ) (s_parser σ)
       (fun x => if pglobal_eqb x p then g else s_ply σ x).

(* a process in which nothing was parsed yet *)
Definition store0 : store :=
  mkSt (fun _ => false) (fun _ => mkLx [] 0 None) None (fun _ => mkTr None None)
       (fun _ => mkTb 0 []) (fun _ => GInit) (fun _ => GInit).

(* ---- the scopes: which objects a thread uses *)
Record scopes := mkSc { sc_lexer : thread_lexer_scope; sc_tracker : tracker_scope }.
Definition gen_scopes : scopes := mkSc gen_thread_lexer_scope gen_tracker_scope.

(* `thread_local.lexer` (a clone) when thread.parse clones into a threading.local; anything else:
   the module lexer, shared *)
Definition lexer_of (sc : scopes) (t : tid) : lexer_id :=
  match sc_lexer sc with LexerCloneInThreadLocal => LxThread t | LexerOther => LxModule end.
(* the tracker reference is an attribute of the token's lexer; anything else: one shared place *)
Definition get_tref (sc : scopes) (σ : store) (lx : lexer_id) : option tref :=
  match sc_tracker sc with
  | TrackerOnTokenLexerResetAtPos0 => lx_attr (s_lexer σ lx)
  | TrackerOther => s_tslot σ
  end.
Definition set_tref (sc : scopes) (σ : store) (lx : lexer_id) (r : tref) : store :=
  match sc_tracker sc with
  | TrackerOnTokenLexerResetAtPos0 =>
      let o := s_lexer σ lx in set_lexer σ lx (mkLx (lx_data o) (lx_pos o) (Some r))
  | TrackerOther => set_tslot σ (Some r)
  end.

(* ---- thread-local control state *)
Inductive phase :=
| PIdle                                                 (* not inside a call *)
| PInput (s : str)                                      (* lexer obtained; next: lexer.input(s) *)
| PAttr (s : str) (a : pattr)                           (* next: self.<a> = ... of the prologue *)
| PLex (s : str)                                        (* next: one raw token of lexer.token() *)
| PParse (fuel : nat) (e : option (nat * str)) (c : config).   (* next: one driver step; stacks are call-local *)

Record local := mkLoc {
  l_todo : list str;                       (* inputs of the calls this thread still has to make *)
  l_done : list (option (res item));       (* what its finished calls returned / raised, in order *)
  l_phase : phase
}.
Definition init_local (inputs : list str) : local := mkLoc inputs [] PIdle.
Definition set_phase (l : local) (p : phase) : local := mkLoc (l_todo l) (l_done l) p.
Definition finish (l : local) (r : option (res item)) : local := mkLoc (l_todo l) (l_done l ++ [r]) PIdle.
Definition finished (l : local) : bool :=
  match l_phase l, l_todo l with PIdle, [] => true | _, _ => false end.

Definition attr_error : perr := EOther 9.     (* AttributeError from getattr(token.lexer, LEXER_ATTR) *)

(* ---- pieces of one step *)
(* `if not hasattr(thread_local, "lexer"): thread_local.lexer = parser.lexer.clone()` *)
Definition obtain (sc : scopes) (t : tid) (σ : store) : store :=
  match sc_lexer sc with
  | LexerCloneInThreadLocal =>
      if s_slot σ t then σ else set_slot (set_lexer σ (LxThread t) (s_lexer σ LxModule)) t
  | LexerOther => σ
  end.

Definition next_attr (s : str) (a : pattr) : phase :=
  match a with
  | AToken => PAttr s AStatestack
  | AStatestack => PAttr s ASymstack
  | _ => PLex s
  end.

Fixpoint upd_nth {A} (i : nat) (f : A -> A) (l : list A) : list A :=
  match l, i with
  | [], _ => []
  | x :: l', O => f x :: l'
  | x :: l', S i' => x :: upd_nth i' f l'
  end.

(* `last_elt.value.tail += sep` through a token reference; a token of a call that is over is a
   dead object *)
Definition add_tail_ref (σ : store) (k : tokref) (sep : str) : store :=
  let '(u, c, i) := k in
  let b := s_toks σ u in
  if Nat.eqb (tb_call b) c && Nat.ltb i (length (tb_racc b)) then
    set_toks σ u (mkTb c (upd_nth (length (tb_racc b) - 1 - i) (fun tk => add_tail tk sep) (tb_racc b)))
  else σ.

(* HeadTailLexer.handle, first half: which instance.  None = AttributeError *)
Definition acquire (sc : scopes) (t : tid) (call : nat) (lx : lexer_id) (pos : nat) (σ : store)
  : option (tref * store) :=
  if Nat.eqb pos 0 then
    let r := TrNew t call in
    Some (r, set_tref sc (set_tracker σ r (mkTr None None)) lx r)
  else
    match get_tref sc σ lx with
    | Some r => Some (r, σ)
    | None => None
    end.

(* HeadTailLexer.handle_token on instance r, for the raw token (k, lexeme) found at pos *)
Definition handle_token (t : tid) (call : nat) (r : tref) (k : rawkind) (lexeme : str) (pos : nat)
  (σ : store) : store :=
  let tr := s_tracker σ r in
  match k with
  | RSep =>
      if Nat.eqb pos 0 then set_tracker σ r (mkTr (Some lexeme) (tr_last tr))
      else match tr_last tr with
           | None => σ
           | Some ref => add_tail_ref σ ref lexeme
           end
  | RTok ty =>
      let b := s_toks σ t in
      let h := match tr_head tr with Some h => h | None => [] end in
      set_toks (set_tracker σ r (mkTr None (Some (t, call, length (tb_racc b))))) t
               (mkTb call (mkTok ty lexeme pos h [] :: tb_racc b))
  end.

(* the driver starts on the tokens of this call *)
Definition start_parse (s : str) (σ : store) (t : tid) (e : option (nat * str)) : phase :=
  let toks := rev (tb_racc (s_toks σ t)) in
  let ev0 := match toks with [] => [GDrop s] | _ => [] end in
  PParse (parse_fuel toks) e (init_config toks ev0).

(* what kind of driver step LR.step makes on (e, c) — decides which sinks are assigned *)
Inductive lrkind := KTokenErr | KShift | KReduce | KAccept | KSyntaxErr.
Definition lr_kind (e : option (nat * str)) (c : config) : lrkind :=
  match c_toks c, e with
  | [], Some _ => KTokenErr
  | _, _ =>
      let lat := match hd_error (c_toks c) with Some t => tk_type t | None => T_EOF end in
      match tb_action gen_tables (hd 0 (c_states c)) lat with
      | Shift _ => KShift
      | Reduce _ => KReduce
      | Accept => KAccept
      | ActErr => KSyntaxErr
      end
  end.
Definition lr_writes (t : tid) (call : nat) (k : lrkind) (σ : store) : store :=
  let g := GBy t call in
  match k with
  | KReduce => set_parser σ AState g                      (* self.state = state *)
  | KSyntaxErr =>
      (* self.errorok = False; self.state = state; call_errorfunc: _errok = parser.errok;
         _token = parser.token (a READ of the shared attribute); _restart = parser.restart;
         then p_error raises *)
      let σ1 := set_parser (set_parser σ AErrorok g) AState g in
      set_ply (set_ply (set_ply σ1 GErrok g) GToken (s_parser σ1 AToken)) GRestart g
  | _ => σ
  end.

(* ---- one atomic step of thread t *)
Definition step (sc : scopes) (t : tid) (l : local) (σ : store) : local * store :=
  let call := length (l_done l) in
  let lx := lexer_of sc t in
  match l_phase l with
  | PIdle =>
      match l_todo l with
      | [] => (l, σ)                                       (* finished: a scheduled turn is a no-op *)
      | s :: todo => (mkLoc todo (l_done l) (PInput s), obtain sc t σ)
      end
  | PInput s =>
      (* lexer.input(s): lexdata, lexpos (and lexlen); the tracker attribute stays.  The token objects
         of this call: none yet *)
      (set_phase l (PAttr s AToken),
       set_toks (set_lexer σ lx (mkLx s 0 (lx_attr (s_lexer σ lx)))) t (mkTb call []))
  | PAttr s a => (set_phase l (next_attr s a), set_parser σ a (GBy t call))
  | PLex s =>
      let o := s_lexer σ lx in
      let pos := lx_pos o in
      let rest := skipn pos (lx_data o) in
      match rest with
      | [] =>        (* lexpos >= lexlen: self.lexpos = lexpos + 1; return None *)
          (set_phase l (start_parse s σ t None),
           set_lexer σ lx (mkLx (lx_data o) (S pos) (lx_attr o)))
      | _ =>
          match lex_one (rev (firstn pos (lx_data o))) rest with
          | None =>  (* t_error raises IllegalCharacterError with the rest of the input *)
              (set_phase l (start_parse s σ t (Some (pos, rest))), σ)
          | Some (k, lexeme, _) =>
              let σ1 := set_lexer σ lx (mkLx (lx_data o) (pos + length lexeme) (lx_attr o)) in
              match acquire sc t call lx pos σ1 with
              | None => (finish l (Some (Err attr_error)), σ1)
              | Some (r, σ2) => (l, handle_token t call r k lexeme pos σ2)
              end
          end
      end
  | PParse fuel e c =>
      match fuel with
      | O => (finish l None, σ)                            (* Parser.parse's out-of-fuel answer *)
      | S f =>
          let σ' := lr_writes t call (lr_kind e c) σ in
          match LR.step gen_tables e c with
          | Next c' => (set_phase l (PParse f e c'), σ')
          | Final r _ => (finish l (Some r), σ')
          end
      end
  end.

(* ---- threads and schedules *)
Record world := mkW { w_locals : tid -> local; w_store : store }.

Definition step_thread (sc : scopes) (t : tid) (w : world) : world :=
  let ls := step sc t (w_locals w t) (w_store w) in
  mkW (fun u => if Nat.eqb u t then fst ls else w_locals w u) (snd ls).

Definition schedule := list tid.
Fixpoint run_threads (sc : scopes) (sched : schedule) (w : world) : world :=
  match sched with
  | [] => w
  | t :: sched' => run_threads sc sched' (step_thread sc t w)
  end.

(* thread t makes the calls thread.parse(s) for s in inputs t, one after the other *)
Definition init_world (inputs : tid -> list str) (σ : store) : world :=
  mkW (fun t => init_local (inputs t)) σ.
Definition outcomes (w : world) (t : tid) : list (option (res item)) := l_done (w_locals w t).

(* one thread alone, k steps *)
Fixpoint solo (sc : scopes) (t : tid) (k : nat) (l : local) (σ : store) : local * store :=
  match k with
  | O => (l, σ)
  | S k' => let ls := step sc t l σ in solo sc t k' (fst ls) (snd ls)
  end.

Fixpoint turns (t : tid) (sched : schedule) : nat :=
  match sched with
  | [] => 0
  | u :: sched' => (if Nat.eqb u t then 1 else 0) + turns t sched'
  end.

(* "thread t gets enough turns": at least as many as its calls take when it runs alone *)
Definition enough_turns (sc : scopes) (inputs : tid -> list str) (σ : store) (sched : schedule) (t : tid) : bool :=
  finished (fst (solo sc t (turns t sched) (init_local (inputs t)) σ)).

(* a sequential schedule: the threads of `order` one after the other, k turns each *)
Definition sequential (order : list tid) (k : nat) : schedule := flat_map (fun t => repeat t k) order.

(* ---- locations and declared footprints *)
Inductive lfield := FData | FPos | FAttr.
Inductive tfield := FHead | FLast.
Inductive loc :=
| LSlot (t : tid)
| LLexer (l : lexer_id) (f : lfield)
| LTrackerSlot
| LTracker (r : tref) (f : tfield)
| LToks (t : tid)
| LParser (a : pattr)
| LPly (g : pglobal).

Inductive val :=
| VBool (b : bool) | VStr (s : str) | VNat (n : nat) | VRef (r : option tref) | VOStr (o : option str)
| VTokRef (o : option tokref) | VToks (b : tokbuf) | VGhost (g : ghost).

Definition sel (x : loc) (σ : store) : val :=
  match x with
  | LSlot t => VBool (s_slot σ t)
  | LLexer lx FData => VStr (lx_data (s_lexer σ lx))
  | LLexer lx FPos => VNat (lx_pos (s_lexer σ lx))
  | LLexer lx FAttr => VRef (lx_attr (s_lexer σ lx))
  | LTrackerSlot => VRef (s_tslot σ)
  | LTracker r FHead => VOStr (tr_head (s_tracker σ r))
  | LTracker r FLast => VTokRef (tr_last (s_tracker σ r))
  | LToks t => VToks (s_toks σ t)
  | LParser a => VGhost (s_parser σ a)
  | LPly g => VGhost (s_ply σ g)
  end.

Definition tref_loc (sc : scopes) (lx : lexer_id) : loc :=
  match sc_tracker sc with TrackerOnTokenLexerResetAtPos0 => LLexer lx FAttr | TrackerOther => LTrackerSlot end.

Definition lexer_locs (lx : lexer_id) : list loc := [LLexer lx FData; LLexer lx FPos; LLexer lx FAttr].
Definition tracker_locs (r : tref) : list loc := [LTracker r FHead; LTracker r FLast].

(* handle_token on instance r *)
Definition token_writes (t : tid) (r : tref) (k : rawkind) (pos : nat) (last : option tokref) : list loc :=
  match k with
  | RSep => if Nat.eqb pos 0 then [LTracker r FHead]
            else match last with Some (u, _, _) => [LToks u] | None => [] end
  | RTok _ => tracker_locs r ++ [LToks t]
  end.
Definition token_reads (t : tid) (r : tref) (k : rawkind) (pos : nat) (last : option tokref) : list loc :=
  match k with
  | RSep => if Nat.eqb pos 0 then [LTracker r FLast]
            else LTracker r FLast :: match last with Some (u, _, _) => [LToks u] | None => [] end
  | RTok _ => [LTracker r FHead; LToks t]
  end.

Definition lr_write_locs (k : lrkind) : list loc :=
  match k with
  | KReduce => [LParser AState]
  | KSyntaxErr => [LParser AErrorok; LParser AState; LPly GErrok; LPly GToken; LPly GRestart]
  | _ => []
  end.
Definition lr_read_locs (k : lrkind) : list loc :=
  match k with KSyntaxErr => [LParser AToken] | _ => [] end.

Definition writes (sc : scopes) (t : tid) (l : local) (σ : store) : list loc :=
  let call := length (l_done l) in
  let lx := lexer_of sc t in
  match l_phase l with
  | PIdle =>
      match l_todo l, sc_lexer sc with
      | _ :: _, LexerCloneInThreadLocal => if s_slot σ t then [] else LSlot t :: lexer_locs (LxThread t)
      | _, _ => []
      end
  | PInput _ => [LLexer lx FData; LLexer lx FPos; LToks t]
  | PAttr _ a => [LParser a]
  | PLex _ =>
      let o := s_lexer σ lx in
      let pos := lx_pos o in
      let rest := skipn pos (lx_data o) in
      match rest with
      | [] => [LLexer lx FPos]
      | _ =>
          match lex_one (rev (firstn pos (lx_data o))) rest with
          | None => [LLexer lx FPos]
          | Some (k, _, _) =>
              LLexer lx FPos ::
              (if Nat.eqb pos 0 then
                 tracker_locs (TrNew t call) ++ tref_loc sc lx :: token_writes t (TrNew t call) k pos None
               else match get_tref sc σ lx with
                    | None => []
                    | Some r => token_writes t r k pos (tr_last (s_tracker σ r))
                    end)
          end
      end
  | PParse fuel e c => match fuel with O => [] | S _ => lr_write_locs (lr_kind e c) end
  end.

Definition reads (sc : scopes) (t : tid) (l : local) (σ : store) : list loc :=
  let call := length (l_done l) in
  let lx := lexer_of sc t in
  match l_phase l with
  | PIdle =>
      match l_todo l, sc_lexer sc with
      | _ :: _, LexerCloneInThreadLocal => LSlot t :: (if s_slot σ t then [] else lexer_locs LxModule)
      | _, _ => []
      end
  | PInput _ => []                       (* the attribute is kept, not copied: input() does not touch it *)
  | PAttr _ _ => []
  | PLex _ =>
      let o := s_lexer σ lx in
      let pos := lx_pos o in
      let rest := skipn pos (lx_data o) in
      LLexer lx FData :: LLexer lx FPos ::
      match rest with
      | [] => [LToks t]
      | _ =>
          match lex_one (rev (firstn pos (lx_data o))) rest with
          | None => [LToks t]
          | Some (k, _, _) =>
              if Nat.eqb pos 0 then token_reads t (TrNew t call) k pos None
              else tref_loc sc lx ::
                   match get_tref sc σ lx with
                   | None => []
                   | Some r => token_reads t r k pos (tr_last (s_tracker σ r))
                   end
          end
      end
  | PParse fuel e c => match fuel with O => [] | S _ => lr_read_locs (lr_kind e c) end
  end.

(* ---- who owns what, for the generated scopes *)
Definition owned (t : tid) (x : loc) : bool :=
  match x with
  | LSlot u => Nat.eqb u t
  | LLexer (LxThread u) _ => Nat.eqb u t
  | LTracker (TrNew u _) _ => Nat.eqb u t
  | LToks u => Nat.eqb u t
  | _ => false
  end.
Definition module_lexer_loc (x : loc) : bool :=
  match x with LLexer LxModule _ => true | _ => false end.
Definition sink (x : loc) : bool :=
  match x with LParser _ | LPly _ => true | _ => false end.
