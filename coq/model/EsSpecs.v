(* EsSpecs.v — luqum.utils: normalize_nested_fields_specs, _flatten_fields_specs,
   flatten_nested_fields_specs, normalize_object_fields_specs, and the "prefix" sets that
   ElasticsearchQueryBuilder.__init__ and CheckNestedFields.__init__ derive with
   k.rsplit(".", 1)[0].  Executable definitions only.

   A field specification is None, a list (any iterable) of names, or a dict name -> specification.
   Python `set`s are duplicate-free lists; they are only ever used for membership (`mem_str`).
   Python dicts have pairwise distinct keys: `spec_wf`. *)
Require Import Base Json.

Inductive spec :=
| SNone
| SList (l : list str)
| SDict (kv : list (str * spec)).

Fixpoint dedup (l : list str) : list str :=           (* set(l), first occurrences kept *)
  match l with
  | [] => []
  | x :: l' => x :: filter (fun y => negb (str_eqb x y)) (dedup l')
  end.

Fixpoint spec_wf (s : spec) : bool :=
  match s with
  | SNone | SList _ => true
  | SDict kv => nodup_keys (map fst kv) &&
                (fix go (kv : list (str * spec)) : bool :=
                   match kv with [] => true | (_, v) :: kv' => spec_wf v && go kv' end) kv
  end.

(* normalize_nested_fields_specs: None -> {}; dict -> dict of normalised values;
   other iterable -> {sub: {} for sub in it}  (a dict comprehension: later duplicates overwrite
   in place, i.e. first positions are kept) *)
Fixpoint normalize_nested (s : spec) : spec :=
  match s with
  | SNone => SDict []
  | SList l => SDict (map (fun k => (k, SDict [])) (dedup l))
  | SDict kv => SDict ((fix go (kv : list (str * spec)) : list (str * spec) :=
                          match kv with
                          | [] => []
                          | (k, v) :: kv' => (k, normalize_nested v) :: go kv'
                          end) kv)
  end.

(* `not object_fields`: None, empty dict, empty list *)
Definition spec_falsy (s : spec) : bool :=
  match s with SNone | SList [] | SDict [] => true | _ => false end.

(* _flatten_fields_specs: list of name paths *)
Fixpoint flatten_paths (s : spec) : list (list str) :=
  match s with
  | SNone => [[]]
  | SList [] => [[]]
  | SList l => map (fun k => [k]) l
  | SDict [] => [[]]
  | SDict kv => (fix go (kv : list (str * spec)) : list (list str) :=
                   match kv with
                   | [] => []
                   | (k, v) :: kv' => map (fun p => k :: p) (flatten_paths v) ++ go kv'
                   end) kv
  end.

Definition dotted (p : list str) : str := join [c_dot] p.

(* flatten_nested_fields_specs *)
Definition flatten_nested (s : spec) : list str :=
  match s with
  | SDict _ => dedup (map dotted (flatten_paths s))
  | SNone => []
  | SList l => dedup l
  end.

(* normalize_object_fields_specs: None stays None *)
Definition normalize_object (s : spec) : option (list str) :=
  match s with
  | SNone => None
  | SDict _ => Some (dedup (map dotted (flatten_paths s)))
  | SList l => Some (dedup l)
  end.

(* set(k.rsplit(".", 1)[0] for k in names) *)
Definition prefixes_of (names : list str) : list str :=
  dedup (map (rsplit1_head c_dot) names).

(* a normalised set handed over again where a specification is expected (the builder gives its
   already normalised object_fields to CheckNestedFields, which normalises once more) *)
Definition spec_of_set (o : option (list str)) : spec :=
  match o with None => SNone | Some l => SList l end.
