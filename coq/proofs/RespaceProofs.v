(* RespaceProofs.v — L-respace: re-spacing a query preserves its token sequence.

   Per-token lemmas (`lex_one_respace`): what `lex_one` returns for a token depends on the text after the
   token only through its non-blank prefix (`la`), and on the text before it only through a
   look-behind window that a token start never exposes (`safe`).  Lifted to `lex_raw` along the
   token chain of the original (`lift`) and through `head_tail_fold` (`L_respace_main`). *)
Require Import Base GenChars GenParser Lexer Erase Respace LexerProofs.
From Coq Require Import Lia.

Local Arguments is_space : simpl never.
Local Arguments is_udigit : simpl never.
Local Arguments is_numchar : simpl never.
Local Arguments term_follow_char : simpl never.
Local Arguments term_first_char : simpl never.
Local Arguments term_step : simpl never.
Local Arguments lex_term : simpl never.
Local Arguments lex_one : simpl never.
Local Arguments N.eqb : simpl never.

(* ================================================================ character classes *)

Lemma in_ranges_disjoint c : forall l1 l2,
  ranges_disjoint l1 l2 = true -> in_ranges c l1 = true -> in_ranges c l2 = false.
Proof.
  induction l1 as [|[a b] l1 IH]; intros l2 Hd Hin; simpl in Hin; [discriminate|].
  unfold ranges_disjoint in Hd. simpl in Hd. apply andb_true_iff in Hd. destruct Hd as [Hab Hd].
  apply orb_true_iff in Hin. destruct Hin as [Hin|Hin]; [|apply IH; assumption].
  apply andb_true_iff in Hin. destruct Hin as [Ha Hb].
  apply N.leb_le in Ha. apply N.leb_le in Hb. clear IH Hd.
  induction l2 as [|[x y] l2 IH2]; simpl; [reflexivity|].
  simpl in Hab. apply andb_true_iff in Hab. destruct Hab as [H1 H2].
  rewrite (IH2 H2), orb_false_r. apply orb_true_iff in H1.
  destruct H1 as [H1|H1]; apply N.ltb_lt in H1.
  - destruct (N.leb_spec x c); [lia|reflexivity].
  - destruct (N.leb_spec c y); [lia|]. apply andb_false_r.
Qed.

Lemma space_digit_disjoint : ranges_disjoint gen_cc_space gen_cc_digit = true.
Proof. vm_compute. reflexivity. Qed.

Lemma space_not_digit c : is_space c = true -> is_udigit c = false.
Proof. apply in_ranges_disjoint. exact space_digit_disjoint. Qed.

Lemma digit_not_space c : is_udigit c = true -> is_space c = false.
Proof. intros H. destruct (is_space c) eqn:E; [|reflexivity]. apply space_not_digit in E. congruence. Qed.

Lemma space_neq c k : is_space c = true -> is_space k = false -> N.eqb c k = false.
Proof. intros H1 H2. destruct (N.eqb_spec c k); [subst; congruence|reflexivity]. Qed.

Lemma eqb_not_space c k : N.eqb c k = true -> is_space k = false -> is_space c = false.
Proof. intros H1 H2. apply N.eqb_eq in H1. subst. exact H2. Qed.

Lemma follow_not_space c : term_follow_char c = true -> is_space c = false.
Proof. unfold term_follow_char. intros H. apply andb_true_iff in H. destruct H as [H _].
  destruct (is_space c); [discriminate|reflexivity]. Qed.

Lemma space_not_follow c : is_space c = true -> term_follow_char c = false.
Proof. unfold term_follow_char. intros H. rewrite H. reflexivity. Qed.

Lemma first_follow c : term_first_char c = true -> term_follow_char c = true.
Proof.
  unfold term_first_char, term_follow_char. intros H. apply andb_true_iff in H. destruct H as [H1 H2].
  rewrite H1. simpl. simpl in H2.
  repeat match type of H2 with negb (?a || ?b) = true =>
    let E := fresh "E" in destruct a eqn:E; [discriminate|]; simpl in H2 end.
  repeat match goal with E : ?a = false |- context [?a] => rewrite E end. reflexivity.
Qed.

Lemma numchar_not_space c : is_numchar c = true -> is_space c = false.
Proof.
  unfold is_numchar. intros H. apply orb_true_iff in H. destruct H as [H|H].
  - apply digit_not_space. unfold is_udigit. simpl. unfold gen_cc_digit. simpl. rewrite H. reflexivity.
  - eapply eqb_not_space; [exact H|reflexivity].
Qed.

Lemma numchar_not_T c : is_numchar c = true -> N.eqb c c_T = false.
Proof. intros H. destruct (N.eqb_spec c c_T); [subst; vm_compute in H; discriminate|reflexivity]. Qed.

Lemma all_space_app a b : all_space (a ++ b) = all_space a && all_space b.
Proof. apply forallb_app. Qed.

Lemma all_space_In w c : all_space w = true -> In c w -> is_space c = true.
Proof. unfold all_space. rewrite forallb_forall. auto. Qed.

(* ================================================================ look-ahead agreement *)

Lemma la_nil_r r : la r [] = true.
Proof. destruct r; reflexivity. Qed.

Lemma la_refl r : la r r = true.
Proof. induction r as [|c r IH]; simpl; [reflexivity|]. destruct (is_space c); [reflexivity|].
  rewrite N.eqb_refl, IH. reflexivity. Qed.

Lemma la_space r c t : is_space c = true -> la r (c :: t) = true.
Proof. intros H. simpl. rewrite H. reflexivity. Qed.

Lemma la_app l : forall r r', la r r' = true -> la (l ++ r) (l ++ r') = true.
Proof. induction l as [|c l IH]; intros r r' H; simpl; [exact H|].
  destruct (is_space c); [reflexivity|]. rewrite N.eqb_refl, (IH _ _ H). reflexivity. Qed.

Lemma la_head r c t' : la r (c :: t') = true -> is_space c = false -> exists t, r = c :: t /\ la t t' = true.
Proof.
  simpl. intros H Hs. rewrite Hs in H. destruct r as [|d t]; [discriminate|].
  apply andb_true_iff in H. destruct H as [H1 H2]. apply N.eqb_eq in H1. subst. eauto.
Qed.

Lemma colon_not_space : is_space c_colon = false. Proof. reflexivity. Qed.
Lemma bslash_not_space : is_space c_bslash = false. Proof. reflexivity. Qed.
Lemma eq_not_space : is_space c_eq = false. Proof. reflexivity. Qed.
Lemma T_not_space : is_space c_T = false. Proof. reflexivity. Qed.

Lemma la_tm2 x x' : la x x' = true -> tm2 x' = true -> tm2 x = true.
Proof.
  intros Hla H. destruct x' as [|c2 [|x1 [|x2 s3]]]; try discriminate. simpl in H.
  apply andb_true_iff in H. destruct H as [H H3]. apply andb_true_iff in H. destruct H as [H1 H2].
  destruct (la_head _ _ _ Hla (eqb_not_space _ _ H1 colon_not_space)) as [t1 [E1 L1]]. subst x.
  destruct (la_head _ _ _ L1 (digit_not_space _ H2)) as [t2 [E2 L2]]. subst t1.
  destruct (la_head _ _ _ L2 (digit_not_space _ H3)) as [t3 [E3 L3]]. subst t2.
  simpl. rewrite H1, H2, H3. reflexivity.
Qed.

(* ================================================================ one step of the TERM loop, relationally *)

Inductive tstep (rp : str) : str -> str -> str -> Prop :=
| ts_follow c s' : term_follow_char c = true -> tstep rp (c :: s') [c] s'
| ts_esc c d s' : term_follow_char c = false -> N.eqb c c_bslash = true -> N.eqb d c_nl = false ->
    tstep rp (c :: d :: s') [c; d] s'
| ts_t3 c m1 m2 s2 : term_follow_char c = false -> N.eqb c c_bslash = false -> N.eqb c c_colon = true ->
    tw rp = true -> is_udigit m1 && is_udigit m2 = true -> tm2 s2 = false ->
    tstep rp (c :: m1 :: m2 :: s2) [c; m1; m2] s2
| ts_t6 c m1 m2 c2 x1 x2 s3 : term_follow_char c = false -> N.eqb c c_bslash = false -> N.eqb c c_colon = true ->
    tw rp = true -> is_udigit m1 && is_udigit m2 = true -> tm2 (c2 :: x1 :: x2 :: s3) = true ->
    tstep rp (c :: m1 :: m2 :: c2 :: x1 :: x2 :: s3) [c; m1; m2; c2; x1; x2] s3.

Lemma term_step_tstep rp s cs s' : term_step rp s = Some (cs, s') -> tstep rp s cs s'.
Proof.
  unfold term_step. destruct s as [|c s1]; [discriminate|].
  destruct (term_follow_char c) eqn:Hf; [intros H; inversion H; subst; constructor; exact Hf|].
  destruct (N.eqb c c_bslash) eqn:Hb.
  { destruct s1 as [|d s2]; [discriminate|]. destruct (N.eqb d c_nl) eqn:Hn; [discriminate|].
    intros H; inversion H; subst. constructor; assumption. }
  destruct (N.eqb c c_colon) eqn:Hc; [|discriminate].
  destruct rp as [|d2 [|d1 [|t rp']]]; try discriminate.
  destruct (is_udigit d2 && is_udigit d1 && N.eqb t c_T) eqn:Hw; [|discriminate].
  destruct s1 as [|m1 [|m2 s2]]; try discriminate.
  destruct (is_udigit m1 && is_udigit m2) eqn:Hm; [|discriminate].
  destruct s2 as [|c2 [|x1 [|x2 s3]]];
    try (intros H; inversion H; subst; apply ts_t3; auto; fail).
  destruct (N.eqb c2 c_colon && is_udigit x1 && is_udigit x2) eqn:H2;
    intros H; inversion H; subst; [apply ts_t6|apply ts_t3]; auto.
Qed.

Lemma tstep_term_step rp s cs s' : tstep rp s cs s' -> term_step rp s = Some (cs, s').
Proof.
  intros H. destruct H; unfold term_step.
  - rewrite H. reflexivity.
  - rewrite H, H0, H1. reflexivity.
  - rewrite H, H0, H1. destruct rp as [|d2 [|d1 [|t rp']]]; try discriminate.
    unfold tw in H2. rewrite H2, H3.
    destruct s2 as [|c2 [|x1 [|x2 s3]]]; try reflexivity. unfold tm2 in H4. rewrite H4. reflexivity.
  - rewrite H, H0, H1. destruct rp as [|d2 [|d1 [|t rp']]]; try discriminate.
    unfold tw in H2. rewrite H2, H3. unfold tm2 in H4. rewrite H4. reflexivity.
Qed.

(* a step that stays inside the lexeme is the same step in the re-spaced text *)
Lemma term_step_inside rpA rpA' cs b1 r r' :
  term_step rpA (cs ++ b1 ++ r) = Some (cs, b1 ++ r) -> tw rpA = tw rpA' -> la r r' = true ->
  term_step rpA' (cs ++ b1 ++ r') = Some (cs, b1 ++ r').
Proof.
  intros H Hw Hla. apply term_step_tstep in H. apply tstep_term_step.
  remember (cs ++ b1 ++ r) as s eqn:Es. remember (b1 ++ r) as s1 eqn:Es1.
  destruct H; subst; simpl.
  - constructor. assumption.
  - constructor; assumption.
  - apply ts_t3; try assumption; [congruence|].
    destruct (tm2 (b1 ++ r')) eqn:E; [|reflexivity].
    rewrite (la_tm2 _ _ (la_app b1 _ _ Hla) E) in H4. discriminate.
  - apply ts_t6; try assumption. congruence.
Qed.

(* where the TERM loop stopped in the original it stops in the re-spaced text *)
Lemma term_step_stop rpA rpA' r r' :
  term_step rpA r = None -> tw rpA = tw rpA' -> la r r' = true -> esc_ok r = true ->
  term_step rpA' r' = None.
Proof.
  intros Hn Hw Hla Hesc. destruct (term_step rpA' r') as [[cs s1]|] eqn:H'; [exfalso|reflexivity].
  apply term_step_tstep in H'. destruct H'.
  - destruct (la_head _ _ _ Hla (follow_not_space _ H)) as [t [E _]]. subst r.
    unfold term_step in Hn. rewrite H in Hn. discriminate.
  - destruct (la_head _ _ _ Hla (eqb_not_space _ _ H0 bslash_not_space)) as [t [E _]]. subst r.
    unfold esc_ok in Hesc. rewrite H0 in Hesc. destruct t as [|d0 t0]; [discriminate|].
    unfold term_step in Hn. rewrite H, H0 in Hn. destruct (N.eqb d0 c_nl); discriminate.
  - apply andb_true_iff in H3. destruct H3 as [Hm1 Hm2].
    destruct (la_head _ _ _ Hla (eqb_not_space _ _ H1 colon_not_space)) as [t1 [E1 L1]]. subst r.
    destruct (la_head _ _ _ L1 (digit_not_space _ Hm1)) as [t2 [E2 L2]]. subst t1.
    destruct (la_head _ _ _ L2 (digit_not_space _ Hm2)) as [t3 [E3 L3]]. subst t2.
    assert (Hex : exists cs s, tstep rpA (c :: m1 :: m2 :: t3) cs s).
    { destruct (tm2 t3) eqn:E.
      - destruct t3 as [|c2 [|x1 [|x2 s3]]]; try discriminate. eexists; eexists. apply ts_t6; auto.
        + congruence. + rewrite Hm1, Hm2. reflexivity.
      - eexists; eexists. apply ts_t3; auto. + congruence. + rewrite Hm1, Hm2. reflexivity. }
    destruct Hex as [cs [s Hst]]. apply tstep_term_step in Hst. congruence.
  - apply andb_true_iff in H3. destruct H3 as [Hm1 Hm2].
    destruct (la_head _ _ _ Hla (eqb_not_space _ _ H1 colon_not_space)) as [t1 [E1 L1]]. subst r.
    destruct (la_head _ _ _ L1 (digit_not_space _ Hm1)) as [t2 [E2 L2]]. subst t1.
    destruct (la_head _ _ _ L2 (digit_not_space _ Hm2)) as [t3 [E3 L3]]. subst t2.
    assert (Hex : exists cs s, tstep rpA (c :: m1 :: m2 :: t3) cs s).
    { destruct (tm2 t3) eqn:E.
      - destruct t3 as [|c2' [|x1' [|x2' s3']]]; try discriminate. eexists; eexists. apply ts_t6; auto.
        + congruence. + rewrite Hm1, Hm2. reflexivity.
      - eexists; eexists. apply ts_t3; auto. + congruence. + rewrite Hm1, Hm2. reflexivity. }
    destruct Hex as [cs [s Hst]]. apply tstep_term_step in Hst. congruence.
Qed.

(* ================================================================ the TERM loop *)

Lemma term_loop_extends : forall fuel rp s racc l r,
  term_loop fuel rp s racc = (l, r) -> exists b, l = rev racc ++ b /\ s = b ++ r.
Proof.
  induction fuel as [|f IH]; intros rp s racc l r H; simpl in H.
  - inversion H; subst. exists []. rewrite app_nil_r. auto.
  - destruct (term_step rp s) as [[cs s']|] eqn:Hs.
    + destruct (IH _ _ _ _ _ H) as [b1 [H1 H2]]. destruct (term_step_spec _ _ _ _ Hs) as [Hs' _].
      exists (cs ++ b1). subst. rewrite rev_app_distr, rev_involutive, <- !app_assoc. auto.
    + inversion H; subst. exists []. rewrite app_nil_r. auto.
Qed.

Lemma term_loop_stop fuel rp s racc : term_step rp s = None -> term_loop fuel rp s racc = (rev racc, s).
Proof. intros H. destruct fuel; simpl; [reflexivity|]. rewrite H. reflexivity. Qed.

(* the loop ended on a step that does not match (not on exhausted fuel) *)
Lemma term_loop_stopped : forall fuel rp s racc l r,
  term_loop fuel rp s racc = (l, r) -> length s <= fuel -> exists rpX, term_step rpX r = None.
Proof.
  induction fuel as [|f IH]; intros rp s racc l r H Hlen; simpl in H.
  - inversion H; subst. destruct r; [|simpl in Hlen; lia]. exists []. reflexivity.
  - destruct (term_step rp s) as [[cs s']|] eqn:Hs.
    + apply IH in H; [exact H|]. destruct (term_step_spec _ _ _ _ Hs) as [Hs' Hne]. subst s.
      rewrite app_length in Hlen. destruct cs; [congruence|]. simpl in Hlen. lia.
    + inversion H; subst. exists rp. exact Hs.
Qed.

(* same look-behind, whatever is consumed next *)
Definition same_window (rpA rpA' : str) : Prop := forall x, tw (x ++ rpA) = tw (x ++ rpA').

Lemma same_window_app cs rpA rpA' : same_window rpA rpA' -> same_window (cs ++ rpA) (cs ++ rpA').
Proof. intros H x. rewrite !app_assoc. apply H. Qed.

Lemma term_loop_respace : forall fuel rpA s racc l r,
  term_loop fuel rpA s racc = (l, r) -> length s <= fuel ->
  forall rpA' r' racc' fuel' b, l = rev racc ++ b -> s = b ++ r ->
  same_window rpA rpA' -> la r r' = true -> esc_ok r = true -> length (b ++ r') <= fuel' ->
  term_loop fuel' rpA' (b ++ r') racc' = (rev racc' ++ b, r').
Proof.
  induction fuel as [|f IH]; intros rpA s racc l r H Hlen rpA' r' racc' fuel' b Hl Hs Hw Hla Hesc Hlen'.
  - simpl in H. inversion H; subst l r. destruct s; [|simpl in Hlen; lia].
    symmetry in Hs. apply app_eq_nil in Hs. destruct Hs; subst. simpl. rewrite app_nil_r.
    apply term_loop_stop. eapply term_step_stop; [| exact (Hw []) | exact Hla | exact Hesc]. reflexivity.
  - simpl in H. destruct (term_step rpA s) as [[cs s1]|] eqn:Hst.
    + destruct (term_step_spec _ _ _ _ Hst) as [Hs1 Hne].
      destruct (term_loop_extends _ _ _ _ _ _ H) as [b1 [Hl1 Hs2]].
      assert (Hb : b = cs ++ b1).
      { rewrite Hl in Hl1. rewrite rev_app_distr, rev_involutive, <- app_assoc in Hl1.
        apply app_inv_head in Hl1. exact Hl1. }
      subst b s1. rewrite <- app_assoc in *.
      assert (Hst' : term_step rpA' (cs ++ b1 ++ r') = Some (cs, b1 ++ r')).
      { apply term_step_inside with (rpA := rpA) (r := r); [|exact (Hw [])|exact Hla].
        rewrite <- Hs1. exact Hst. }
      destruct fuel' as [|f'].
      { destruct cs; [congruence|]. simpl in Hlen'. lia. }
      simpl. rewrite Hst'.
      rewrite (IH _ _ _ _ _ H) with (b := b1) (rpA' := rev cs ++ rpA') (r' := r').
      * rewrite rev_app_distr, rev_involutive, <- app_assoc. reflexivity.
      * subst s. rewrite app_length in Hlen. destruct cs; [congruence|]. simpl in Hlen. lia.
      * rewrite rev_app_distr, rev_involutive, <- app_assoc. subst l.
        rewrite rev_app_distr, rev_involutive, <- app_assoc in Hl1. exact Hl1.
      * reflexivity.
      * apply same_window_app. exact Hw.
      * exact Hla.
      * exact Hesc.
      * rewrite app_length in Hlen'. destruct cs; [congruence|]. simpl in Hlen'. lia.
    + injection H as E1 E2. rewrite <- E1 in Hl. rewrite <- E2 in *. clear E1 E2.
      assert (Hb : b = []).
      { rewrite <- (app_nil_r (rev racc)) in Hl at 1. apply app_inv_head in Hl. auto. }
      subst b. simpl in *. rewrite app_nil_r. apply term_loop_stop.
      eapply term_step_stop; [exact Hst | exact (Hw []) | exact Hla | exact Hesc].
Qed.

(* ---- the look-behind at a token start *)

(* the text before the token is invisible to the look-behind of a TERM starting here *)
Definition safe (rp : str) : Prop := forall c x, tw (x ++ c :: rp) = tw (x ++ [c]).

Lemma safe_window rp rp' c : safe rp -> safe rp' -> same_window (c :: rp) (c :: rp').
Proof. intros H H' x. rewrite H, H'. reflexivity. Qed.

Lemma safe_window2 rp rp' c d : safe rp -> safe rp' -> same_window (d :: c :: rp) (d :: c :: rp').
Proof.
  intros H H' x. change (d :: c :: rp) with ([d] ++ c :: rp). change (d :: c :: rp') with ([d] ++ c :: rp').
  rewrite !app_assoc, H, H'. reflexivity.
Qed.

Lemma qsafe_safe rp : qsafe rp = true -> safe rp.
Proof.
  intros H c x. destruct x as [|y [|y2 x']].
  - simpl. destruct rp as [|u1 [|u2 rest]]; try reflexivity.
    simpl in H. unfold tw.
    destruct (N.eqb u1 c_T), (is_udigit u1), (N.eqb u2 c_T), (is_udigit c); simpl in *; congruence.
  - simpl. destruct rp as [|u1 rest]; [reflexivity|]. simpl in H. unfold tw.
    destruct (N.eqb u1 c_T); simpl in *; [discriminate|]. apply andb_false_r.
  - destruct x'; reflexivity.
Qed.

Lemma safe_nil : safe [].
Proof. apply qsafe_safe. reflexivity. Qed.

Lemma safe_space c rp : is_space c = true -> safe (c :: rp).
Proof.
  intros H. apply qsafe_safe. simpl. rewrite (space_neq _ _ H T_not_space), (space_not_digit _ H). reflexivity.
Qed.

Lemma safe_rev_space w rest : w <> [] -> all_space w = true -> safe (rev w ++ rest).
Proof.
  intros Hne Hw. destruct (rev w) as [|c m] eqn:E.
  - exfalso. apply Hne. rewrite <- (rev_involutive w), E. reflexivity.
  - simpl. apply safe_space. apply (all_space_In w); [exact Hw|].
    apply in_rev. rewrite E. left. reflexivity.
Qed.

(* ---- TERM as a whole *)

Lemma lex_term_respace rp rp' l r r' :
  lex_term rp (l ++ r) = Some (l, r) -> safe rp -> safe rp' -> la r r' = true -> esc_ok r = true ->
  lex_term rp' (l ++ r') = Some (l, r').
Proof.
  intros H Hs Hs' Hla Hesc. destruct (lex_term_spec _ _ _ _ H) as [_ Hne].
  destruct l as [|c l1]; [congruence|]. unfold lex_term in *. cbn [app] in *.
  destruct (term_first_char c).
  - injection H as H. f_equal.
    apply (term_loop_respace _ _ _ _ _ _ H (Nat.le_refl _)) with (racc' := [c]) (b := l1);
      auto using safe_window.
  - destruct (N.eqb c c_bslash); [|discriminate].
    destruct l1 as [|d l2]; cbn [app] in *.
    + destruct r as [|d s2]; [discriminate|]. destruct (N.eqb d c_nl); [discriminate|].
      injection H as H. destruct (term_loop_extends _ _ _ _ _ _ H) as [b [Hb _]]. discriminate.
    + destruct (N.eqb d c_nl); [discriminate|]. injection H as H. f_equal.
      apply (term_loop_respace _ _ _ _ _ _ H (Nat.le_refl _)) with (racc' := [d; c]) (b := l2);
        auto using safe_window2.
Qed.

(* whether TERM matches at all depends on the first two characters only *)
Lemma lex_term_none_indep rp rp' c s s' :
  lex_term rp (c :: s) = None -> N.eqb c c_bslash = false -> lex_term rp' (c :: s') = None.
Proof.
  unfold lex_term. destruct (term_first_char c); [discriminate|]. intros _ H. rewrite H. reflexivity.
Qed.

(* where a TERM ended no TERM starts *)
Lemma term_stop_not_start rpX rpY r : term_step rpX r = None -> lex_term rpY r = None.
Proof.
  unfold term_step, lex_term. destruct r as [|c s]; [reflexivity|].
  destruct (term_first_char c) eqn:Hf.
  - rewrite (first_follow _ Hf). discriminate.
  - destruct (term_follow_char c); [discriminate|].
    destruct (N.eqb c c_bslash); [|reflexivity].
    destruct s as [|d s2]; [reflexivity|]. destruct (N.eqb d c_nl); [reflexivity|discriminate].
Qed.

Lemma lex_term_stopped rp s l r : lex_term rp s = Some (l, r) -> exists rpX, term_step rpX r = None.
Proof.
  unfold lex_term. destruct s as [|c s1]; [discriminate|].
  destruct (term_first_char c).
  - intros H. injection H as H. eapply term_loop_stopped; [exact H|lia].
  - destruct (N.eqb c c_bslash); [|discriminate]. destruct s1 as [|d s2]; [discriminate|].
    destruct (N.eqb d c_nl); [discriminate|]. intros H. injection H as H.
    eapply term_loop_stopped; [exact H|lia].
Qed.

(* ================================================================ PHRASE / REGEX: self-delimited *)

Lemma delim_loop_extends d : forall fuel s racc l r,
  delim_loop fuel d s racc = Some (l, r) -> exists b, l = rev racc ++ b /\ s = b ++ r.
Proof.
  induction fuel as [|f IH]; intros s racc l r H; simpl in H; [discriminate|].
  destruct s as [|c s1]; [discriminate|].
  destruct (N.eqb c d).
  - inversion H; subst. exists [c]. simpl. auto.
  - destruct (N.eqb c c_bslash).
    + destruct s1 as [|e s2]; [discriminate|]. destruct (N.eqb e c_nl); [discriminate|].
      destruct (IH _ _ _ _ H) as [b [H1 H2]]. exists (c :: e :: b). subst. simpl.
      rewrite <- !app_assoc. auto.
    + destruct (IH _ _ _ _ H) as [b [H1 H2]]. exists (c :: b). subst. simpl.
      rewrite <- !app_assoc. auto.
Qed.

Lemma delim_loop_respace d : forall fuel s racc l r,
  delim_loop fuel d s racc = Some (l, r) ->
  forall b r' racc' fuel', l = rev racc ++ b -> s = b ++ r -> length b < fuel' ->
  delim_loop fuel' d (b ++ r') racc' = Some (rev racc' ++ b, r').
Proof.
  induction fuel as [|f IH]; intros s racc l r H b r' racc' fuel' Hl Hs Hlen; simpl in H; [discriminate|].
  destruct s as [|c s1]; [discriminate|].
  destruct (N.eqb c d) eqn:Hd.
  - injection H as E1 E2. rewrite <- E1 in Hl. simpl in Hl. apply app_inv_head in Hl.
    rewrite <- Hl. clear E1.
    destruct fuel'; [simpl in Hlen; lia|]. simpl. rewrite Hd. reflexivity.
  - destruct (N.eqb c c_bslash) eqn:Hb.
    + destruct s1 as [|e s2]; [discriminate|]. destruct (N.eqb e c_nl) eqn:Hn; [discriminate|].
      destruct (delim_loop_extends _ _ _ _ _ _ H) as [b2 [H1 H2]].
      assert (Eb : b = c :: e :: b2).
      { rewrite Hl in H1. simpl in H1. rewrite <- !app_assoc in H1. apply app_inv_head in H1. exact H1. }
      subst b. destruct fuel' as [|f']; [simpl in Hlen; lia|]. simpl. rewrite Hd, Hb, Hn.
      rewrite (IH _ _ _ _ H b2 r' (e :: c :: racc') f').
      * simpl. rewrite <- !app_assoc. reflexivity.
      * exact H1.
      * exact H2.
      * simpl in Hlen. lia.
    + destruct (delim_loop_extends _ _ _ _ _ _ H) as [b2 [H1 H2]].
      assert (Eb : b = c :: b2).
      { rewrite Hl in H1. simpl in H1. rewrite <- !app_assoc in H1. apply app_inv_head in H1. exact H1. }
      subst b. destruct fuel' as [|f']; [simpl in Hlen; lia|]. simpl. rewrite Hd, Hb.
      rewrite (IH _ _ _ _ H b2 r' (c :: racc') f').
      * simpl. rewrite <- !app_assoc. reflexivity.
      * exact H1.
      * exact H2.
      * simpl in Hlen. lia.
Qed.

Lemma lex_delimited_respace d l r r' :
  lex_delimited d (l ++ r) = Some (l, r) -> lex_delimited d (l ++ r') = Some (l, r').
Proof.
  intros H. destruct (lex_delimited_spec _ _ _ _ H) as [_ Hne].
  destruct l as [|c l1]; [congruence|]. unfold lex_delimited in *. cbn [app] in *.
  destruct (N.eqb c d); [|discriminate].
  apply (delim_loop_respace _ _ _ _ _ _ H l1 r' [c]); [reflexivity|reflexivity|].
  rewrite app_length. lia.
Qed.

Lemma delim_loop_last d : forall fuel s racc l r,
  delim_loop fuel d s racc = Some (l, r) -> exists m, rev l = d :: m.
Proof.
  induction fuel as [|f IH]; intros s racc l r H; simpl in H; [discriminate|].
  destruct s as [|c s1]; [discriminate|].
  destruct (N.eqb c d) eqn:Hd.
  - injection H as E1 E2. rewrite <- E1. simpl. rewrite rev_app_distr. simpl.
    apply N.eqb_eq in Hd. subst. eauto.
  - destruct (N.eqb c c_bslash).
    + destruct s1 as [|e s2]; [discriminate|]. destruct (N.eqb e c_nl); [discriminate|]. eauto.
    + eauto.
Qed.

Lemma lex_delimited_last d s l r : lex_delimited d s = Some (l, r) -> exists m, rev l = d :: m.
Proof.
  unfold lex_delimited. destruct s as [|c s1]; [discriminate|]. destruct (N.eqb c d); [|discriminate].
  apply delim_loop_last.
Qed.

(* ================================================================ greedy spans *)

Lemma span_while_app p : forall l r racc,
  (forall c, In c l -> p c = true) -> (match r with c :: _ => p c = false | [] => True end) ->
  span_while p (l ++ r) racc = (rev racc ++ l, r).
Proof.
  induction l as [|c l IH]; intros r racc Hl Hr; simpl.
  - rewrite app_nil_r. destruct r as [|c r]; simpl; [reflexivity|]. rewrite Hr. reflexivity.
  - rewrite (Hl c (or_introl eq_refl)). rewrite IH; [|intros; apply Hl; right; assumption|exact Hr].
    simpl. rewrite <- app_assoc. reflexivity.
Qed.

Lemma lex_one_sep rp w s :
  w <> [] -> all_space w = true -> starts_with_space s = false -> lex_one rp (w ++ s) = Some (RSep, w, s).
Proof.
  intros Hne Hw Hs. destruct w as [|c w1]; [congruence|]. unfold lex_one. cbn [app].
  assert (Hc : is_space c = true) by (apply (all_space_In (c :: w1)); [exact Hw|left; reflexivity]).
  rewrite Hc. change (c :: w1 ++ s) with ((c :: w1) ++ s).
  rewrite span_while_app; [reflexivity| |].
  - intros x Hx. apply (all_space_In (c :: w1)); assumption.
  - destruct s; [exact I|exact Hs].
Qed.

(* ================================================================ one token *)

Lemma lex_one_bslash_none rp s1 : lex_term rp (c_bslash :: s1) = None -> lex_one rp (c_bslash :: s1) = None.
Proof. intros H. unfold lex_one. rewrite H. reflexivity. Qed.

Lemma lex_one_esc_ok rp s x : lex_one rp s = Some x -> esc_ok s = true.
Proof.
  intros H. destruct s as [|c s1]; [reflexivity|]. unfold esc_ok.
  destruct (N.eqb c c_bslash) eqn:E; [|reflexivity]. apply N.eqb_eq in E. subst c.
  destruct s1 as [|d s2].
  - rewrite lex_one_bslash_none in H; [discriminate|reflexivity].
  - destruct (N.eqb d c_nl) eqn:En; [|reflexivity].
    rewrite lex_one_bslash_none in H; [discriminate|]. unfold lex_term.
    change (term_first_char c_bslash) with false. change (N.eqb c_bslash c_bslash) with true.
    cbv iota. rewrite En. reflexivity.
Qed.

Lemma gt_like (T : tok) c l1 r r' k : la r r' = true ->
  match l1 ++ r with
  | e :: s'' => if N.eqb e c_eq then Some (RTok T, [c; e], s'') else Some (RTok T, [c], l1 ++ r)
  | [] => Some (RTok T, [c], l1 ++ r)
  end = Some (RTok k, c :: l1, r) ->
  match l1 ++ r' with
  | e :: s'' => if N.eqb e c_eq then Some (RTok T, [c; e], s'') else Some (RTok T, [c], l1 ++ r')
  | [] => Some (RTok T, [c], l1 ++ r')
  end = Some (RTok k, c :: l1, r').
Proof.
  intros Hla. destruct l1 as [|e l2]; cbn [app].
  - intros H.
    assert (Hk : k = T).
    { destruct r as [|e s'']; [|destruct (N.eqb e c_eq)]; inversion H; reflexivity. }
    subst k. destruct r' as [|e' t']; [reflexivity|].
    destruct (N.eqb e' c_eq) eqn:Ee; [exfalso|reflexivity].
    destruct (la_head _ _ _ Hla (eqb_not_space _ _ Ee eq_not_space)) as [t [E _]]. subst r.
    rewrite Ee in H. inversion H.
  - destruct (N.eqb e c_eq); intros H; inversion H; subst. reflexivity.
Qed.

Ltac simple_tok := let H := fresh "H" in intros H; inversion H; subst; reflexivity.

(* a token that is not lexed by the TERM rule: nothing before it matters, and after it only the
   non-blank prefix *)
Lemma lex_one_respace_nonterm rp rp' l r r' k :
  lex_one rp (l ++ r) = Some (RTok k, l, r) -> lex_term rp (l ++ r) = None -> la r r' = true ->
  lex_one rp' (l ++ r') = Some (RTok k, l, r').
Proof.
  intros H Hnt Hla. destruct (lex_one_spec _ _ _ _ _ H) as [_ [Hne _]].
  destruct l as [|c l1]; [congruence|]. cbn [app] in *.
  assert (Hbs : N.eqb c c_bslash = false).
  { destruct (N.eqb_spec c c_bslash); [|reflexivity]. subst c.
    rewrite (lex_one_bslash_none _ _ Hnt) in H. discriminate. }
  pose proof (lex_term_none_indep rp rp' c (l1 ++ r) (l1 ++ r') Hnt Hbs) as Hnt'.
  unfold lex_one in *. rewrite Hnt'. rewrite Hnt in H. revert H.
  destruct (is_space c).
  { destruct (span_while is_space (c :: l1 ++ r) []). discriminate. }
  destruct (N.eqb c c_plus); [simple_tok|].
  destruct (N.eqb c c_minus); [simple_tok|].
  destruct (N.eqb c c_colon); [simple_tok|].
  destruct (N.eqb c c_lparen); [simple_tok|].
  destruct (N.eqb c c_rparen); [simple_tok|].
  destruct (N.eqb c c_lbrack || N.eqb c c_lbrace); [simple_tok|].
  destruct (N.eqb c c_rbrack || N.eqb c c_rbrace); [simple_tok|].
  destruct (N.eqb c c_gt); [apply gt_like; exact Hla|].
  destruct (N.eqb c c_lt); [apply gt_like; exact Hla|].
  destruct (N.eqb c c_quote).
  { intros H. destruct (lex_delimited c_quote (c :: l1 ++ r)) as [[l0 r0]|] eqn:Hd; [|discriminate].
    inversion H; subst. change (c :: l1 ++ r) with ((c :: l1) ++ r) in Hd.
    apply lex_delimited_respace with (r' := r') in Hd. cbn [app] in Hd. rewrite Hd. reflexivity. }
  destruct (N.eqb c c_slash).
  { intros H. destruct (lex_delimited c_slash (c :: l1 ++ r)) as [[l0 r0]|] eqn:Hd; [|discriminate].
    inversion H; subst. change (c :: l1 ++ r) with ((c :: l1) ++ r) in Hd.
    apply lex_delimited_respace with (r' := r') in Hd. cbn [app] in Hd. rewrite Hd. reflexivity. }
  assert (Hspan : forall T,
    (let '(l, r0) := span_while is_numchar (l1 ++ r) [] in Some (RTok T, c :: l, r0)) = Some (RTok k, c :: l1, r) ->
    (let '(l, r0) := span_while is_numchar (l1 ++ r') [] in Some (RTok T, c :: l, r0)) = Some (RTok k, c :: l1, r')).
  { intros T H. destruct (span_while is_numchar (l1 ++ r) []) as [l0 r0] eqn:Hsw.
    inversion H; subst. apply span_while_spec in Hsw. destruct Hsw as [l' [H1 [H2 [H3 H4]]]].
    simpl in H1. subst l'. rewrite span_while_app; [reflexivity|exact H4|].
    destruct r' as [|z t']; [exact I|]. destruct (is_numchar z) eqn:Ez; [exfalso|reflexivity].
    destruct (la_head _ _ _ Hla (numchar_not_space _ Ez)) as [t [E _]]. subst r. congruence. }
  destruct (N.eqb c c_tilde); [apply Hspan|].
  destruct (N.eqb c c_caret); [apply Hspan|].
  discriminate.
Qed.

Ltac end_simple E :=
  let H := fresh "H" in intros H; inversion H; subst; apply N.eqb_eq in E; rewrite E; reflexivity.

(* the last characters of a token that is not lexed by the TERM rule never complete a `T\d\d` window *)
Lemma nonterm_end_safe rp l r k :
  lex_one rp (l ++ r) = Some (RTok k, l, r) -> lex_term rp (l ++ r) = None ->
  forall rest, qsafe (rev l ++ rest) = true.
Proof.
  intros H Hnt rest. destruct (lex_one_spec _ _ _ _ _ H) as [_ [Hne _]].
  destruct l as [|c l1]; [congruence|]. cbn [app] in *.
  unfold lex_one in H. rewrite Hnt in H. revert H.
  destruct (is_space c).
  { destruct (span_while is_space (c :: l1 ++ r) []). discriminate. }
  destruct (N.eqb c c_plus) eqn:E1; [end_simple E1|].
  destruct (N.eqb c c_minus) eqn:E2; [end_simple E2|].
  destruct (N.eqb c c_colon) eqn:E3; [end_simple E3|].
  destruct (N.eqb c c_lparen) eqn:E4; [end_simple E4|].
  destruct (N.eqb c c_rparen) eqn:E5; [end_simple E5|].
  destruct (N.eqb c c_lbrack) eqn:E6; [end_simple E6|].
  destruct (N.eqb c c_lbrace) eqn:E7; [end_simple E7|].
  destruct (N.eqb c c_rbrack) eqn:E8; [end_simple E8|].
  destruct (N.eqb c c_rbrace) eqn:E9; [end_simple E9|].
  cbn [orb].
  assert (Hgt : forall T g, c = g -> (forall rs, qsafe (g :: rs) = true) -> qsafe (c_eq :: g :: rest) = true ->
    match l1 ++ r with
    | e :: s'' => if N.eqb e c_eq then Some (RTok T, [c; e], s'') else Some (RTok T, [c], l1 ++ r)
    | [] => Some (RTok T, [c], l1 ++ r)
    end = Some (RTok k, c :: l1, r) -> qsafe (rev (c :: l1) ++ rest) = true).
  { intros T g Eg Q1 Q2. subst g. destruct l1 as [|e l2]; cbn [app].
    - intros _. apply Q1.
    - destruct (N.eqb e c_eq) eqn:Ee; intros H; inversion H; subst.
      apply N.eqb_eq in Ee. subst e. exact Q2. }
  destruct (N.eqb c c_gt) eqn:E10.
  { apply N.eqb_eq in E10. apply (Hgt T_GREATERTHAN c_gt E10); [intros rs|]; reflexivity. }
  destruct (N.eqb c c_lt) eqn:E11.
  { apply N.eqb_eq in E11. apply (Hgt T_LESSTHAN c_lt E11); [intros rs|]; reflexivity. }
  clear Hgt.
  destruct (N.eqb c c_quote).
  { intros H. destruct (lex_delimited c_quote (c :: l1 ++ r)) as [[l0 r0]|] eqn:Hd; [|discriminate].
    inversion H; subst. destruct (lex_delimited_last _ _ _ _ Hd) as [m Em]. rewrite Em. reflexivity. }
  destruct (N.eqb c c_slash).
  { intros H. destruct (lex_delimited c_slash (c :: l1 ++ r)) as [[l0 r0]|] eqn:Hd; [|discriminate].
    inversion H; subst. destruct (lex_delimited_last _ _ _ _ Hd) as [m Em]. rewrite Em. reflexivity. }
  assert (Hspan : forall T g, c = g -> N.eqb g c_T = false -> is_udigit g = false ->
    (let '(l, r0) := span_while is_numchar (l1 ++ r) [] in Some (RTok T, c :: l, r0)) = Some (RTok k, c :: l1, r) ->
    qsafe (rev (c :: l1) ++ rest) = true).
  { intros T g Eg Q1 Q2 H. subst g. destruct (span_while is_numchar (l1 ++ r) []) as [l0 r0] eqn:Hsw.
    inversion H; subst. apply span_while_spec in Hsw. destruct Hsw as [l' [H1 [H2 [H3 H4]]]].
    simpl in H1. subst l'. simpl. destruct (rev l1) as [|z m] eqn:Er.
    - simpl. rewrite Q1, Q2. reflexivity.
    - assert (Hin : forall y, In y (z :: m) -> is_numchar y = true).
      { intros y Hy. apply H4. apply in_rev. rewrite Er. exact Hy. }
      simpl. rewrite (numchar_not_T z (Hin z (or_introl eq_refl))). simpl.
      destruct m as [|u2 m2]; simpl.
      + rewrite Q1, andb_false_r. reflexivity.
      + rewrite (numchar_not_T u2 (Hin u2 (or_intror (or_introl eq_refl)))), andb_false_r. reflexivity. }
  destruct (N.eqb c c_tilde) eqn:E12.
  { apply N.eqb_eq in E12. apply (Hspan T_APPROX c_tilde E12); reflexivity. }
  destruct (N.eqb c c_caret) eqn:E13.
  { apply N.eqb_eq in E13. apply (Hspan T_BOOST c_caret E13); reflexivity. }
  discriminate.
Qed.

(* L-respace, one token: the same token is lexed from the re-spaced text *)
Lemma lex_one_respace rp rp' l r r' k :
  lex_one rp (l ++ r) = Some (RTok k, l, r) ->
  (lex_term rp (l ++ r) <> None -> safe rp /\ safe rp') ->
  la r r' = true -> esc_ok r = true ->
  lex_one rp' (l ++ r') = Some (RTok k, l, r').
Proof.
  intros H Hsafe Hla Hesc. destruct (lex_term rp (l ++ r)) as [[l0 r0]|] eqn:Ht.
  - destruct Hsafe as [S1 S2]; [discriminate|].
    destruct (lex_one_spec _ _ _ _ _ H) as [_ [Hne [_ Hns]]].
    destruct l as [|c l1]; [congruence|].
    assert (Hsp : is_space c = false) by (apply Hns; discriminate).
    unfold lex_one in *. cbn [app] in *. rewrite Hsp in *. rewrite Ht in H.
    inversion H; subst l0 r0. clear H.
    change (c :: l1 ++ r) with ((c :: l1) ++ r) in Ht.
    pose proof (lex_term_respace _ rp' _ _ r' Ht S1 S2 Hla Hesc) as Ht'. cbn [app] in Ht'.
    rewrite Ht'. reflexivity.
  - apply lex_one_respace_nonterm with (rp := rp) (r := r); assumption.
Qed.

(* after a token directly followed by a TERM, the text before that TERM is invisible to it *)
Lemma adjacent_term_safe rp rpX l s2 k x :
  lex_one rp (l ++ s2) = Some (RTok k, l, s2) -> lex_term rpX s2 = Some x ->
  forall rest, safe (rev l ++ rest).
Proof.
  intros H Hx rest. destruct (lex_term rp (l ++ s2)) as [[l0 r0]|] eqn:Ht.
  - exfalso. destruct (lex_one_spec _ _ _ _ _ H) as [_ [Hne [_ Hns]]].
    destruct l as [|c l1]; [congruence|].
    assert (Hsp : is_space c = false) by (apply Hns; discriminate).
    unfold lex_one in H. cbn [app] in *. rewrite Hsp, Ht in H. inversion H; subst l0 r0.
    destruct (lex_term_stopped _ _ _ _ Ht) as [rpY Hstop].
    rewrite (term_stop_not_start _ rpX _ Hstop) in Hx. discriminate.
  - apply qsafe_safe. eapply nonterm_end_safe; eassumption.
Qed.

(* ================================================================ the token chain of the original *)

(* raw level: every raw token is what lex_one returns at its position *)
Inductive rchain : str -> str -> list rawtok -> Prop :=
| rc_nil rp : rchain rp [] []
| rc_cons rp k l r p raws :
    lex_one rp (l ++ r) = Some (k, l, r) -> rchain (rev l ++ rp) r raws ->
    rchain rp (l ++ r) (mkRaw k l p :: raws).

Lemma lex_raw_rchain : forall fuel rp pos s raws,
  lex_raw fuel rp pos s = (raws, None) -> length s < fuel -> rchain rp s raws.
Proof.
  induction fuel as [|f IH]; intros rp pos s raws H Hlen; [lia|].
  simpl in H. destruct s as [|c s1].
  - inversion H. constructor.
  - destruct (lex_one rp (c :: s1)) as [[[k l] r]|] eqn:Hone; [|discriminate].
    destruct (lex_raw f (rev l ++ rp) (pos + length l) r) as [ts1 e1] eqn:Hrec.
    inversion H; subst; clear H.
    destruct (lex_one_spec _ _ _ _ _ Hone) as [Hs [Hne _]].
    rewrite Hs in *. constructor; [exact Hone|].
    eapply IH; [exact Hrec|]. rewrite app_length in Hlen. destruct l; [congruence|]. simpl in Hlen. lia.
Qed.

(* token level: every token is what lex_one returns at its position, its tail is blank *)
Inductive tchain : str -> str -> list token -> Prop :=
| tc_nil rp : tchain rp [] []
| tc_cons rp t s2 ts :
    lex_one rp (tk_lexeme t ++ tk_tail t ++ s2) = Some (RTok (tk_type t), tk_lexeme t, tk_tail t ++ s2) ->
    all_space (tk_tail t) = true ->
    tchain (rev (tk_tail t) ++ rev (tk_lexeme t) ++ rp) s2 ts ->
    tchain rp (tk_lexeme t ++ tk_tail t ++ s2) (t :: ts).

Lemma tc_cons' rp k l w p h s2 ts :
  lex_one rp (l ++ w ++ s2) = Some (RTok k, l, w ++ s2) -> all_space w = true ->
  tchain (rev w ++ rev l ++ rp) s2 ts -> tchain rp (l ++ w ++ s2) (mkTok k l p h w :: ts).
Proof. intros H1 H2 H3. exact (tc_cons rp (mkTok k l p h w) s2 ts H1 H2 H3). Qed.

Lemma lex_one_sep_space rp s l r : lex_one rp s = Some (RSep, l, r) -> all_space l = true.
Proof.
  unfold lex_one. destruct s as [|c s1]; [discriminate|].
  destruct (is_space c) eqn:Hsp.
  - destruct (span_while is_space (c :: s1) []) as [l0 r0] eqn:Hsw. intros H; inversion H; subst.
    apply span_while_spec in Hsw. destruct Hsw as [l' [H1 [_ [_ H4]]]]. simpl in H1. subst l'.
    unfold all_space. apply forallb_forall. exact H4.
  - destruct (lex_term rp (c :: s1)) as [[l0 r0]|]; [intros H; inversion H|].
    repeat match goal with
    | |- (if ?b then _ else _) = _ -> _ => destruct b
    | |- (match ?x with _ => _ end) = _ -> _ => destruct x
    end; discriminate.
Qed.

(* ---- HeadTailLexer, token by token *)

Lemma fold_acc : forall raws p racc1 racc2, racc1 <> [] ->
  head_tail_fold raws p (racc1 ++ racc2) = rev racc2 ++ head_tail_fold raws p racc1.
Proof.
  induction raws as [|r raws IH]; intros p racc1 racc2 Hne; simpl.
  - apply rev_app_distr.
  - destruct (rk_kind r).
    + destruct (Nat.eqb (rk_pos r) 0); [apply IH; exact Hne|].
      destruct racc1 as [|lastt racc1']; [congruence|]. simpl.
      apply (IH p (add_tail lastt (rk_lexeme r) :: racc1') racc2). discriminate.
    + apply (IH None (_ :: racc1) racc2). discriminate.
Qed.

Lemma add_tail_nil t : add_tail t [] = t.
Proof. destruct t. unfold add_tail. simpl. rewrite app_nil_r. reflexivity. Qed.

Lemma fold_tchain : forall n raws, length raws <= n -> forall rp s pos t0,
  rchain rp s raws -> raw_ok pos false raws -> 0 < pos ->
  exists w s2 ts, head_tail_fold raws None [t0] = add_tail t0 w :: ts /\ s = w ++ s2 /\
                  all_space w = true /\ tchain (rev w ++ rp) s2 ts.
Proof.
  induction n as [|n IH]; intros raws Hn rp s pos t0 Hch Hok Hpos.
  - destruct raws; [|simpl in Hn; lia]. inversion Hch; subst.
    exists [], [], []. simpl. rewrite add_tail_nil. repeat split; constructor.
  - destruct raws as [|q raws1].
    { inversion Hch; subst. exists [], [], []. simpl. rewrite add_tail_nil. repeat split; constructor. }
    inversion Hch as [|rp0 k l r p raws0 Hone Hrest]; subst. simpl in Hok.
    destruct Hok as [Hp [Hl [_ Hok1]]]. simpl in Hp, Hl, Hok1. simpl in Hn.
    assert (Hlen : 0 < length l) by (destruct l; [congruence|simpl; lia]).
    destruct k as [|k1].
    + (* a separator: the tail of t0 *)
      simpl. assert (E : Nat.eqb p 0 = false) by (apply Nat.eqb_neq; lia). rewrite E.
      pose proof (lex_one_sep_space _ _ _ _ Hone) as Hw.
      destruct raws1 as [|q2 raws2].
      { inversion Hrest; subst. exists l, [], []. simpl. rewrite app_nil_r. repeat split; [exact Hw|constructor]. }
      inversion Hrest as [|rp1 k2 l2 r2 p2 raws3 Hone2 Hrest2]; subst. simpl in Hok1.
      destruct Hok1 as [Hp2 [Hl2 [Hns2 Hok2]]]. simpl in Hp2, Hl2, Hns2, Hok2.
      destruct k2 as [|k2]; [exfalso; apply Hns2; reflexivity|].
      simpl. simpl in Hn.
      change [mkTok k2 l2 p2 [] []; add_tail t0 l] with ([mkTok k2 l2 p2 [] []] ++ [add_tail t0 l]).
      rewrite fold_acc; [|discriminate].
      destruct (IH raws2 ltac:(lia) _ _ _ (mkTok k2 l2 p2 [] []) Hrest2 Hok2 ltac:(lia))
        as [w2 [s3 [ts2 [Hf [Hs [Hw2 Hch2]]]]]].
      exists l, (l2 ++ w2 ++ s3), (add_tail (mkTok k2 l2 p2 [] []) w2 :: ts2).
      rewrite Hf. simpl. subst r2. repeat split; [exact Hw|].
      apply tc_cons'; assumption.
    + (* a token directly after t0 *)
      simpl.
      change [mkTok k1 l p [] []; t0] with ([mkTok k1 l p [] []] ++ [t0]).
      rewrite fold_acc; [|discriminate].
      destruct (IH raws1 ltac:(lia) _ _ _ (mkTok k1 l p [] []) Hrest Hok1 ltac:(lia))
        as [w2 [s3 [ts2 [Hf [Hs [Hw2 Hch2]]]]]].
      exists [], (l ++ w2 ++ s3), (add_tail (mkTok k1 l p [] []) w2 :: ts2).
      rewrite Hf, add_tail_nil. simpl. subst r. repeat split.
      apply tc_cons'; assumption.
Qed.

(* the tokens `lex` returns form a chain that starts after the (blank) head *)
Lemma lex_tchain s toks : lex s = (toks, None) -> toks <> [] ->
  exists h s1, all_space h = true /\ tchain (rev h) s1 toks.
Proof.
  unfold lex. destruct (lex_raw (S (length s)) [] 0 s) as [raws e0] eqn:Hraw.
  intros H Hne. inversion H; subst; clear H.
  destruct (lex_raw_spec _ _ _ _ _ _ false Hraw) as [_ [Hok _]]; [lia|discriminate|].
  pose proof (lex_raw_rchain _ _ _ _ _ Hraw ltac:(lia)) as Hch.
  destruct raws as [|q1 raws1]; [simpl in Hne; congruence|].
  inversion Hch as [|rp0 k l r p raws0 Hone Hrest]; subst. simpl in Hok.
  destruct Hok as [Hp [Hl [_ Hok1]]]. simpl in Hp, Hl, Hok1. subst p.
  assert (Hlen : 0 < length l) by (destruct l; [congruence|simpl; lia]).
  destruct k as [|k1].
  - (* leading separator *)
    rewrite app_nil_r in Hrest. simpl in Hne |- *. pose proof (lex_one_sep_space _ _ _ _ Hone) as Hw.
    destruct raws1 as [|q2 raws2]; [simpl in Hne; congruence|].
    inversion Hrest as [|rp1 k2 l2 r2 p2 raws3 Hone2 Hrest2]; subst. simpl in Hok1.
    destruct Hok1 as [Hp2 [Hl2 [Hns2 Hok2]]]. simpl in Hp2, Hl2, Hns2, Hok2.
    destruct k2 as [|k2]; [exfalso; apply Hns2; reflexivity|].
    simpl. 
    destruct (fold_tchain _ raws2 (Nat.le_refl _) _ _ _ (mkTok k2 l2 p2 l []) Hrest2 Hok2 ltac:(lia))
      as [w2 [s3 [ts2 [Hf [Hs [Hw2 Hch2]]]]]].
    exists l, (l2 ++ w2 ++ s3). split; [exact Hw|]. rewrite Hf. subst r2. simpl.
    apply tc_cons'; assumption.
  - simpl.
    destruct (fold_tchain _ raws1 (Nat.le_refl _) _ _ _ (mkTok k1 l 0 [] []) Hrest Hok1 ltac:(lia))
      as [w2 [s3 [ts2 [Hf [Hs [Hw2 Hch2]]]]]].
    exists [], (l ++ w2 ++ s3). split; [reflexivity|]. rewrite Hf. subst r. simpl.
    apply tc_cons'; assumption.
Qed.

(* ================================================================ lifting to the whole input *)

(* token by token: same type and lexeme, blank tails, no separator between two tokens removed *)
Fixpoint resp_body (ts ts' : list token) : Prop :=
  match ts, ts' with
  | [], [] => True
  | t :: r, t' :: r' =>
      tk_type t' = tk_type t /\ tk_lexeme t' = tk_lexeme t /\ all_space (tk_tail t') = true /\
      (r <> [] -> tk_tail t <> [] -> tk_tail t' <> []) /\ resp_body r r'
  | _, _ => False
  end.

Lemma body_text_cons t r : body_text (t :: r) = tk_lexeme t ++ tk_tail t ++ body_text r.
Proof. unfold body_text. simpl. rewrite <- app_assoc. reflexivity. Qed.

Lemma la_gap w w' s2 x' :
  la s2 x' = true -> (w' = [] -> w = [] \/ x' = []) -> all_space w' = true ->
  la (w ++ s2) (w' ++ x') = true.
Proof.
  intros H Hw Hsp. destruct w' as [|c w1].
  - destruct (Hw eq_refl) as [E|E]; subst; simpl; [exact H|apply (la_nil_r (w ++ s2))].
  - simpl. simpl in Hsp. apply andb_true_iff in Hsp. destruct Hsp as [Hc _]. rewrite Hc. reflexivity.
Qed.

Lemma resp_body_nil_l ts' : resp_body [] ts' -> ts' = [].
Proof. destruct ts'; [reflexivity|contradiction]. Qed.

Lemma gap_cases (t t' : token) (r r' : list token) :
  (r <> [] -> tk_tail t <> [] -> tk_tail t' <> []) -> resp_body r r' ->
  tk_tail t' = [] -> tk_tail t = [] \/ body_text r' = [].
Proof.
  intros Hsep Hr Hw'. destruct (tk_tail t) eqn:Et; [left; reflexivity|right].
  destruct r as [|t2 r2]; [rewrite (resp_body_nil_l _ Hr); reflexivity|].
  exfalso. apply Hsep; [discriminate|discriminate|exact Hw'].
Qed.

Lemma chain_la : forall rp s ts, tchain rp s ts -> forall ts', resp_body ts ts' -> la s (body_text ts') = true.
Proof.
  induction 1 as [rp|rp t s2 ts Hone Hw Hch IH]; intros ts' Hr.
  - rewrite (resp_body_nil_l _ Hr). reflexivity.
  - destruct ts' as [|t' r']; [contradiction|]. simpl in Hr. destruct Hr as [Hk [Hl [Hw' [Hsep Hr]]]].
    rewrite body_text_cons, Hl. apply la_app. apply la_gap; [apply IH; exact Hr| |exact Hw'].
    apply (gap_cases t t' ts r'); assumption.
Qed.

Lemma body_nostart rp s ts ts' : tchain rp s ts -> resp_body ts ts' -> starts_with_space (body_text ts') = false.
Proof.
  intros Hch Hr. destruct Hch as [rp|rp t s2 ts Hone Hw Hch].
  - rewrite (resp_body_nil_l _ Hr). reflexivity.
  - destruct ts' as [|t' r']; [contradiction|]. simpl in Hr. destruct Hr as [_ [Hl _]].
    rewrite body_text_cons, Hl.
    destruct (lex_one_spec _ _ _ _ _ Hone) as [_ [Hne [_ Hns]]].
    destruct (tk_lexeme t) as [|c l1]; [congruence|]. apply Hns. discriminate.
Qed.

Lemma lex_raw_step f rp pos s k l r : lex_one rp s = Some (k, l, r) ->
  lex_raw (S f) rp pos s =
  (let '(ts, e) := lex_raw f (rev l ++ rp) (pos + length l) r in (mkRaw k l pos :: ts, e)).
Proof.
  intros H. destruct s as [|c s1]; [unfold lex_one in H; discriminate|]. simpl. rewrite H. reflexivity.
Qed.

Lemma lift : forall rp s ts, tchain rp s ts -> forall ts' rp' fuel pos, resp_body ts ts' ->
  (forall x, lex_term rp s = Some x -> safe rp /\ safe rp') -> length (body_text ts') < fuel ->
  exists raws', lex_raw fuel rp' pos (body_text ts') = (raws', None) /\ raw_keys raws' = map tok_key ts.
Proof.
  induction 1 as [rp|rp t s2 ts Hone Hw Hch IH]; intros ts' rp' fuel pos Hr Hsafe Hlen.
  - rewrite (resp_body_nil_l _ Hr). exists []. destruct fuel; simpl; auto.
  - destruct ts' as [|t' r']; [contradiction|]. simpl in Hr. destruct Hr as [Hk [Hl [Hw' [Hsep Hr]]]].
    pose proof (gap_cases t t' ts r' Hsep Hr) as Hgap.
    rewrite body_text_cons in *. rewrite Hl in *.
    destruct t as [k l p h w]. destruct t' as [k' l' p' h' w']. simpl in *. clear Hk Hl k' l' p' h'.
    destruct fuel as [|f]; [lia|].
    assert (Hlne : l <> []) by (destruct (lex_one_spec _ _ _ _ _ Hone) as [_ [Hne _]]; exact Hne).
    assert (Hla : la (w ++ s2) (w' ++ body_text r') = true).
    { apply la_gap; [eapply chain_la; eassumption|exact Hgap|exact Hw']. }
    assert (Hesc : esc_ok (w ++ s2) = true).
    { destruct w as [|c w1].
      - simpl. inversion Hch; [reflexivity|]. eapply lex_one_esc_ok; eassumption.
      - simpl. simpl in Hw. apply andb_true_iff in Hw. destruct Hw as [Hc _].
        rewrite (space_neq _ _ Hc bslash_not_space). reflexivity. }
    assert (Hone' : lex_one rp' (l ++ w' ++ body_text r') = Some (RTok k, l, w' ++ body_text r')).
    { apply lex_one_respace with (rp := rp) (r := w ++ s2); auto.
      intros Hnn. destruct (lex_term rp (l ++ w ++ s2)) as [x|] eqn:E; [|congruence].
      apply (Hsafe x). reflexivity. }
    rewrite (lex_raw_step _ _ _ _ _ _ _ Hone').
    assert (Hl1 : 0 < length l) by (destruct l; [congruence|simpl; lia]).
    rewrite !app_length in Hlen.
    (* the look-behind invariant at the next token *)
    assert (Hs1 : forall x, lex_term (rev w ++ rev l ++ rp) s2 = Some x -> safe (rev w ++ rev l ++ rp)).
    { intros x Hx. destruct w as [|c w1].
      - simpl in *. exact (adjacent_term_safe rp _ l s2 k x Hone Hx rp).
      - apply safe_rev_space; [discriminate|exact Hw]. }
    destruct w' as [|c' w1'].
    + (* the next token follows directly *)
      simpl app.
      destruct (IH r' (rev l ++ rp') f (pos + length l) Hr) as [raws1 [Hraw1 Hkeys1]].
      * intros x Hx. split; [exact (Hs1 x Hx)|].
        destruct (Hgap eq_refl) as [E|E].
        -- subst w. simpl in *. exact (adjacent_term_safe rp _ l s2 k x Hone Hx rp').
        -- exfalso. inversion Hch as [|rp1 t2 s3 ts2 Hone2 Hw2 Hch2]; subst.
           ++ unfold lex_term in Hx. discriminate.
           ++ destruct r' as [|t2' r2']; [contradiction|]. rewrite body_text_cons in E.
              simpl in Hr. destruct Hr as [_ [Hl2 _]]. rewrite Hl2 in E.
              destruct (lex_one_spec _ _ _ _ _ Hone2) as [_ [Hne2 _]].
              destruct (tk_lexeme t2); [congruence|discriminate].
      * simpl in Hlen. lia.
      * simpl. rewrite Hraw1. eexists. split; [reflexivity|]. simpl. rewrite Hkeys1. reflexivity.
    + (* a separator, then the next token *)
      destruct f as [|f1]; [simpl in Hlen; lia|].
      rewrite (lex_raw_step f1 _ _ _ RSep (c' :: w1') (body_text r')).
      2:{ apply lex_one_sep; [discriminate|exact Hw'|]. eapply body_nostart; eassumption. }
      destruct (IH r' (rev (c' :: w1') ++ rev l ++ rp') f1 (pos + length l + length (c' :: w1')) Hr)
        as [raws1 [Hraw1 Hkeys1]].
      * intros x Hx. split; [exact (Hs1 x Hx)|]. apply safe_rev_space; [discriminate|exact Hw'].
      * simpl in Hlen. lia.
      * rewrite Hraw1. eexists. split; [reflexivity|]. simpl. rewrite Hkeys1. reflexivity.
Qed.

(* ---- through HeadTailLexer: keys ignore heads and tails *)

Lemma fold_keys : forall raws p racc,
  map tok_key (head_tail_fold raws p racc) = map tok_key (rev racc) ++ raw_keys raws.
Proof.
  induction raws as [|r raws IH]; intros p racc; simpl.
  - rewrite app_nil_r. reflexivity.
  - destruct (rk_kind r).
    + destruct (Nat.eqb (rk_pos r) 0); [apply IH|].
      destruct racc as [|lastt racc']; [apply IH|]. rewrite IH. simpl. rewrite !map_app. reflexivity.
    + rewrite IH. simpl. rewrite map_app, <- app_assoc. reflexivity.
Qed.

Lemma resp_body_intro : forall ts ts',
  map tok_key ts' = map tok_key ts -> forallb (fun u => all_space (tk_tail u)) ts' = true ->
  seps_kept ts ts' = true -> resp_body ts ts'.
Proof.
  induction ts as [|t r IH]; intros [|t' r'] Hk Hw Hs; simpl in *; try discriminate; [exact I|].
  injection Hk as Hk1 Hk2 Hk3. apply andb_true_iff in Hw. destruct Hw as [Hw1 Hw2].
  apply andb_true_iff in Hs. destruct Hs as [Hs1 Hs2].
  repeat split; auto.
  intros Hr Ht Ht'. destruct r; [congruence|]. destruct (tk_tail t); [congruence|].
  rewrite Ht' in Hs1. discriminate.
Qed.

Lemma render_body : forall r, forallb (fun u => is_nil (tk_head u) && all_space (tk_tail u)) r = true ->
  render r = body_text r /\ forallb (fun u => all_space (tk_tail u)) r = true.
Proof.
  induction r as [|t r IH]; simpl; intros H; [auto|].
  apply andb_true_iff in H. destruct H as [H1 H2]. apply andb_true_iff in H1. destruct H1 as [Hh Ht].
  destruct (IH H2) as [E1 E2]. rewrite Ht, E2. split; [|reflexivity].
  change (render (t :: r)) with (tok_text t ++ render r). rewrite body_text_cons, E1.
  unfold tok_text. destruct (tk_head t); [|discriminate]. simpl. rewrite <- app_assoc. reflexivity.
Qed.

Lemma safe_rev_space' w : all_space w = true -> safe (rev w).
Proof.
  intros H. destruct w as [|c w1]; [exact safe_nil|].
  rewrite <- (app_nil_r (rev (c :: w1))). apply safe_rev_space; [discriminate|exact H].
Qed.

(* L-respace *)
Theorem L_respace_main s toks toks' :
  lex s = (toks, None) -> toks <> [] ->
  map tok_key toks' = map tok_key toks -> layout_ws toks' = true -> seps_kept toks toks' = true ->
  map tok_key (fst (lex (render toks'))) = map tok_key toks /\ snd (lex (render toks')) = None.
Proof.
  intros Hlex Hne Hkeys Hlay Hseps.
  destruct (lex_tchain _ _ Hlex Hne) as [h [s1 [Hh Hch]]].
  destruct toks' as [|t1 r1]; [destruct toks; [congruence|discriminate]|].
  simpl in Hlay. apply andb_true_iff in Hlay. destruct Hlay as [Hlay Hrest].
  apply andb_true_iff in Hlay. destruct Hlay as [Hhead Htail1].
  destruct (render_body _ Hrest) as [Eren Htails].
  assert (Hr : resp_body toks (t1 :: r1)).
  { apply resp_body_intro; [exact Hkeys| |exact Hseps]. simpl. rewrite Htail1, Htails. reflexivity. }
  assert (Etext : render (t1 :: r1) = tk_head t1 ++ body_text (t1 :: r1)).
  { change (render (t1 :: r1)) with (tok_text t1 ++ render r1). rewrite body_text_cons, Eren.
    unfold tok_text. rewrite <- !app_assoc. reflexivity. }
  rewrite Etext. unfold lex.
  destruct (tk_head t1) as [|c hh] eqn:Eh.
  - simpl app.
    destruct (lift _ _ _ Hch (t1 :: r1) [] (S (length (body_text (t1 :: r1)))) 0 Hr) as [raws' [Hraw Hk]].
    + intros x _. split; [apply safe_rev_space'; exact Hh|exact safe_nil].
    + lia.
    + rewrite Hraw. simpl. rewrite fold_keys. simpl. split; [exact Hk|reflexivity].
  - rewrite (lex_raw_step _ _ _ _ RSep (c :: hh) (body_text (t1 :: r1))).
    2:{ apply lex_one_sep; [discriminate|exact Hhead|]. eapply body_nostart; eassumption. }
    destruct (lift _ _ _ Hch (t1 :: r1) (rev (c :: hh) ++ []) (length ((c :: hh) ++ body_text (t1 :: r1)))
                (0 + length (c :: hh)) Hr) as [raws' [Hraw Hk]].
    + intros x _. split; [apply safe_rev_space'; exact Hh|].
      apply safe_rev_space; [discriminate|exact Hhead].
    + rewrite app_length. simpl. lia.
    + rewrite Hraw. simpl. rewrite fold_keys. simpl. split; [exact Hk|reflexivity].
Qed.

(* ================================================================ chunked form *)

(* the chunks cs glued by non-empty blank separators *)
Inductive wglued : list str -> str -> Prop :=
| wg_one c : wglued [c] c
| wg_cons c sep cs s : sep <> [] -> all_space sep = true -> wglued cs s -> wglued (c :: cs) (c ++ sep ++ s).

Lemma wglued_nonempty cs s : wglued cs s -> cs <> [].
Proof. intros H. destruct H; discriminate. Qed.

Lemma body_text_app a b : body_text (a ++ b) = body_text a ++ body_text b.
Proof. unfold body_text. rewrite map_app, concat_app. reflexivity. Qed.

Lemma retail_text : forall g w, g <> [] -> body_text (retail g w) = group_text g ++ w.
Proof.
  induction g as [|t r IH]; intros w Hne; [congruence|].
  destruct r as [|t2 r2].
  - simpl. unfold body_text. simpl. rewrite app_nil_r. reflexivity.
  - change (retail (t :: t2 :: r2) w) with
      (mkTok (tk_type t) (tk_lexeme t) (tk_pos t) [] (tk_tail t) :: retail (t2 :: r2) w).
    rewrite body_text_cons, IH; [|discriminate]. simpl tk_lexeme. simpl tk_tail.
    change (group_text (t :: t2 :: r2)) with (tk_lexeme t ++ tk_tail t ++ group_text (t2 :: r2)).
    rewrite <- !app_assoc. reflexivity.
Qed.

Lemma retail_keys : forall g w, map tok_key (retail g w) = map tok_key g.
Proof. induction g as [|t r IH]; intros w; simpl; [reflexivity|]. rewrite IH. reflexivity. Qed.

Lemma retail_layout : forall g w, all_space w = true ->
  Forall (fun t => all_space (tk_tail t) = true) g ->
  forallb (fun u => is_nil (tk_head u) && all_space (tk_tail u)) (retail g w) = true.
Proof.
  induction g as [|t r IH]; intros w Hw Hg; simpl; [reflexivity|].
  inversion Hg as [|t0 r0 Ht Hr]; subst. rewrite (IH w Hw Hr), andb_true_r.
  destruct r; assumption.
Qed.

Lemma retail_seps : forall g w rest rest', g <> [] -> (rest = [] \/ w <> []) ->
  seps_kept rest rest' = true -> seps_kept (g ++ rest) (retail g w ++ rest') = true.
Proof.
  induction g as [|t r IH]; intros w rest rest' Hne Hw Hs; [congruence|].
  destruct r as [|t2 r2].
  - simpl. rewrite Hs, andb_true_r. destruct Hw as [E|E]; [subst rest; reflexivity|].
    destruct (is_nil rest); [reflexivity|]. destruct (is_nil (tk_tail t)); [reflexivity|].
    destruct w; [congruence|reflexivity].
  - change ((t :: t2 :: r2) ++ rest) with (t :: (t2 :: r2) ++ rest).
    change (retail (t :: t2 :: r2) w ++ rest') with
      (mkTok (tk_type t) (tk_lexeme t) (tk_pos t) [] (tk_tail t) :: (retail (t2 :: r2) w ++ rest')).
    cbn [seps_kept]. rewrite (IH w rest rest'); [|discriminate|exact Hw|exact Hs].
    rewrite andb_true_r. simpl tk_tail. destruct (tk_tail t); simpl; rewrite ?orb_true_r; reflexivity.
Qed.

Lemma seps_kept_nil_l ts' : seps_kept [] ts' = true.
Proof. reflexivity. Qed.

(* a chunked text is the body of a re-spacing *)
Lemma wglued_respacing : forall groups p',
  wglued (map group_text groups) p' ->
  Forall (fun g => g <> []) groups ->
  Forall (fun t => all_space (tk_tail t) = true) (concat groups) ->
  exists ts', p' = body_text ts' /\ map tok_key ts' = map tok_key (concat groups) /\
              forallb (fun u => is_nil (tk_head u) && all_space (tk_tail u)) ts' = true /\
              seps_kept (concat groups) ts' = true.
Proof.
  intros groups p' H. remember (map group_text groups) as cs eqn:Ecs. revert groups Ecs.
  induction H as [c|c sep cs s Hne Hsp Hg IH]; intros groups Ecs Hgne Htails.
  - destruct groups as [|g [|g2 gs]]; try discriminate. simpl in Ecs. injection Ecs as Ec. subst c.
    simpl in Htails |- *. rewrite app_nil_r in *. inversion Hgne as [|g0 l0 Hg0 _]; subst.
    exists (retail g []). repeat split.
    + rewrite retail_text, app_nil_r; [reflexivity|exact Hg0].
    + apply retail_keys.
    + apply retail_layout; [reflexivity|exact Htails].
    + rewrite <- (app_nil_r g) at 1. rewrite <- (app_nil_r (retail g [])).
      apply retail_seps; [exact Hg0|left; reflexivity|reflexivity].
  - destruct groups as [|g gs]; [discriminate|]. simpl in Ecs. injection Ecs as Ec Ecs'. subst c.
    inversion Hgne as [|g0 l0 Hg0 Hgs]; subst. simpl in Htails. apply Forall_app in Htails.
    destruct Htails as [Ht1 Ht2].
    destruct (IH gs eq_refl Hgs Ht2) as [ts1 [E1 [E2 [E3 E4]]]].
    exists (retail g sep ++ ts1). simpl. repeat split.
    + rewrite body_text_app, retail_text, <- app_assoc, E1; [reflexivity|exact Hg0].
    + rewrite !map_app, retail_keys, E2. reflexivity.
    + rewrite forallb_app, E3, andb_true_r. apply retail_layout; assumption.
    + apply retail_seps; [exact Hg0|right; exact Hne|exact E4].
Qed.

Lemma tchain_tails : forall rp s ts, tchain rp s ts -> Forall (fun t => all_space (tk_tail t) = true) ts.
Proof. induction 1; constructor; assumption. Qed.

Lemma set_head_body h ts : body_text (set_head h ts) = body_text ts.
Proof. destruct ts; reflexivity. Qed.

(* L-respace, chunked form: the tokens of s cut into groups, the chunks glued by non-empty blank
   separators after a blank head *)
Theorem L_respace_glued_main s toks groups h p' :
  lex s = (toks, None) -> toks <> [] -> toks = concat groups -> Forall (fun g => g <> []) groups ->
  all_space h = true -> wglued (map group_text groups) p' ->
  map tok_key (fst (lex (h ++ p'))) = map tok_key toks /\ snd (lex (h ++ p')) = None.
Proof.
  intros Hlex Hne Hcat Hg Hh Hgl.
  destruct (lex_tchain _ _ Hlex Hne) as [h0 [s1 [_ Hch]]].
  pose proof (tchain_tails _ _ _ Hch) as Htails. rewrite Hcat in Htails.
  destruct (wglued_respacing _ _ Hgl Hg Htails) as [ts' [E1 [E2 [E3 E4]]]].
  rewrite <- Hcat in E2, E4.
  assert (Hts : ts' <> []) by (destruct ts'; [destruct toks; [congruence|discriminate]|discriminate]).
  destruct ts' as [|t1 r1]; [congruence|].
  assert (Er : h ++ p' = render (set_head h (t1 :: r1))).
  { subst p'. simpl in E3. apply andb_true_iff in E3. destruct E3 as [E3a E3b].
    destruct (render_body _ E3b) as [Eren _].
    change (render (set_head h (t1 :: r1))) with
      (tok_text (mkTok (tk_type t1) (tk_lexeme t1) (tk_pos t1) h (tk_tail t1)) ++ render r1).
    rewrite Eren, body_text_cons. unfold tok_text. simpl. rewrite <- !app_assoc. reflexivity. }
  rewrite Er. apply (L_respace_main s toks _ Hlex Hne).
  - exact E2.
  - simpl in E3 |- *. apply andb_true_iff in E3. destruct E3 as [E3a E3b].
    apply andb_true_iff in E3a. destruct E3a as [_ E3a]. rewrite Hh, E3a, E3b. reflexivity.
  - destruct toks as [|t0 r0]; [congruence|]. simpl in E4 |- *. exact E4.
Qed.

Lemma wglued_join sep : sep <> [] -> all_space sep = true ->
  forall cs, cs <> [] -> wglued cs (join sep cs).
Proof.
  intros Hne Hsp. induction cs as [|c r IH]; intros Hc; [congruence|].
  destruct r as [|c2 r2]; [apply wg_one|].
  change (join sep (c :: c2 :: r2)) with (c ++ sep ++ join sep (c2 :: r2)).
  apply wg_cons; [exact Hne|exact Hsp|]. apply IH. discriminate.
Qed.
