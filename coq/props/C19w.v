(* C19w — what an audit listed as the remaining gaps of C19 (props/C19.v), closed.

   Gap                                                        -> statement
   1. `walk_sane` was ASSUMED, not derived                    -> C19_walk_sane_derived  (from wf_schema + types_agree, both
        predicates on the mapping; types_agree — the document types agree, at every path they both declare, on being
        nested / an explicit object — is trivially true with one document type: C19_types_agree_single)
        it is NOT derivable from wf_schema alone: C19w_types_agree_needed (two document types that declare `a` as
        nested and as object; replayed on the real code)
   2. `anchor_survives` was a predicate on the MODELLED walk  -> C19_anchor_link: it follows from the negations of F12's
        and F12c's executable predicates on the mapping (harness/c19.py `anchor_registered`, `redeclared`)
        C19_query_partial restated with guards on the mapping  -> C19_query_mapping_partial
        the current layout (one document type): no `coherent`, no condition across document types
                                                               -> C19_query_modern
   3. spellings of field specifications: no theorem on build  -> C19_spellings_behaviour (nested, object AND sub fields:
        `build` gives the same result on EVERY tree), C19_reads_sets (the builder reads the three specifications only
        through the normalised name / prefix sets), C19_nested_spellings_exact (no exception for the empty name),
        C19_spellings_behaviour_named ({} against [] — which flatten to {""} and {} — on every tree without an
        empty field name), C19w_empty_dict_needed (that guard cannot be dropped; replayed on the real code)
   4. non-vacuity on the mapping and the eight spellings of harness/c19.py (SPELL_PROPERTIES, SPELLINGS). *)
Require Import Base Decimal Tree Json EsSpecs EsCheck EsBuild Schema SchemaSpec TreeInd SchemaProofs SchemaMoreProofs.
Require Import C19.

(* ================================================================ 1. walk_sane is derived *)
Definition C19_walk_sane_derived_statement : Prop :=
  forall s, wf_schema s = true -> types_agree s = true -> walk_sane s = true.
Theorem C19_walk_sane_derived : C19_walk_sane_derived_statement.
Proof. exact walk_sane_derived. Qed.

Definition C19_types_agree_single_statement : Prop :=
  forall s, wf_schema s = true -> length (doc_props s) <= 1 -> types_agree s = true.
Theorem C19_types_agree_single : C19_types_agree_single_statement.
Proof. exact types_agree_single. Qed.

(* with one document type `coherent` (fields of the walk with the same dotted name agree on being analysed) is
   no assumption either *)
Definition C19_coherent_single_statement : Prop :=
  forall s, wf_schema s = true -> length (doc_props s) <= 1 -> coherent s = true.
Theorem C19_coherent_single : C19_coherent_single_statement.
Proof. exact coherent_single. Qed.

(* ================================================================ 2. guards on the mapping only *)
Definition C19_anchor_link_statement : Prop :=
  forall s props comps d anc,
    wf_schema s = true -> types_agree s = true -> In props (doc_props s) ->
    resolve props [] comps = Some (d, anc) ->
    anchor_registered anc = true ->               (* not F12  (harness/c19.py anchor_registered) *)
    redeclared s anc = false ->                   (* not F12c (harness/c19.py redeclared) *)
    anchor_survives s anc = true.
Theorem C19_anchor_link : C19_anchor_link_statement.
Proof. exact anchor_link. Qed.

(* C19_query_statement with guards on the MAPPING (and the resolved field) only; `coherent` is the one of
   C19_query_partial.  The path components are dot-free and non-empty because the description is well formed. *)
Definition C19_query_mapping_partial_statement : Prop :=
  forall s comps d anc x t,
    wf_schema s = true -> coherent s = true -> types_agree s = true ->
    mapped_leaf s comps d anc ->
    subfield_ok anc d = true ->                   (* not F12b *)
    anchor_registered anc = true ->               (* not F12 *)
    redeclared s anc = false ->                   (* not F12c *)
    has_wildcard x = false -> spelling comps x t ->
    build (options s) t = ROk (expected_json comps d anc x).
Theorem C19_query_mapping_partial : C19_query_mapping_partial_statement.
Proof. exact query_mapping. Qed.

(* one document type — in particular the current layout {"mappings": {"properties": ...}} *)
Definition C19_query_modern_statement : Prop :=
  forall s comps d anc x t,
    wf_schema s = true -> length (doc_props s) <= 1 ->
    mapped_leaf s comps d anc -> subfield_ok anc d = true -> anchor_registered anc = true ->
    has_wildcard x = false -> spelling comps x t ->
    build (options s) t = ROk (expected_json comps d anc x).
Theorem C19_query_modern : C19_query_modern_statement.
Proof. exact query_modern. Qed.

(* ---- types_agree cannot be dropped (so walk_sane does NOT follow from wf_schema alone).
   d1: a (nested) -> b: text ; d2: a (object) -> c: text.  Every other guard holds for the leaf a.c of d2, and the
   builder wraps a.c:x in nested{path a} although a.c has no nested ancestor in d2 (replayed on the real code) *)
Definition w_conflict : schema :=
  (mkSchema None (mkMappings None [([100;49]%N, (Some [([97]%N, (FDef (Some ([110;101;115;116;101;100]%N : str)) None [] [([98]%N, (FDef (Some ([116;101;120;116]%N : str)) None [] []))]))])); ([100;50]%N, (Some [([97]%N, (FDef (Some ([111;98;106;101;99;116]%N : str)) None [] [([99]%N, (FDef (Some ([116;101;120;116]%N : str)) None [] []))]))]))])).
Definition c_ac : list str := [[97]%N; [99]%N].                                (* a.c *)

Definition C19w_query_without_agreement_statement : Prop :=
  forall s comps d anc x t,
    wf_schema s = true -> coherent s = true ->
    mapped_leaf s comps d anc -> subfield_ok anc d = true ->
    anchor_registered anc = true -> redeclared s anc = false ->
    has_wildcard x = false -> spelling comps x t ->
    build (options s) t = ROk (expected_json comps d anc x).

Theorem C19w_types_agree_needed :
  ~ C19w_query_without_agreement_statement /\
  wf_schema w_conflict = true /\ walk_sane w_conflict = false /\ types_agree w_conflict = false.
Proof.
  split; [|repeat split; vm_compute; reflexivity].
  intros H.
  destruct (resolve (nth 1 (doc_props w_conflict) []) [] c_ac) as [[d anc]|] eqn:E; [|vm_compute in E; discriminate E].
  assert (Hm : mapped_leaf w_conflict c_ac d anc).
  { exists (nth 1 (doc_props w_conflict) []). split; [right; left; reflexivity|]. split; [exact E|].
    vm_compute in E. injection E as <- <-. reflexivity. }
  assert (Hs : subfield_ok anc d = true) by (vm_compute in E; injection E as <- <-; reflexivity).
  assert (Ha : anchor_registered anc = true) by (vm_compute in E; injection E as <- <-; reflexivity).
  assert (Hr : redeclared w_conflict anc = false) by (vm_compute in E; injection E as <- <-; vm_compute; reflexivity).
  specialize (H w_conflict c_ac d anc w_x (dotted_q c_ac w_x) eq_refl eq_refl Hm Hs Ha Hr eq_refl (dotted_q_spelling _ _)).
  vm_compute in E. injection E as <- <-. vm_compute in H. discriminate H.
Qed.

(* ================================================================ 3. spellings configure identical behaviour *)
(* The builder reads nested_fields, object_fields and sub_fields only through: the nested prefix set (builder and
   checker), the checker's nested name set, object prefix set, and whether object / sub fields are given and then
   membership in them. *)
Definition C19_reads_sets_statement : Prop :=
  forall cfg1 cfg2 t, same_core cfg1 cfg2 -> env_equiv (mk_env cfg1) (mk_env cfg2) -> build cfg1 t = build cfg2 t.
Theorem C19_reads_sets : C19_reads_sets_statement.
Proof. exact build_reads_sets. Qed.

(* two nested specifications that denote the same dotted names give EXACTLY the same sets ("" included) *)
Definition C19_nested_spellings_exact_statement : Prop :=
  forall cfg1 cfg2, same_field_set (c_nested cfg1) (c_nested cfg2) ->
    (forall x, mem_str x (ce_nested_fields (ev_chk (mk_env cfg1))) =
               mem_str x (ce_nested_fields (ev_chk (mk_env cfg2)))) /\
    (forall p, mem_str p (ce_nested_prefixes (ev_chk (mk_env cfg1))) =
               mem_str p (ce_nested_prefixes (ev_chk (mk_env cfg2)))) /\
    (forall p, mem_str p (ev_nested_prefixes (mk_env cfg1)) = mem_str p (ev_nested_prefixes (mk_env cfg2))).
Theorem C19_nested_spellings_exact : C19_nested_spellings_exact_statement.
Proof.
  intros cfg1 cfg2 Hs. pose proof (nested_names_agree _ _ Hs) as H.
  split; [exact H|]. split; apply (prefixes_agree_all _ _ H).
Qed.

(* The last clause of the property, on the builder: configurations that differ only in the spelling of their
   nested / object / sub field specifications — the same denoted names (`same_field_set`, the relation of
   C19_nested_spellings); for object and sub fields also: None with None, the empty dict with the empty dict —
   give the same result (JSON or exception) on EVERY tree. *)
Definition C19_spellings_behaviour_statement : Prop :=
  forall cfg1 cfg2,
    same_core cfg1 cfg2 ->
    same_field_set (c_nested cfg1) (c_nested cfg2) ->
    spelled_alike (c_object cfg1) (c_object cfg2) ->
    spelled_alike (c_sub cfg1) (c_sub cfg2) ->
    forall t, build cfg1 t = build cfg2 t.
Theorem C19_spellings_behaviour : C19_spellings_behaviour_statement.
Proof. intros cfg1 cfg2 Hc Hn Ho Hs t. apply spellings_behaviour; assumption. Qed.

(* {} against []: same denoted names (none), but {} flattens to {""}.  Same behaviour on every tree in which no
   field has the empty name — every tree the parser builds *)
Definition C19_spellings_behaviour_named_statement : Prop :=
  forall cfg1 cfg2,
    same_core cfg1 cfg2 ->
    same_field_set (c_nested cfg1) (c_nested cfg2) ->
    same_names_spec (c_object cfg1) (c_object cfg2) ->
    same_names_spec (c_sub cfg1) (c_sub cfg2) ->
    forall t, fields_named t = true -> build cfg1 t = build cfg2 t.
Theorem C19_spellings_behaviour_named : C19_spellings_behaviour_named_statement.
Proof. intros cfg1 cfg2 Hc Hn Ho Hs t Ht. apply spellings_behaviour_named; assumption. Qed.

(* ... and only there: object_fields = {} against [] on SearchField('', Word('x')) (replayed on the real code:
   NestedSearchFieldException against {'match': {'': ...}}) *)
Definition set_specs (cfg : es_config) (n o s : spec) : es_config :=
  mkEsConfig (c_default_operator cfg) (c_default_field cfg) (c_not_analyzed cfg) n o s
             (c_field_options cfg) (c_match_word_as_phrase cfg).
Lemma same_core_set_specs cfg n1 o1 s1 n2 o2 s2 : same_core (set_specs cfg n1 o1 s1) (set_specs cfg n2 o2 s2).
Proof. repeat split. Qed.

Definition sp_nx : spec := SList [[110;46;120]%N].                             (* ["n.x"] *)
Definition t_noname : item := SearchField meta0 [] (Term KWord meta0 w_x).     (* SearchField('', Word('x')) *)

Definition C19w_spellings_unguarded_statement : Prop :=
  forall cfg1 cfg2,
    same_core cfg1 cfg2 -> same_field_set (c_nested cfg1) (c_nested cfg2) ->
    same_names_spec (c_object cfg1) (c_object cfg2) -> same_names_spec (c_sub cfg1) (c_sub cfg2) ->
    forall t, build cfg1 t = build cfg2 t.
Theorem C19w_empty_dict_needed : ~ C19w_spellings_unguarded_statement.
Proof.
  intros H.
  assert (Hsame : same_names_spec (SDict []) (SList [])).
  { split; [apply same_names_b_sound; reflexivity|split; discriminate]. }
  specialize (H (set_specs default_config sp_nx (SDict []) SNone) (set_specs default_config sp_nx (SList []) SNone)
                (same_core_set_specs _ _ _ _ _ _ _) (same_field_set_refl _) Hsame
                (conj (same_field_set_refl _) (conj (fun h => h) (fun h => h))) t_noname).
  vm_compute in H. discriminate H.
Qed.

(* ================================================================ 4. non-vacuity: the harness's mapping and spellings *)
(* SPELL_PROPERTIES of harness/c19.py (generated by g_schema):
     title: text {raw: keyword}
     author (nested) -> name: text {raw: keyword}, tag: keyword,
                        book (nested) -> title: text, isbn: keyword, format (nested) -> ftype: keyword
     manager (object) -> firstname: text, subteams (nested) -> label: text, size: long *)
Definition m_spell : schema :=
  (mkSchema None (mkMappings (Some [([116;105;116;108;101]%N, (FDef (Some ([116;101;120;116]%N : str)) None [([114;97;119]%N, (FDef (Some ([107;101;121;119;111;114;100]%N : str)) None [] []))] [])); ([97;117;116;104;111;114]%N, (FDef (Some ([110;101;115;116;101;100]%N : str)) None [] [([110;97;109;101]%N, (FDef (Some ([116;101;120;116]%N : str)) None [([114;97;119]%N, (FDef (Some ([107;101;121;119;111;114;100]%N : str)) None [] []))] [])); ([116;97;103]%N, (FDef (Some ([107;101;121;119;111;114;100]%N : str)) None [] [])); ([98;111;111;107]%N, (FDef (Some ([110;101;115;116;101;100]%N : str)) None [] [([116;105;116;108;101]%N, (FDef (Some ([116;101;120;116]%N : str)) None [] [])); ([105;115;98;110]%N, (FDef (Some ([107;101;121;119;111;114;100]%N : str)) None [] [])); ([102;111;114;109;97;116]%N, (FDef (Some ([110;101;115;116;101;100]%N : str)) None [] [([102;116;121;112;101]%N, (FDef (Some ([107;101;121;119;111;114;100]%N : str)) None [] []))]))]))])); ([109;97;110;97;103;101;114]%N, (FDef (Some ([111;98;106;101;99;116]%N : str)) None [] [([102;105;114;115;116;110;97;109;101]%N, (FDef (Some ([116;101;120;116]%N : str)) None [] [])); ([115;117;98;116;101;97;109;115]%N, (FDef (Some ([110;101;115;116;101;100]%N : str)) None [] [([108;97;98;101;108]%N, (FDef (Some ([116;101;120;116]%N : str)) None [] [])); ([115;105;122;101]%N, (FDef (Some ([108;111;110;103]%N : str)) None [] []))]))]))]) [])).

(* SPELLINGS of harness/c19.py (generated by es_common.g_spec), in the order of the dict *)
(* nested dicts *)
Definition sp1 : spec :=
  (SDict [([97;117;116;104;111;114]%N, (SDict [([110;97;109;101]%N, (SDict [])); ([116;97;103]%N, (SDict [])); ([98;111;111;107]%N, (SDict [([116;105;116;108;101]%N, (SDict [])); ([105;115;98;110]%N, (SDict [])); ([102;111;114;109;97;116]%N, (SDict [([102;116;121;112;101]%N, (SDict []))]))]))])); ([109;97;110;97;103;101;114]%N, (SDict [([115;117;98;116;101;97;109;115]%N, (SDict [([108;97;98;101;108]%N, (SDict [])); ([115;105;122;101]%N, (SDict []))]))]))]).
(* None and lists for the leaves *)
Definition sp2 : spec :=
  (SDict [([97;117;116;104;111;114]%N, (SDict [([110;97;109;101]%N, SNone); ([116;97;103]%N, SNone); ([98;111;111;107]%N, (SDict [([116;105;116;108;101]%N, SNone); ([105;115;98;110]%N, SNone); ([102;111;114;109;97;116]%N, (SList [[102;116;121;112;101]%N]))]))])); ([109;97;110;97;103;101;114;46;115;117;98;116;101;97;109;115]%N, (SList [[108;97;98;101;108]%N; [115;105;122;101]%N]))]).
(* flat list of dotted names *)
Definition sp3 : spec :=
  (SList [[97;117;116;104;111;114;46;110;97;109;101]%N; [97;117;116;104;111;114;46;116;97;103]%N; [97;117;116;104;111;114;46;98;111;111;107;46;116;105;116;108;101]%N; [97;117;116;104;111;114;46;98;111;111;107;46;105;115;98;110]%N; [97;117;116;104;111;114;46;98;111;111;107;46;102;111;114;109;97;116;46;102;116;121;112;101]%N; [109;97;110;97;103;101;114;46;115;117;98;116;101;97;109;115;46;108;97;98;101;108]%N; [109;97;110;97;103;101;114;46;115;117;98;116;101;97;109;115;46;115;105;122;101]%N]).
(* dict of dotted names *)
Definition sp4 : spec :=
  (SDict [([97;117;116;104;111;114;46;110;97;109;101]%N, SNone); ([97;117;116;104;111;114;46;116;97;103]%N, SNone); ([97;117;116;104;111;114;46;98;111;111;107;46;116;105;116;108;101]%N, SNone); ([97;117;116;104;111;114;46;98;111;111;107;46;105;115;98;110]%N, SNone); ([97;117;116;104;111;114;46;98;111;111;107;46;102;111;114;109;97;116;46;102;116;121;112;101]%N, SNone); ([109;97;110;97;103;101;114;46;115;117;98;116;101;97;109;115;46;108;97;98;101;108]%N, SNone); ([109;97;110;97;103;101;114;46;115;117;98;116;101;97;109;115;46;115;105;122;101]%N, SNone)]).
(* lists with dotted names inside *)
Definition sp5 : spec :=
  (SDict [([97;117;116;104;111;114]%N, (SList [[110;97;109;101]%N; [116;97;103]%N; [98;111;111;107;46;116;105;116;108;101]%N; [98;111;111;107;46;105;115;98;110]%N; [98;111;111;107;46;102;111;114;109;97;116;46;102;116;121;112;101]%N])); ([109;97;110;97;103;101;114]%N, (SList [[115;117;98;116;101;97;109;115;46;108;97;98;101;108]%N; [115;117;98;116;101;97;109;115;46;115;105;122;101]%N]))]).
(* one dotted key per nested field, outermost first *)
Definition sp6 : spec :=
  (SDict [([97;117;116;104;111;114]%N, (SList [[110;97;109;101]%N; [116;97;103]%N])); ([97;117;116;104;111;114;46;98;111;111;107]%N, (SList [[116;105;116;108;101]%N; [105;115;98;110]%N])); ([97;117;116;104;111;114;46;98;111;111;107;46;102;111;114;109;97;116]%N, (SList [[102;116;121;112;101]%N])); ([109;97;110;97;103;101;114;46;115;117;98;116;101;97;109;115]%N, (SList [[108;97;98;101;108]%N; [115;105;122;101]%N]))]).
(* one dotted key per nested field, innermost first *)
Definition sp7 : spec :=
  (SDict [([97;117;116;104;111;114;46;98;111;111;107;46;102;111;114;109;97;116]%N, (SList [[102;116;121;112;101]%N])); ([97;117;116;104;111;114;46;98;111;111;107]%N, (SList [[116;105;116;108;101]%N; [105;115;98;110]%N])); ([97;117;116;104;111;114]%N, (SList [[110;97;109;101]%N; [116;97;103]%N])); ([109;97;110;97;103;101;114;46;115;117;98;116;101;97;109;115]%N, (SList [[108;97;98;101;108]%N; [115;105;122;101]%N]))]).
(* dotted key first, then a nested dict *)
Definition sp8 : spec :=
  (SDict [([97;117;116;104;111;114;46;98;111;111;107]%N, (SDict [([116;105;116;108;101]%N, SNone); ([105;115;98;110]%N, SNone); ([102;111;114;109;97;116]%N, (SList [[102;116;121;112;101]%N]))])); ([97;117;116;104;111;114]%N, (SDict [([110;97;109;101]%N, SNone); ([116;97;103]%N, SNone)])); ([109;97;110;97;103;101;114;46;115;117;98;116;101;97;109;115]%N, (SDict [([108;97;98;101;108]%N, SNone); ([115;105;122;101]%N, SNone)]))]).
Definition spellings8 : list spec := [sp1; sp2; sp3; sp4; sp5; sp6; sp7; sp8].

(* a ninth spelling: what SchemaAnalyzer.nested_fields() itself returns for this mapping
   ({'author': {...}, 'manager.subteams': {...}}) *)
Definition sp0 : spec := nested_fields m_spell.

(* the builder configured by the analyzer, with another spelling of the nested fields *)
Definition spelled (sp : spec) : es_config :=
  set_specs (options m_spell) sp (c_object (options m_spell)) (c_sub (options m_spell)).

(* ---- the guards of sections 1 and 2 hold on this mapping (computed), none is vacuous *)
Example ex_spell_mapping :
  length (doc_props m_spell) = 1 /\ wf_schema m_spell = true /\ types_agree m_spell = true /\
  walk_sane m_spell = true /\ coherent m_spell = true.
Proof. repeat split; vm_compute; reflexivity. Qed.

(* the eight spellings and the analyzer's own one denote the same names — and they are eight different terms *)
Example ex_spellings_same_names :
  forallb (same_names_b sp0) spellings8 = true /\ spec_falsy sp0 = false /\ length (flat_names sp0) = 7.
Proof. repeat split; vm_compute; reflexivity. Qed.

Lemma spellings8_same sp : In sp spellings8 -> same_field_set sp0 sp.
Proof.
  intros Hin. apply same_names_b_sound.
  pose proof (proj1 ex_spellings_same_names) as H. rewrite forallb_forall in H. apply H. exact Hin.
Qed.

(* C19_spellings_behaviour applied: each of the eight spellings configures, on EVERY tree, the behaviour of the
   analyzer's own options (a theorem, not a computation) *)
Example ex_spellings_behaviour :
  forall sp, In sp spellings8 -> forall t, build (spelled sp) t = build (options m_spell) t.
Proof.
  intros sp Hin t. symmetry.
  apply (C19_spellings_behaviour (options m_spell) (spelled sp)).
  - repeat split.
  - exact (spellings8_same sp Hin).
  - apply spelled_alike_refl.
  - apply spelled_alike_refl.
Qed.

(* leaves of the mapping, and the mapping-level guards on them *)
Definition s_author : str := [97;117;116;104;111;114]%N.
Definition s_book : str := [98;111;111;107]%N.
Definition s_format : str := [102;111;114;109;97;116]%N.
Definition s_ftype : str := [102;116;121;112;101]%N.
Definition s_raw : str := [114;97;119]%N.
Definition s_manager : str := [109;97;110;97;103;101;114]%N.
Definition s_subteams : str := [115;117;98;116;101;97;109;115]%N.
Definition s_label : str := [108;97;98;101;108]%N.
Definition s_firstname : str := [102;105;114;115;116;110;97;109;101]%N.
Definition c_ftype : list str := [s_author; s_book; s_format; s_ftype].        (* author.book.format.ftype *)
Definition c_nameraw : list str := [s_author; s_name; s_raw].                  (* author.name.raw (a multi-field) *)
Definition c_label : list str := [s_manager; s_subteams; s_label].             (* manager.subteams.label *)
Definition c_firstname : list str := [s_manager; s_firstname].                 (* manager.firstname *)
Definition spell_leaves : list (list str) := [c_ftype; c_nameraw; c_label; c_firstname].

Definition mapping_guards (s : schema) (comps : list str) : bool :=
  match resolved s comps with
  | Some (d, anc) => is_leaf_def d && subfield_ok anc d && anchor_registered anc && negb (redeclared s anc)
  | None => false
  end.
Example ex_spell_guards : forallb (mapping_guards m_spell) spell_leaves = true.
Proof. vm_compute. reflexivity. Qed.

(* C19_query_modern and C19_spellings_behaviour together: with ANY of the eight spellings, every one of these
   leaves, in both query spellings, gives exactly the expected JSON *)
Example ex_spelled_queries :
  forall sp comps d anc,
    In sp spellings8 -> In comps spell_leaves -> resolved m_spell comps = Some (d, anc) ->
    build (spelled sp) (dotted_q comps w_x) = ROk (expected_json comps d anc w_x) /\
    build (spelled sp) (chain_q comps w_x) = ROk (expected_json comps d anc w_x).
Proof.
  intros sp comps d anc Hsp Hc E.
  assert (Hg : mapping_guards m_spell comps = true).
  { pose proof ex_spell_guards as H. rewrite forallb_forall in H. apply H. exact Hc. }
  unfold mapping_guards in Hg. rewrite E in Hg.
  apply andb_true_iff in Hg. destruct Hg as [Hg Hred]. apply andb_true_iff in Hg. destruct Hg as [Hg Hreg].
  apply andb_true_iff in Hg. destruct Hg as [Hl Hsub].
  assert (Hne : comps <> []) by (intros ->; vm_compute in E; discriminate E).
  rewrite !(ex_spellings_behaviour sp Hsp).
  split; apply (C19_query_modern m_spell comps d anc w_x _ eq_refl (le_n 1) (resolved_mapped _ _ _ _ E Hl) Hsub Hreg eq_refl).
  - apply dotted_q_spelling.
  - right. apply chain_q_chain. exact Hne.
Qed.

(* what these JSONs are (computed): a nested clause on the innermost nested ancestor, term / match by the type *)
Example ex_spelled_json :
  build (spelled sp7) (chain_q c_ftype w_x) =
    ROk (wrap_nested (Some (dotted [s_author; s_book; s_format])) (clause (dotted c_ftype) true w_x)) /\
  build (spelled sp3) (dotted_q c_label w_x) =
    ROk (wrap_nested (Some (dotted [s_manager; s_subteams])) (clause (dotted c_label) false w_x)) /\
  build (spelled sp5) (dotted_q c_firstname w_x) = ROk (clause (dotted c_firstname) false w_x) /\
  build (spelled sp8) (dotted_q c_nameraw w_x) =
    ROk (wrap_nested (Some s_author) (clause (dotted c_nameraw) true w_x)).
Proof. repeat split; vm_compute; reflexivity. Qed.

(* ---- object_fields and sub_fields spellings: ["manager.firstname"] / {"manager": ["firstname"]} / {"manager":
   {"firstname": None}} and ["title.raw", "author.name.raw"] / {"title": ["raw"], "author.name": {"raw": {}}} *)
Definition s_title : str := [116;105;116;108;101]%N.
Definition ob1 : spec := SList [dotted [s_manager; s_firstname]].
Definition ob2 : spec := SDict [(s_manager, SList [s_firstname])].
Definition ob3 : spec := SDict [(s_manager, SDict [(s_firstname, SNone)])].
Definition su1 : spec := SList [dotted [s_title; s_raw]; dotted [s_author; s_name; s_raw]].
Definition su2 : spec := SDict [(s_title, SList [s_raw]); (dotted [s_author; s_name], SDict [(s_raw, SDict [])])].

Lemma alike_of_b s1 s2 : same_names_b s1 s2 = true -> s1 <> SNone -> s2 <> SNone -> s1 <> SDict [] -> s2 <> SDict [] ->
  spelled_alike s1 s2.
Proof.
  intros Hb H1 H2 H3 H4. split; [apply same_names_b_sound; exact Hb|]. split; split; intros H; congruence.
Qed.

Example ex_object_sub_spellings :
  forall sp t, In sp spellings8 ->
    build (set_specs (options m_spell) sp ob2 su2) t = build (set_specs (options m_spell) sp0 ob1 su1) t /\
    build (set_specs (options m_spell) sp ob3 su1) t = build (set_specs (options m_spell) sp0 ob1 su1) t.
Proof.
  intros sp t Hin. split; symmetry; apply C19_spellings_behaviour.
  all: try apply same_core_set_specs.
  all: try exact (spellings8_same sp Hin).
  all: try apply spelled_alike_refl.
  all: apply alike_of_b; try discriminate; vm_compute; reflexivity.
Qed.

(* these configurations do discriminate: with sub_fields given, an unknown dotted field is refused, a listed
   multi-field is not *)
Example ex_sub_fields_used :
  build (set_specs (options m_spell) sp4 ob3 su2) (dotted_q [s_manager; s_label] w_x) = RExc XObject /\
  build (set_specs (options m_spell) sp4 ob3 su2) (dotted_q c_nameraw w_x) =
    ROk (wrap_nested (Some s_author) (clause (dotted c_nameraw) true w_x)) /\
  build (set_specs (options m_spell) sp4 ob3 SNone) (dotted_q [s_manager; s_label] w_x) =
    ROk (clause (dotted [s_manager; s_label]) false w_x).
Proof. repeat split; vm_compute; reflexivity. Qed.

(* {} against [] as object_fields: alike on every tree without an empty field name *)
Example ex_empty_dict_list :
  forall t, fields_named t = true ->
    build (set_specs (options m_spell) sp2 (SDict []) SNone) t = build (set_specs (options m_spell) sp6 (SList []) SNone) t.
Proof.
  intros t Ht. apply C19_spellings_behaviour_named; [apply same_core_set_specs| | | |exact Ht].
  - apply same_names_b_sound. vm_compute. reflexivity.
  - split; [apply same_names_b_sound; reflexivity|split; discriminate].
  - split; [apply same_field_set_refl|tauto].
Qed.
Example ex_fields_named : fields_named (chain_q c_ftype w_x) = true /\ fields_named t_noname = false.
Proof. split; reflexivity. Qed.

(* ---- the mapping-level theorem on descriptions with several document types, and its guards on the findings *)
(* g_legacy2 (C19.v): two document types; a leaf of each *)
Example ex_mapping_two_doctypes :
  length (doc_props g_legacy2) = 2 /\ wf_schema g_legacy2 = true /\ coherent g_legacy2 = true /\
  types_agree g_legacy2 = true /\
  (exists d anc, mapped_leaf g_legacy2 c_n1k d anc /\
                 build (options g_legacy2) (chain_q c_n1k w_x) = ROk (expected_json c_n1k d anc w_x) /\
                 expected_json c_n1k d anc w_x = wrap_nested (Some s_n1) (clause (dotted c_n1k) true w_x)) /\
  (exists d anc, mapped_leaf g_legacy2 c_auname d anc /\
                 build (options g_legacy2) (dotted_q c_auname w_x) = ROk (expected_json c_auname d anc w_x)).
Proof.
  split; [reflexivity|]. split; [reflexivity|]. split; [reflexivity|]. split; [vm_compute; reflexivity|].
  assert (Hag : types_agree g_legacy2 = true) by (vm_compute; reflexivity).
  split.
  - destruct (resolve (nth 0 (doc_props g_legacy2) []) [] c_n1k) as [[d anc]|] eqn:E; [|vm_compute in E; discriminate E].
    assert (Hml : mapped_leaf g_legacy2 c_n1k d anc).
    { exists (nth 0 (doc_props g_legacy2) []). split; [left; reflexivity|]. split; [exact E|].
      vm_compute in E. injection E as <- <-. reflexivity. }
    assert (Hs : subfield_ok anc d = true) by (vm_compute in E; injection E as <- <-; reflexivity).
    assert (Ha : anchor_registered anc = true) by (vm_compute in E; injection E as <- <-; reflexivity).
    assert (Hr : redeclared g_legacy2 anc = false) by (vm_compute in E; injection E as <- <-; vm_compute; reflexivity).
    exists d, anc. split; [exact Hml|]. split.
    + apply (C19_query_mapping_partial g_legacy2 c_n1k d anc w_x _ eq_refl eq_refl Hag Hml Hs Ha Hr eq_refl).
      right. apply chain_q_chain. discriminate.
    + vm_compute in E. injection E as <- <-. reflexivity.
  - destruct (resolve (nth 1 (doc_props g_legacy2) []) [] c_auname) as [[d anc]|] eqn:E; [|vm_compute in E; discriminate E].
    assert (Hml : mapped_leaf g_legacy2 c_auname d anc).
    { exists (nth 1 (doc_props g_legacy2) []). split; [right; left; reflexivity|]. split; [exact E|].
      vm_compute in E. injection E as <- <-. reflexivity. }
    assert (Hs : subfield_ok anc d = true) by (vm_compute in E; injection E as <- <-; reflexivity).
    assert (Ha : anchor_registered anc = true) by (vm_compute in E; injection E as <- <-; reflexivity).
    assert (Hr : redeclared g_legacy2 anc = false) by (vm_compute in E; injection E as <- <-; vm_compute; reflexivity).
    exists d, anc. split; [exact Hml|].
    apply (C19_query_mapping_partial g_legacy2 c_auname d anc w_x _ eq_refl eq_refl Hag Hml Hs Ha Hr eq_refl).
    apply dotted_q_spelling.
Qed.

(* on each refuting description of C19.v exactly the guard of its finding fails:
   (wf_schema, coherent, types_agree, subfield_ok, anchor_registered, not redeclared) *)
Definition all_mapping_guards (s : schema) (comps : list str) : bool * bool * bool * bool * bool * bool :=
  match resolved s comps with
  | Some (d, anc) => (wf_schema s, coherent s, types_agree s, subfield_ok anc d, anchor_registered anc,
                      negb (redeclared s anc))
  | None => (false, false, false, false, false, false)
  end.
Example ex_mapping_guards_findings :
  all_mapping_guards w_f12 c_f12 = (true, true, true, true, false, true) /\
  all_mapping_guards w_f12b c_f12b = (true, true, true, false, true, true) /\
  all_mapping_guards w_f12c c_f12c = (true, true, true, true, true, false) /\
  all_mapping_guards g_simple c_noh = (true, true, true, true, true, true) /\
  all_mapping_guards m_spell c_ftype = (true, true, true, true, true, true).
Proof. repeat split; vm_compute; reflexivity. Qed.

Print Assumptions C19_walk_sane_derived.
Print Assumptions C19_types_agree_single.
Print Assumptions C19_coherent_single.
Print Assumptions C19_anchor_link.
Print Assumptions C19_query_mapping_partial.
Print Assumptions C19_query_modern.
Print Assumptions C19w_types_agree_needed.
Print Assumptions C19_reads_sets.
Print Assumptions C19_nested_spellings_exact.
Print Assumptions C19_spellings_behaviour.
Print Assumptions C19_spellings_behaviour_named.
Print Assumptions C19w_empty_dict_needed.
Print Assumptions ex_spellings_behaviour.
Print Assumptions ex_spelled_queries.
Print Assumptions ex_object_sub_spellings.
Print Assumptions ex_mapping_two_doctypes.
