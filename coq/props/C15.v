(* C15 — auto_name gives distinct names to the operands of operations, mapped to their paths.
   This file holds only statements, `exact`-closed theorems, non-vacuity examples and
   Print Assumptions.  Model: model/Naming.v; lemmas: proofs/NamingProofs.v; the alphabet, the
   class MROs and the namer's method table are the generated ones (gen/GenNaming.v, GenTree.v,
   GenVisitors.v), so the theorems are re-checked against what the code says now. *)
Require Import Base Decimal Tree GenTree GenVisitors GenNaming Visitor Naming TreeInd NamingProofs.

(* ---- tie obligations on generated data *)
Lemma letters_nonempty : gen_letters <> [].
Proof. vm_compute. discriminate. Qed.

Lemma namer_methods_known_ok : namer_methods_known = true.
Proof. vm_compute. reflexivity. Qed.

(* the namer's dispatched handler names the children of exactly the operation classes *)
Lemma namer_handles_is_op : forall t, namer_handles (cls_of t) = is_op t.
Proof. destruct t as [[]| | []| | | | |[]|[]|[]|]; vm_compute; reflexivity. Qed.

(* ---- statements *)
Definition operand_of_operation (t : item) (q : path) : Prop :=
  exists q0 i k m ops, q = q0 ++ [i] /\ subtree_at t q0 = Some (Op k m ops) /\ i < length ops.

(* no exception: a mapping and a named tree are always produced *)
Definition C15_total_statement : Prop :=
  forall t, exists t' m, auto_name t = Some (t', m).

(* all names are distinct, whatever the number of operands *)
Definition C15_names_distinct_statement : Prop :=
  forall t t' m, auto_name t = Some (t', m) -> NoDup (map fst m).

(* the elements that carry a name are exactly the direct operands of the tree's operations, or
   the root alone when no operation has an operand *)
Definition C15_named_exactly_operands_statement : Prop :=
  forall t t' m, unnamed t -> auto_name t = Some (t', m) ->
    forall q, (exists nm, name_at t' q = Some nm) <->
              (operand_of_operation t q \/ ((forall q', ~ operand_of_operation t q') /\ q = [])).

(* the mapping sends each name to the path of the element carrying it and contains nothing else *)
Definition C15_mapping_exact_statement : Prop :=
  forall t t' m, unnamed t -> auto_name t = Some (t', m) ->
    forall nm q, In (nm, q) m <-> name_at t' q = Some nm.

(* ... and whatever names the tree carried before (a tree named earlier and edited since): every
   entry of the mapping is the path of an element that now carries that name, and names are distinct *)
Definition C15_mapping_sound_any_history_statement : Prop :=
  forall t t' m, auto_name t = Some (t', m) ->
    NoDup (map fst m) /\ forall nm q, In (nm, q) m -> name_at t' q = Some nm.

(* the successor function on names never repeats, for any number of steps *)
Definition C15_next_name_never_repeats_statement : Prop :=
  forall n l st, gen_names gen_letters None n = Some (l, st) -> NoDup l /\ length l = n.

(* ---- proofs (lemmas live in proofs/NamingProofs.v) *)
Lemma operand_path_is_operand t q :
  operand_path namer_handles t q <-> operand_of_operation t q.
Proof.
  split.
  - intros [q0 [i [n [Hq [Hs [Hh Hi]]]]]]. rewrite namer_handles_is_op in Hh.
    destruct n; try discriminate. exists q0, i, k, m, ops. auto.
  - intros [q0 [i [k [m [ops [Hq [Hs Hi]]]]]]]. exists q0, i, (Op k m ops).
    rewrite namer_handles_is_op. auto.
Qed.

Theorem C15_total : C15_total_statement.
Proof. exact (auto_name_with_total gen_letters letters_nonempty namer_handles). Qed.

Theorem C15_names_distinct : C15_names_distinct_statement.
Proof. intros t t' m H. exact (proj1 (auto_name_with_spec gen_letters letters_nonempty namer_handles t t' m H)). Qed.

Theorem C15_mapping_exact : C15_mapping_exact_statement.
Proof.
  intros t t' m Hu H.
  exact (proj1 (proj2 (auto_name_with_spec gen_letters letters_nonempty namer_handles t t' m H)) Hu).
Qed.

Theorem C15_mapping_sound_any_history : C15_mapping_sound_any_history_statement.
Proof.
  intros t t' m H.
  destruct (auto_name_with_spec gen_letters letters_nonempty namer_handles t t' m H) as [Hnd [_ [_ Hs]]].
  split; assumption.
Qed.

Theorem C15_named_exactly_operands : C15_named_exactly_operands_statement.
Proof.
  intros t t' m Hu H q.
  destruct (auto_name_with_spec gen_letters letters_nonempty namer_handles t t' m H) as [_ [Hex [Hp _]]].
  specialize (Hex Hu). specialize (Hp q).
  assert (Hin : (exists nm, name_at t' q = Some nm) <-> In q (map snd m)).
  { split.
    - intros [nm Hnm]. apply Hex in Hnm. apply in_map_iff. exists (nm, q). auto.
    - intros Hin. apply in_map_iff in Hin. destruct Hin as [[nm q1] [Hq Hin]]. simpl in Hq. subst q1.
      exists nm. apply Hex. exact Hin. }
  rewrite Hin, Hp. rewrite operand_path_is_operand.
  split; (intros [Ho|[Hn Hq]]; [left; exact Ho|right; split; [|exact Hq]]);
    intros q' Hq'; apply (Hn q'); apply operand_path_is_operand; exact Hq'.
Qed.

Theorem C15_next_name_never_repeats : C15_next_name_never_repeats_statement.
Proof.
  intros n l st H. split.
  - exact (proj1 (gen_names_lt gen_letters letters_nonempty n None l st H)).
  - exact (gen_names_length gen_letters n None l st H).
Qed.

(* ---- non-vacuity: a tree with two operations, one wider than nothing, really is named *)
Definition ex_tree : item :=
  Op KAnd meta0 [Term KWord meta0 [97]%N;
                 Grp KGroup meta0 (Op KOr meta0 [Term KWord meta0 [98]%N; Term KWord meta0 [99]%N])].
Example C15_nonvacuous :
  unnamed ex_tree /\
  exists t', auto_name ex_tree =
    Some (t', [([97]%N, [0]); ([98]%N, [1]); ([99]%N, [1; 0; 0]); ([100]%N, [1; 0; 1])]).
Proof.
  split.
  - intros q. unfold name_at.
    destruct q as [|[|[|]] [|[|] [|[|[|]] [|]]]]; try reflexivity; simpl;
      repeat (match goal with |- context [nth_error _ ?n] => destruct n; simpl end); try reflexivity.
  - eexists. vm_compute. reflexivity.
Qed.
(* 120 successive names (more than two alphabets) are produced and distinct *)
Example C15_many_names : exists l st, gen_names gen_letters None 120 = Some (l, st) /\ length l = 120.
Proof. vm_compute. eauto. Qed.

Print Assumptions C15_total.
Print Assumptions C15_names_distinct.
Print Assumptions C15_named_exactly_operands.
Print Assumptions C15_mapping_exact.
Print Assumptions C15_next_name_never_repeats.
Print Assumptions C15_mapping_sound_any_history.
