(* C01f — C01 WITHOUT GUARD: what the printed form of EVERY accepted query is, exactly.

   C01.v / C01r.v prove the property ("printing the parsed tree gives back the query, numerals possibly
   re-spelled") under the guard `dropped_texts s = []` and refute it without (F1: `foo :bar` prints
   `foo:bar`).  This file characterises the printed form for every accepted query, F1 inputs included, by a
   function of the TOKEN LIST alone (model/Drops.v, no parser involved):

     expected_print s = render (respell_toks (f1_cut (tokens of s)))

     f1_cut        removes the text between a TERM token and a COLUMN token that immediately follows it
                   (the tail of the name, the head of the colon: exactly what `HeadTailManager.search_field`
                   drops, see Actions.A_field_search);
     respell_toks  prints the numeral of an APPROX token after a PHRASE as `str(int(d))`, after a TERM as
                   `format(Decimal(d).normalize(), "f")`, and of a BOOST token as the latter.

     clause                                                     statement                      status
     ---------------------------------------------------------  -----------------------------  ------
     every accepted query prints as expected_print says          C01_characterised_statement    proved
     ... token by token: the input's tokens, F1 blanks removed,  C01_f1_exact_statement         proved
       numerals re-spelled as equal plain decimals
     no blank before a colon => C01's own statement               C01_f1_only_statement          proved
       (= C01r.C01_respelled_partial, re-derived, with an
        executable LEXER-SIDE guard instead of the ghost)
     no numeral re-spelled => the printed form is the input       C01_f1_exact_loss_statement    proved
       minus the blank runs before colons; the lengths differ
       by their total length
     no numeral re-spelled => (printed form = input  <=>  no      C01_only_deviation_statement   proved
       blank before a colon): F1 is the only deviation
     lexer-side facts: what f1_cut removes, in characters;        C01f_cut_length_statement,     proved
       the one-pass and the two-stage definitions agree           C01f_staged_statement

     ANY tables, no guard: each semantic action turns the text  C01_action_edited_statement,    proved
       of its parts into the text of its result by exactly its   C01_any_tables_edited_statement,
       ghost events, hence print(tree) is the input `edited`     C01_any_tables_length_statement,
       by the events of the run (each dropped text removed,      C01_edited_trivial_statement
       each token text replaced by what is printed for it), up
       to their order; the lengths add up; no event => equal
       (C01.C01_any_tables is the special case)

   The characterisation above is for the generated tables (the theorem goes through the LR stack-typing validation of LRTyping.v, re-checked by
   vm_compute at every build, with one more validated fact: an accepting state is entered from state 0 only);
   the `edited` theorems never unfold the tables.
   Lemmas: proofs/DropProofs.v. *)
Require Import Base Decimal Tree GenTree GenParser Lexer Print Actions LR Parser Drops Respace.
Require Import TreeInd LexerProofs ActionProofs LRProofs C01 RespellProofs DropProofs.
From Coq Require Import Permutation.

(* ---- statements *)

Definition C01_characterised_statement : Prop :=
  forall s t, parse s = Some (Ok t) -> expected_print s = Some (print true t).

Definition C01_f1_exact_statement : Prop :=
  forall s t, parse s = Some (Ok t) ->
    exists toks ts, lex s = (toks, None) /\
                    Forall2 same_but_numeral (f1_cut None toks) ts /\ print true t = render ts.

(* `respelled` is C01.v's reading of the property text *)
Definition C01_f1_only_statement : Prop :=
  forall s t, parse s = Some (Ok t) -> no_f1_blank s = true -> respelled s (print true t).

Definition C01_f1_exact_loss_statement : Prop :=
  forall s t, parse s = Some (Ok t) -> no_respelling s = true ->
    exists toks, lex s = (toks, None) /\ s = render toks /\
      print true t = render (f1_cut None toks) /\
      Forall (fun b => all_space b = true) (f1_blanks toks) /\
      length s = length (print true t) + total_length (f1_blanks toks).

Definition C01_only_deviation_statement : Prop :=
  forall s t, parse s = Some (Ok t) -> no_respelling s = true ->
    (print true t = s <-> no_f1_blank s = true).

Definition C01f_cut_length_statement : Prop :=
  forall toks, length (render toks) = length (render (f1_cut None toks)) + total_length (f1_blanks toks).

Definition C01f_staged_statement : Prop :=
  forall toks, exp_render None toks =
               match expected_tokens_of toks with Some r => Some (render r) | None => None end.

(* any tables: DropProofs.edited evs a b = "b is a with the events evs applied where they stand" *)
Definition C01_action_edited_statement : Prop :=
  forall a args v evs, run_action a args = Ok (v, evs) -> Forall val_ok args -> Forall children_ok args ->
    exists evs', Permutation evs evs' /\ edited evs' (concat (map full_text args)) (full_text v) /\
                 val_ok v /\ children_ok v.

Definition C01_any_tables_edited_statement : Prop :=
  forall tb s t evs, parse_with tb s = Done (Ok t) evs ->
    exists E, Permutation evs E /\ edited E s (print true t).

Definition C01_any_tables_length_statement : Prop :=
  forall tb s t evs, parse_with tb s = Done (Ok t) evs ->
    zlen (print true t) = (zlen s + evs_delta evs)%Z.

Definition C01_edited_trivial_statement : Prop :=
  forall e a b, edited e a b -> all_trivial e -> a = b.

(* ---- theorems *)

Theorem C01_characterised : C01_characterised_statement.
Proof. exact parse_characterised. Qed.

Theorem C01_f1_exact : C01_f1_exact_statement.
Proof. exact parse_f1_exact. Qed.

Theorem C01_f1_only : C01_f1_only_statement.
Proof. exact parse_f1_only. Qed.

Theorem C01_f1_exact_loss : C01_f1_exact_loss_statement.
Proof. exact parse_f1_exact_loss. Qed.

Theorem C01_only_deviation : C01_only_deviation_statement.
Proof. exact parse_exact_iff_no_f1. Qed.

Theorem C01f_cut_length : C01f_cut_length_statement.
Proof. intros toks. rewrite (f1_cut_length toks None). simpl. apply PeanoNat.Nat.add_0_r. Qed.

Theorem C01f_staged : C01f_staged_statement.
Proof. intros toks. apply exp_render_staged. Qed.

Theorem C01_action_edited : C01_action_edited_statement.
Proof. exact run_action_edited. Qed.

Theorem C01_any_tables_edited : C01_any_tables_edited_statement.
Proof. exact parse_with_edited. Qed.

Theorem C01_any_tables_length : C01_any_tables_length_statement.
Proof. exact parse_with_edited_length. Qed.

Theorem C01_edited_trivial : C01_edited_trivial_statement.
Proof. exact edited_trivial. Qed.

(* ---- non-vacuity *)

(* `f :a^1.0 AND g  :  "x y"~02 OR h:(i :j)`: three blank runs before colons (and one colon without), a
   boost and a proximity numeral re-spelled.  The model parses it, the printed form is
   `f:a^1 AND g:  "x y"~2 OR h:(i:j)` (replayed on the real code: str(parser.parse(s)) with head_tail),
   and that is what the lexer-side function predicts. *)
Definition ex_f1 : str :=
  [102;32;58;97;94;49;46;48;32;65;78;68;32;103;32;32;58;32;32;34;120;32;121;34;126;48;50;32;79;82;32;104;58;40;105;32;58;106;41]%N.
Definition ex_f1_printed : str :=
  [102;58;97;94;49;32;65;78;68;32;103;58;32;32;34;120;32;121;34;126;50;32;79;82;32;104;58;40;105;58;106;41]%N.

Example C01f_nonvacuous :
  expected_print ex_f1 = Some ex_f1_printed /\
  f1_blanks (fst (lex ex_f1)) = [[32]; [32;32]; []; [32]]%N /\
  no_f1_blank ex_f1 = false /\ no_respelling ex_f1 = false /\
  exists t, parse ex_f1 = Some (Ok t) /\ print true t = ex_f1_printed /\ print true t <> ex_f1.
Proof.
  split; [vm_compute; reflexivity|]. split; [vm_compute; reflexivity|].
  split; [vm_compute; reflexivity|]. split; [vm_compute; reflexivity|].
  assert (Hp : exists t, parse ex_f1 = Some (Ok t)) by (eexists; vm_compute; reflexivity).
  destruct Hp as [t Hp]. exists t. split; [exact Hp|].
  pose proof (C01_characterised _ _ Hp) as He.
  assert (E : expected_print ex_f1 = Some ex_f1_printed) by (vm_compute; reflexivity).
  rewrite E in He. inversion He as [He']. split; [reflexivity|]. discriminate.
Qed.

(* the premise of C01_f1_only holds of a query with fields, blanks after the colons and three re-spelled
   numerals: `f:a^1.0 AND g:  "x y"~02 OR h~.50` prints `f:a^1 AND g:  "x y"~2 OR h~0.5` *)
Definition ex_no_f1 : str :=
  [102;58;97;94;49;46;48;32;65;78;68;32;103;58;32;32;34;120;32;121;34;126;48;50;32;79;82;32;104;126;46;53;48]%N.
Definition ex_no_f1_printed : str :=
  [102;58;97;94;49;32;65;78;68;32;103;58;32;32;34;120;32;121;34;126;50;32;79;82;32;104;126;48;46;53]%N.

Example C01f_f1_only_nonvacuous :
  no_f1_blank ex_no_f1 = true /\ expected_print ex_no_f1 = Some ex_no_f1_printed /\
  exists t, parse ex_no_f1 = Some (Ok t) /\ respelled ex_no_f1 (print true t) /\ print true t <> ex_no_f1.
Proof.
  split; [vm_compute; reflexivity|]. split; [vm_compute; reflexivity|].
  assert (Hp : exists t, parse ex_no_f1 = Some (Ok t)) by (eexists; vm_compute; reflexivity).
  destruct Hp as [t Hp]. exists t. split; [exact Hp|].
  split; [apply C01_f1_only; [exact Hp|vm_compute; reflexivity]|].
  pose proof (C01_characterised _ _ Hp) as He.
  assert (E : expected_print ex_no_f1 = Some ex_no_f1_printed) by (vm_compute; reflexivity).
  rewrite E in He. inversion He as [He']. discriminate.
Qed.

(* the premise of C01_f1_exact_loss / C01_only_deviation holds of F1 inputs:
   `f :a^1 AND g  :  "x y"~2 OR h:(i :j)` (36 characters) prints `f:a^1 AND g:  "x y"~2 OR h:(i:j)` (32): the
   four characters lost are the three blank runs; and of C01.f1_witness `foo :bar` *)
Definition ex_loss : str :=
  [102;32;58;97;94;49;32;65;78;68;32;103;32;32;58;32;32;34;120;32;121;34;126;50;32;79;82;32;104;58;40;105;32;58;106;41]%N.

Example C01f_loss_nonvacuous :
  no_respelling ex_loss = true /\ no_f1_blank ex_loss = false /\
  total_length (f1_blanks (fst (lex ex_loss))) = 4 /\
  expected_print ex_loss = Some ex_f1_printed /\ length ex_loss = 36 /\ length ex_f1_printed = 32 /\
  (exists t, parse ex_loss = Some (Ok t)) /\
  no_respelling f1_witness = true /\ f1_blanks (fst (lex f1_witness)) = [[32]%N] /\
  expected_print f1_witness = Some [102;111;111;58;98;97;114]%N.
Proof.
  split; [vm_compute; reflexivity|]. split; [vm_compute; reflexivity|]. split; [vm_compute; reflexivity|].
  split; [vm_compute; reflexivity|]. split; [reflexivity|]. split; [reflexivity|].
  split; [eexists; vm_compute; reflexivity|].
  split; [vm_compute; reflexivity|]. split; vm_compute; reflexivity.
Qed.

(* expected_print is None where the numeral is malformed for the action that reads it (`"x y"~2.0`: int("2.0")
   fails — the parser raises ParseSyntaxError) and on a lexical error (`a \`) *)
Example C01f_expected_none :
  expected_print [34;120;32;121;34;126;50;46;48]%N = None /\
  (exists msg, parse [34;120;32;121;34;126;50;46;48]%N = Some (Err (ESyntax msg))) /\
  expected_print [97;32;92]%N = None.
Proof. split; [vm_compute; reflexivity|]. split; [eexists; vm_compute; reflexivity|vm_compute; reflexivity]. Qed.

(* the any-tables theorem on the generated tables: the events of `f :a^1.0 AND g  :  "x y"~02 OR h:(i :j)` are three
   dropped blank runs and two re-spelled numerals; they account for the 7 characters lost (39 -> 32) *)
Example C01f_edited_nonvacuous :
  parse_events ex_f1 =
    [GRespell [94;49;46;48]%N [94;49]%N; GDrop [32]%N; GRespell [126;48;50]%N [126;50]%N; GDrop [32;32]%N;
     GDrop [32]%N] /\     (* in the order of the reductions, not of the text *)
  exists t evs, parse_with gen_tables ex_f1 = Done (Ok t) evs /\ evs_delta evs = (-7)%Z /\
                zlen (print true t) = (zlen ex_f1 - 7)%Z /\
                exists E, Permutation evs E /\ edited E ex_f1 (print true t).
Proof.
  split; [vm_compute; reflexivity|].
  assert (Hp : exists t evs, parse_with gen_tables ex_f1 = Done (Ok t) evs /\ evs_delta evs = (-7)%Z).
  { eexists. eexists. split; vm_compute; reflexivity. }
  destruct Hp as [t [evs [Hp Hd]]]. exists t, evs. split; [exact Hp|]. split; [exact Hd|].
  pose proof (parse_with_edited_length _ _ _ _ Hp) as Hl.
  pose proof (parse_with_edited _ _ _ _ Hp) as He.
  split; [rewrite Hl, Hd; reflexivity|exact He].
Qed.

Print Assumptions C01_characterised.
Print Assumptions C01_f1_exact.
Print Assumptions C01_f1_only.
Print Assumptions C01_f1_exact_loss.
Print Assumptions C01_only_deviation.
Print Assumptions C01f_cut_length.
Print Assumptions C01f_staged.
Print Assumptions C01_action_edited.
Print Assumptions C01_any_tables_edited.
Print Assumptions C01_any_tables_length.
Print Assumptions C01_edited_trivial.
Print Assumptions C01f_edited_nonvacuous.
Print Assumptions C01f_nonvacuous.
Print Assumptions C01f_f1_only_nonvacuous.
Print Assumptions C01f_loss_nonvacuous.
