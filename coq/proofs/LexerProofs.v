(* LexerProofs.v — the lexer model loses no character (L-lossless) and positions are offsets. *)
Require Import Base GenChars GenParser Lexer.
From Coq Require Import Lia.

Lemma span_while_spec p : forall s racc l r,
  span_while p s racc = (l, r) ->
  exists l', l = rev racc ++ l' /\ s = l' ++ r
             /\ (match r with c :: _ => p c = false | [] => True end)
             /\ (forall c, In c l' -> p c = true).
Proof.
  induction s as [|c s IH]; intros racc l r H; simpl in H.
  - inversion H; subst. exists []. rewrite app_nil_r. repeat split; auto; intros ? [].
  - destruct (p c) eqn:Hp.
    + apply IH in H. destruct H as [l' [H1 [H2 [H3 H4]]]]. exists (c :: l'). simpl in H1.
      rewrite <- app_assoc in H1. simpl in H1. repeat split; auto.
      * simpl. f_equal. exact H2.
      * intros x [Hx|Hx]; subst; auto.
    + inversion H; subst. exists []. rewrite app_nil_r. repeat split; auto; intros ? [].
Qed.

Lemma term_step_spec rp s cs s' : term_step rp s = Some (cs, s') -> s = cs ++ s' /\ cs <> [].
Proof.
  unfold term_step. destruct s as [|c s1]; [discriminate|].
  destruct (term_follow_char c); [intros H; inversion H; subst; split; [reflexivity|discriminate]|].
  destruct (N.eqb c c_bslash).
  { destruct s1 as [|d s2]; [discriminate|]. destruct (N.eqb d c_nl); [discriminate|].
    intros H; inversion H; subst. split; [reflexivity|discriminate]. }
  destruct (N.eqb c c_colon); [|discriminate].
  destruct rp as [|d2 [|d1 [|t rp']]]; try discriminate.
  destruct (is_udigit d2 && is_udigit d1 && N.eqb t c_T); [|discriminate].
  destruct s1 as [|m1 [|m2 s2]]; try discriminate.
  destruct (is_udigit m1 && is_udigit m2); [|discriminate].
  destruct s2 as [|c2 [|x1 [|x2 s3]]];
    try (intros H; inversion H; subst; split; [reflexivity|discriminate]).
  destruct (N.eqb c2 c_colon && is_udigit x1 && is_udigit x2);
    intros H; inversion H; subst; split; try reflexivity; discriminate.
Qed.

Lemma term_loop_spec : forall fuel rp s racc l r,
  term_loop fuel rp s racc = (l, r) -> rev racc ++ s = l ++ r.
Proof.
  induction fuel as [|f IH]; intros rp s racc l r H; simpl in H.
  - inversion H; subst. reflexivity.
  - destruct (term_step rp s) as [[cs s']|] eqn:Hs.
    + apply IH in H. rewrite <- H. destruct (term_step_spec _ _ _ _ Hs) as [Hs' _]. subst s.
      rewrite rev_app_distr, rev_involutive, <- app_assoc. reflexivity.
    + inversion H; subst. reflexivity.
Qed.

Lemma term_loop_nonempty : forall fuel rp s racc l r,
  term_loop fuel rp s racc = (l, r) -> racc <> [] -> l <> [].
Proof.
  induction fuel as [|f IH]; intros rp s racc l r H Hne; simpl in H.
  - inversion H; subst. intros E. apply Hne. rewrite <- (rev_involutive racc), E. reflexivity.
  - destruct (term_step rp s) as [[cs s']|].
    + eapply IH; [exact H|]. destruct (rev cs); simpl; [exact Hne|discriminate].
    + inversion H; subst. intros E. apply Hne. rewrite <- (rev_involutive racc), E. reflexivity.
Qed.

Lemma lex_term_spec rp s l r : lex_term rp s = Some (l, r) -> s = l ++ r /\ l <> [].
Proof.
  unfold lex_term. destruct s as [|c s1]; [discriminate|].
  destruct (term_first_char c).
  - intros H. inversion H as [H1]. split.
    + apply term_loop_spec in H1. simpl in H1. exact H1.
    + eapply term_loop_nonempty; [exact H1|discriminate].
  - destruct (N.eqb c c_bslash); [|discriminate].
    destruct s1 as [|d s2]; [discriminate|]. destruct (N.eqb d c_nl); [discriminate|].
    intros H. inversion H as [H1]. split.
    + apply term_loop_spec in H1. simpl in H1. exact H1.
    + eapply term_loop_nonempty; [exact H1|discriminate].
Qed.

Lemma delim_loop_spec d : forall fuel s racc l r,
  delim_loop fuel d s racc = Some (l, r) -> rev racc ++ s = l ++ r /\ l <> [].
Proof.
  induction fuel as [|f IH]; intros s racc l r H; simpl in H; [discriminate|].
  destruct s as [|c s1]; [discriminate|].
  destruct (N.eqb c d).
  - inversion H; subst. simpl. rewrite <- app_assoc. split; [reflexivity|].
    destruct (rev racc); discriminate.
  - destruct (N.eqb c c_bslash).
    + destruct s1 as [|e s2]; [discriminate|]. destruct (N.eqb e c_nl); [discriminate|].
      apply IH in H. destruct H as [H1 H2]. split; [|exact H2]. rewrite <- H1. simpl.
      rewrite <- !app_assoc. reflexivity.
    + apply IH in H. destruct H as [H1 H2]. split; [|exact H2]. rewrite <- H1. simpl.
      rewrite <- app_assoc. reflexivity.
Qed.

Lemma lex_delimited_spec d s l r : lex_delimited d s = Some (l, r) -> s = l ++ r /\ l <> [].
Proof.
  unfold lex_delimited. destruct s as [|c s1]; [discriminate|].
  destruct (N.eqb c d); [|discriminate]. intros H. apply delim_loop_spec in H. exact H.
Qed.

Definition starts_with_space (s : str) : bool := match s with c :: _ => is_space c | [] => false end.

Lemma lex_one_spec rp s k l r :
  lex_one rp s = Some (k, l, r) ->
  s = l ++ r /\ l <> [] /\ (k = RSep -> starts_with_space r = false)
  /\ (k <> RSep -> starts_with_space s = false).
Proof.
  unfold lex_one. destruct s as [|c s1]; [discriminate|].
  destruct (is_space c) eqn:Hsp.
  - destruct (span_while is_space (c :: s1) []) as [l0 r0] eqn:Hsw. intros H; inversion H; subst.
    simpl in Hsw. rewrite Hsp in Hsw.
    destruct (span_while_spec _ _ _ _ _ Hsw) as [l' [H1 [H2 [H3 _]]]]. simpl in H1. subst l s1.
    split; [reflexivity|]. split; [discriminate|].
    split; [|intros Hk; congruence]. intros _. destruct r; [reflexivity|exact H3].
  - assert (Hns : starts_with_space (c :: s1) = false) by exact Hsp.
    destruct (lex_term rp (c :: s1)) as [[l0 r0]|] eqn:Ht.
    { intros H; inversion H; subst. destruct (lex_term_spec _ _ _ _ Ht) as [H1 H2].
      split; [exact H1|]. split; [exact H2|]. split; [intros E; destruct (find _ _) as [[? ?]|]; discriminate|auto]. }
    repeat match goal with
    | |- (if ?b then _ else _) = _ -> _ => destruct b
    end;
    try (intros H; inversion H; subst; split; [reflexivity|]; split; [discriminate|]; split; [discriminate|auto]).
    + destruct s1 as [|e s2]; [intros H; inversion H; subst; split; [reflexivity|]; split; [discriminate|]; split; [discriminate|auto]|].
      destruct (N.eqb e c_eq); intros H; inversion H; subst; (split; [reflexivity|]; split; [discriminate|]; split; [discriminate|auto]).
    + destruct s1 as [|e s2]; [intros H; inversion H; subst; split; [reflexivity|]; split; [discriminate|]; split; [discriminate|auto]|].
      destruct (N.eqb e c_eq); intros H; inversion H; subst; (split; [reflexivity|]; split; [discriminate|]; split; [discriminate|auto]).
    + destruct (lex_delimited c_quote (c :: s1)) as [[l0 r0]|] eqn:Hd; [|discriminate].
      intros H; inversion H; subst. destruct (lex_delimited_spec _ _ _ _ Hd) as [H1 H2].
      split; [exact H1|]. split; [exact H2|]. split; [discriminate|auto].
    + destruct (lex_delimited c_slash (c :: s1)) as [[l0 r0]|] eqn:Hd; [|discriminate].
      intros H; inversion H; subst. destruct (lex_delimited_spec _ _ _ _ Hd) as [H1 H2].
      split; [exact H1|]. split; [exact H2|]. split; [discriminate|auto].
    + destruct (span_while is_numchar s1 []) as [l0 r0] eqn:Hsw. intros H; inversion H; subst.
      apply span_while_spec in Hsw. destruct Hsw as [l' [H1 [H2 _]]]. simpl in H1. subst l0 s1.
      split; [reflexivity|]. split; [discriminate|]. split; [discriminate|auto].
    + destruct (span_while is_numchar s1 []) as [l0 r0] eqn:Hsw. intros H; inversion H; subst.
      apply span_while_spec in Hsw. destruct Hsw as [l' [H1 [H2 _]]]. simpl in H1. subst l0 s1.
      split; [reflexivity|]. split; [discriminate|]. split; [discriminate|auto].
    + discriminate.
Qed.

(* raw tokens: consecutive, non-empty, positions are offsets, never two separators in a row *)
Fixpoint raw_ok (pos : nat) (after_sep : bool) (ts : list rawtok) : Prop :=
  match ts with
  | [] => True
  | t :: ts' =>
      rk_pos t = pos /\ rk_lexeme t <> [] /\
      (after_sep = true -> rk_kind t <> RSep) /\
      raw_ok (pos + length (rk_lexeme t)) (match rk_kind t with RSep => true | _ => false end) ts'
  end.

Definition raw_text (ts : list rawtok) : str := concat (map rk_lexeme ts).
Definition err_rest (e : option (nat * str)) : str := match e with Some (_, r) => r | None => [] end.

Lemma lex_raw_spec : forall fuel rp pos s ts e after,
  lex_raw fuel rp pos s = (ts, e) -> length s < fuel ->
  (after = true -> starts_with_space s = false) ->
  raw_text ts ++ err_rest e = s /\ raw_ok pos after ts /\
  (match e with Some (p, _) => p = pos + length (raw_text ts) | None => True end).
Proof.
  induction fuel as [|f IH]; intros rp pos s ts e after H Hlen Hafter; [lia|].
  simpl in H. destruct s as [|c s1].
  - inversion H; subst. simpl. auto.
  - destruct (lex_one rp (c :: s1)) as [[[k l] r]|] eqn:Hone.
    + destruct (lex_raw f (rev l ++ rp) (pos + length l) r) as [ts1 e1] eqn:Hrec.
      inversion H; subst; clear H.
      destruct (lex_one_spec _ _ _ _ _ Hone) as [Hs [Hne [Hsep Hnsep]]].
      assert (Hlr : length r < f).
      { assert (length (c :: s1) = length l + length r) by (rewrite Hs, app_length; reflexivity).
        destruct l; [congruence|]. simpl in *. lia. }
      destruct (IH _ _ _ _ _ (match k with RSep => true | _ => false end) Hrec Hlr) as [H1 [H2 H3]].
      { destruct k; [intros _; apply Hsep; reflexivity|discriminate]. }
      split; [|split].
      * unfold raw_text in *. simpl. rewrite <- app_assoc, H1. symmetry. exact Hs.
      * simpl. repeat split; auto.
        intros Ha E. specialize (Hafter Ha). destruct k; [|discriminate].
        (* a separator directly after a separator: its text starts with a space *)
        unfold lex_one in Hone. simpl in Hafter. rewrite Hafter in Hone.
        destruct (lex_term rp (c :: s1)) as [[? ?]|]; [inversion Hone; destruct (find _ _) as [[? ?]|]; discriminate|].
        repeat match type of Hone with
        | (if ?b then _ else _) = _ => destruct b
        | (match ?x with _ => _ end) = _ => destruct x
        | (let '(_, _) := ?x in _) = _ => destruct x
        end; try discriminate.
      * destruct e as [[p rest]|]; [|exact I]. unfold raw_text in *. simpl. rewrite app_length. lia.
    + inversion H; subst. simpl. repeat split; auto.
Qed.

(* ---- HeadTailLexer *)

Lemma render_app a b : render (a ++ b) = render a ++ render b.
Proof. unfold render. rewrite map_app, concat_app. reflexivity. Qed.

Lemma fold_after_first : forall raws racc pos after,
  raw_ok pos after raws -> 0 < pos -> racc <> [] ->
  render (head_tail_fold raws None racc) = render (rev racc) ++ raw_text raws.
Proof.
  induction raws as [|r raws IH]; intros racc pos after Hok Hpos Hne; simpl.
  - unfold raw_text. simpl. rewrite app_nil_r. reflexivity.
  - simpl in Hok. destruct Hok as [Hp [Hl [_ Hrest]]].
    destruct (rk_kind r) eqn:Hk.
    + assert (E : Nat.eqb (rk_pos r) 0 = false) by (apply Nat.eqb_neq; lia). rewrite E.
      destruct racc as [|lastt racc']; [congruence|].
      erewrite IH; [|exact Hrest|lia|discriminate].
      unfold raw_text. simpl. rewrite !render_app. unfold render, tok_text, add_tail. simpl.
      rewrite !app_nil_r, <- !app_assoc. reflexivity.
    + erewrite IH; [|exact Hrest|lia|discriminate].
      unfold raw_text. simpl. rewrite render_app. unfold render at 2, tok_text. simpl.
      rewrite !app_nil_r, <- !app_assoc. reflexivity.
Qed.

Theorem lex_lossless s toks e :
  lex s = (toks, e) -> toks <> [] -> render toks ++ err_rest e = s.
Proof.
  unfold lex. destruct (lex_raw (S (length s)) [] 0 s) as [raws e0] eqn:Hraw.
  intros H; inversion H; subst; clear H. intros Hne.
  destruct (lex_raw_spec _ _ _ _ _ _ false Hraw) as [Htext [Hok _]]; [lia|discriminate|].
  rewrite <- Htext. f_equal.
  destruct raws as [|r1 raws]; [simpl in Hne; congruence|].
  simpl in Hok. destruct Hok as [Hp1 [Hl1 [_ Hrest]]].
  assert (Hpos1 : 0 < 0 + length (rk_lexeme r1)) by (destruct (rk_lexeme r1); [congruence|simpl; lia]).
  simpl. destruct (rk_kind r1) eqn:Hk1.
  - (* leading separator: becomes the head of the next token *)
    rewrite Hp1. simpl.
    destruct raws as [|r2 raws]; [simpl in Hne; rewrite Hk1, Hp1 in Hne; simpl in Hne; congruence|].
    simpl in Hrest. destruct Hrest as [Hp2 [Hl2 [Hns2 Hrest2]]].
    simpl. destruct (rk_kind r2) eqn:Hk2; [exfalso; apply Hns2; reflexivity|].
    erewrite fold_after_first; [|exact Hrest2|lia|discriminate].
    unfold raw_text. simpl. unfold render at 1, tok_text. simpl.
    rewrite !app_nil_r, <- !app_assoc. reflexivity.
  - erewrite fold_after_first; [|exact Hrest|lia|discriminate].
    unfold raw_text. simpl. unfold render at 1, tok_text. simpl.
    rewrite !app_nil_r. reflexivity.
Qed.
