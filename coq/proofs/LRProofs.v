(* LRProofs.v — any-table invariants of the LR driver: the value stack followed by the pending
   tokens always spells the input (C01). *)
Require Import Base Decimal Tree GenTree GenParser Lexer Print Actions LR Parser TreeInd LexerProofs ActionProofs.
From Coq Require Import Lia.

Section AnyTables.
  Variable tb : tables.
  Variable s : str.

  Definition Inv (lexerr : option (nat * str)) (c : config) : Prop :=
    stack_text (c_vals c) ++ render (c_toks c) ++ err_rest lexerr = s /\
    Forall val_ok (c_vals c) /\ Forall children_ok (c_vals c).

  Lemma token_value_text t : full_text (token_value t) = tok_text t.
  Proof.
    unfold token_value, tok_text. destruct (tk_type t); simpl; unfold wrap; simpl; reflexivity.
  Qed.

  Lemma token_value_ok t : val_ok (token_value t) /\ children_ok (token_value t).
  Proof. unfold token_value. destruct (tk_type t); simpl; auto. Qed.

  Lemma stack_text_cons v vals : stack_text (v :: vals) = stack_text vals ++ full_text v.
  Proof. unfold stack_text. simpl. rewrite map_app, concat_app. simpl. rewrite app_nil_r. reflexivity. Qed.

  Lemma stack_text_split n vals :
    stack_text vals = stack_text (skipn n vals) ++ concat (map full_text (rev (firstn n vals))).
  Proof.
    unfold stack_text. rewrite <- concat_app, <- map_app, <- rev_app_distr, firstn_skipn. reflexivity.
  Qed.

  Lemma Forall_firstn {A} (P : A -> Prop) n l : Forall P l -> Forall P (firstn n l).
  Proof. revert l. induction n; intros l H; simpl; [constructor|]. destruct l; inversion H; subst; constructor; auto. Qed.
  Lemma Forall_skipn {A} (P : A -> Prop) n l : Forall P l -> Forall P (skipn n l).
  Proof. revert l. induction n; intros l H; simpl; [exact H|]. destruct l; inversion H; subst; auto. Qed.

  Ltac break H := repeat match type of H with
    | match ?x with _ => _ end = _ => destruct x eqn:?; try discriminate
    | (if ?b then _ else _) = _ => destruct b eqn:?; try discriminate
    end.

  Lemma reduce_inv lexerr c a (rhs : list sym) v evs g :
    Inv lexerr c ->
    run_action a (rev (firstn (length rhs) (c_vals c))) = Ok (v, evs) ->
    all_trivial evs ->
    Inv lexerr (mkCfg (g :: skipn (length rhs) (c_states c)) (v :: skipn (length rhs) (c_vals c))
                      (c_toks c) (c_dropped c ++ evs)).
  Proof.
    intros [Ht [Hok Hch]] Hact Htriv.
    destruct (run_action_text _ _ _ _ Hact Htriv) as [H1 [H2 H3]].
    { apply Forall_rev, Forall_firstn, Hok. } { apply Forall_rev, Forall_firstn, Hch. }
    unfold Inv. simpl. split; [|split].
    - rewrite stack_text_cons, H1, <- app_assoc. rewrite <- Ht, (stack_text_split (length rhs) (c_vals c)), <- app_assoc.
      reflexivity.
    - constructor; [exact H2|apply Forall_skipn, Hok].
    - constructor; [exact H3|apply Forall_skipn, Hch].
  Qed.

  Lemma step_next lexerr c c' :
    step tb lexerr c = Next c' -> Inv lexerr c ->
    exists evs, c_dropped c' = c_dropped c ++ evs /\ (all_trivial evs -> Inv lexerr c').
  Proof.
    unfold step, do_shift, do_reduce, do_accept. intros H HI.
    destruct (c_toks c) as [|t rest] eqn:Htoks; simpl in H; break H; inversion H; subst; clear H; simpl.
    - (* reduce at end of input *)
      eexists. split; [reflexivity|]. intros Htriv.
      match goal with Hact : run_action _ _ = Ok _ |- _ =>
        epose proof (reduce_inv _ c _ _ _ _ _ HI Hact Htriv) as R end.
      rewrite Htoks in R. exact R.
    - (* shift *)
      exists []. split; [rewrite app_nil_r; reflexivity|]. intros _.
      destruct HI as [Ht [Hok Hch]]. unfold Inv. simpl. split; [|split].
      + rewrite stack_text_cons, token_value_text, <- app_assoc. rewrite <- Ht, Htoks.
        unfold render. simpl. rewrite <- !app_assoc. reflexivity.
      + constructor; [apply token_value_ok|exact Hok].
      + constructor; [apply token_value_ok|exact Hch].
    - (* reduce *)
      eexists. split; [reflexivity|]. intros Htriv.
      match goal with Hact : run_action _ _ = Ok _ |- _ =>
        epose proof (reduce_inv _ c _ _ _ _ _ HI Hact Htriv) as R end.
      rewrite Htoks in R. exact R.
  Qed.

  Lemma step_dropped_prefix lexerr c c' :
    step tb lexerr c = Next c' -> exists evs, c_dropped c' = c_dropped c ++ evs.
  Proof.
    unfold step, do_shift, do_reduce, do_accept. intros H.
    destruct (c_toks c) as [|t rest] eqn:Htoks; simpl in H; break H; inversion H; subst; clear H; simpl;
      eexists; try reflexivity; rewrite app_nil_r; reflexivity.
  Qed.

  Lemma run_dropped_prefix lexerr : forall fuel c r evs,
    run tb lexerr fuel c = Done r evs -> exists rest, evs = c_dropped c ++ rest.
  Proof.
    induction fuel as [|f IH]; intros c r evs H; simpl in H; [discriminate|].
    destruct (step tb lexerr c) as [c'|r' e'] eqn:Hs.
    - destruct (IH _ _ _ H) as [rest Hrest]. destruct (step_dropped_prefix _ _ _ Hs) as [e0 He0].
      exists (e0 ++ rest). rewrite Hrest, He0, <- app_assoc. reflexivity.
    - inversion H; subst. eexists. reflexivity.
  Qed.

  Lemma step_final_ok lexerr c t evs :
    step tb lexerr c = Final (Ok t) evs -> Inv lexerr c -> all_trivial evs -> print true t = s.
  Proof.
    unfold step, do_shift, do_reduce, do_accept. intros H [Ht [Hok Hch]] Htriv. rewrite <- Ht. clear Ht.
    destruct (c_toks c) as [|tk rest] eqn:Htoks; simpl in H; break H; inversion H; subst; clear H;
      unfold drops in Htriv; simpl in Htriv;
      apply Forall_cons_iff in Htriv; destruct Htriv as [E1 Htriv];
      apply Forall_cons_iff in Htriv; destruct Htriv as [E2 Htriv];
      apply Forall_cons_iff in Htriv; destruct Htriv as [E3 _]; simpl in E1, E2, E3;
      rewrite stack_text_cons, E1; simpl.
    - rewrite app_nil_r. reflexivity.
    - change (tok_text tk ++ render rest) with (render (tk :: rest)). rewrite E2.
      assert (E4 : err_rest lexerr = []) by (unfold err_rest; destruct lexerr as [[? ?]|]; [exact E3|reflexivity]).
      rewrite E4, app_nil_r. reflexivity.
  Qed.

  Lemma run_lossless lexerr : forall fuel c t evs,
    run tb lexerr fuel c = Done (Ok t) evs -> Inv lexerr c ->
    (forall evs', evs = c_dropped c ++ evs' -> all_trivial evs') -> print true t = s.
  Proof.
    induction fuel as [|f IH]; intros c t evs H HI Htriv; simpl in H; [discriminate|].
    destruct (step tb lexerr c) as [c'|r evs1] eqn:Hs.
    - destruct (step_next _ _ _ Hs HI) as [evs2 [Hd HI']].
      destruct (run_dropped_prefix _ _ _ _ _ H) as [rest Hrest].
      eapply IH; [exact H| |].
      + apply HI'. specialize (Htriv (evs2 ++ rest)).
        assert (Ha : all_trivial (evs2 ++ rest)) by (apply Htriv; rewrite Hrest, Hd, <- app_assoc; reflexivity).
        apply all_trivial_app in Ha. apply Ha.
      + intros evs' He. specialize (Htriv (evs2 ++ evs')).
        assert (Ha : all_trivial (evs2 ++ evs')) by (apply Htriv; rewrite He, Hd, <- app_assoc; reflexivity).
        apply all_trivial_app in Ha. apply Ha.
    - inversion H; subst; clear H. eapply step_final_ok; [exact Hs|exact HI|].
      apply Htriv. reflexivity.
  Qed.
End AnyTables.

(* C01 for any tables: when no ghost event is non-trivial, the printed tree is the input *)
Theorem parse_with_lossless tb s t evs :
  parse_with tb s = Done (Ok t) evs -> all_trivial evs -> print true t = s.
Proof.
  unfold parse_with. destruct (lex s) as [toks e] eqn:Hlex. intros H Htriv.
  destruct (run_dropped_prefix _ _ _ _ _ _ H) as [rest Hrest]. simpl in Hrest.
  eapply (run_lossless tb s e); [exact H| |].
  - unfold Inv, init_config. simpl. split; [|split; constructor].
    destruct toks as [|t0 toks'].
    + (* no token: the ghost says the whole input was swallowed, so it must be empty *)
      subst evs. apply Forall_cons_iff in Htriv. destruct Htriv as [E _]. simpl in E. subst s.
      unfold lex in Hlex. simpl in Hlex. inversion Hlex; subst. reflexivity.
    + apply (lex_lossless s (t0 :: toks') e Hlex). discriminate.
  - intros evs' He. simpl in He. subst evs. apply app_inv_head in He. subst evs'.
    apply all_trivial_app in Htriv. apply Htriv.
Qed.
