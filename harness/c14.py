"""C14 — luqum.thread.parse is thread-safe: under every interleaving each call gives the sequential outcome.

Correspondence for the interleaving model (coq/model/Threads.v), WITHOUT source hooks:

* a deterministic scheduler on REAL threads: `luqum.parser.lexer.clone` is wrapped at run time on the scratch
  copy so that every thread-local clone gets an instrumented `token` method with a turn-taking gate
  (threading.Condition).  A schedule is a list of thread ids, one entry per `token()` call; an entry of a thread
  that has finished is skipped; when the schedule is used up the threads run free;
* oracle: every call's outcome (tree with ALL layout via lib.g_item, or error class + message) equals the
  outcome of a sequential `luqum.parser.parser.parse` of the same input;
* model: every observed (input, outcome) against `Parser.parse`, and a sample of (inputs, schedule) through
  `Threads.run_threads` itself (vm_compute), a `token()` call being the model steps of that thread up to and
  including its next non-separator raw token / end of input / lexical error;
* write-set monitor: `__setattr__` of ply.lex.Lexer, ply.yacc.LRParser and luqum.head_tail.HeadTailLexer is
  traced at run time: which thread assigns which attribute of which object; checked against the model's
  declared footprint (module lexer never written; a thread writes only its own clone and the trackers it
  made; the shared parser object only `token statestack symstack state errorok`; ply.yacc globals only
  `_errok _token _restart`);
* sensitivity self-tests: `luqum.thread.parse` patched (scratch copy, run time) to use the shared module lexer,
  and HeadTailLexer.handle patched to keep ONE shared tracker: the harness must find a failing schedule.
"""
import itertools
import sys
import threading

import lib
import parsegen as PG

# ------------------------------------------------------------------ inputs (always distinct within a run)

VALID = ["a", " a", "a b", " x  y ", "f:v", "a AND b", '"p q"~2', "(a)", "-a b", "a^2 c", "[1 TO 2]", "/r/ x",
         "a OR b c", "\tn:(u v) ", "NOT a", "+a -b", 'f:"x y" z', "a~ b", "x:[a TO b] ", "q　r"]
SYNTAX = ["(c", "a AND", ") b", "a:", "OR", "[a TO", "d )", "a b (", " AND x"]
ILLEGAL = ["d '", "'", "a \\", 'e "x', " f /y", "a b c '"]
BADNUM = ["e^.", "a~1.2.3", '"a b"~1.5', "x y^1..2"]

PAIRS = [("a b c d e", "(f g h i"), (" p:q r^2 ", "x y '"), ("a b", "(c"), (" a", "b "), ("x  y", "d '"), ("e^.", " f:v "), ("a AND b", "c OR"), ('"p q"~2', "z"),
         (" ( u ) ", "a b c"), ("'", "  k l"), ("a~1.2.3", "(m) n"), ("", " w"), ("a:", "b:c d")]


def canon(kind, val):
    if kind == "ok":
        return ("ok", "None" if val is None else lib.g_item(val))
    return (kind, val)


# ------------------------------------------------------------------ scheduler on real threads

class Gate:
    """one entry of `sched` = permission for one token() call of that thread"""

    def __init__(self, sched):
        self.cv = threading.Condition()
        self.sched = list(sched)
        self.idx = 0
        self.finished = set()
        self.trace = []          # the token() calls as they really happened
        self.deadlock = False

    def _skip(self):
        while self.idx < len(self.sched) and self.sched[self.idx] in self.finished:
            self.idx += 1

    def token(self, tid, real):
        with self.cv:
            self._skip()
            ok = self.cv.wait_for(lambda: self.idx >= len(self.sched) or self.sched[self.idx] == tid, timeout=5)
            if not ok:
                self.deadlock = True
                self.idx = len(self.sched)
                self.cv.notify_all()
            gated = self.idx < len(self.sched)
            self.trace.append(tid)
        try:
            return real()
        finally:
            if gated:
                with self.cv:
                    self.idx += 1
                    self._skip()
                    self.cv.notify_all()

    def done(self, tid):
        with self.cv:
            self.finished.add(tid)
            self._skip()
            self.cv.notify_all()


class Rig:
    """instrumentation of one scratch import of luqum"""

    def __init__(self):
        lib.import_luqum()
        import luqum.parser as P
        import luqum.thread as TH
        import luqum.head_tail as HT
        import ply.lex
        import ply.yacc
        self.P, self.TH, self.HT, self.lex, self.yacc = P, TH, HT, ply.lex, ply.yacc
        self.cur = threading.local()
        self.gate = None
        self.clones = {}
        self.log = None            # write-set log when monitoring
        self.keep = []
        self.orig_thread_parse = TH.parse
        self.orig_headtail = P.token_headtail
        orig_clone = P.lexer.clone
        rig = self

        def clone_wrapper(*a, **k):
            c = orig_clone(*a, **k)
            real = c.token                       # bound method of the class, on the clone
            tid = getattr(rig.cur, "tid", None)
            rig.clones[tid] = c

            def token():
                g = rig.gate
                return real() if g is None else g.token(tid, real)
            c.__dict__["token"] = token          # not through __setattr__: not an assignment of the code under test
            return c
        P.lexer.__dict__["clone"] = clone_wrapper

    # -- write-set monitor
    def monitor_on(self):
        self.log = []
        rig = self

        def tracer(cname):
            def __setattr__(obj, name, value):
                rig.log.append((cname, id(obj), name, getattr(rig.cur, "tid", None)))
                rig.keep.append(obj)
                object.__setattr__(obj, name, value)
            return __setattr__
        self.lex.Lexer.__setattr__ = tracer("Lexer")
        self.yacc.LRParser.__setattr__ = tracer("LRParser")
        self.HT.HeadTailLexer.__setattr__ = tracer("HeadTailLexer")
        self.yacc_globals = set(vars(self.yacc))

    def monitor_off(self):
        for cls in (self.lex.Lexer, self.yacc.LRParser, self.HT.HeadTailLexer):
            if "__setattr__" in cls.__dict__:
                delattr(cls, "__setattr__")
        log, self.log, self.keep = self.log, None, []
        return log

    def sequential(self, s):
        """the reference: luqum.parser.parser.parse in this (main) thread, on the module-level lexer"""
        return canon(*PG.impl_parse(s, self.P.parser.parse))

    def count_tokens(self, s):
        """token() calls a sequential parse of s makes"""
        n = [0]
        real = self.P.lexer.token

        def counting():
            n[0] += 1
            return real()
        self.P.lexer.__dict__["token"] = counting
        try:
            PG.impl_parse(s, self.P.parser.parse)
        finally:
            del self.P.lexer.__dict__["token"]
        return n[0]

    def run(self, inputs, sched, switch=None):
        """inputs: list (per thread) of lists of strings; returns (outcomes per thread, gate)"""
        n = len(inputs)
        self.gate = Gate(sched) if sched is not None else None
        gate = self.gate
        if getattr(self, "deadlocks", 0) >= 4 and gate is not None:
            # the turn-taking scheduler has already dead-locked several times in this run (each costs a time-out):
            # the remaining scheduled runs are reported as dead-locked without being executed, so that a broken
            # locking discipline makes the check FAIL FAST instead of hanging for hours
            gate.deadlock = True
            self.gate = None
            return [None] * n, gate
        self.clones = {}
        results = [None] * n
        barrier = threading.Barrier(n)
        rig = self

        def worker(tid):
            rig.cur.tid = tid
            outs = []
            try:
                barrier.wait(timeout=30)
                for s in inputs[tid]:
                    outs.append(canon(*PG.impl_parse(s, rig.TH.parse)))
            finally:
                results[tid] = outs
                if gate is not None:
                    gate.done(tid)
        old = sys.getswitchinterval()
        if switch:
            sys.setswitchinterval(switch)
        try:
            ths = [threading.Thread(target=worker, args=(t,)) for t in range(n)]
            for t in ths:
                t.start()
            for t in ths:
                t.join(20)
        finally:
            sys.setswitchinterval(old)
        if gate is not None and (gate.deadlock or any(t.is_alive() for t in ths)):
            gate.deadlock = True
            self.deadlocks = getattr(self, "deadlocks", 0) + 1
        self.gate = None
        return results, gate

    # -- sensitivity variants (scratch copy only, restored afterwards)
    def patch_shared_lexer(self):
        P, rig = self.P, self
        real = P.lexer.token

        def token():
            g = rig.gate
            tid = getattr(rig.cur, "tid", None)
            return real() if g is None or tid is None else g.token(tid, real)
        P.lexer.__dict__["token"] = token
        self.TH.parse = lambda input=None, **kw: P.parser.parse(input, lexer=P.lexer)

    def unpatch_shared_lexer(self):
        self.P.lexer.__dict__.pop("token", None)
        self.TH.parse = self.orig_thread_parse

    def patch_shared_tracker(self):
        H = self.HT.HeadTailLexer
        box = {}

        def handle(token, orig_value):
            if token.lexpos == 0:
                box["inst"] = H()
            box["inst"].handle_token(token, orig_value)
        self.P.token_headtail = handle

    def unpatch_shared_tracker(self):
        self.P.token_headtail = self.orig_headtail


def interleavings(a, b):
    """all orders of a turns of thread 0 and b turns of thread 1"""
    for pos in itertools.combinations(range(a + b), a):
        s = [1] * (a + b)
        for p in pos:
            s[p] = 0
        yield s


# ------------------------------------------------------------------ write-set check against the declared footprint

LEXER_OK = {"lexdata", "lexpos", "lexlen", "_luqum_headtail", "lexmatch"}
# lexdata+lexlen = LLexer FData, lexpos = FPos, _luqum_headtail = FAttr; lexmatch is assigned by token() on the same
# (owned) lexer object and never read by luqum: not a location of the model
PARSER_OK = {"token", "statestack", "symstack", "state", "errorok"}          # Threads.pattr
PLY_OK = {"_errok", "_token", "_restart"}                                    # Threads.pglobal


def check_writes(rig, log, ctx, res, stats):
    owner = {}
    for cname, oid, name, tid in log:
        stats[(cname, name)] = stats.get((cname, name), 0) + 1
        bad = None
        if cname == "Lexer":
            if oid == id(rig.P.lexer):
                bad = "the module-level lexer was assigned"
            elif tid is None or rig.clones.get(tid) is None or id(rig.clones[tid]) != oid:
                bad = "a thread assigned a lexer that is not its own clone"
            elif name not in LEXER_OK:
                bad = "lexer attribute outside the declared footprint"
        elif cname == "LRParser":
            if oid != id(rig.P.parser) or name not in PARSER_OK:
                bad = "parser attribute outside the declared sinks"
        elif cname == "HeadTailLexer":
            if owner.setdefault(oid, tid) != tid:
                bad = "a tracker object was assigned by two threads"
        if bad:
            res.failures.append((dict(ctx, why=bad, write=[cname, name, tid]), None))
            return
    extra = set(vars(rig.yacc)) - rig.yacc_globals - PLY_OK
    if extra:
        res.failures.append((dict(ctx, why="ply.yacc globals outside the declared sinks", names=sorted(extra)), None))


# ------------------------------------------------------------------ model side

MODEL_IMPORTS = PG.PARSE_IMPORTS + " Threads"
MODEL_DEFS = PG.PARSE_DEFS.replace("Definition chk", "Definition chk_parse") + """
Definition same (r : option (res item)) (x : pexp) : bool :=
  match r, x with
  | Some (Ok t), PExpOk t' => item_beq t t'
  | Some (Err (ESyntax m)), PExpSyntax m' => str_eqb m m'
  | Some (Err (EIllegal m)), PExpIllegal m' => str_eqb m m'
  | _, _ => false
  end.
Fixpoint all_same (rs : list (option (res item))) (xs : list pexp) : bool :=
  match rs, xs with
  | [], [] => true
  | r :: rs', x :: xs' => same r x && all_same rs' xs'
  | _, _ => false
  end.
Definition is_lex (l : local) : bool := match l_phase l with PLex _ => true | _ => false end.
(* one token() call of thread t: its steps up to and including the next non-separator raw token, the end of
   the input or a lexical error *)
Fixpoint advance (sc : scopes) (t : tid) (fuel : nat) (w : world) : world :=
  match fuel with
  | O => w
  | S f =>
      if finished (w_locals w t) then w else
      let w' := step_thread sc t w in
      let n0 := length (tb_racc (s_toks (w_store w) t)) in
      let n1 := length (tb_racc (s_toks (w_store w') t)) in
      let lx := is_lex (w_locals w t) in
      if (lx && Nat.ltb n0 n1) || (lx && negb (is_lex (w_locals w' t))) then w' else advance sc t f w'
  end.
Fixpoint run_tok (sc : scopes) (sched : list tid) (w : world) : world :=
  match sched with [] => w | t :: r => run_tok sc r (advance sc t 3000 w) end.
Definition chk (c : list (list str) * list nat * list (list pexp)) : bool :=
  let '(ins, sched, exp) := c in
  let n := length ins in
  let w := run_threads gen_scopes (sequential (seq 0 n) 3000)
                       (run_tok gen_scopes sched (init_world (fun t => nth t ins []) store0)) in
  forallb (fun t => all_same (outcomes w t) (nth t exp [])) (seq 0 n).
"""


def pexp(c):
    k, v = c
    if k == "ok":
        return "PExpNone" if v == "None" else "(PExpOk %s)" % v
    if k == "syntax":
        return "(PExpSyntax %s)" % lib.g_str(PG.canon_error(k, v) or v)     # wording is not part of the property
    if k == "illegal":
        return "(PExpIllegal %s)" % lib.g_str(PG.canon_error(k, v) or v)
    return "PExpOther"


def model_case(inputs, sched, outs):
    return "(%s, %s, %s)" % (
        lib.g_list([lib.g_list([lib.g_str(s) for s in ins]) for ins in inputs]),
        lib.g_list(["%d%%nat" % t for t in sched]),
        lib.g_list([lib.g_list([pexp(c) for c in o]) for o in outs]))


# ------------------------------------------------------------------ the check

def correspond(model_ok, res):
    r = lib.rng("C14")
    quick = lib.tier() == "quick"
    rig = Rig()
    pool = VALID + SYNTAX + ILLEGAL + BADNUM
    g = PG.QGen(r, bad_numbers=0.05)
    for _ in range(40 if quick else 400):
        pool.append(PG.layout(r, g.expr(r.randrange(0, 3)), p_sep=r.choice([0.2, 0.6, 0.9])))
    pool = sorted(set(pool))
    r.shuffle(pool)

    # process-global interpreter setting as found before any call of the code under test (see scenario 3c)
    limit0 = sys.get_int_max_str_digits() if hasattr(sys, "get_int_max_str_digits") else None
    seq = {}                       # input -> sequential outcome (the module-level lexer gets used: it is stale afterwards)

    def expected(s):
        if s not in seq:
            seq[s] = rig.sequential(s)
        return seq[s]

    runs = []                      # (inputs, sched, outs, real trace)
    kinds, nthreads, interleaved = {}, {}, 0
    nontrivial = set()
    wstats = {}

    def judge(inputs, sched, outs, gate, what):
        nonlocal interleaved
        ctx = {"inputs": inputs, "schedule": sched, "mode": what}
        if gate is not None and gate.deadlock:
            res.failures.append((dict(ctx, why="scheduler deadlock (a thread never asked for its token)"), None))
        ok = True
        for tid, (ins, out) in enumerate(zip(inputs, outs)):
            exp = [expected(s) for s in ins]
            if out is None or list(out) != exp:
                ok = False
                res.failures.append((dict(ctx, thread=tid, why="outcome differs from the sequential call",
                                          got=[[c[0], str(c[1])[:300]] for c in (out or [])],
                                          sequential=[[c[0], str(c[1])[:300]] for c in exp]), None))
            for c in exp:
                kinds[c[0]] = kinds.get(c[0], 0) + 1
        nthreads[len(inputs)] = nthreads.get(len(inputs), 0) + 1
        tr = gate.trace if gate is not None else []
        switches = sum(1 for a, b in zip(tr, tr[1:]) if a != b)
        if switches >= 2:
            interleaved += 1
            nontrivial.add((tuple(map(tuple, inputs)), tuple(sched or ())))
        return ok

    # --- 1. exhaustive: all interleavings of 2 threads x <= 6 token() calls, several distinct input pairs
    pairs = PAIRS
    exhaustive = 0
    for pi, (s0, s1) in enumerate(pairs):
        a, b = min(rig.count_tokens(s0), 6), min(rig.count_tokens(s1), 6)
        expected(s0), expected(s1)
        monitor = True
        for sched in interleavings(a, b):
            inputs = [[s0], [s1]]
            mon = monitor or exhaustive % 37 == 0
            if mon:
                rig.monitor_on()
            outs, gate = rig.run(inputs, sched)
            if mon:
                check_writes(rig, rig.monitor_off(), {"inputs": inputs, "schedule": sched}, res, wstats)
                monitor = False
            judge(inputs, sched, outs, gate, "exhaustive-2x6")
            runs.append((inputs, sched, outs))
            exhaustive += 1

    # --- 2. several calls per thread (the thread-local clone is re-used), random schedules; 3 threads
    n_random = 240 if quick else 2500
    for i in range(n_random):
        n = 2 if (quick and i % 3) else 3
        chosen = r.sample(pool, n * 3)
        inputs = [chosen[t * 3:t * 3 + r.randrange(1, 4)] for t in range(n)]
        total = sum(rig.count_tokens(s) for ins in inputs for s in ins)
        sched = [r.randrange(n) for _ in range(total + 5)]
        if i % 4 == 0:
            rig.monitor_on()
        outs, gate = rig.run(inputs, sched)
        if i % 4 == 0:
            check_writes(rig, rig.monitor_off(), {"inputs": inputs, "schedule": sched}, res, wstats)
        judge(inputs, sched, outs, gate, "random-schedule")
        runs.append((inputs, sched, outs))

    # --- 2b. quantities that are harmless in one thread but add up across threads (nesting depth, length):
    # every thread parses a deeply nested / long query, round-robin schedule so that all are in flight together
    n_heavy = 6 if quick else 40
    for i in range(n_heavy):
        n = r.choice([4, 5, 6])
        inputs = []
        for t in range(n):
            d = r.randrange(28, 46)
            if i % 3 == 2:
                q = " ".join("w%d_%d" % (t, j) for j in range(d * 2))
            else:
                q = "(" * d + "a%d:1 OR b%d" % (t, i) + ")" * d
            inputs.append([q])
        longest = max(rig.count_tokens(ins[0]) for ins in inputs)
        sched = [t for _ in range(longest + 2) for t in range(n)]
        outs, gate = rig.run(inputs, sched)
        judge(inputs, sched, outs, gate, "heavy-round-robin")
        runs.append((inputs, sched, outs))

    # --- 3. free-running stress, tiny switch interval
    stress_rounds = 6 if quick else 40
    stress_calls = 0
    for i in range(stress_rounds):
        n = 6 if quick else 12
        per = 15 if quick else 60
        inputs = [[r.choice(pool) for _ in range(per)] for _ in range(n)]
        for t in range(n):                                    # distinct inputs at the same call index
            inputs[t] = [pool[(i * 7 + t * 13 + j * n + t) % len(pool)] for j in range(per)]
        outs, _ = rig.run(inputs, None, switch=1e-6)
        judge(inputs, None, outs, None, "stress-switchinterval-1e-6")
        stress_calls += n * per

    # --- 3b. stress on what the semantic actions call (numerals of very different lengths, long phrases): state
    # shared below the lexer / tracker level (a module-level context, buffer, counter) only shows here
    numerals = ["price^12345678901234567890.5", "b^2", "colour~0.123456789012", "color~1", '"x y"~12345 z^0.000000001',
                "a^1.50 b~.5 c^007", "q^99999999999999999999999999999999", "w~0.5",
                # numerals beyond the interpreter's int <-> str digit limit (a process-global setting)
                '"jumps over"~' + "1" * 5000 + "^2", 'x "c d"~' + "7" * 4400, '"a b"~' + "9" * 6000 + ' "e f"~' + "3" * 4301]
    heavy_rounds = 3 if quick else 20
    for i in range(heavy_rounds):
        n = 4
        per = 120 if quick else 400
        inputs = [[numerals[(j + t * 3 + i) % len(numerals)] for j in range(per)] for t in range(n)]
        if limit0 is not None and sys.get_int_max_str_digits() != limit0:
            sys.set_int_max_str_digits(limit0)
        outs, _ = rig.run(inputs, None, switch=1e-6)
        judge(inputs, None, outs, None, "stress-numerals-switchinterval-1e-6")
        stress_calls += n * per

    # --- 3c. many SHORT free-running rounds on numerals beyond the interpreter's int <-> str digit limit: code that
    # lifts a process-global interpreter setting around a conversion races with itself; the first race usually leaves
    # the setting lifted for good (after which nothing can fail any more), so the settings found at the start are
    # put back before every round and the rounds are short and many
    shapes = [[['"a b"~' + str(t % 9 + 1) * (4400 + j + 7 * t) for j in range(per)] for t in range(n)]
              for n, per in ((3, 2), (16, 1), (4, 6), (8, 6), (8, 2))]
    short_rounds = 1500 if quick else 8000
    leaks, short_failed = 0, 0
    for i in range(short_rounds):
        over = shapes[(i // 50) % len(shapes)]
        if limit0 is not None and sys.get_int_max_str_digits() != limit0:
            leaks += 1
            sys.set_int_max_str_digits(limit0)
        outs, _ = rig.run(over, None, switch=1e-6)
        if not judge(over, None, outs, None, "short-rounds-over-limit-numerals-switchinterval-1e-6"):
            short_failed += 1
            if short_failed >= 3:
                break
        stress_calls += sum(len(x) for x in over)
    if limit0 is not None and sys.get_int_max_str_digits() != limit0:
        leaks += 1
        sys.set_int_max_str_digits(limit0)
    if leaks:
        res.notes.append("a process-global interpreter setting (sys int max str digits) was found changed after %d of "
                         "the short rounds of concurrent calls and was put back by the harness" % leaks)

    # --- 4. sensitivity self-tests: the harness must FIND a failing schedule when the partition is broken
    def sensitivity(patch, unpatch, s0, s1, label):
        a, b = min(rig.count_tokens(s0), 6), min(rig.count_tokens(s1), 6)
        e0, e1 = expected(s0), expected(s1)
        patch()
        found, tried = None, 0
        try:
            for sched in interleavings(a, b):
                tried += 1
                outs, gate = rig.run([[s0], [s1]], sched)
                if outs[0] != [e0] or outs[1] != [e1]:
                    found = (sched, [[c[0], str(c[1])[:120]] for o in outs for c in (o or [])])
                    break
        finally:
            unpatch()
        if found is None:
            res.failures.append(({"why": "sensitivity self-test: no failing schedule found with " + label,
                                  "inputs": [s0, s1], "schedules_tried": tried}, None))
            res.notes.append("sensitivity %s: NOT detected (%d schedules)" % (label, tried))
        else:
            res.notes.append("sensitivity %s: inputs %r / %r fail under schedule %s after %d schedules, outcomes %s"
                             % (label, s0, s1, found[0], tried, found[1]))
        return found
    sensitivity(rig.patch_shared_lexer, rig.unpatch_shared_lexer, "a b", "(c",
                "luqum.thread.parse patched to use the shared module lexer")
    # the inputs of the Coq witness C14_shared_lexer_refuted ("a" / "b") on the patched code: with one lexer the
    # later input() wins and both threads tokenise the same string
    rig.patch_shared_lexer()
    try:
        outs, _ = rig.run([["a"], ["b"]], [0, 1, 0, 1])
        differs = outs[0] != [expected("a")] or outs[1] != [expected("b")]
        res.notes.append("inputs of C14_shared_lexer_refuted ('a' / 'b') on the patched code: %s; outcomes %s"
                         % ("a thread's outcome differs from its sequential one" if differs else "NO difference seen",
                            [[c[0], str(c[1])[:80]] for o in outs for c in (o or [])]))
    finally:
        rig.unpatch_shared_lexer()
    sensitivity(rig.patch_shared_tracker, rig.unpatch_shared_tracker, " a", "b ",
                "HeadTailLexer.handle patched to keep one shared tracker (inputs of C14_shared_tracker_refuted)")
    # after restoring, the same pairs pass again
    for s0, s1 in (("a b", "(c"), (" a", "b ")):
        a, b = min(rig.count_tokens(s0), 6), min(rig.count_tokens(s1), 6)
        for sched in itertools.islice(interleavings(a, b), 0, 40):
            outs, gate = rig.run([[s0], [s1]], sched)
            judge([[s0], [s1]], sched, outs, gate, "after-restore")

    res.cases = len(runs) + stress_rounds
    res.nontrivial = len(nontrivial)
    res.rule = ("runs of real threads calling luqum.thread.parse on DISTINCT inputs (valid, syntax error, illegal "
                "character, malformed number; fixed corpus + grammar-generated queries with random layout): all "
                "interleavings of 2 threads x <= 6 token() calls for %d input pairs under the enforced scheduler, "
                "random schedules for 2-3 threads making 1-3 calls each, and a free-running stress with "
                "sys.setswitchinterval(1e-6); non-trivial = distinct (inputs, schedule) whose REAL token() trace "
                "switches thread at least twice" % len(pairs))
    res.samples = [{"inputs": i, "schedule": s} for i, s, _ in (runs[5:7] + runs[-2:])]
    res.distribution = {"exhaustive_2x6_runs": exhaustive, "random_schedule_runs": n_random,
                        "stress_rounds": stress_rounds, "stress_calls": stress_calls,
                        "runs_with_real_interleaving": interleaved, "threads_per_run": nthreads,
                        "sequential_outcome_kinds": kinds, "distinct_inputs": len(seq),
                        "monitored_assignments": {"%s.%s" % k: v for k, v in sorted(wstats.items())}}
    if not model_ok:
        res.model_error = "model did not build"
        return
    try:
        # every observed outcome against Parser.parse
        # (numerals beyond the interpreter's int <-> str digit limit are refused by CPython itself, a size limit the
        #  model does not have — DESIGN section 8: those inputs are judged against the sequential outcome only)
        import re as _re
        strings = sorted(s for s in seq if not _re.search(r"[0-9]{4000}", s))
        cases = ["(%s, %s)" % (lib.g_str(s), pexp(seq[s])) for s in strings]
        canary = "([97]%N, PExpSyntax [97]%N)"
        bad = lib.eval_cases("C14p", MODEL_IMPORTS, MODEL_DEFS, cases + [canary], "chk_parse", shard=120)
        assert len(cases) in bad, "canary not detected"
        for i in bad:
            if i < len(cases):
                res.disagreements.append({"input": strings[i], "implementation": list(seq[strings[i]])[:1],
                                          "what": "Parser.parse vs sequential luqum.parser.parser.parse"})
        # a sample of (inputs, schedule) through Threads.run_threads itself
        sample = [x for x in runs if x[1] is not None and sum(len(s) for ins in x[0] for s in ins) <= 40]
        r.shuffle(sample)
        sample = sample[:40 if quick else 300]
        mcases = [model_case(i, s, o) for i, s, o in sample]
        canary2 = model_case([["a"], ["b"]], [0, 1, 0, 1], [[("ok", "None")], [("syntax", "x")]])
        bad = lib.eval_cases("C14t", MODEL_IMPORTS, MODEL_DEFS, mcases + [canary2], "chk", shard=10)
        assert len(mcases) in bad, "canary not detected"
        for i in bad:
            if i < len(mcases):
                res.disagreements.append({"inputs": sample[i][0], "schedule": sample[i][1],
                                          "what": "Threads.run_threads (generated scopes) vs real threads"})
        res.cases += len(cases) + len(mcases)
        res.distribution["model_parse_cases"] = len(cases)
        res.distribution["model_run_threads_cases"] = len(mcases)
    except Exception as e:
        res.model_error = "%s: %s" % (type(e).__name__, e)


SPEC = {
    "id": "C14",
    "targets": ["props/C14.vo"],
    "model_targets": ["model/Threads.vo", "model/TreeEq.vo"],
    "module": "C14",
    "theorems": ["C14_ties", "C14_footprints_disjoint", "C14_view_determines_step",
                 "C14_other_threads_preserve_view", "C14_writes_complete", "C14_sinks_never_observed",
                 "C14_foreign_tracker_never_touched", "C14_interleaving_independent", "C14_results_so_far",
                 "C14_shared_lexer_refuted", "C14_shared_tracker_refuted", "C14_sequential", "C14_finished_noop"],
    "correspond": correspond,
    "statement": "in the interleaving model of concurrent luqum.thread.parse calls (explicit shared store of "
                 "locations; which lexer and which head/tail tracker a thread uses computed from the GENERATED "
                 "scopes) every thread, for any number of threads and calls, any inputs, any initial store and "
                 "ANY schedule that gives it enough turns, obtains exactly Parser.parse of each of its inputs; the "
                 "footprints of different threads meet only in write-only sinks and the read-only module lexer; "
                 "with a shared lexer or a shared tracker the same model has a failing two-thread schedule",
    "level_text": "PARTIAL. Coq proof by state partition (view of a thread determines its steps; every step of "
                  "another thread preserves that view; projection over the schedule, no enumeration) at the "
                  "granularity of ONE PLY-level operation per atomic step (obtain-or-create the thread's lexer, "
                  "lexer.input, one attribute assignment of the driver prologue, one raw token of lexer.token() "
                  "with HeadTailLexer.handle, one shift/reduce/accept/error). Preemption INSIDE such an operation "
                  "(CPython byte code, the C regex engine, copy.copy in clone()), the GIL and interpreter "
                  "internals are outside an executable Gallina model; within a thread the model lexes eagerly "
                  "(all token steps of a call before its driver steps) while PLY pulls tokens on demand. These "
                  "gaps are covered only by the scheduler harness on real threads (exhaustive small "
                  "interleavings at token() granularity, random schedules, switch-interval stress) and by the "
                  "run-time write-set monitor, i.e. by testing, not by proof.",
    "trusted_base": [
        "Coq 8.16.1 kernel (vm_compute for the two refutation witnesses, the non-vacuity examples and the "
        "correspondence; no native_compute); no axioms",
        "gen/gen_parser.py: thread lexer scope (source of luqum.thread.parse: clone kept in a threading.local), "
        "tracker scope (AST of HeadTailLexer.handle: setattr on token.lexer, reset at lexpos 0), parse entry, "
        "defaulted states, PLY tables",
        "hand-written Threads.v: the list of locations and which PLY-level operation reads/writes which — read "
        "from ply/lex.py (clone = copy.copy, input, token) and ply/yacc.py (parseopt_notrack assigns "
        "self.token/statestack/symstack/state/errorok and uses only local aliases; call_errorfunc sets "
        "_errok/_token/_restart) — tied at run time by the __setattr__ write-set monitor of harness/c14.py",
        "Lexer.v, LR.v, Actions.v, Parser.v (sequential model; tied by C01-C04 correspondence)",
        "atomicity of one PLY-level operation (assumed, see level_text)",
    ],
    "assumptions": ["each step of Threads.step is atomic (one PLY-level operation)",
                    "inputs are str; debug/tracking/tokenfunc and a caller-supplied lexer are ignored by "
                    "luqum.thread.parse and not modelled",
                    "threads do not share the returned trees; threading.local gives each thread its own slot"],
}
