(* Erase.v — forgetting layout: every meta (pos, size, head, tail, name) reset.  Used to state
   "equal trees whatever the whitespace".  Executable definitions only. *)
Require Import Base Decimal Tree GenParser Lexer Actions.

Fixpoint erase (t : item) : item :=
  match t with
  | Term k _ v => Term k meta0 v
  | SearchField _ n e => SearchField meta0 n (erase e)
  | Grp k _ e => Grp k meta0 (erase e)
  | Range _ lo hi il ih => Range meta0 (erase lo) (erase hi) il ih
  | Fuzzy _ x d i => Fuzzy meta0 (erase x) d i
  | Proximity _ x d i => Proximity meta0 (erase x) d i
  | Boost _ e f i => Boost meta0 (erase e) f i
  | Op k _ ops => Op k meta0 (map erase ops)
  | Unary k _ a => Unary k meta0 (erase a)
  | ORange k _ a i => ORange k meta0 (erase a) i
  | NoneItem _ => NoneItem meta0
  end.

Definition erase_sv (v : symval) : symval :=
  match v with
  | VItem i => VItem (erase i)
  | VTok l x m =>
      (* whether a position is known is kept: an error message of the actions needs it *)
      VTok l x (mkMeta (match m_pos m with Some _ => Some 0%Z | None => None end) None [] [] None)
  end.

(* what the parser's decisions and the erased tree depend on *)
Definition tok_key (t : token) : tok * str := (tk_type t, tk_lexeme t).

(* outcome up to layout: the erased tree, or the class of the error *)
Inductive eoutcome := EOk (t : item) | ESyn | EIll | EOth (n : nat).
Definition erase_res (r : res item) : eoutcome :=
  match r with
  | Ok t => EOk (erase t)
  | Err (ESyntax _) => ESyn
  | Err (EIllegal _) => EIll
  | Err (EOther n) => EOth n
  end.
