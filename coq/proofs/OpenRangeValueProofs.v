(* OpenRangeValueProofs.v — for C12v: the VALUE semantics of a whole query tree (comparisons and ranges read as
   conditions on a field value, operations as connectives) and the proof that OpenRangeTransformer preserves it,
   conversion step included; and the exact copy of every node that is not a comparison.
   Model: model/OpenRange.v.  Reuses proofs/OpenRangeProofs.v (`low_ok`, `high_ok`, `holds`, `conj`,
   `merge_steps_conj`, `merge_children_spec`).  Statements are in props/C12v.v.

   A  vocabulary: model/OpenRangeValue.v (`holds_full`, `wild_unbounded`, `layout_blind`, `shaped`, `copy_of`)
   B  lemmas on the model: `node_result_cases`, `generic_result_exact`
   C  `value_preserved`
   D  the exact conversion relation `ConvX` (every node but a comparison is `copy_of (reinit t)`), `open_range_convx`,
      what `copy_of` keeps (`copy_of_facts`) *)
Require Import Base Decimal Tree GenTree GenVisitors Visitor Eq OpenRange TreeInd OpenRangeProofs OpenRangeValue.
Require Erase EqSpec EqProofs.
From Coq Require Import Lia.

(* ================================================================ A. link with C12's vocabulary *)

(* the one-sided conditions of holds_full are C12's *)
Lemma low_cond_ok V le bv x lo il : low_cond V le bv x lo il = low_ok V le bv x lo il.
Proof. reflexivity. Qed.
Lemma high_cond_ok V le bv x hi ih : high_cond V le bv x hi ih = high_ok V le bv x hi ih.
Proof. reflexivity. Qed.

(* ================================================================ B. lemmas on the model *)

Lemma node_result_cases merge ah t cs' :
  node_result merge ah t cs' =
  match t with
  | Op KAnd m _ =>
      if merge then Some (Op KAnd (clone_meta m) (merge_children cs')) else generic_result t cs'
  | ORange KFrom _ _ _ => from_to SLow ah t cs'
  | ORange KTo _ _ _ => from_to SHigh ah t cs'
  | _ => generic_result t cs'
  end.
Proof. destruct t as [[]| | []| | | | |[]|[]|[]|]; reflexivity. Qed.

(* TreeTransformer.generic_visit on ANY node: the copy of the node as its constructor re-initialises it
   (EqSpec.reinit: an implicit degree / force is reset to its default, an explicit force re-normalised;
   the identity on every node built by the constructors) *)
Lemma generic_result_exact t cs' t' :
  generic_result t cs' = Some t' -> t' = copy_of (EqSpec.reinit t) cs'.
Proof.
  unfold generic_result, copy_of, rebuild.
  destruct t as [[]| | []| | m x d [] | m x d [] | m e f [] |k m ops|[]|[]|]; simpl; intros H;
    try (inversion H; subst; reflexivity);
    repeat (destruct cs' as [|? cs']; simpl in H; try discriminate H);
    inversion H; subst; reflexivity.
Qed.

Lemma open_range_children merge ah t t' :
  open_range merge ah t = Some t' ->
  exists cs', Forall2 (fun c c' => open_range merge ah c = Some c') (children t) cs' /\
              node_result merge ah t cs' = Some t'.
Proof.
  rewrite open_range_unfold.
  destruct (visit_children (open_range merge ah) (children t)) as [cs'|] eqn:Hvc; [|discriminate].
  intros H. exists cs'. split; [apply visit_children_map; exact Hvc|exact H].
Qed.

Lemma open_range_term merge ah k m v b' :
  open_range merge ah (Term k m v) = Some b' -> b' = Term k (clone_meta m) v.
Proof.
  intros H. apply open_range_children in H. destruct H as [cs' [HF H]].
  simpl in HF. inversion HF; subst. rewrite node_result_cases in H.
  apply generic_result_exact in H. exact H.
Qed.

Lemma simple_bound_erase merge ah b b' :
  simple_bound b = true -> open_range merge ah b = Some b' -> Erase.erase b' = Erase.erase b.
Proof.
  intros Hs H. destruct b as [k m v| | | | | | | |k m a| |]; try discriminate Hs.
  - apply open_range_term in H. subst. reflexivity.
  - destruct a as [k0 m0 v0| | | | | | | | | |]; try discriminate Hs.
    apply open_range_children in H. destruct H as [cs' [HF H]].
    simpl in HF. inversion HF as [|? a' ? ? Ha HF']; subst. inversion HF'; subst.
    apply open_range_term in Ha. subst a'.
    rewrite node_result_cases in H. apply generic_result_exact in H. subst b'.
    destruct k; reflexivity.
Qed.

(* class of the output node *)
Lemma cls_reinit t : cls_of (EqSpec.reinit t) = cls_of t.
Proof. destruct t as [| | | |? ? ? []|? ? ? []|? ? ? []| | | |]; reflexivity. Qed.

Lemma cls_copy_of t cs : cls_of (copy_of t cs) = cls_of t.
Proof. unfold copy_of. rewrite cls_rebuild, cls_set_meta. reflexivity. Qed.

Lemma open_range_cls merge ah t t' :
  open_range merge ah t = Some t' ->
  cls_of t' = match t with ORange _ _ _ _ => CRange | _ => cls_of t end.
Proof.
  intros H. apply open_range_children in H. destruct H as [cs' [HF H]].
  rewrite node_result_cases in H.
  assert (Hg : generic_result t cs' = Some t' -> cls_of t' = cls_of t).
  { intros Hg. apply generic_result_exact in Hg. subst. rewrite cls_copy_of. apply cls_reinit. }
  destruct t as [| | | | | | |[] m ops| |[] m a incl|]; try (exact (Hg H)).
  - destruct merge; [inversion H; reflexivity|exact (Hg H)].
  - unfold from_to in H. destruct cs' as [|c cs']; [discriminate|].
    rewrite clone_wildcard in H. inversion H; reflexivity.
  - unfold from_to in H. destruct cs' as [|c cs']; [discriminate|].
    rewrite clone_wildcard in H. inversion H; reflexivity.
Qed.

Lemma is_plus_cls c : is_plus c = cls_eqb (cls_of c) CPlus.
Proof. destruct c as [[]| |[]| | | | |[]|[]|[]|]; reflexivity. Qed.
Lemma is_prohibit_cls c : is_prohibit c = cls_eqb (cls_of c) CProhibit.
Proof. destruct c as [[]| |[]| | | | |[]|[]|[]|]; reflexivity. Qed.

Lemma open_range_clause_kind merge ah c c' :
  open_range merge ah c = Some c' -> is_plus c' = is_plus c /\ is_prohibit c' = is_prohibit c.
Proof.
  intros H. apply open_range_cls in H. rewrite !is_plus_cls, !is_prohibit_cls, H.
  destruct c as [| | | | | | | | |[]|]; split; reflexivity.
Qed.

(* ================================================================ C. the value is preserved *)

Lemma forallb_ext_ {A} (f g : A -> bool) l : (forall x, f x = g x) -> forallb f l = forallb g l.
Proof. intros H. induction l as [|x l IH]; simpl; [reflexivity|]. rewrite H, IH. reflexivity. Qed.

Section Preservation.
  Variable V : Type.
  Variable le : V -> V -> bool.
  Variable bv : item -> option V.
  Variable fv : list str -> V.
  Variable opq : list str -> item -> bool.
  Variable dflt : bool.
  Hypothesis Hwild : wild_unbounded bv.
  Hypothesis Hbv : layout_blind bv.
  Hypothesis Hopq : forall cx, layout_blind (opq cx).
  Variable merge : bool.
  Variable ah : str.

  Local Notation hf := (holds_full V le bv fv opq dflt).

  (* C12's `holds` with the opaque operands read by holds_full IS holds_full *)
  Lemma holds_hf cx t : holds V le bv (hf cx) (fv cx) t = hf cx t.
  Proof. destruct t as [| | | | | | |[]|[]|[]|]; reflexivity. Qed.

  Lemma conj_hf cx l : conj V le bv (hf cx) (fv cx) l = forallb (hf cx) l.
  Proof. unfold conj. apply forallb_ext_. intros x. apply holds_hf. Qed.

  (* the merge step of C12 (any sequence of merge steps), on whole-tree semantics *)
  Lemma merge_steps_hf cx l l' : merge_steps l l' -> forallb (hf cx) l' = forallb (hf cx) l.
  Proof.
    intros H. rewrite <- !conj_hf. symmetry.
    exact (merge_steps_conj V le bv (hf cx) Hwild (fv cx) l l' H).
  Qed.

  Definition same_clause (cx : list str) (c c' : item) : Prop :=
    hf cx c' = hf cx c /\ is_plus c' = is_plus c /\ is_prohibit c' = is_prohibit c.

  Lemma pointwise_ops cx l l' :
    Forall2 (same_clause cx) l l' ->
    forallb (hf cx) l' = forallb (hf cx) l /\ existsb (hf cx) l' = existsb (hf cx) l /\
    bool_reading (hf cx) l' = bool_reading (hf cx) l.
  Proof.
    intros H. unfold bool_reading.
    assert (H1 : forallb (hf cx) l' = forallb (hf cx) l /\ existsb (hf cx) l' = existsb (hf cx) l /\
                 forallb (fun c => if is_plain c then true else hf cx c) l' =
                 forallb (fun c => if is_plain c then true else hf cx c) l /\
                 existsb is_plain l' = existsb is_plain l /\ existsb is_plus l' = existsb is_plus l /\
                 existsb (fun c => is_plain c && hf cx c) l' = existsb (fun c => is_plain c && hf cx c) l).
    { induction H as [|c c' l l' [Hh [Hp Hq]] _ IH]; simpl; [repeat split; reflexivity|].
      destruct IH as [I1 [I2 [I3 [I4 [I5 I6]]]]].
      unfold is_plain in *. rewrite Hh, Hp, Hq, I1, I2, I3, I4, I5, I6. repeat split; reflexivity. }
    destruct H1 as [I1 [I2 [I3 [I4 [I5 I6]]]]]. rewrite I1, I2, I3, I4, I5, I6. repeat split; reflexivity.
  Qed.

  Definition preserved (t : item) : Prop :=
    forall t', open_range merge ah t = Some t' -> shaped t = true -> forall cx, hf cx t' = hf cx t.

  Lemma operands_same_clause cx ops cs' :
    Forall preserved ops -> forallb shaped ops = true ->
    Forall2 (fun c c' => open_range merge ah c = Some c') ops cs' ->
    Forall2 (same_clause cx) ops cs'.
  Proof.
    intros HP Hs HF. revert HP Hs.
    induction HF as [|c c' l l' Hc _ IH]; intros HP Hs; [constructor|].
    inversion HP as [|? ? Pc Pl]; subst. simpl in Hs. apply andb_prop in Hs. destruct Hs as [Hs1 Hs2].
    constructor; [|exact (IH Pl Hs2)].
    destruct (open_range_clause_kind _ _ _ _ Hc) as [Hp Hq].
    split; [exact (Pc c' Hc Hs1 cx)|split; assumption].
  Qed.

  Lemma bv_bound b b' :
    simple_bound b = true -> open_range merge ah b = Some b' -> forall m, bv (set_meta b' m) = bv b.
  Proof.
    intros Hs H m. apply Hbv. rewrite <- (simple_bound_erase merge ah b b' Hs H).
    destruct b'; reflexivity.
  Qed.

  Lemma bv_star m : bv (Term KWord m [c_star]) = None.
  Proof. apply Hwild. apply is_wildcard_spec. eexists. reflexivity. Qed.

  Theorem value_preserved : forall t, preserved t.
  Proof.
    apply item_children_ind. intros t IH t' H Hs cx.
    apply open_range_children in H. destruct H as [cs' [HF H]].
    rewrite node_result_cases in H.
    destruct t as [k m v|m n e|k m e|m lo hi il ih|m x d i|m x d i|m e f i|k m ops|k m a|k m a incl|m];
      simpl in HF, IH.
    - (* Word / Phrase / Regex *)
      inversion HF; subst. apply generic_result_exact in H. subst t'.
      simpl. apply Hopq. reflexivity.
    - (* SearchField *)
      inversion HF as [|? e' ? ? He HF']; subst. inversion HF'; subst.
      apply generic_result_exact in H. subst t'. inversion IH as [|? ? Pe _]; subst.
      simpl. exact (Pe e' He Hs _).
    - (* Group / FieldGroup *)
      inversion HF as [|? e' ? ? He HF']; subst. inversion HF'; subst.
      apply generic_result_exact in H. subst t'. inversion IH as [|? ? Pe _]; subst.
      simpl. exact (Pe e' He Hs _).
    - (* Range: the bounds are copied *)
      inversion HF as [|? lo' ? ? Hlo HF']; subst. inversion HF' as [|? hi' ? ? Hhi HF'']; subst.
      inversion HF''; subst. apply generic_result_exact in H. subst t'.
      apply andb_prop in Hs. destruct Hs as [Hs1 Hs2].
      simpl. unfold low_cond, high_cond.
      rewrite <- (bv_bound lo lo' Hs1 Hlo (meta_of lo')), <- (bv_bound hi hi' Hs2 Hhi (meta_of hi')).
      replace (set_meta lo' (meta_of lo')) with lo' by (destruct lo'; reflexivity).
      replace (set_meta hi' (meta_of hi')) with hi' by (destruct hi'; reflexivity).
      reflexivity.
    - (* Fuzzy *)
      inversion HF as [|? x' ? ? Hx HF']; subst. inversion HF'; subst.
      apply generic_result_exact in H. subst t'.
      apply andb_prop in Hs. destruct Hs as [Hs1 Hs2]. cbv beta in Hs2.
      apply EqProofs.wf_nodeb_spec in Hs2. apply EqProofs.wf_node_guards in Hs2.
      destruct Hs2 as [_ [_ Hre]]. rewrite Hre.
      destruct x as [k0 m0 v0| | | | | | | | | |]; try discriminate Hs1.
      apply open_range_term in Hx. subst x'. simpl. apply Hopq. reflexivity.
    - (* Proximity *)
      inversion HF as [|? x' ? ? Hx HF']; subst. inversion HF'; subst.
      apply generic_result_exact in H. subst t'.
      apply andb_prop in Hs. destruct Hs as [Hs1 Hs2]. cbv beta in Hs2.
      apply EqProofs.wf_nodeb_spec in Hs2. apply EqProofs.wf_node_guards in Hs2.
      destruct Hs2 as [_ [_ Hre]]. rewrite Hre.
      destruct x as [k0 m0 v0| | | | | | | | | |]; try discriminate Hs1.
      apply open_range_term in Hx. subst x'. simpl. apply Hopq. reflexivity.
    - (* Boost *)
      inversion HF as [|? e' ? ? He HF']; subst. inversion HF'; subst.
      apply generic_result_exact in H. subst t'. inversion IH as [|? ? Pe _]; subst.
      destruct i; simpl; exact (Pe e' He Hs _).
    - (* operations *)
      pose proof (operands_same_clause cx ops cs' IH Hs HF) as Hsame.
      destruct (pointwise_ops cx ops cs' Hsame) as [Hall [Hany Hbool]].
      assert (Hgen : generic_result (Op k m ops) cs' = Some t' -> hf cx t' = hf cx (Op k m ops)).
      { intros Hg. apply generic_result_exact in Hg. subst t'.
        destruct k; simpl; rewrite ?Hall, ?Hany, ?Hbool; reflexivity. }
      destruct k; try (exact (Hgen H)).
      destruct merge; [|exact (Hgen H)].
      (* AndOperation with merging: C12's merge steps *)
      inversion H; subst t'. simpl.
      destruct (merge_children_spec cs') as [Hsteps _].
      rewrite (merge_steps_hf cx cs' (merge_children cs') Hsteps). exact Hall.
    - (* Plus / Not / Prohibit *)
      inversion HF as [|? a' ? ? Ha HF']; subst. inversion HF'; subst.
      apply generic_result_exact in H. subst t'. inversion IH as [|? ? Pa _]; subst.
      destruct k; simpl; rewrite (Pa a' Ha Hs cx); reflexivity.
    - (* From / To: the conversion step, input against output *)
      inversion HF as [|? a' ? ? Ha HF']; subst. inversion HF'; subst.
      destruct k; unfold from_to in H; rewrite clone_wildcard in H; inversion H; subst t';
        cbn [holds_full]; unfold low_cond, high_cond, set_tail, set_head;
        rewrite (bv_bound a a' Hs Ha), bv_star.
      + destruct (bv a); [rewrite Bool.andb_true_r|]; reflexivity.
      + reflexivity.
    - (* NoneItem *)
      inversion HF; subst. apply generic_result_exact in H. subst t'.
      simpl. apply Hopq. reflexivity.
  Qed.
End Preservation.

(* ================================================================ D. the exact conversion relation *)

(* as OpenRangeProofs.Conv, with the copy rule made explicit: a node that is not a comparison becomes
   copy_of (reinit t): same constructor and own attributes as re-initialised by the constructor, layout
   cloned, over the converted children (with merging, for an AND, after the merge steps) *)
Inductive ConvX (merge : bool) (ah : str) : item -> item -> Prop :=
| CX_from m a incl a' :
    ConvX merge ah a a' ->
    ConvX merge ah (ORange KFrom m a incl) (Range (clone_meta m) (add_tail a' ah) (star ah []) incl true)
| CX_to m a incl a' :
    ConvX merge ah a a' ->
    ConvX merge ah (ORange KTo m a incl) (Range (clone_meta m) (star [] ah) (add_head_ a' ah) true incl)
| CX_copy t cs cs' :
    is_cmp t = false ->
    Forall2 (ConvX merge ah) (children t) cs ->
    (if merge && is_and_node t then merge_steps cs cs' /\ fully_merged cs' else cs' = cs) ->
    ConvX merge ah t (copy_of (EqSpec.reinit t) cs').

Lemma Forall2_from_Forall {A B} (P : A -> Prop) (R Q : A -> B -> Prop) l l' :
  Forall P l -> (forall a b, P a -> R a b -> Q a b) -> Forall2 R l l' -> Forall2 Q l l'.
Proof.
  intros HP H HF. revert HP. induction HF as [|a b l l' Hab _ IH]; intros HP; constructor;
    inversion HP; subst; auto.
Qed.

Theorem open_range_convx merge ah : forall t t', open_range merge ah t = Some t' -> ConvX merge ah t t'.
Proof.
  apply (item_children_ind (fun t => forall t', open_range merge ah t = Some t' -> ConvX merge ah t t')).
  intros t IH t' H.
  apply open_range_children in H. destruct H as [cs [HF H]].
  assert (HX : Forall2 (ConvX merge ah) (children t) cs).
  { eapply Forall2_from_Forall; [exact IH| |exact HF]. intros a b Pa Hab. exact (Pa b Hab). }
  rewrite node_result_cases in H.
  assert (Hgen : is_cmp t = false -> merge && is_and_node t = false ->
                 generic_result t cs = Some t' -> ConvX merge ah t t').
  { intros Hc Hm Hg. apply generic_result_exact in Hg. subst t'.
    apply CX_copy with (cs := cs); [exact Hc|exact HX|rewrite Hm; reflexivity]. }
  destruct t as [| | | | | | |[] m ops| |[] m a incl|];
    try (apply Hgen; [reflexivity|apply Bool.andb_false_r|exact H]).
  - (* AndOperation *)
    destruct merge; [|apply Hgen; [reflexivity|reflexivity|exact H]].
    inversion H; subst t'.
    change (Op KAnd (clone_meta m) (merge_children cs))
      with (copy_of (EqSpec.reinit (Op KAnd m ops)) (merge_children cs)).
    apply CX_copy with (cs := cs); [reflexivity|exact HX|]. simpl. apply merge_children_spec.
  - (* From *)
    simpl in HX. inversion HX as [|? a' ? ? Ha HX']; subst. inversion HX'; subst.
    unfold from_to in H. rewrite clone_wildcard in H. inversion H; subst t'.
    exact (CX_from merge ah m a incl a' Ha).
  - (* To *)
    simpl in HX. inversion HX as [|? a' ? ? Ha HX']; subst. inversion HX'; subst.
    unfold from_to in H. rewrite clone_wildcard in H. inversion H; subst t'.
    exact (CX_to merge ah m a incl a' Ha).
Qed.

(* reading the copy rule *)
Lemma convx_copy_inv merge ah t t' :
  ConvX merge ah t t' -> is_cmp t = false ->
  exists cs cs',
    Forall2 (ConvX merge ah) (children t) cs /\
    (if merge && is_and_node t then merge_steps cs cs' /\ fully_merged cs' else cs' = cs) /\
    t' = copy_of (EqSpec.reinit t) cs'.
Proof.
  intros H Hc. inversion H as [| |t0 cs cs' _ HF Hm]; subst; try discriminate Hc.
  exists cs, cs'. auto.
Qed.

Lemma Forall2_length' {A B} (P : A -> B -> Prop) l l' : Forall2 P l l' -> length l' = length l.
Proof. induction 1; simpl; congruence. Qed.

(* what copy_of keeps: everything but the attached name (and the children it is given) *)
Lemma copy_of_facts t cs :
  cls_of (copy_of t cs) = cls_of t /\
  (forall a, get_attr (copy_of t cs) a = get_attr t a) /\
  EqSpec.implicit_of (copy_of t cs) = EqSpec.implicit_of t /\
  EqSpec.layout_of (copy_of t cs) = EqSpec.layout_of t /\
  name_of (copy_of t cs) = None.
Proof.
  unfold copy_of, rebuild.
  destruct t as [| | | | | | |k m ops| | |]; simpl;
    try (repeat split; reflexivity);
    repeat (destruct cs as [|? cs]; simpl; try (repeat split; reflexivity)).
Qed.

Lemma copy_of_children t cs :
  is_op t = true \/ length cs = length (children t) -> children (copy_of t cs) = cs.
Proof.
  unfold copy_of, rebuild. intros H.
  destruct t as [| | | | | | |k m ops| | |]; simpl in *;
    try reflexivity;
    destruct H as [H|H]; try discriminate H;
    repeat (destruct cs as [|? cs]; simpl in H; try discriminate H); reflexivity.
Qed.

Lemma wf_node_same t : OpenRangeProofs.wf_node t <-> EqSpec.wf_node t.
Proof. destruct t; simpl; tauto. Qed.

(* ---- one node, exactly: the output of a node that is not a comparison *)
Lemma open_range_node_exact merge ah t t' :
  open_range merge ah t = Some t' -> is_cmp t = false ->
  exists cs, Forall2 (fun c c' => open_range merge ah c = Some c') (children t) cs /\
    t' = copy_of (EqSpec.reinit t) (if merge && is_and_node t then merge_children cs else cs).
Proof.
  intros H Hc. apply open_range_children in H. destruct H as [cs [HF H]]. exists cs. split; [exact HF|].
  rewrite node_result_cases in H.
  destruct t as [| | | | | | |[] m ops| |[] m a incl|]; try discriminate Hc;
    try (rewrite Bool.andb_false_r; apply generic_result_exact; exact H).
  destruct merge; simpl.
  - inversion H. reflexivity.
  - exact (generic_result_exact _ _ _ H).
Qed.

Lemma reinit_facts t :
  children (EqSpec.reinit t) = children t /\ is_op (EqSpec.reinit t) = is_op t /\
  EqSpec.implicit_of (EqSpec.reinit t) = EqSpec.implicit_of t /\
  EqSpec.layout_of (EqSpec.reinit t) = EqSpec.layout_of t.
Proof. destruct t as [| | | |? ? ? []|? ? ? []|? ? ? []| | | |]; repeat split; reflexivity. Qed.

Theorem untouched_node merge ah t t' :
  open_range merge ah t = Some t' -> is_cmp t = false ->
  exists cs, Forall2 (fun c c' => open_range merge ah c = Some c') (children t) cs /\
    children t' = (if merge && is_and_node t then merge_children cs else cs) /\
    filter (fun c => negb (is_range c)) (children t') = filter (fun c => negb (is_range c)) cs /\
    cls_of t' = cls_of t /\
    (forall a, get_attr t' a = get_attr (EqSpec.reinit t) a) /\
    EqSpec.implicit_of t' = EqSpec.implicit_of t /\
    EqSpec.layout_of t' = EqSpec.layout_of t /\
    name_of t' = None.
Proof.
  intros H Hc. destruct (open_range_node_exact _ _ _ _ H Hc) as [cs [HF Ht']]. exists cs.
  split; [exact HF|].
  destruct (reinit_facts t) as [Rc [Ro [Ri Rl]]].
  destruct (copy_of_facts (EqSpec.reinit t) (if merge && is_and_node t then merge_children cs else cs))
    as [Fc [Fa [Fi [Fl Fn]]]].
  assert (Hch : children t' = (if merge && is_and_node t then merge_children cs else cs)).
  { rewrite Ht'. apply copy_of_children. rewrite Ro, Rc.
    destruct t as [| | | | | | |k m ops| | |]; try (left; reflexivity);
      right; rewrite Bool.andb_false_r; exact (Forall2_length' _ _ _ HF). }
  split; [exact Hch|]. split.
  - rewrite Hch. destruct (merge && is_and_node t); [|reflexivity].
    apply merge_steps_not_range. apply merge_children_spec.
  - rewrite Ht'. rewrite Fc, Fi, Fl, cls_reinit, Ri, Rl. repeat split; auto.
Qed.
