(* Drops.v — what the printed form of an accepted query IS, computed on the LEXER side only (no parser,
   no table): the query's tokens laid out as in the input, except

   (a) F1: the blank text between a TERM token and a COLUMN token that immediately follows it is removed.
       `HeadTailManager.search_field` (Actions.A_field_search, production
       `unary_expression : TERM COLUMN unary_expression`) builds the SearchField from the name's HEAD, the
       name and the colon's TAIL: the TAIL of the name token and the HEAD of the colon token are dropped
       (the lexer attaches a separator at offset 0 to the next token as its head and any other one to the
       previous token as its tail, so between a name and its colon the text is always the name's tail);
   (b) every APPROX / BOOST token with a numeral is printed as the action that consumes it prints it:
       `PHRASE APPROX` (A_proximity)  ~ + str(int(d));
       `TERM APPROX`   (A_fuzzy)      ~ + format(Decimal(d).normalize(), "f");
       `... BOOST`     (A_boosting)   ^ + format(Decimal(d).normalize(), "f");
       which of proximity / fuzzy applies is read off the token BEFORE the APPROX, as the two productions
       dictate.  A bare `~` / `^` is printed as it stands.

   Executable definitions only. *)
Require Import Base Decimal Tree GenParser Lexer Respace.

Definition next_type (rest : list token) : option tok :=
  match rest with t :: _ => Some (tk_type t) | [] => None end.

(* ---- (a) F1 *)

(* the head of a COLUMN token directly after a TERM token is dropped *)
Definition kept_head (prev : option tok) (t : token) : str :=
  match prev, tk_type t with Some T_TERM, T_COLUMN => [] | _, _ => tk_head t end.
(* the tail of a TERM token directly before a COLUMN token is dropped *)
Definition kept_tail (t : token) (next : option tok) : str :=
  match tk_type t, next with T_TERM, Some T_COLUMN => [] | _, _ => tk_tail t end.

(* the token list with the texts F1 removes taken out; types, lexemes and positions untouched *)
Fixpoint f1_cut (prev : option tok) (ts : list token) : list token :=
  match ts with
  | [] => []
  | t :: rest =>
      mkTok (tk_type t) (tk_lexeme t) (tk_pos t) (kept_head prev t) (kept_tail t (next_type rest))
      :: f1_cut (Some (tk_type t)) rest
  end.

(* the texts F1 removes, one per `TERM COLUMN` pair, in input order (empty when the colon follows the name
   directly) *)
Fixpoint f1_blanks (ts : list token) : list str :=
  match ts with
  | [] => []
  | t :: rest =>
      match tk_type t, rest with
      | T_TERM, t' :: _ => match tk_type t' with T_COLUMN => [tk_tail t ++ tk_head t'] | _ => [] end
      | _, _ => []
      end ++ f1_blanks rest
  end.

(* ---- (b) numerals *)

(* the text printed for the token's lexeme; `prev` = type of the token before.  None: the numeral is
   malformed for the action that reads it (ParseSyntaxError "invalid number"), or no production puts an
   APPROX with a numeral there *)
Definition printed_lexeme (prev : option tok) (t : token) : option str :=
  match tk_type t with
  | T_APPROX =>
      match tl (tk_lexeme t) with
      | [] => Some (tk_lexeme t)
      | d =>
          match prev with
          | Some T_PHRASE =>
              match int_of_lexeme d with Some z => Some (c_tilde :: Z_to_str z) | None => None end
          | Some T_TERM =>
              match dec_of_lexeme d with
              | Some f => Some (c_tilde :: dec_to_fstr (dec_normalize f)) | None => None end
          | _ => None
          end
      end
  | T_BOOST =>
      match tl (tk_lexeme t) with
      | [] => Some (tk_lexeme t)
      | d =>
          match dec_of_lexeme d with
          | Some f => Some (c_caret :: dec_to_fstr (dec_normalize f)) | None => None end
      end
  | _ => Some (tk_lexeme t)
  end.

Fixpoint respell_toks (prev : option tok) (ts : list token) : option (list token) :=
  match ts with
  | [] => Some []
  | t :: rest =>
      match printed_lexeme prev t, respell_toks (Some (tk_type t)) rest with
      | Some l, Some r => Some (mkTok (tk_type t) l (tk_pos t) (tk_head t) (tk_tail t) :: r)
      | _, _ => None
      end
  end.

(* ---- the expected printed form *)

Definition expected_tokens_of (toks : list token) : option (list token) :=
  respell_toks None (f1_cut None toks).

Definition expected_tokens (s : str) : option (list token) :=
  match lex s with
  | (toks, None) => expected_tokens_of toks
  | (_, Some _) => None                      (* IllegalCharacterError *)
  end.

Definition expected_print (s : str) : option str :=
  match expected_tokens s with Some ts => Some (render ts) | None => None end.

(* the same in one pass (the form the driver invariant is stated with) *)
Fixpoint exp_render (prev : option tok) (ts : list token) : option str :=
  match ts with
  | [] => Some []
  | t :: rest =>
      match printed_lexeme prev t, exp_render (Some (tk_type t)) rest with
      | Some l, Some r => Some (kept_head prev t ++ l ++ kept_tail t (next_type rest) ++ r)
      | _, _ => None
      end
  end.

(* ---- the premises of the corollaries *)

(* no blank between a field name and its colon *)
Definition no_f1_blank (s : str) : bool :=
  forallb (fun b => match b with [] => true | _ => false end) (f1_blanks (fst (lex s))).

(* no numeral is printed differently from its spelling *)
Fixpoint no_respelling_in (prev : option tok) (ts : list token) : bool :=
  match ts with
  | [] => true
  | t :: rest =>
      match printed_lexeme prev t with Some l => str_eqb l (tk_lexeme t) | None => false end
      && no_respelling_in (Some (tk_type t)) rest
  end.
Definition no_respelling (s : str) : bool := no_respelling_in None (fst (lex s)).

Definition total_length (l : list str) : nat := fold_right (fun x n => length x + n) 0 l.

(* ---- C02f: the ghost tree.  `nrel t t'`: t' is t with blank text appended to some field names (the text F1
   drops, put back where it stood); classes, pos, size, head, tail and every other value are the same *)
Inductive nrel : item -> item -> Prop :=
| nr_term k m v : nrel (Term k m v) (Term k m v)
| nr_sf m name name' w e e' : name' = name ++ w -> all_space w = true -> nrel e e' ->
    nrel (SearchField m name e) (SearchField m name' e')
| nr_grp k m e e' : nrel e e' -> nrel (Grp k m e) (Grp k m e')
| nr_range m lo lo' hi hi' il ih : nrel lo lo' -> nrel hi hi' -> nrel (Range m lo hi il ih) (Range m lo' hi' il ih)
| nr_fuzzy m x x' d i : nrel x x' -> nrel (Fuzzy m x d i) (Fuzzy m x' d i)
| nr_prox m x x' d i : nrel x x' -> nrel (Proximity m x d i) (Proximity m x' d i)
| nr_boost m x x' d i : nrel x x' -> nrel (Boost m x d i) (Boost m x' d i)
| nr_op k m ops ops' : Forall2 nrel ops ops' -> nrel (Op k m ops) (Op k m ops')
| nr_unary k m a a' : nrel a a' -> nrel (Unary k m a) (Unary k m a')
| nr_orange k m a a' incl : nrel a a' -> nrel (ORange k m a incl) (ORange k m a' incl)
| nr_none m : nrel (NoneItem m) (NoneItem m).

