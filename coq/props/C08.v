(* C08 — Visitors reach every node once with true context; the default transformer deep-copies.
   Only statements, `exact`-closed theorems, non-vacuity examples, Print Assumptions.
   Model: model/Traverse.v (+ shared Visitor.v, Eq.v, Print.v, Tree.v); lemmas: proofs/TraverseProofs.v.
   The class MROs, `_equality_attrs`, the operator strings and the cache scope are the generated ones
   (gen/GenTree.v, gen/GenVisitors.v): every table fact below is re-checked against the code of today.

   Clauses of the property text -> statements
     "visits every node of any tree exactly once, in document (pre-)order"
          C08_positions, C08_document_order, C08_every_node_once, C08_handled_nodes_once, C08_paths_in_preorder
     "dispatching each node to the handler of its most specific class for which a handler exists"
          C08_handler_most_specific, C08_handler_first_in_mro, C08_mro_class_before_bases
     "supplies as context the true chain of ancestors and, for path tracking, the index path"
          C08_context_aligned (the k-th event is for the k-th emitting position in pre-order and carries the
          ancestors / path of THAT position), C08_context_true (its existential corollary)
     "all sequences of visits by several visitor classes and instances (dispatch cache)"
          C08_cache_lookups, C08_cache_visits, C08_cache_shared_refuted (what the tie fact protects),
          C08_names_memo_refuted (a handler set is per visitor class, under ITS prefix: what state shared
          between visitor classes in _get_method would break; tied by correspondence only)
     "The default transformer returns a tree equal to the input"   C08_copy_total, C08_copy_equal(_refuted/_partial)
     "prints to the same text"                                      C08_copy_print(_refuted/_partial)
     "carries the same positions"                                   C08_copy_layout  (+ C08_copy_drops_names)
     "shares no node with it ... input left unmodified"             object identity / mutation: outside a value
          model; checked on the implementation by harness/c08.py (id() sets, before/after snapshots). *)
Require Import Base Decimal Tree GenTree GenVisitors Visitor Eq Print TreeInd Traverse TraverseProofs.
From Coq Require Import Sorted.

(* ---------------------------------------------------------------- tie obligations on generated data *)
Lemma cache_scope_tie : gen_cache_scope = CachePerInstanceByType.
Proof. vm_compute. reflexivity. Qed.

Lemma names_not_memoised : gen_getmethod_shared_state = false.
Proof. vm_compute. reflexivity. Qed.

Lemma children_is_pure : gen_children_is_pure = true.
Proof. vm_compute. reflexivity. Qed.

(* depends on cache_scope_tie and names_not_memoised *)
Lemma code_cache_not_shared : code_cache_shared = false.
Proof. unfold code_cache_shared. rewrite cache_scope_tie, names_not_memoised. reflexivity. Qed.

Lemma code_children_is_pure : code_children_pure = true.
Proof. exact children_is_pure. Qed.

(* all tie obligations of C08 on generated data, as one list *)
Definition C08_ties : list bool :=
  [ match gen_cache_scope with CachePerInstanceByType => true | CacheOther => false end;
    negb gen_getmethod_shared_state; gen_children_is_pure; negb code_cache_shared; code_children_pure ].
Lemma C08_ties_ok : forallb (fun b => b) C08_ties = true.
Proof. vm_compute. reflexivity. Qed.

(* ---------------------------------------------------------------- (a) traversal *)

(* a probe that emits at every node: generic_visit is wrapped too, or there is a visit_item handler *)
Definition emits_everywhere (v : vconf) : Prop := v_lg v = true \/ In CItem (v_H v).

(* `preorder_paths [] t` lists every position of the tree, each exactly once *)
Definition C08_positions_statement : Prop :=
  forall t, NoDup (preorder_paths [] t) /\
            forall p, In p (preorder_paths [] t) <-> exists n, subtree_at t p = Some n.

(* ... in document order: a node before its descendants, the whole subtree of a sibling before the
   next sibling (strictly increasing for the lexicographic order on index paths) *)
Definition C08_document_order_statement : Prop :=
  forall t, StronglySorted path_lt (preorder_paths [] t).

(* every node handed to a handler exactly once, in pre-order: the events are in one-to-one, order
   preserving correspondence with the positions, and the node of the event is the node there *)
Definition C08_every_node_once_statement : Prop :=
  forall v t, emits_everywhere v ->
    Forall2 (fun e p => subtree_at t p = Some (ev_node e)) (traverse v t) (preorder_paths [] t).

(* arbitrary handler set: exactly the nodes that have a handler, once each, in pre-order *)
Definition C08_handled_nodes_once_statement : Prop :=
  forall v t,
    Forall2 (fun e p => subtree_at t p = Some (ev_node e))
            (traverse v t) (filter (emits_at v t) (preorder_paths [] t)).

(* path tracking: the tracked paths are the positions in pre-order (hence pairwise distinct) *)
Definition C08_paths_in_preorder_statement : Prop :=
  forall v t, v_pt v = true -> emits_everywhere v ->
    map ev_path (traverse v t) = map Some (preorder_paths [] t) /\ NoDup (map ev_path (traverse v t)).

(* the handler that ran is the one of the most specific class that has one; the generic handler
   runs only when no class of the node has one *)
Definition handler_ok (H : list cls) (c : cls) (h : option cls) : Prop :=
  match h with
  | Some k => is_most_specific H c k
  | None => forall k, In k H -> isinstance c k = false
  end.

Definition C08_handler_most_specific_statement : Prop :=
  forall v t e, In e (traverse v t) -> handler_ok (v_H v) (cls_of (ev_node e)) (ev_handler e).

(* the same in terms of the MRO list: the first class of the node's MRO that has a handler *)
Definition C08_handler_first_in_mro_statement : Prop :=
  forall v t e k, In e (traverse v t) -> ev_handler e = Some k ->
    first_in (v_H v) (gen_mro (cls_of (ev_node e))) k.

(* the generated MROs list a class before its bases (so "first in the MRO" is "most specific") *)
Definition C08_mro_class_before_bases_statement : Prop :=
  forall c l1 k l2 k', gen_mro c = l1 ++ k :: l2 -> isinstance k k' = true -> k' <> k -> In k' l2.

(* the context handed to a handler is true: parents = the chain of ancestors from the root, path =
   the index path that leads from the root to the node *)
Definition C08_context_true_statement : Prop :=
  forall v t e, In e (traverse v t) ->
    exists p, subtree_at t p = Some (ev_node e) /\
              ev_parents e = (if v_tp v then ancestors t p else []) /\
              ev_path e = (if v_pt v then Some p else None).

(* ... and it is the context of the node's OWN position (C08_context_true alone would let an event borrow
   the position of an equal sub-term elsewhere): the events are aligned one to one, in order, with the
   emitting positions in pre-order; the k-th event's node is the sub-tree at the k-th position, its parents
   are the ancestors of THAT position and its path is THAT position.  For a probe that emits everywhere the
   positions are all the positions of the tree. *)
Definition context_at (v : vconf) (t : item) (e : event) (p : path) : Prop :=
  subtree_at t p = Some (ev_node e) /\
  ev_parents e = (if v_tp v then ancestors t p else []) /\
  ev_path e = (if v_pt v then Some p else None).

Definition C08_context_aligned_statement : Prop :=
  forall v t,
    Forall2 (context_at v t) (traverse v t) (filter (emits_at v t) (preorder_paths [] t)) /\
    (emits_everywhere v -> Forall2 (context_at v t) (traverse v t) (preorder_paths [] t)).

(* ---------------------------------------------------------------- (b) dispatch cache *)

(* any history of look-ups by any instances of any visitor classes: what `_get_method` returns is the
   instance's own method for the class dispatch designates *)
Definition C08_cache_lookups_statement : Prop :=
  forall (Hof : nat -> list cls) (h : list op),
    fst (run_history code_cache_shared Hof h []) = map (expected_bound Hof) h.

(* any history of whole visits: the events of every visit are those of the cache-free traversal *)
Definition C08_cache_visits_statement : Prop :=
  forall (vc : nat -> vconf) (h : list (nat * item)),
    fst (run_visits code_cache_shared vc h []) = map (fun it => traverse (vc (fst it)) (snd it)) h.

(* what would happen with one cache shared by all visitor classes, keyed by type(node) only *)
Definition C08_cache_shared_statement : Prop :=
  forall (Hof : nat -> list cls) (h : list op),
    fst (run_history true Hof h []) = map (expected_bound Hof) h.

(* what would happen with candidate method names memoised per node class for all visitor classes
   (the visitor_method_prefix of the first visitor frozen in) *)
Definition C08_names_memo_statement : Prop :=
  forall (Vof : nat -> vclass) (h : list op),
    run_memo Vof h [] = map (fun o => match o with Visit i c => lookup_own (Vof i) c end) h.

(* ---------------------------------------------------------------- (c) default transformer *)

Definition C08_copy_total_statement : Prop := forall t, exists c, copy t = Some c.

Definition C08_copy_equal_statement : Prop :=
  forall t c, copy t = Some c -> item_eqb c t = true.
(* guard: an implicit degree / force has the default value (true of every object the constructors
   or the parser build; false only after `node.degree = ...` on an implicit node) *)
Definition C08_copy_equal_partial_statement : Prop :=
  forall t c, all_nodes eq_stable t -> copy t = Some c -> item_eqb c t = true.

Definition C08_copy_print_statement : Prop :=
  forall t c, copy t = Some c -> print true c = print true t.
(* guard: an explicit boost force prints the same once normalised (true of every object the
   constructors build, since Boost.__init__ normalises; false only after `node.force = ...`) *)
Definition C08_copy_print_partial_statement : Prop :=
  forall t c, all_nodes print_stable t -> copy t = Some c -> print true c = print true t.

(* both guards follow from the invariant the constructors establish *)
Definition C08_copy_wellformed_statement : Prop :=
  forall t c, all_nodes wf_node t -> copy t = Some c ->
    item_eqb c t = true /\ print true c = print true t /\ print false c = print false t.

Definition C08_copy_layout_statement : Prop :=
  forall t c, copy t = Some c -> same_layout c t.

(* names (`_luqum_name`, set by luqum.naming) are NOT copied: no node of the copy carries one *)
Definition C08_copy_drops_names_statement : Prop :=
  forall t c p n, copy t = Some c -> subtree_at c p = Some n -> name_of n = None.

(* ---------------------------------------------------------------- proofs *)

Lemma emits_everywhere_all v : emits_everywhere v -> forall n, emits v n = true.
Proof.
  intros [H|H] n; [|apply emits_item; exact H].
  apply emits_iff. left. exact H.
Qed.

Theorem C08_positions : C08_positions_statement.
Proof.
  intros t. split; [apply preorder_paths_NoDup|]. intros p. exact (preorder_paths_complete t [] p).
Qed.

Theorem C08_document_order : C08_document_order_statement.
Proof. intros t. apply preorder_paths_sorted. Qed.

Theorem C08_handled_nodes_once : C08_handled_nodes_once_statement.
Proof.
  intros v t. eapply Forall2_impl'; [|apply traverse_aligned]. intros e p H. exact (proj1 H).
Qed.

Theorem C08_every_node_once : C08_every_node_once_statement.
Proof.
  intros v t He. rewrite <- (emits_all_filter v t (emits_everywhere_all v He)).
  apply C08_handled_nodes_once.
Qed.

Theorem C08_paths_in_preorder : C08_paths_in_preorder_statement.
Proof.
  intros v t Hpt He.
  assert (E : map ev_path (traverse v t) = map Some (preorder_paths [] t)).
  { rewrite <- (emits_all_filter v t (emits_everywhere_all v He)).
    apply (Forall2_map_eq _ _ _ _ _ (traverse_aligned v t)).
    intros e p [_ [_ [_ Hp]]]. rewrite Hp, Hpt. reflexivity. }
  split; [exact E|]. rewrite E. apply NoDup_map_inj; [|apply preorder_paths_NoDup].
  intros a b Hab. inversion Hab. reflexivity.
Qed.

Theorem C08_handler_most_specific : C08_handler_most_specific_statement.
Proof.
  intros v t e Hin. destruct (Forall2_In_l _ _ _ _ (traverse_aligned v t) Hin) as [p [_ [_ [Hh _]]]].
  unfold handler_ok. rewrite Hh. destruct (dispatch (v_H v) (cls_of (ev_node e))) as [k|] eqn:Hd.
  - apply dispatch_most_specific. exact Hd.
  - apply dispatch_none_iff. exact Hd.
Qed.

Theorem C08_handler_first_in_mro : C08_handler_first_in_mro_statement.
Proof.
  intros v t e k Hin Hk. destruct (Forall2_In_l _ _ _ _ (traverse_aligned v t) Hin) as [p [_ [_ [Hh _]]]].
  apply dispatch_first. rewrite <- Hh. exact Hk.
Qed.

Theorem C08_mro_class_before_bases : C08_mro_class_before_bases_statement.
Proof.
  intros c l1 k l2 k' E Hi Hne. destruct (mro_bases_after _ _ _ _ _ E Hi) as [H|H]; [contradiction|exact H].
Qed.

Theorem C08_context_true : C08_context_true_statement.
Proof.
  intros v t e Hin. destruct (Forall2_In_l _ _ _ _ (traverse_aligned v t) Hin) as [p [_ [H1 [_ [H3 H4]]]]].
  exists p. auto.
Qed.

Theorem C08_context_aligned : C08_context_aligned_statement.
Proof.
  intros v t.
  assert (A : Forall2 (context_at v t) (traverse v t) (filter (emits_at v t) (preorder_paths [] t))).
  { eapply Forall2_impl'; [|apply traverse_aligned]. intros e p [H1 [_ [H3 H4]]]. repeat split; assumption. }
  split; [exact A|]. intros He. rewrite <- (emits_all_filter v t (emits_everywhere_all v He)). exact A.
Qed.

Theorem C08_cache_lookups : C08_cache_lookups_statement.
Proof.
  intros Hof h. rewrite code_cache_not_shared.
  destruct (run_history false Hof h []) as [bs ch'] eqn:E.
  exact (proj1 (run_history_sound Hof h [] bs ch' (cache_ok_nil Hof) E)).
Qed.

Theorem C08_cache_visits : C08_cache_visits_statement.
Proof.
  intros vc h. rewrite code_cache_not_shared.
  destruct (run_visits_sound vc h [] (cache_ok_nil _)) as [ch' [E _]]. rewrite E. reflexivity.
Qed.

(* two visitor classes, one with visit_term and one with visit_word, each visiting a Word once *)
Theorem C08_cache_shared_refuted : ~ C08_cache_shared_statement.
Proof.
  intros H.
  specialize (H (fun i => match i with 0 => [CTerm] | _ => [CWord] end) [Visit 0 CWord; Visit 1 CWord]).
  vm_compute in H. discriminate.
Qed.

(* a visit_word visitor, then an on_word visitor (prefix 1), each handed a Word *)
Theorem C08_names_memo_refuted : ~ C08_names_memo_statement.
Proof.
  intros H.
  specialize (H (fun i => match i with 0 => mkVC 0 [(0, CWord)] | _ => mkVC 1 [(1, CWord); (0, CTerm)] end)
                [Visit 0 CWord; Visit 1 CWord]).
  vm_compute in H. discriminate.
Qed.

Theorem C08_copy_total : C08_copy_total_statement.
Proof. intros t. exists (dcopy t). apply copy_dcopy. Qed.

Definition ex_implicit_mutated : item :=   (* f = Fuzzy(Word("a")); f.degree = Decimal(2) *)
  Fuzzy meta0 (Term KWord meta0 [97]%N) (mkDec false 2 0) true.

Theorem C08_copy_equal_refuted : ~ C08_copy_equal_statement.
Proof.
  intros H. specialize (H ex_implicit_mutated _ (copy_dcopy _)). vm_compute in H. discriminate.
Qed.

Theorem C08_copy_equal_partial : C08_copy_equal_partial_statement.
Proof.
  intros t c Hg Hc. rewrite copy_dcopy in Hc. inversion Hc; subst. apply dcopy_eq. exact Hg.
Qed.

Definition ex_force_mutated : item :=   (* b = Boost(Word("a"), 2); b.force = Decimal("1.50") *)
  Boost meta0 (Term KWord meta0 [97]%N) (mkDec false 150 (-2)) false.

Theorem C08_copy_print_refuted : ~ C08_copy_print_statement.
Proof.
  intros H. specialize (H ex_force_mutated _ (copy_dcopy _)). vm_compute in H. discriminate.
Qed.

Theorem C08_copy_print_partial : C08_copy_print_partial_statement.
Proof.
  intros t c Hg Hc. rewrite copy_dcopy in Hc. inversion Hc; subst. apply dcopy_print. exact Hg.
Qed.

Theorem C08_copy_wellformed : C08_copy_wellformed_statement.
Proof.
  intros t c Hg Hc. rewrite copy_dcopy in Hc. inversion Hc; subst.
  split; [apply dcopy_eq; eapply all_nodes_impl; [|exact Hg]; intros n Hn; apply (wf_node_stable n Hn)|].
  split; apply dcopy_print; eapply all_nodes_impl; try exact Hg; intros n Hn; apply (wf_node_stable n Hn).
Qed.

Theorem C08_copy_layout : C08_copy_layout_statement.
Proof. intros t c Hc. rewrite copy_dcopy in Hc. inversion Hc; subst. apply dcopy_same_layout. Qed.

Theorem C08_copy_drops_names : C08_copy_drops_names_statement.
Proof.
  intros t c p n Hc Hs. rewrite copy_dcopy in Hc. inversion Hc; subst. eapply dcopy_no_names; eauto.
Qed.

(* ---------------------------------------------------------------- non-vacuity *)

(* title:(a~ OR "b c"~ )^2.5 AND [x TO y]  — implicit degrees, an explicit force, layout, a name *)
Definition ex_tree : item :=
  Op KAnd (mkMeta (Some 0%Z) (Some 30%Z) [] [] None)
    [ SearchField (mkMeta (Some 0%Z) (Some 5%Z) [] [32]%N (Some [110]%N)) [116;105]%N
        (Boost meta0
           (Grp KFieldGroup meta0
              (Op KOr meta0 [ Fuzzy (mkMeta None None [] [32]%N None) (Term KWord meta0 [97]%N) dec_half true;
                              Proximity meta0 (Term KPhrase meta0 [34;98;32;99;34]%N) 1%Z true ]))
           (mkDec false 25 (-1)) false);
      Range (mkMeta None None [32]%N [] None) (Term KWord meta0 [120]%N) (Term KWord meta0 [121]%N) true false ].

(* a path-tracking probe with handlers visit_term, visit_base_operation, visit_word, visit_item,
   tracking parents: every node once, most specific handler, true paths *)
Definition ex_probe : vconf := mkV [CTerm; CBaseOperation; CWord; CItem] true false true.

Example C08_probe_nonvacuous :
  emits_everywhere ex_probe /\
  map (fun e => (ev_path e, ev_handler e, map cls_of (ev_parents e))) (traverse ex_probe ex_tree) =
  [ (Some [], Some CBaseOperation, []);
    (Some [0], Some CItem, [CAndOperation]);
    (Some [0;0], Some CItem, [CAndOperation; CSearchField]);
    (Some [0;0;0], Some CItem, [CAndOperation; CSearchField; CBoost]);
    (Some [0;0;0;0], Some CBaseOperation, [CAndOperation; CSearchField; CBoost; CFieldGroup]);
    (Some [0;0;0;0;0], Some CItem, [CAndOperation; CSearchField; CBoost; CFieldGroup; COrOperation]);
    (Some [0;0;0;0;0;0], Some CWord, [CAndOperation; CSearchField; CBoost; CFieldGroup; COrOperation; CFuzzy]);
    (Some [0;0;0;0;1], Some CItem, [CAndOperation; CSearchField; CBoost; CFieldGroup; COrOperation]);
    (Some [0;0;0;0;1;0], Some CTerm, [CAndOperation; CSearchField; CBoost; CFieldGroup; COrOperation; CProximity]);
    (Some [1], Some CItem, [CAndOperation]);
    (Some [1;0], Some CWord, [CAndOperation; CRange]);
    (Some [1;1], Some CWord, [CAndOperation; CRange]) ].
Proof. split; [right; simpl; tauto|vm_compute; reflexivity]. Qed.

(* two EQUAL sub-terms at different depths: a AND (a) — each event carries the context of its own position *)
Example C08_context_equal_subterms :
  let w := Term KWord meta0 [97]%N in
  let t := Op KAnd meta0 [w; Grp KGroup meta0 w] in
  map (fun e => (ev_node e, ev_path e, map cls_of (ev_parents e))) (traverse ex_probe t) =
  [ (t, Some [], []); (w, Some [0], [CAndOperation]); (Grp KGroup meta0 w, Some [1], [CAndOperation]);
    (w, Some [1; 0], [CAndOperation; CGroup]) ].
Proof. vm_compute. reflexivity. Qed.

(* a probe with few handlers and no generic wrapper emits only at the handled nodes *)
Example C08_partial_probe_nonvacuous :
  map (fun e => (ev_path e, ev_handler e)) (traverse (mkV [CTerm; CRange] true false false) ex_tree) =
  [ (Some [0;0;0;0;0;0], Some CTerm); (Some [0;0;0;0;1;0], Some CTerm); (Some [1], Some CRange);
    (Some [1;0], Some CTerm); (Some [1;1], Some CTerm) ].
Proof. vm_compute. reflexivity. Qed.

(* the cache is really hit: the second visit of the same instance finds every class cached, and
   a second visitor class on another instance gets its own handlers *)
Example C08_cache_nonvacuous :
  let Hof := fun i => match i with 0 => [CTerm] | _ => [CWord] end in
  let h := [Visit 0 CWord; Visit 1 CWord; Visit 0 CWord; Visit 0 CPhrase; Visit 1 CPhrase] in
  run_history code_cache_shared Hof h [] =
  ([(0, Some CTerm); (1, Some CWord); (0, Some CTerm); (0, Some CTerm); (1, None)],
   [((Some 1, CPhrase), (1, None)); ((Some 0, CPhrase), (0, Some CTerm));
    ((Some 1, CWord), (1, Some CWord)); ((Some 0, CWord), (0, Some CTerm))]).
Proof. vm_compute. reflexivity. Qed.

Definition name_of_at (t : item) (p : path) : option str :=
  match subtree_at t p with Some n => name_of n | None => None end.

(* the example tree satisfies the constructor invariant (hence both guards) and is really copied:
   equal, same text, the name dropped *)
Example C08_copy_nonvacuous :
  all_nodes wf_node ex_tree /\ all_nodes eq_stable ex_tree /\ all_nodes print_stable ex_tree /\
  exists c, copy ex_tree = Some c /\ item_eqb c ex_tree = true /\
            print true c = print true ex_tree /\ print true c <> [] /\
            name_of_at ex_tree [0] = Some [110]%N /\ name_of_at c [0] = None.
Proof.
  split; [apply (all_nodesb_spec wf_nodeb); [apply wf_nodeb_ok|vm_compute; reflexivity]|].
  split; [apply (all_nodesb_spec eq_stableb); [apply eq_stableb_ok|vm_compute; reflexivity]|].
  split; [apply (all_nodesb_spec print_stableb); [apply print_stableb_ok|vm_compute; reflexivity]|].
  eexists. split; [vm_compute; reflexivity|]. vm_compute. repeat split; try reflexivity; discriminate.
Qed.

Print Assumptions C08_positions.
Print Assumptions C08_document_order.
Print Assumptions C08_every_node_once.
Print Assumptions C08_handled_nodes_once.
Print Assumptions C08_paths_in_preorder.
Print Assumptions C08_handler_most_specific.
Print Assumptions C08_handler_first_in_mro.
Print Assumptions C08_mro_class_before_bases.
Print Assumptions C08_context_true.
Print Assumptions C08_context_aligned.
Print Assumptions C08_cache_lookups.
Print Assumptions C08_cache_visits.
Print Assumptions C08_cache_shared_refuted.
Print Assumptions C08_names_memo_refuted.
Print Assumptions C08_copy_total.
Print Assumptions C08_copy_equal_refuted.
Print Assumptions C08_copy_equal_partial.
Print Assumptions C08_copy_print_refuted.
Print Assumptions C08_copy_print_partial.
Print Assumptions C08_copy_wellformed.
Print Assumptions C08_copy_layout.
Print Assumptions C08_copy_drops_names.
