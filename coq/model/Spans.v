(* Spans.v — Item.span (luqum/tree.py), string slices, and the layout-aware predicate "every node's
   pos/size/head/tail locate its text" used by property C02.  Definitions only (no proofs).

   Conventions: positions are Z (Python ints), lengths are `zlen`.  `slice s a b` is Python's s[a:b]
   for 0 <= a <= b <= len(s) ONLY (negative indices count from the end in Python; every statement
   that uses `slice` also states the bounds). *)
Require Import Base Decimal Tree GenTree GenParser Lexer Print Actions LR Parser.

Definition slice (s : str) (a b : Z) : str := firstn (Z.to_nat (b - a)) (skipn (Z.to_nat a) s).

(* Item.span(head_tail).  Python returns (None, None) when pos is None and raises TypeError when pos is
   set but size is None: both are "no span" here. *)
Definition span (ht : bool) (n : item) : option (Z * Z) :=
  match m_pos (meta_of n), m_size (meta_of n) with
  | Some p, Some sz =>
      Some (if ht then (p - zlen (head_of n))%Z else p,
            if ht then (p + sz + zlen (tail_of n))%Z else (p + sz)%Z)
  | _, _ => None
  end.

(* ---- the property, node by node *)

(* both spans exist, lie inside the string, and designate the node's text without / with head and tail *)
Definition located (s : str) (n : item) : Prop :=
  exists a b a' b',
    span false n = Some (a, b) /\ span true n = Some (a', b') /\
    (0 <= a' /\ a' <= a /\ a <= b /\ b <= b' /\ b' <= zlen s)%Z /\
    slice s a b = print false n /\ slice s a' b' = print true n.

(* intervals in order inside [lo, hi]: each starts where the previous one ended, or later *)
Fixpoint ordered_in (lo hi : Z) (l : list (Z * Z)) : Prop :=
  match l with
  | [] => (lo <= hi)%Z
  | (a, b) :: l' => (lo <= a /\ a <= b)%Z /\ ordered_in b hi l'
  end.

(* the widened spans of the children lie inside the node's own span, in order, without overlapping *)
Definition tiled (n : item) : Prop :=
  exists a b cs, span false n = Some (a, b) /\ map (span true) (children n) = map Some cs /\
                 ordered_in a b cs.

(* ---- the layout of a node's own text: print false n = sp1 ++ child1 ++ sp2 ++ child2 ... ++ post *)
Fixpoint weave (sps : list str) (xs : list str) : str :=
  match xs, sps with
  | x :: xs', sp :: sps' => sp ++ x ++ weave sps' xs'
  | _, _ => []
  end.

(* separators in front of the operands of an operation: nothing, then the operator each time *)
Definition sepl (first op : str) (l : list item) : list str :=
  match l with [] => [] | _ :: l' => first :: map (fun _ => op) l' end.

(* literal text in front of each child *)
Definition seps (n : item) : list str :=
  match n with
  | Term _ _ _ | NoneItem _ => []
  | SearchField _ name _ => [name ++ [c_colon]]
  | Grp _ _ _ => [[c_lparen]]
  | Range _ _ _ il _ => [gen_low_char il; s_TO]
  | Fuzzy _ _ _ _ | Proximity _ _ _ _ | Boost _ _ _ _ => [[]]
  | Op k _ ops => sepl [] (op_str (cls_of_opk k)) ops
  | Unary k _ _ => [op_str (cls_of_unk k)]
  | ORange k _ _ incl => [op_str (cls_of_ork k) ++ gen_openrange_char incl]
  end.

(* literal text after the last child *)
Definition post (n : item) : str :=
  match n with
  | Term _ _ v => v
  | Grp _ _ _ => [c_rparen]
  | Range _ _ _ _ ih => gen_high_char ih
  | Fuzzy _ _ d impl => [c_tilde] ++ (if impl then [] else dec_to_fstr d)
  | Proximity _ _ d impl => [c_tilde] ++ (if impl then [] else Z_to_str d)
  | Boost _ _ f impl => [c_caret] ++ (if impl then [] else dec_to_fstr f)
  | _ => []
  end.

(* ---- "n's own text starts at offset p": pos = p, size = |print false n|, and every child's own text
   starts where the printed form puts it.  `walk f b sps cs`: the children cs, with the literal texts sps in
   front of them, are laid out from offset b. *)
Definition walk (f : Z -> item -> Prop) :=
  fix go (b : Z) (sps : list str) (l : list item) {struct l} : Prop :=
    match l with
    | [] => True
    | c :: l' =>
        match sps with
        | [] => False
        | sp :: sps' =>
            f (b + zlen sp + zlen (head_of c))%Z c /\ go (b + zlen sp + zlen (print true c))%Z sps' l'
        end
    end.

Fixpoint node_ok (p : Z) (n : item) : Prop :=
  let via (cs : list item) :=
    m_pos (meta_of n) = Some p /\ m_size (meta_of n) = Some (zlen (print false n)) /\
    walk node_ok p (seps n) cs in
  match n with
  | NoneItem _ => False
  | Term _ _ _ => via []
  | SearchField _ _ e | Grp _ _ e | Boost _ e _ _ => via [e]
  | Fuzzy _ x _ _ | Proximity _ x _ _ => via [x]
  | Unary _ _ a | ORange _ _ a _ => via [a]
  | Range _ lo hi _ _ => via [lo; hi]
  | Op _ _ ops => via ops
  end.

(* n's widened text (with head and tail) starts at offset `base` *)
Definition spans_ok (base : Z) (n : item) : Prop := node_ok (base + zlen (head_of n))%Z n.

(* boolean versions, for evaluation on concrete trees *)
Definition walkb (f : Z -> item -> bool) :=
  fix go (b : Z) (sps : list str) (l : list item) {struct l} : bool :=
    match l with
    | [] => true
    | c :: l' =>
        match sps with
        | [] => false
        | sp :: sps' =>
            f (b + zlen sp + zlen (head_of c))%Z c && go (b + zlen sp + zlen (print true c))%Z sps' l'
        end
    end.

Fixpoint node_okb (p : Z) (n : item) : bool :=
  let via (cs : list item) :=
    oZ_eqb (m_pos (meta_of n)) (Some p) && oZ_eqb (m_size (meta_of n)) (Some (zlen (print false n))) &&
    walkb node_okb p (seps n) cs in
  match n with
  | NoneItem _ => false
  | Term _ _ _ => via []
  | SearchField _ _ e | Grp _ _ e | Boost _ e _ _ => via [e]
  | Fuzzy _ x _ _ | Proximity _ x _ _ => via [x]
  | Unary _ _ a | ORange _ _ a _ => via [a]
  | Range _ lo hi _ _ => via [lo; hi]
  | Op _ _ ops => via ops
  end.

Definition spans_okb (base : Z) (n : item) : bool := node_okb (base + zlen (head_of n))%Z n.

(* ---- values of the parser's stack *)
Definition sv_inner (v : symval) : str :=
  match v with VItem i => print false i | VTok l _ _ => l end.

Definition sv_node_ok (p : Z) (v : symval) : Prop :=
  match v with
  | VItem i => node_ok p i
  | VTok l _ m => m_pos m = Some p /\ m_size m = Some (zlen l)
  end.
Definition sv_spans_ok (base : Z) (v : symval) : Prop := sv_node_ok (base + zlen (sv_head v))%Z v.

(* consecutive values from offset b *)
Fixpoint args_ok (b : Z) (args : list symval) : Prop :=
  match args with
  | [] => True
  | v :: r => sv_spans_ok b v /\ args_ok (b + zlen (full_text v))%Z r
  end.

(* tokens: pos is the offset of the lexeme, tokens cover the text consecutively from offset b *)
Fixpoint toks_pos_ok (b : nat) (ts : list token) : Prop :=
  match ts with
  | [] => True
  | t :: r => tk_pos t = b + length (tk_head t) /\ toks_pos_ok (b + length (tok_text t)) r
  end.

(* ---- a latent defect of HeadTailManager.binary_operation (NOT reachable with PLY's tables, see
   SpanProofs.gen_no_rflat): when the RIGHT operand of `x OR y` / `x AND y` is itself an operation of the
   same class, create_operation moves the operator's tail onto the head of y's first operand, but
   HeadTailManager.pos still counts it in the operator token and then subtracts it once more: the size of
   the result is short by the length of that tail.  The guard below says that a reduction is of that
   shape. *)
Definition rflat_args (a : action_name) (args : list symval) : bool :=
  match a, args with
  | A_expression_or, [VItem _; VTok _ _ m; VItem (Op KOr _ _)] => negb (str_eqb (m_tail m) [])
  | A_expression_and, [VItem _; VTok _ _ m; VItem (Op KAnd _ _)] => negb (str_eqb (m_tail m) [])
  | _, _ => false
  end.

(* the reduction the driver is about to perform in configuration c, if any (mirrors LR.step) *)
Definition next_reduction (tb : tables) (lexerr : option (nat * str)) (c : config)
  : option (action_name * list symval) :=
  match c_toks c, lexerr with
  | [], Some _ => None
  | _, _ =>
      let lat := match hd_error (c_toks c) with Some t => tk_type t | None => T_EOF end in
      match tb_action tb (hd 0 (c_states c)) lat with
      | Reduce p =>
          match p, nth_error (tb_prods tb) (pred p) with
          | S _, Some (_, rhs, a) => Some (a, rev (firstn (length rhs) (c_vals c)))
          | _, _ => None
          end
      | _ => None
      end
  end.

Definition rflat_step (tb : tables) (lexerr : option (nat * str)) (c : config) : bool :=
  match next_reduction tb lexerr c with Some (a, args) => rflat_args a args | None => false end.

(* does the run perform such a reduction? *)
Fixpoint rflat_run (tb : tables) (lexerr : option (nat * str)) (fuel : nat) (c : config) : bool :=
  match fuel with
  | O => false
  | S f =>
      rflat_step tb lexerr c ||
      match step tb lexerr c with
      | Final _ _ => false
      | Next c' => rflat_run tb lexerr f c'
      end
  end.

Definition parse_rflat (tb : tables) (s : str) : bool :=
  let '(toks, e) := lex s in
  let ev0 := match toks with [] => [GDrop s] | _ => [] end in
  rflat_run tb e (parse_fuel toks) (init_config toks ev0).
