"""C05 — Elasticsearch translation is reject-or-equivalent in boolean and nested meaning.

Correspondence: the whole builder, `EsBuild.build cfg tree` against ElasticsearchQueryBuilder(**cfg)(tree)
(canonical JSON or exception class) on sessions of calls (es_common.run_sessions), and the reference semantics
`EsSem.es_eval` / `EsSem.den` against the Python mirrors below on sampled documents (Coq evaluates both on the
implementation's JSON, the harness compares with what the mirrors say).

Oracle (Python mirror of coq/model/EsSem.v, the failing-input oracle): on supported trees and well-formed
configurations the builder either raises NestedSearchFieldException / ObjectSearchFieldException /
OrAndAndOnSameLevel, or returns a JSON j such that es_eval(j, d) == den(tree, d) for every document d of the
enumeration: documents are trees of objects (<= 2 objects per nested path below each parent object), every
object gives a truth value to every atom of its level; atoms are the leaf clauses (normalised: zero_terms_query,
boost and _name removed) occurring in j or denoted by a term of the tree.  All truth assignments when there are
<= 12 (object, atom) bits per document shape, a seeded random sample otherwise.
"""
import copy
import itertools
import json

import lib
import gentree
import es_common as E
from runner import CorrResult  # noqa: F401

STRIP = ("zero_terms_query", "boost", "_name")


# ------------------------------------------------------------------ mirror of EsSem.v

def comps(p):
    return tuple(p.split("."))


def nested_paths(cfg, ideal=True):
    """the declared nested paths: every ancestor of a flattened declared path (a dot-less declared path is its
    own parent); the empty path that an empty specification flattens to is not a nested field.
    ideal=False: the parents only (what the code recognises, see F8)"""
    return set(E.containers(E.declared_paths(cfg.get("nested_fields"), True), ideal)) - {""}


def level_of(np, f):
    """components of the innermost declared nested path that is a prefix of the field f (components); () = root"""
    for k in range(len(f), 0, -1):
        if ".".join(f[:k]) in np:
            return tuple(f[:k])
    return ()


def objects_at(np, lvl, target, d):
    """the objects of nested path `target` below the object d of level lvl"""
    if tuple(target[:len(lvl)]) != tuple(lvl):
        return []
    objs = [d]
    for k in range(len(lvl) + 1, len(target) + 1):
        q = ".".join(target[:k])
        if q in np:
            objs = [o for x in objs for o in x["subs"].get(q, [])]
    return objs


def strip(o):
    return {k: v for k, v in o.items() if k not in STRIP}


def norm_clause(j):
    """a leaf clause without the options that do not change which documents match"""
    if isinstance(j, dict) and len(j) == 1:
        (m, o), = j.items()
        if isinstance(o, dict):
            return {m: {k: (strip(v) if isinstance(v, dict) else v) for k, v in strip(o).items()}}
    return j


ATOM_OBJ = {}      # canonical key -> normalised clause (to hand documents over to Coq)


def atom_key(j):
    n = norm_clause(j)
    k = json.dumps(n, sort_keys=True, default=repr)
    ATOM_OBJ.setdefault(k, n)
    return k


def clause_field(j):
    """the field a leaf clause addresses; None when it names none (multi_match: its fields are the user's)"""
    if not (isinstance(j, dict) and len(j) == 1):
        return None
    (m, o), = j.items()
    if not isinstance(o, dict):
        return None
    if m == "exists":
        f = o.get("field")
        return f if isinstance(f, str) else None
    if m == "query_string":
        f = o.get("default_field")
        return f if isinstance(f, str) else None
    if m == "multi_match":
        return None
    if len(o) == 1:
        return next(iter(o))
    return None


def clauses(v):
    return v if isinstance(v, list) else [v]


def es_eval(np, j, lvl, d):
    """does the object d (of nested level lvl) match the query j ?"""
    if not (isinstance(j, dict) and len(j) == 1):
        return False
    (k, body), = j.items()
    if k == "bool" and isinstance(body, dict):
        must = clauses(body.get("must", [])) + clauses(body.get("filter", []))
        should = clauses(body.get("should", []))
        must_not = clauses(body.get("must_not", []))
        ok = all(es_eval(np, q, lvl, d) for q in must) and not any(es_eval(np, q, lvl, d) for q in must_not)
        if should and not must:                      # minimum_should_match defaults to 1 here, else to 0
            ok = ok and any(es_eval(np, q, lvl, d) for q in should)
        return ok
    if k == "nested" and isinstance(body, dict):
        p, q = body.get("path"), body.get("query")
        if not isinstance(p, str) or q is None:
            return False
        return any(es_eval(np, q, comps(p), o) for o in objects_at(np, lvl, comps(p), d))
    f = clause_field(j)
    if f is not None and level_of(np, comps(f)) != tuple(lvl):
        return False                                 # a field of another nested level is invisible
    return atom_key(j) in d["truth"]


class Den:
    """denotation of a luqum tree.  The clause naming a term's atom is the one the builder's leaf constructors
    give for the term alone in its field context (that it is the right clause is property C06)"""

    def __init__(self, T, cfg, np, code_bool=False, code_default=False):
        """code_bool / code_default: the two deviating readings of the code (used only to CLASSIFY a failure as
        the known finding F6 / F17): a BoolOperation operand counts as + / - iff its translation is an EMust
        / EMustNot item, BoolOperation operands of a BoolOperation are merged into it; a term on the default
        field is not given a nested wrapper"""
        self.T, self.cfg, self.np = T, cfg, np
        self.code_bool, self.code_default = code_bool, code_default
        self.np_code = nested_paths(cfg, False)
        plain = {k: v for k, v in cfg.items() if k not in ("nested_fields", "object_fields", "sub_fields")}
        self.leaf_builder = E.builder(plain)
        self.default_field = cfg.get("default_field", "text")
        self.any_default = cfg.get("default_operator", "should") == "should"
        self.cache = {}

    def term_clause(self, prefix, t, mods):
        T = self.T
        key = (prefix, id(t), tuple(id(m) for m in mods))
        if key not in self.cache:
            x = copy.deepcopy(t)
            for m in reversed(mods):                 # innermost modifier first
                x = T.Fuzzy(x, m.degree) if isinstance(m, T.Fuzzy) else T.Proximity(x, m.degree)
            if prefix is not None:
                x = T.SearchField(".".join(prefix), x)
            self.cache[key] = atom_key(self.leaf_builder(x))
        return self.cache[key]

    def den(self, t, prefix, lvl, mods, d):
        T, np = self.T, self.np
        k = type(t)
        if k in (T.Word, T.Phrase, T.Range):
            f = prefix if prefix is not None else comps(self.default_field)
            a = self.term_clause(prefix, t, mods)
            if self.code_default and prefix is None:
                return level_of(np, f) == tuple(lvl) and a in d["truth"]
            return any(a in o["truth"] for o in objects_at(np, lvl, level_of(np, f), d))
        if k is T.SearchField:
            p2 = (prefix or ()) + comps(t.name)
            l2 = level_of(np, p2)
            return any(self.den(t.expr, p2, l2, mods, o) for o in objects_at(np, lvl, l2, d))
        if k in (T.Group, T.FieldGroup, T.Boost):
            return self.den(t.children[0], prefix, lvl, mods, d)
        if k in (T.Fuzzy, T.Proximity):
            return self.den(t.term, prefix, lvl, mods + (t,), d)
        sub = lambda c: self.den(c, prefix, lvl, (), d)  # noqa
        if k is T.AndOperation or (k is T.UnknownOperation and not self.any_default):
            return all(sub(c) for c in t.children)
        if k is T.OrOperation or k is T.UnknownOperation:
            return any(sub(c) for c in t.children)
        if k is T.BoolOperation and self.code_bool:
            ops = flat_bool_operands(T, t)
            kinds = [eitem_kind(T, self.cfg, self.np_code, c, prefix or ()) for c in ops]
            req = [c for c, x in zip(ops, kinds) if x == "must"]
            opt = [c for c, x in zip(ops, kinds) if x is None]
            ok = all(sub(c) for c, x in zip(ops, kinds) if x is not None)
            if not req and opt:
                ok = ok and any(sub(c) for c in opt)
            return ok
        if k is T.BoolOperation:
            plus = [c.a for c in t.children if type(c) is T.Plus]
            neg = [c.a for c in t.children if type(c) in (T.Not, T.Prohibit)]
            opt = [c for c in t.children if type(c) not in (T.Plus, T.Not, T.Prohibit)]
            ok = all(sub(c) for c in plus) and not any(sub(c) for c in neg)
            if not plus and opt:
                ok = ok and any(sub(c) for c in opt)
            return ok
        if k in (T.Not, T.Prohibit):
            return not sub(t.a)
        if k is T.Plus:
            return sub(t.a)
        raise ValueError("unsupported item %s" % k.__name__)

    def term_atoms(self, t, prefix=None, mods=()):
        """(atom key, level) of every term of the tree"""
        T = self.T
        k = type(t)
        if k in (T.Word, T.Phrase, T.Range):
            f = prefix if prefix is not None else comps(self.default_field)
            return [(self.term_clause(prefix, t, mods), level_of(self.np, f))]
        if k is T.SearchField:
            return self.term_atoms(t.expr, (prefix or ()) + comps(t.name), mods)
        if k in (T.Fuzzy, T.Proximity):
            return self.term_atoms(t.term, prefix, mods + (t,))
        if k in (T.Group, T.FieldGroup, T.Boost):
            return self.term_atoms(t.children[0], prefix, mods)
        out = []
        for c in t.children:
            out += self.term_atoms(c, prefix, ())
        return out


def flat_bool_operands(T, t):
    out = []
    for c in t.children:
        out += flat_bool_operands(T, c) if type(c) is T.BoolOperation else [c]
    return out


def wrapped_nested(np_code, prefix, name):
    """_split_nested: some prefix + names[:k] (k >= 1) is a nested prefix the code knows"""
    names = name.split(".")
    return any(".".join(tuple(prefix) + tuple(names[:k])) in np_code for k in range(len(names), 0, -1))


def eitem_kind(T, cfg, np_code, c, prefix):
    """"must" / "must_not" when the builder translates c into an EMust / EMustNot item, else None"""
    k = type(c)
    if k in (T.Plus, T.AndOperation):
        return "must"
    if k in (T.Not, T.Prohibit):
        return "must_not"
    if k is T.UnknownOperation:
        return "must" if cfg.get("default_operator", "should") != "should" else None
    if k in (T.Group, T.FieldGroup, T.Boost, T.Fuzzy, T.Proximity):
        return eitem_kind(T, cfg, np_code, c.children[0], prefix)
    if k is T.SearchField:
        if wrapped_nested(np_code, prefix, c.name):
            return None
        return eitem_kind(T, cfg, np_code, c.expr, tuple(prefix) + comps(c.name))
    return None


def f6_shape(T, cfg, t, prefix=()):
    """F6 on the input: some BoolOperation has an operand that is not +x / -x / NOT x and whose translation is
    an EMust / EMustNot item (an AND, an implicit AND, +/-/NOT under parentheses, a field or a boost), or has a
    BoolOperation as a direct operand"""
    np_code = nested_paths(cfg, False)
    if type(t) is T.BoolOperation:
        for c in t.children:
            if type(c) is T.BoolOperation:
                return True
            if type(c) not in (T.Plus, T.Not, T.Prohibit) and eitem_kind(T, cfg, np_code, c, prefix):
                return True
    if type(t) is T.SearchField:
        prefix = tuple(prefix) + comps(t.name)
    return any(f6_shape(T, cfg, c, prefix) for c in t.children)


def json_atoms(np, j, out, paths):
    """(atom key, level or None) of every leaf clause of j; nested paths used by j"""
    if not (isinstance(j, dict) and len(j) == 1):
        return
    (k, body), = j.items()
    if k == "bool" and isinstance(body, dict):
        for v in body.values():
            for q in clauses(v):
                json_atoms(np, q, out, paths)
    elif k == "nested" and isinstance(body, dict):
        if isinstance(body.get("path"), str):
            paths.add(comps(body["path"]))
        json_atoms(np, body.get("query"), out, paths)
    else:
        f = clause_field(j)
        out.append((atom_key(j), None if f is None else level_of(np, comps(f))))


# ------------------------------------------------------------------ documents

def doc_shapes(np, levels, parent=(), width=2):
    """all object trees over the relevant nested levels with 0..width objects per path below each parent object
    (deeper levels: 1..width, to keep the enumeration small); a shape is {path: [shape, ...]}"""
    def below(x, y):                                 # y strictly extends x
        return len(y) > len(x) and tuple(y[:len(x)]) == tuple(x)
    kids = [l for l in levels if below(parent, l) and
            not any(below(parent, m) and below(m, l) for m in levels)]
    options = []
    for l in kids:
        subshapes = doc_shapes(np, levels, l, width)
        lo = 0 if not parent else 1
        opts = []
        for n in range(lo, width + 1):
            for combo in itertools.combinations_with_replacement(range(len(subshapes)), n):
                opts.append([subshapes[i] for i in combo])
        options.append((l, opts))
    shapes = []
    for choice in itertools.product(*[o for _, o in options]):
        shapes.append({".".join(l): c for (l, _), c in zip(options, choice)})
    return shapes or [{}]


def slots(shape, lvl=()):
    """the objects of a shape as (level, index path) in a fixed order"""
    out = [lvl]
    for p, subs in sorted(shape.items()):
        for s in subs:
            out += slots(s, comps(p))
    return out


def make_doc(shape, lvl, truth_iter):
    d = {"truth": next(truth_iter), "subs": {}}
    for p, subs in sorted(shape.items()):
        d["subs"][p] = [make_doc(s, comps(p), truth_iter) for s in subs]
    return d


def documents(r, np, atoms, levels, exhaustive_bits=12, sample=160, max_docs=4000):
    """atoms: {key: level or None}.  Yields documents."""
    shapes = doc_shapes(np, sorted(levels))
    if len(shapes) > 60:
        # keep the extremes (no object at all; `width` objects at EVERY nested level, the shape on which "the
        # same object" and "some other object" can be told apart everywhere) and sample the rest
        by_size = sorted(range(len(shapes)), key=lambda i: len(slots(shapes[i])))
        keep = {by_size[0], by_size[1], by_size[-1], by_size[-2]}
        rest = [i for i in range(len(shapes)) if i not in keep]
        shapes = [shapes[i] for i in sorted(keep)] + [shapes[i] for i in r.sample(rest, 56)]
    budget = max(50, max_docs // max(1, len(shapes)))
    for shape in shapes:
        sl = slots(shape)
        per_slot = [[a for a, l in sorted(atoms.items()) if l is None or tuple(l) == tuple(s)] for s in sl]
        bits = sum(len(x) for x in per_slot)
        if bits <= exhaustive_bits and 2 ** bits <= budget:
            assigns = itertools.product([False, True], repeat=bits)
        else:
            assigns = ([r.random() < 0.5 for _ in range(bits)] for _ in range(min(sample, budget)))
        for a in assigns:
            it = iter(a)
            truths = iter([set(x for x in ps if next(it)) for ps in per_slot])
            yield make_doc(shape, (), truths)


def doc_repr(d):
    return {"true": sorted(d["truth"]), "subs": {p: [doc_repr(o) for o in l] for p, l in d["subs"].items() if l}}


# ------------------------------------------------------------------ the property on one case

def closure(np, levels):
    out = set()
    for l in levels:
        for k in range(1, len(l) + 1):
            if ".".join(l[:k]) in np:
                out.add(tuple(l[:k]))
    return out


def compare(T, cfg, tree, j, r, np, keep=0, **readings):
    """None when es_eval(j, d) == den(tree, d) on every enumerated document, else the first distinguishing
    document; also returns the number of documents and up to `keep` sampled (document, es, den) triples"""
    den = Den(T, cfg, np, **readings)
    atoms, jl, paths = {}, [], set()
    json_atoms(np, j, jl, paths)
    for a, l in jl + den.term_atoms(tree):
        atoms[a] = l
    levels = closure(np, [l for l in atoms.values() if l] + list(paths))
    n, kept, bad = 0, [], None
    for d in documents(r, np, atoms, levels):
        n += 1
        x, y = es_eval(np, j, (), d), den.den(tree, None, (), (), d)
        if len(kept) < keep and (n < 3 or r.random() < 0.02):
            kept.append((d, x, y))
        if x != y:
            bad = (d, x, y)
            break
    return bad, n, kept


def has_bare_term(T, t):
    if isinstance(t, (T.Word, T.Phrase, T.Range)):
        return True
    if isinstance(t, T.SearchField):
        return False
    return any(has_bare_term(T, c) for c in t.children)


def shape_predicates(T, cfg, tree):
    """the known findings as predicates on the input alone"""
    ideal, code = nested_paths(cfg, True), nested_paths(cfg, False)
    df = comps(cfg.get("default_field", "text"))
    return {
        "F6": f6_shape(T, cfg, tree),
        "F8": ideal != code,
        "F17": has_bare_term(T, tree) and level_of(ideal, df) != (),
    }


READINGS = [("F6",), ("F8",), ("F17",), ("F6", "F17"), ("F6", "F8"), ("F8", "F17"), ("F6", "F8", "F17")]


def classify(T, cfg, tree, j, r):
    """a failure is a known finding when the input has the finding's shape AND the failure disappears once the
    reference denotation adopts the code's reading on exactly that point (so that any other difference between
    the JSON and the tree's meaning is still reported)"""
    shapes = shape_predicates(T, cfg, tree)
    for combo in READINGS:
        if not all(shapes[f] for f in combo):
            continue
        np = nested_paths(cfg, "F8" not in combo)
        bad, _, _ = compare(T, cfg, tree, j, r, np, code_bool="F6" in combo, code_default="F17" in combo)
        if bad is None:
            return combo
    return None


def odd_field(T, t):
    """some field name has an empty first component ('' or '.x')"""
    return any(isinstance(n, T.SearchField) and n.name.split(".")[0] == "" for _, n in gentree.all_nodes(t))


def has_empty_nested(j):
    if isinstance(j, dict):
        if isinstance(j.get("nested"), dict) and j["nested"].get("path") == "":
            return True
        return any(has_empty_nested(v) for v in j.values())
    if isinstance(j, list):
        return any(has_empty_nested(v) for v in j)
    return False


def sem_config(cfg):
    for o in (cfg.get("field_options") or {}).values():
        for k in ("match_type", "type"):
            if o.get(k) in ("bool", "nested"):
                return False
    return True


def wf_config(cfg):
    for o in (cfg.get("field_options") or {}).values():
        for k in ("match_type", "type"):
            if k in o and not isinstance(o[k], str):
                return False
    return True


DOCUMENTED = ("NestedSearchFieldException", "ObjectSearchFieldException", "OrAndAndOnSameLevel")


# ------------------------------------------------------------------ Coq evaluation of the reference semantics

SEM_DEFS = """Definition chk_sem (c : es_config * item * json * list (fdoc * bool * bool)) : bool :=
  let '(cfg, t, j, docs) := c in
  forallb (fun x => let '(f, es, dn) := x in
                    Bool.eqb (es_matches cfg j (doc_of f)) es && Bool.eqb (den cfg t (doc_of f)) dn) docs."""
SEM_IMPORTS = "Base Decimal Tree Json EsSpecs EsCheck EsBuild EsSpec EsSem"


def g_fdoc(d, cands):
    atoms = [E.g_json(ATOM_OBJ[k], cands) for k in sorted(d["truth"])]
    kids = ["(%s, %s)" % (lib.g_str(p), lib.g_list([g_fdoc(o, cands) for o in l]))
            for p, l in sorted(d["subs"].items())]
    return "(FDoc %s %s)" % (lib.g_list(atoms), lib.g_list(kids))


# ------------------------------------------------------------------ correspondence

def witnesses(T, parser):
    w = T.Word
    return [
        ({}, [T.BoolOperation(w("a"), T.AndOperation(w("x"), w("y"))),                 # F6
              T.BoolOperation(w("b"), T.Group(T.Not(w("a")))),
              T.BoolOperation(T.BoolOperation(T.Plus(w("a")), w("b")), w("d")),
              T.BoolOperation(w("a"), T.Plus(w("b")), T.Prohibit(w("c"))),
              parser.parse("NOT NOT a"), parser.parse("a AND (b OR NOT c)")], "F6"),
        ({"default_operator": "must"}, [T.BoolOperation(w("a"), T.UnknownOperation(w("x"), w("y")))], "F6"),
        ({"nested_fields": {"a": {"b": {"c": {}}}}},                                   # F8
         [parser.parse("a:(b.c:x AND b.c:y)"), parser.parse("a.b.c:x")], "F8"),
        ({"nested_fields": {"a": ["b"]}, "default_field": "a.b"},                      # F17
         [parser.parse("x"), parser.parse("NOT x"), parser.parse("a.b:x")], "F17"),
        ({}, [parser.parse(".a:foo")], "F18"),
        ({"nested_fields": {"a": {"b": ["c"], "d": None}}},
         [parser.parse(q) for q in ["a:(b.c:x AND d:y)", "a:(b.c:x)", "a.b.c:x AND a.d:y", "NOT a:(NOT d:x)",
                                    "a:(b:(c:x AND c:y) OR d:z)", "a.d:x a.d:y", "(a.b.c:x)^2", "a:(d:x~2)",
                                    '-a.d:"p q"~2 +a.b.c:[1 TO 5]']], "nested"),
    ]


def correspond(model_ok, res):
    import luqum.tree as T
    from luqum.parser import parser
    r = lib.rng("C05")
    rdoc = lib.rng("C05-docs")
    n = 120 if lib.tier() == "quick" else 1200
    sessions = witnesses(T, parser) + E.nested_vocab_sessions(r, T, n // 3) + \
        E.builder_sessions(r, T, n, odd_share=0.2)
    history = {}          # session index -> descriptions of the trees the session's builder has translated
    stats = {"judged": 0, "translated": 0, "refused": 0, "documents": 0, "known": {}, "unjudged": 0,
             "history_dependent": 0, "max_objects_per_level": 2}
    sem_cases, sem_payloads = [], []

    def oracle(cfg, tree, outcome, info):
        if not (E.supported(T, tree, strict=True) and wf_config(cfg) and sem_config(cfg)):
            stats["unjudged"] += 1
            history.setdefault(info["session"], []).append(info["desc"])
            return []
        before = list(history.setdefault(info["session"], []))
        history[info["session"]].append(info["desc"])
        payload = {"config": repr(cfg), "tree": info["desc"], "earlier_calls_on_this_builder": before[-12:]}
        out = []
        # a builder that has translated other trees must return what a fresh builder returns (the model is a
        # pure function of configuration and tree; the property quantifies over every call)
        if outcome != info["fresh"]:
            stats["history_dependent"] = stats.get("history_dependent", 0) + 1
            out.append((dict(payload, why="a used builder and a fresh builder translate the tree differently",
                             used_builder=repr(outcome)[:1200], fresh_builder=repr(info["fresh"])[:1200]), None))
        if info["again"] is not None and info["again"][0] != info["again"][1]:
            out.append((dict(payload, why="the first tree of the session is translated differently when it is "
                                          "translated again by the same builder at the end",
                             first=repr(info["again"][0])[:1200], again=repr(info["again"][1])[:1200]), None))
        return out + judge(cfg, tree, outcome, info, payload)

    def judge(cfg, tree, outcome, info, payload):
        if odd_field(T, tree):
            # F18: fields '' / '.x' are taken for fields under the nested path '' that an empty nested_fields
            # specification flattens to; such trees are not judged otherwise
            stats["unjudged"] += 1
            if outcome[0] == "ok" and has_empty_nested(outcome[1]) and not nested_paths(cfg, False):
                stats["known"]["F18"] = stats["known"].get("F18", 0) + 1
                return [(dict(payload, why="nested clause on the empty path", json=repr(outcome[1])[:600]), "F18")]
            return []
        stats["judged"] += 1
        if outcome[0] == "exc":
            stats["refused"] += 1
            if outcome[1] in DOCUMENTED:
                return []
            return [(dict(payload, why="exception other than the documented ones", observed=outcome[1]), None)]
        stats["translated"] += 1
        j = outcome[1]
        try:
            bad, ndocs, kept = compare(T, cfg, tree, j, rdoc, nested_paths(cfg, True), keep=3)
        except Exception as e:  # noqa
            return [(dict(payload, why="reference semantics could not be evaluated: %r" % e), None)]
        stats["documents"] += ndocs
        docs = kept + ([bad] if bad else [])
        try:
            cands = E.decimals_of(T, tree)
            sem_cases.append("(%s, %s, %s, %s)" % (
                E.g_config(cfg), lib.g_item(tree), E.g_json(j, cands),
                lib.g_list(["(%s, %s, %s)" % (g_fdoc(d, cands), lib.g_bool(x), lib.g_bool(y)) for d, x, y in docs])))
            sem_payloads.append(dict(payload, json=repr(j)[:600], documents=[doc_repr(d) for d, _, _ in docs][:2]))
        except lib.Unmodelled:
            pass
        if bad is None:
            return []
        d, x, y = bad
        combo = classify(T, cfg, tree, j, rdoc)
        fid = None
        if combo:
            fid = combo[0]
            stats["known"]["+".join(combo)] = stats["known"].get("+".join(combo), 0) + 1
        return [(dict(payload, why="the query and the tree disagree on a document", json=repr(j)[:1500],
                      document=doc_repr(d), query_matches=x, tree_denotes=y), fid)]

    E.run_sessions("C05", res, model_ok, sessions, T, oracle)
    res.rule = ("sessions of builder calls (ONE builder per session, compared with a fresh builder on every call): "
                "nested vocabulary sessions (nesting in nesting author>book>format, the same child names under "
                "author / publisher / the root, in four spellings; chains, dotted names, groups whose operands are "
                "all deeper-nested fields; corpus in written and shuffled order, random trees); "
                "fixed witnesses of the known findings and nested corpus, parsed corpus "
                "x fixed configurations, random supported trees (grammar shapes) and odd trees x random "
                "configurations; the equivalence oracle judges supported trees in grammar shapes under well-formed "
                "configurations on all documents with <= 2 objects per nested path (all truth assignments up to "
                "12 bits per shape, seeded samples beyond); non-trivial = distinct (configuration, tree) with more "
                "than one node")
    res.distribution["oracle"] = stats
    # the Coq reference semantics against the Python mirror, on the implementation's JSON
    if model_ok and sem_cases and not res.model_error:
        canary = ("(default_config, Term KWord meta0 [120]%N, JObj [(k_bool, JObj [])], "
                  "[(FDoc [] [], true, true)])")
        try:
            badi = lib.eval_cases("C05s", SEM_IMPORTS, SEM_DEFS, sem_cases + [canary], "chk_sem", shard=40)
        except Exception as e:  # noqa
            res.model_error = str(e)[-3000:]
            return res
        if len(sem_cases) not in badi:
            res.model_error = "semantics canary not reported: the comparison is vacuous"
        for i in badi:
            if i < len(sem_cases):
                res.disagreements.append(dict(sem_payloads[i], what="EsSem.v and its Python mirror disagree"))
        res.distribution["semantics_cases"] = len(sem_cases)
        res.cases += len(sem_cases)
    return res


SPEC = {
    "id": "C05",
    "targets": ["props/C05.vo"],
    "model_targets": ["model/EsBuild.vo", "model/EsSpec.vo", "model/EsSem.vo"],
    "module": "C05",
    "theorems": ["C05_reject", "C05_boolean_partial", "C05_refuted", "C05_refuted_F8", "C05_refuted_F17", "C05_refuted_F18"],
    # the nested part (proofs/EsNestedProofs.v): equivalence for nested fields of any depth + structure of the query
    "more": [{"module": "C05n", "target": "props/C05n.vo",
              "theorems": ["C05_nested_partial", "C05_nested_subsumes_boolean", "C05_nested_structure",
                           "C05_nested_ok_names",
                           "C05_nested_F8_guard_needed", "C05_nested_F17_guard_needed", "C05_nested_F6_guard_needed",
                           "C05_nested_F18_guard_needed", "C05_nested_F19_guard_needed",
                           "C05_structure_F8_guard_needed", "C05_structure_F17_guard_needed",
                           "C05_structure_F18_guard_needed"]}],
    "correspond": correspond,
    "statement": "on supported trees and well-formed configurations the builder raises a documented inconsistency "
                 "exception or returns a JSON that matches (reference semantics of bool / nested / leaf clauses, "
                 "EsSem.es_eval) exactly the documents the tree denotes (EsSem.den).  Full statement refuted "
                 "(F6, F8, F17, F18); the reject clause is proved in full; the equivalence is proved for configurations "
                 "without nested fields and trees without the F6 shape (C05_boolean_partial) and, in C05n.v, for EVERY "
                 "configuration (nested fields of any depth, object and sub fields, any default field / operator) and "
                 "every document (arrays of nested objects at every level) under executable guards that exclude "
                 "exactly F8 (nested_have_leaf), F17 (default_ok) and F6 / F18 / a ~ modifier above a field that "
                 "crosses a nested boundary (nested_ok; the last shape, F19, is not producible by the grammar): "
                 "C05_nested_partial, with one refutation per guard showing it necessary; C05_nested_structure: in "
                 "the JSON of every translated tree (under not-F8, not-F17, not-F18) every nested clause has a declared "
                 "path that properly extends the enclosing one and every leaf sits directly under the innermost nested "
                 "path of its field (EsNested.nest_wf), so no nested clause is nested twice.  The oracle below still "
                 "judges every generated case on the implementation",
    "trusted_base": [
        "Coq 8.16.1 kernel (vm_compute for witnesses and correspondence; no native_compute)",
        "no axioms (Print Assumptions: closed under the global context)",
        "coq/model/EsSem.v: the reference semantics of Elasticsearch bool / nested / leaf clauses and of luqum "
        "trees, written from the ES documentation and the property text: the specification trusted for C05",
        "hand-written models coq/model/{Json,EsSpecs,EsCheck,EsBuild}.v tied to the code by differential "
        "correspondence on every run; the Python mirror of EsSem.v in harness/c05.py is compared with EsSem.v "
        "on sampled documents on every run",
    ],
    "assumptions": [
        "supported trees: words, phrases, ranges (bounds: word / phrase, possibly under -), fuzzy, proximity, "
        "boost, groups, fields, AND / OR / implicit / boolean operations with >= 2 operands, NOT, +, -; the oracle "
        "judges grammar shapes only (fuzzy on a word, proximity on a phrase)",
        "well-formed configurations (match_type / type options are str) that do not rename a leaf query to "
        "'bool' or 'nested' (EsSem.sem_config)",
        "Elasticsearch semantics as written in EsSem.v: nested objects are hidden documents reached only through "
        "a nested query (multi-level paths resolved directly); bool = all must/filter, no must_not, and one "
        "should when there is no must/filter (minimum_should_match default); a leaf clause on a field of "
        "another nested level matches nothing; zero_terms_query, boost and _name do not change which documents "
        "match; a multi_match clause (user-supplied fields) addresses the level it is evaluated at",
        "the atom of a term is the (normalised) leaf clause the builder's leaf constructors give for the term "
        "alone in its field context: that it is the right clause is property C06, not C05",
        "declared nested paths = every non-empty ancestor of a flattened declared nested path (a dot-less "
        "declared path is its own parent), as in C07",
        "BoolOperation denotes the Lucene boolean query with -x / NOT x read as the complement (a purely "
        "negative BoolOperation matches the complement, as the property text says, not nothing as in Lucene)",
        "default_operator values other than SHOULD act as MUST (as in the code)",
        "trees with a field named '' or '.x' are judged only for finding F18",
        "C05n.v guards (model/EsNested.v), each an executable predicate on the input: nested_have_leaf = every "
        "ancestor of a declared nested path is the parent of a declared path (not F8); default_ok = no term outside "
        "every field unless the default field is under no nested path (not F17); nested_ok = BoolOperation operands "
        "are +x / -x / NOT x or translate to neither EMust nor EMustNot (a field crossing a nested boundary counts "
        "as 'other', as in the code; not F6), field names have a non-empty first component unless '' is not a "
        "nested prefix for the code (not F18), and no Fuzzy / Proximity sits above a field that crosses a nested "
        "boundary (F19: Fuzzy(SearchField('a.b', Word('x')), 2) loses its fuzziness when a is nested)",
    ],
}
