#!/bin/sh
# tools/seedtest.sh <PROP> <K> [checks...]
# Evaluate seeded change K produced for property PROP under /tmp/seed/PROP/out/K:
#  1. in a fresh scratch worktree: the unmodified demo passes; with the patch the test-suite is green and the demo fails;
#  2. run the given checks (default: PROP) from a private copy of /verif against the patched worktree
#     (VERIF_REPO=<worktree>), so neither /repo nor the shared /verif build is disturbed;
#  3. store patch, demo, meta.json under /verif/seeded/PROP-K/.
PROP=$1; K=$2; shift 2; CHECKS=${*:-$PROP}
SRC=/tmp/seed/$PROP/out/$K
[ -f "$SRC/patch.diff" ] || SRC=/verif/seeded/$PROP-$K     # stored copy of an evaluated change
BASE=$(/venv/bin/python -c "import json,sys;print(json.load(open(sys.argv[1])).get('base_commit','HEAD'))" /verif/seeded/$PROP-$K/meta.json 2>/dev/null || echo HEAD)
WT=/tmp/seedrun/$PROP-$K
VS=/tmp/vs/$PROP-$K
[ -f "$SRC/patch.diff" ] || { echo "no patch at $SRC"; exit 2; }
rm -rf "$WT"; mkdir -p /tmp/seedrun
git -C /repo worktree add -q --detach "$WT" ${BASE:-HEAD} || exit 2
cd "$WT"
PYTHONPATH=$WT /venv/bin/python "$SRC/demo.py" >/tmp/seedrun/$PROP-$K.demo0 2>&1; D0=$?
git apply "$SRC/patch.diff" || { echo "patch does not apply"; git -C /repo worktree remove --force "$WT"; exit 2; }
TESTS=$(/venv/bin/python -m pytest -q -p no:cacheprovider --timeout=900 2>&1 | tail -1)
PYTHONPATH=$WT /venv/bin/python "$SRC/demo.py" >/tmp/seedrun/$PROP-$K.demo1 2>&1; D1=$?
echo "demo unpatched exit=$D0 ; patched exit=$D1 ; tests: $TESTS"
mkdir -p $VS && rsync -a --delete --exclude .git --exclude replays --exclude 'coq/corr' /verif/ $VS/ >/dev/null
RES=""
for C in $CHECKS; do
  OUT=$(cd $VS && VERIF_REPO=$WT ./check $C 2>&1 | tail -4)
  RC=$(echo "$OUT" | grep -c '^VIOLATION')
  LINE=$(echo "$OUT" | grep '^VIOLATION' | head -1)
  SUMMARY=$(echo "$OUT" | tail -1)
  echo "check $C: violations_lines=$RC :: $LINE :: $SUMMARY"
  RES="$RES{\"check\":\"$C\",\"violation_lines\":$RC,\"first\":\"$(echo $LINE | sed 's/"/\\"/g')\",\"summary\":\"$(echo $SUMMARY | sed 's/"/\\"/g')\"},"
done
DEST=/verif/seeded/$PROP-$K
mkdir -p $DEST; [ "$SRC" = "$DEST" ] || { cp "$SRC/patch.diff" "$SRC/demo.py" $DEST/ && cp "$SRC/notes.md" $DEST/notes.md 2>/dev/null; }
cp $DEST/meta.json /tmp/seedrun/$PROP-$K.oldmeta 2>/dev/null
cat > $DEST/meta.json <<META
{"property": "$PROP", "change": $K,
 "confirmed": {"demo_exit_unpatched": $D0, "demo_exit_patched": $D1, "tests_patched": "$TESTS"},
 "ran": "fresh worktree of /repo HEAD + git apply patch.diff; pytest; demo.py; then 'VERIF_REPO=<worktree> ./check <id>' from a private copy of /verif (equivalent to git -C /repo apply + ./check + git checkout, without disturbing concurrent builds)",
 "checks": [${RES%,}]}
META
/venv/bin/python - "$DEST/meta.json" "/tmp/seedrun/$PROP-$K.oldmeta" <<'PYEOF'
import json, sys, os
new = json.load(open(sys.argv[1]))
if os.path.exists(sys.argv[2]):
    old = json.load(open(sys.argv[2]))
    for k in ("history", "base_commit", "base_note", "summary_text"):
        if k in old:
            new[k] = old[k]
    json.dump(new, open(sys.argv[1], "w"), indent=1, ensure_ascii=False)
PYEOF
rm -f /tmp/seedrun/$PROP-$K.oldmeta /tmp/seedrun/$PROP-$K.demo0 /tmp/seedrun/$PROP-$K.demo1
cd /; [ -n "$KEEP" ] && exit 0; git -C /repo worktree remove --force "$WT"; rm -rf "$VS"
