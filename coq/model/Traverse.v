(* Traverse.v — luqum.visitor: TreeVisitor / PathTrackingVisitor traversal with probe handlers,
   the `_get_method` dispatch cache over histories of visits, and the default TreeTransformer
   (generic_visit = clone_item + children := transformed children).
   Executable definitions only.

   Python side modelled (luqum/visitor.py):
     visit_iter(node, ctx)      = method = self._get_method(node); yield from method(node, ctx)
     generic_visit(node, ctx)   = for (i,) child in node.children: visit_iter(child, child_context(...))
     child_context              = dict(ctx); "parents" += (node,) if self.track_parents;
                                  PathTrackingMixin: "path" = ctx["path"] + (i,)
     _get_method                = cache on the INSTANCE (self._get_method_cache), keyed by type(node);
                                  on a miss: first class of type(node).mro() with a visit_<name>
                                  attribute, else generic_visit
   A *probe visitor* is a subclass whose handlers visit_<k> (k in a set H of class names) yield one
   event and then run the base class's generic_visit; optionally generic_visit itself is wrapped the
   same way (events with handler None).  *)
Require Import Base Decimal Tree GenTree GenVisitors Visitor Eq.

(* ---------------------------------------------------------------- (a) traversal *)

(* a visitor instance as far as traversal is concerned *)
Record vconf := mkV {
  v_H : list cls;      (* classes k for which the visitor class has a visit_<k> probe handler *)
  v_pt : bool;         (* subclass of PathTrackingVisitor (true) or of plain TreeVisitor (false) *)
  v_lg : bool;         (* generic_visit is wrapped too: nodes without specific handler emit an event *)
  v_tp : bool          (* constructor argument track_parents *)
}.

(* the context dict, reduced to the two keys the library maintains; None = key absent *)
Record ctx := mkCtx { c_path : option path; c_parents : option (list item) }.

(* visit(): context = {} ; PathTrackingMixin.visit adds context["path"] = () *)
Definition root_ctx (v : vconf) : ctx := mkCtx (if v_pt v then Some [] else None) None.

(* child_context(node, child, context, position=i) *)
Definition child_ctx (tp : bool) (node : item) (i : nat) (cx : ctx) : ctx :=
  mkCtx (match c_path cx with Some p => Some (p ++ [i]) | None => None end)
        (if tp then Some (match c_parents cx with Some l => l | None => [] end ++ [node])
         else c_parents cx).

(* what a probe handler yields: context.get("path"), the class whose handler runs (None = the
   generic handler), context.get("parents", ()), the node it was handed *)
Record event := mkEv {
  ev_path : option path; ev_handler : option cls; ev_parents : list item; ev_node : item }.

Definition mk_event (h : option cls) (t : item) (cx : ctx) : event :=
  mkEv (c_path cx) h (match c_parents cx with Some l => l | None => [] end) t.

(* events emitted at the node itself, given the method that was looked up *)
Definition here_events (lg : bool) (h : option cls) (t : item) (cx : ctx) : list event :=
  match h with
  | Some k => [mk_event (Some k) t cx]
  | None => if lg then [mk_event None t cx] else []
  end.

(* generic_visit over the children list *)
Definition tr_list (f : item -> ctx -> list event) (tp : bool) (node : item) (cx : ctx) :=
  fix go (i : nat) (l : list item) : list event :=
    match l with
    | [] => []
    | c :: l' => f c (child_ctx tp node i cx) ++ go (S i) l'
    end.

(* visit_iter without the cache: the method is what the MRO lookup gives *)
Fixpoint tr_go (v : vconf) (t : item) (cx : ctx) : list event :=
  let via (cs : list item) :=
    here_events (v_lg v) (dispatch (v_H v) (cls_of t)) t cx ++ tr_list (tr_go v) (v_tp v) t cx 0 cs in
  match t with
  | Term _ _ _ | NoneItem _ => via []
  | SearchField _ _ e | Grp _ _ e | Boost _ e _ _ => via [e]
  | Fuzzy _ x _ _ | Proximity _ x _ _ => via [x]
  | Unary _ _ a | ORange _ _ a _ => via [a]
  | Range _ lo hi _ _ => via [lo; hi]
  | Op _ _ ops => via ops
  end.

(* visitor.visit(tree) *)
Definition traverse (v : vconf) (t : item) : list event := tr_go v t (root_ctx v).

(* ---------------------------------------------------------------- (b) the dispatch cache *)

(* a bound method: the instance it is bound to and the handler class (None = generic_visit) *)
Definition bound := (nat * option cls)%type.

(* a cache entry key: per-instance caches are keyed by (instance, type(node)); a cache shared by
   all visitor classes would be keyed by type(node) alone *)
Definition ckey := (option nat * cls)%type.
Definition ckey_eqb (a b : ckey) : bool :=
  (match fst a, fst b with
   | None, None => true
   | Some i, Some j => Nat.eqb i j
   | _, _ => false
   end) && cls_eqb (snd a) (snd b).

Definition cache := list (ckey * bound).

Fixpoint cache_get (k : ckey) (ch : cache) : option bound :=
  match ch with
  | [] => None
  | (k', b) :: ch' => if ckey_eqb k k' then Some b else cache_get k ch'
  end.

Definition cache_key (shared : bool) (i : nat) (c : cls) : ckey := (if shared then None else Some i, c).

(* TreeVisitor._get_method for instance i whose class has handler set H *)
Definition get_method (shared : bool) (H : list cls) (i : nat) (c : cls) (ch : cache) : bound * cache :=
  match cache_get (cache_key shared i c) ch with
  | Some b => (b, ch)
  | None => let b := (i, dispatch H c) in (b, (cache_key shared i c, b) :: ch)
  end.

(* where the code keeps the cache: read from the generated fact.  `CacheOther` (the translator did
   not recognise "stored through self, class default None, keyed by type(node)") is treated as the
   worst case, a cache shared by everybody, so that the soundness theorem stops checking *)
Definition code_cache_shared : bool :=
  match gen_cache_scope with CachePerInstanceByType => false | CacheOther => true end
  || gen_getmethod_shared_state.   (* any other state of _get_method shared between visitor classes *)

(* a tree value has no hidden state: the `children` getters rebuild their list from the defining
   attributes on every read (generated fact); the traversal and copy models below read `children t`
   of the value as it is, which is only faithful when this holds *)
Definition code_children_pure : bool := gen_children_is_pure.

(* a history of method look-ups: instance i is handed a node of class c *)
Inductive op := Visit (i : nat) (c : cls).

Fixpoint run_history (shared : bool) (Hof : nat -> list cls) (h : list op) (ch : cache)
  : list bound * cache :=
  match h with
  | [] => ([], ch)
  | Visit i c :: h' =>
      let '(b, ch1) := get_method shared (Hof i) i c ch in
      let '(bs, ch2) := run_history shared Hof h' ch1 in
      (b :: bs, ch2)
  end.

(* ---- method names.  A visitor class defines methods named <prefix><class>; TreeVisitor._get_method
   builds the candidate names with the visitor's OWN `visitor_method_prefix` on every cache miss, so
   the handler set H of a class (v_H above, Hof in run_history) is what that class defines under its
   own prefix.  Prefixes are abstract identifiers (0 = "visit_"). *)
Definition prefix := nat.
Record vclass := mkVC { vc_prefix : prefix; vc_methods : list (prefix * cls) }.

Definition methods_under (p : prefix) (V : vclass) : list cls :=
  map snd (filter (fun m => Nat.eqb (fst m) p) (vc_methods V)).
Definition H_of_class (V : vclass) : list cls := methods_under (vc_prefix V) V.

(* the look-up as the code does it (fresh instance, so the per-instance cache plays no role) *)
Definition lookup_own (V : vclass) (c : cls) : option cls := dispatch (H_of_class V) c.

(* what would happen if the candidate names were memoised at class level, keyed by the node class
   only and shared by every visitor class: the prefix of whichever visitor met the node class first
   is frozen into the memo *)
Definition names_memo := list (cls * prefix).
Fixpoint memo_get (c : cls) (mm : names_memo) : option prefix :=
  match mm with
  | [] => None
  | (c', p) :: mm' => if cls_eqb c c' then Some p else memo_get c mm'
  end.
Definition lookup_memo (V : vclass) (c : cls) (mm : names_memo) : option cls * names_memo :=
  match memo_get c mm with
  | Some p => (dispatch (methods_under p V) c, mm)
  | None => (dispatch (methods_under (vc_prefix V) V) c, (c, vc_prefix V) :: mm)
  end.
Fixpoint run_memo (Vof : nat -> vclass) (h : list op) (mm : names_memo) : list (option cls) :=
  match h with
  | [] => []
  | Visit i c :: h' => let '(r, mm') := lookup_memo (Vof i) c mm in r :: run_memo Vof h' mm'
  end.

(* the traversal with the cache threaded through (pre-order = order of the _get_method calls).
   The looked-up bound method is *called*: its owner instance continues the traversal. *)
Definition trc_list (f : item -> ctx -> cache -> list event * cache) (tp : bool) (node : item) (cx : ctx) :=
  fix go (i : nat) (l : list item) (ch : cache) : list event * cache :=
    match l with
    | [] => ([], ch)
    | c :: l' =>
        let '(e1, ch1) := f c (child_ctx tp node i cx) ch in
        let '(e2, ch2) := go (S i) l' ch1 in
        (e1 ++ e2, ch2)
    end.

Fixpoint trc_go (shared : bool) (vc : nat -> vconf) (i : nat) (t : item) (cx : ctx) (ch : cache)
  : list event * cache :=
  let '(b, ch1) := get_method shared (v_H (vc i)) i (cls_of t) ch in
  let v := vc (fst b) in
  let via (cs : list item) :=
    let '(es, ch2) := trc_list (trc_go shared vc (fst b)) (v_tp v) t cx 0 cs ch1 in
    (here_events (v_lg v) (snd b) t cx ++ es, ch2) in
  match t with
  | Term _ _ _ | NoneItem _ => via []
  | SearchField _ _ e | Grp _ _ e | Boost _ e _ _ => via [e]
  | Fuzzy _ x _ _ | Proximity _ x _ _ => via [x]
  | Unary _ _ a | ORange _ _ a _ => via [a]
  | Range _ lo hi _ _ => via [lo; hi]
  | Op _ _ ops => via ops
  end.

(* a history of whole visits: instance i visits tree t; the caches persist between visits *)
Fixpoint run_visits (shared : bool) (vc : nat -> vconf) (h : list (nat * item)) (ch : cache)
  : list (list event) * cache :=
  match h with
  | [] => ([], ch)
  | (i, t) :: h' =>
      let '(es, ch1) := trc_go shared vc i t (root_ctx (vc i)) ch in
      let '(r, ch2) := run_visits shared vc h' ch1 in
      (es :: r, ch2)
  end.

(* ---------------------------------------------------------------- (c) default transformer *)

Definition copy_list (f : item -> option item) :=
  fix go (l : list item) : option (list item) :=
    match l with
    | [] => Some []
    | c :: l' =>
        match f c with
        | None => None
        | Some c' => match go l' with None => None | Some cs => Some (c' :: cs) end
        end
    end.

(* TreeTransformer.generic_visit on every node (TreeTransformer().visit / PathTrackingTransformer()
   .visit with no handler): new = node.clone_item(); new.children = [copies of the children].
   None = an exception (TypeError of clone_item, ValueError of the generic children setter). *)
Fixpoint copy (t : item) : option item :=
  let via (cs : list item) :=
    match clone_item t with
    | None => None
    | Some n =>
        match copy_list copy cs with
        | None => None
        | Some cs' => set_children n cs'
        end
    end in
  match t with
  | Term _ _ _ | NoneItem _ => via []
  | SearchField _ _ e | Grp _ _ e | Boost _ e _ _ => via [e]
  | Fuzzy _ x _ _ | Proximity _ x _ _ => via [x]
  | Unary _ _ a | ORange _ _ a _ => via [a]
  | Range _ lo hi _ _ => via [lo; hi]
  | Op _ _ ops => via ops
  end.
