(* CheckProofs.v — lemmas about LuceneCheck (model: Check.v). *)
Require Import Base Decimal Tree GenTree GenVisitors Visitor Check TreeInd.
From Coq Require Import Lia.

(* ---------------------------------------------------------------- generated-table facts *)

(* every check_* method of the shipped class has a body in the model *)
Lemma check_methods_known_ok : check_methods_known = true.
Proof. vm_compute. reflexivity. Qed.

(* the shipped pattern sources are the ones the model implements: ^\w+\Z, \s, [+/-] *)
Lemma check_patterns_known_ok : check_patterns_known = true.
Proof. vm_compute. reflexivity. Qed.

(* where the dispatch of LuceneCheck.check lands for each concrete class *)
Definition handler_spec (c : cls) : option cls :=
  match c with
  | CWord => Some CWord | CPhrase => Some CPhrase | CRegex => Some CRegex
  | CSearchField => Some CSearchField | CGroup => Some CGroup | CFieldGroup => Some CFieldGroup
  | CRange => Some CRange | CFuzzy => Some CFuzzy | CProximity => Some CProximity
  | CBoost => Some CBoost
  | CAndOperation | COrOperation | CUnknownOperation | CBoolOperation => Some CBaseOperation
  | CPlus => Some CPlus | CNot => Some CNot | CProhibit => Some CProhibit
  | CFrom | CTo => Some COpenRange
  | _ => None
  end.

Lemma handler_concrete t : handler (cls_of t) = handler_spec (cls_of t).
Proof. destruct t as [[]| |[]| | | | |[]|[]|[]|]; vm_compute; reflexivity. Qed.

(* the handlers wrapped by @_check_children, as the proofs need them: this is the obligation that
   breaks when a decorator is removed *)
Definition recurses (h : cls) : bool := mem_cls h gen_check_recurses.

Lemma recurses_table :
  recurses CSearchField = true /\ recurses CGroup = true /\ recurses CFieldGroup = true /\
  recurses CBoost = true /\ recurses CBaseOperation = true /\ recurses CPlus = true /\
  recurses CNot = true /\ recurses CProhibit = true /\ recurses COpenRange = true /\
  recurses CWord = false /\ recurses CPhrase = false /\ recurses CRegex = false /\
  recurses CRange = false /\ recurses CFuzzy = false /\ recurses CProximity = false.
Proof. vm_compute. repeat split; reflexivity. Qed.

Lemma isinstance_searchfield p : isinstance p CSearchField = cls_eqb p CSearchField.
Proof. destruct p; vm_compute; reflexivity. Qed.

Lemma isinstance_or p : isinstance p COrOperation = cls_eqb p COrOperation.
Proof. destruct p; vm_compute; reflexivity. Qed.

Lemma isinstance_word t : isinstance (cls_of t) CWord = is_word t.
Proof. destruct t as [[]| |[]| | | | |[]|[]|[]|]; vm_compute; reflexivity. Qed.

Lemma isinstance_phrase t : isinstance (cls_of t) CPhrase = is_phrase t.
Proof. destruct t as [[]| |[]| | | | |[]|[]|[]|]; vm_compute; reflexivity. Qed.

(* FIELD_EXPR_FIELDS is exactly the property's list of value expressions *)
Lemma field_expr_fields_value e : isinstance_any (cls_of e) field_expr_fields = value_expr e.
Proof. destruct e as [[]| |[]| | | | |[]|[]|[]|]; vm_compute; reflexivity. Qed.

(* ---------------------------------------------------------------- runs *)

Lemma seq_no_raise a b : r_exn a = None -> r_exn b = None -> r_exn (seq a b) = None.
Proof. intros Ha Hb. unfold seq. rewrite Ha. exact Hb. Qed.

Lemma seq_msgs a b : r_exn a = None -> r_msgs (seq a b) = r_msgs a ++ r_msgs b.
Proof. intros Ha. unfold seq. rewrite Ha. reflexivity. Qed.

Lemma seq_done_nil b : seq (done []) b = b.
Proof. destruct b. reflexivity. Qed.

Lemma yield_if_no_raise b k : r_exn (yield_if b k) = None.
Proof. reflexivity. Qed.

Lemma last_opt_snoc {A} (l : list A) (x : A) : last_opt (l ++ [x]) = Some x.
Proof.
  induction l as [|y l IH]; [reflexivity|].
  simpl. destruct (l ++ [x]) eqn:E; [destruct l; discriminate|exact IH].
Qed.

Section CheckFacts.
  Variable isw isp : char -> bool.
  Variable z : Z.

  Notation check := (check isw isp z).
  Notation own := (own isw isp z).
  Notation walk := (walk check).
  Notation wellformed := (wellformed isw isp z).

  Lemma check_unfold t ps :
    check t ps =
    match handler (cls_of t) with
    | None => done [MUnknownItem]
    | Some h => seq (own h t ps)
                    (if recurses h then walk (ps ++ [cls_of t]) (children t) else done [])
    end.
  Proof. destruct t; reflexivity. Qed.

  (* ---- totality *)

  Lemma own_no_raise t ps h : handler (cls_of t) = Some h -> r_exn (own h t ps) = None.
  Proof.
    rewrite handler_concrete.
    destruct t as [[]| |[]| | | | |[]|[]|[]|]; simpl; intros H; inversion H; subst; reflexivity.
  Qed.

  Lemma walk_no_raise ps l :
    Forall (fun c => forall ps', r_exn (check c ps') = None) l -> r_exn (walk ps l) = None.
  Proof.
    induction l as [|c l IH]; intros HF; [reflexivity|].
    inversion HF as [|? ? Hc HFl]; subst. simpl.
    apply seq_no_raise; [apply Hc|apply IH; exact HFl].
  Qed.

  Lemma check_no_raise : forall t ps, r_exn (check t ps) = None.
  Proof.
    apply (item_children_ind (fun t => forall ps, r_exn (check t ps) = None)).
    intros t IH ps. rewrite check_unfold.
    destruct (handler (cls_of t)) as [h|] eqn:Hh; [|reflexivity].
    apply seq_no_raise; [apply (own_no_raise _ _ _ Hh)|].
    destruct (recurses h); [apply walk_no_raise; exact IH|reflexivity].
  Qed.

  Lemma errors_done t : errors isw isp z t = Done (r_msgs (check t [])).
  Proof. unfold errors. rewrite check_no_raise. reflexivity. Qed.

  Lemma call_done t :
    call isw isp z t = Done (match r_msgs (check t []) with [] => true | _ => false end).
  Proof. unfold call. rewrite check_no_raise. destruct (r_msgs (check t [])); reflexivity. Qed.

  Lemma walk_msgs_in ps l c m :
    In c l -> In m (r_msgs (check c ps)) -> In m (r_msgs (walk ps l)).
  Proof.
    induction l as [|c0 l IH]; intros Hin Hm; [destruct Hin|].
    simpl. rewrite seq_msgs by apply check_no_raise. apply in_or_app.
    destruct Hin as [->|Hin]; [left; exact Hm|right; apply IH; assumption].
  Qed.

  Lemma own_msgs_in_check t ps h m :
    handler (cls_of t) = Some h -> In m (r_msgs (own h t ps)) -> In m (r_msgs (check t ps)).
  Proof.
    intros Hh Hm. rewrite check_unfold, Hh, seq_msgs by (apply (own_no_raise _ _ _ Hh)).
    apply in_or_app. left. exact Hm.
  Qed.

  Lemma child_msgs_in_check t ps h c m :
    handler (cls_of t) = Some h -> recurses h = true -> In c (children t) ->
    In m (r_msgs (check c (ps ++ [cls_of t]))) -> In m (r_msgs (check t ps)).
  Proof.
    intros Hh Hr Hc Hm. rewrite check_unfold, Hh, Hr, seq_msgs by (apply (own_no_raise _ _ _ Hh)).
    apply in_or_app. right. apply (walk_msgs_in _ _ c); assumption.
  Qed.

  (* ---- field names *)

  (* the regular expression accepts exactly the valid names *)
  Lemma field_name_ok_valid n : field_name_ok isw n = valid_field_name isw n.
  Proof. reflexivity. Qed.

  Lemma valid_field_name_ok n : valid_field_name isw n = true -> field_name_ok isw n = true.
  Proof. intros H. rewrite field_name_ok_valid. exact H. Qed.

  (* ---- acceptance *)

  Local Arguments isinstance : simpl never.
  Local Arguments isinstance_any : simpl never.
  Local Arguments field_name_ok : simpl never.
  Local Arguments valid_field_name : simpl never.
  Local Arguments last_isinstance : simpl never.
  Local Arguments has_space : simpl never.
  Local Arguments has_invalid_char : simpl never.
  Local Arguments zealous : simpl never.
  Local Arguments parent_is : simpl never.

  Lemma walk_all_done ps l :
    Forall (fun c => check c ps = done []) l -> walk ps l = done [].
  Proof.
    induction l as [|c l IH]; intros HF; [reflexivity|].
    inversion HF as [|? ? Hc HFl]; subst. simpl. rewrite Hc, seq_done_nil. apply IH. exact HFl.
  Qed.

  Lemma parent_is_last ps k :
    parent_is (last_opt ps) k = match last_opt ps with Some p => cls_eqb p k | None => false end.
  Proof. reflexivity. Qed.

  Lemma last_isinstance_searchfield ps :
    last_isinstance ps CSearchField = parent_is (last_opt ps) CSearchField.
  Proof. unfold last_isinstance, parent_is. destruct (last_opt ps); [apply isinstance_searchfield|reflexivity]. Qed.

  Lemma last_isinstance_or ps :
    last_isinstance ps COrOperation = parent_is (last_opt ps) COrOperation.
  Proof. unfold last_isinstance, parent_is. destruct (last_opt ps); [apply isinstance_or|reflexivity]. Qed.

  Definition accepted_at (t : item) : Prop :=
    forall ps, wellformed (last_opt ps) t = true -> check t ps = done [].

  Ltac split_andb :=
    repeat match goal with
           | H : _ && _ = true |- _ => apply andb_prop in H; destruct H
           | H : negb _ = true |- _ => apply negb_true_iff in H
           end.

  Lemma wellformed_accepted : forall t, accepted_at t.
  Proof.
    induction t using item_ind'; intros ps Hwf; rewrite check_unfold, handler_concrete.
    - (* Term *)
      destruct k; simpl in *; [|reflexivity|reflexivity].
      split_andb. rewrite H, H0. reflexivity.
    - (* SearchField *)
      simpl in *. split_andb.
      rewrite (valid_field_name_ok _ H), field_expr_fields_value, H1. simpl.
      rewrite (IHt (ps ++ [CSearchField])); [reflexivity|]. rewrite last_opt_snoc. exact H0.
    - (* Grp *)
      destruct k; simpl in *; split_andb.
      + rewrite last_isinstance_searchfield, H. simpl.
        rewrite (IHt (ps ++ [CGroup])); [reflexivity|]. rewrite last_opt_snoc. exact H0.
      + rewrite last_isinstance_searchfield, H. simpl.
        rewrite (IHt (ps ++ [CFieldGroup])); [reflexivity|]. rewrite last_opt_snoc. exact H0.
    - (* Range: not inspected *)
      reflexivity.
    - (* Fuzzy *)
      simpl in *. split_andb. rewrite isinstance_word, H, H0. reflexivity.
    - (* Proximity *)
      simpl in *. split_andb. rewrite isinstance_phrase, H. reflexivity.
    - (* Boost *)
      simpl in *.
      rewrite (IHt (ps ++ [CBoost])); [reflexivity|]. rewrite last_opt_snoc. exact Hwf.
    - (* Op *)
      assert (Hw : walk (ps ++ [cls_of_opk k]) ops = done []).
      { apply walk_all_done. simpl in Hwf. rewrite forallb_forall in Hwf.
        rewrite Forall_forall in H. apply Forall_forall. intros c Hc.
        apply (H c Hc). rewrite last_opt_snoc. apply Hwf. exact Hc. }
      destruct k; simpl; simpl in Hw; rewrite Hw; reflexivity.
    - (* Unary *)
      assert (Hc : check t (ps ++ [cls_of_unk k]) = done []).
      { apply IHt. rewrite last_opt_snoc. simpl in Hwf. split_andb. assumption. }
      destruct k; simpl in *; split_andb.
      + rewrite Hc. reflexivity.
      + rewrite Hc. unfold not_operator. rewrite last_isinstance_or.
        rewrite andb_true_r in H. rewrite H. reflexivity.
      + rewrite Hc. unfold not_operator. rewrite last_isinstance_or.
        rewrite andb_true_r in H. rewrite H. reflexivity.
    - (* ORange *)
      assert (Hc : check t (ps ++ [cls_of_ork k]) = done []).
      { apply IHt. rewrite last_opt_snoc. simpl in Hwf. split_andb. assumption. }
      destruct k; simpl in *; rewrite Hc; reflexivity.
    - (* NoneItem *)
      discriminate.
  Qed.

  (* ---- completeness *)

  Lemma handler_of_searchfield m n e : handler (cls_of (SearchField m n e)) = Some CSearchField.
  Proof. rewrite handler_concrete. reflexivity. Qed.

  Lemma defect_detected_here d k ps :
    has_defect isw isp (last_opt ps) d k = true ->
    In (msg_of_defect k) (r_msgs (check d ps)).
  Proof.
    intros Hd.
    destruct k; destruct d as [[]| |[]| | | | |[]|[]|[]|]; try discriminate Hd; simpl in Hd.
    - (* space in word *)
      eapply own_msgs_in_check; [rewrite handler_concrete; reflexivity|].
      simpl. rewrite Hd. left. reflexivity.
    - (* fuzzy on a non-word *)
      eapply own_msgs_in_check; [rewrite handler_concrete; reflexivity|].
      simpl. rewrite isinstance_word, Hd. apply in_or_app. right. left. reflexivity.
    - (* proximity on a non-phrase *)
      eapply own_msgs_in_check; [rewrite handler_concrete; reflexivity|].
      simpl. rewrite isinstance_phrase, Hd. left. reflexivity.
    - (* negative fuzziness *)
      eapply own_msgs_in_check; [rewrite handler_concrete; reflexivity|].
      simpl. rewrite Hd. left. reflexivity.
    - (* invalid field name *)
      eapply own_msgs_in_check; [rewrite handler_concrete; reflexivity|].
      apply negb_true_iff in Hd.
      simpl. rewrite field_name_ok_valid, Hd. left. reflexivity.
    - (* non-value field expression *)
      eapply own_msgs_in_check; [rewrite handler_concrete; reflexivity|].
      simpl. rewrite field_expr_fields_value, Hd. apply in_or_app. right. left. reflexivity.
    - (* group directly under a field *)
      eapply own_msgs_in_check; [rewrite handler_concrete; reflexivity|].
      simpl. rewrite last_isinstance_searchfield, Hd. left. reflexivity.
    - (* field group not under a field *)
      eapply own_msgs_in_check; [rewrite handler_concrete; reflexivity|].
      simpl. rewrite last_isinstance_searchfield, Hd. left. reflexivity.
  Qed.

  Lemma defect_detected_in_context d k :
    forall C ps,
      has_defect isw isp (hole_parent_from (last_opt ps) C) d k = true ->
      In (msg_of_defect k) (r_msgs (check (plug C d) ps)).
  Proof.
    destruct recurses_table as [Rsf [Rg [Rfg [Rb [Rop [Rp [Rn [Rpr _]]]]]]]].
    induction C as [|m n c IH|g m c IH|m c IH f i|o m l c IH r|u m c IH]; intros ps Hd; simpl in Hd; simpl plug.
    - apply defect_detected_here; assumption.
    - eapply child_msgs_in_check;
        [rewrite handler_concrete; reflexivity|exact Rsf|left; reflexivity|].
      apply IH. rewrite last_opt_snoc. exact Hd.
    - destruct g;
        (eapply child_msgs_in_check;
         [rewrite handler_concrete; reflexivity|assumption|left; reflexivity
         |apply IH; rewrite last_opt_snoc; exact Hd]).
    - eapply child_msgs_in_check;
        [rewrite handler_concrete; reflexivity|exact Rb|left; reflexivity|].
      apply IH. rewrite last_opt_snoc. exact Hd.
    - destruct o;
        (eapply child_msgs_in_check;
         [rewrite handler_concrete; reflexivity|exact Rop
         |simpl; apply in_or_app; right; left; reflexivity
         |apply IH; rewrite last_opt_snoc; exact Hd]).
    - destruct u;
        (eapply child_msgs_in_check;
         [rewrite handler_concrete; reflexivity|assumption|left; reflexivity
         |apply IH; rewrite last_opt_snoc; exact Hd]).
  Qed.

End CheckFacts.
