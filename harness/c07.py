"""C07 — the ES builder refuses ambiguous AND/OR mixes and container-field misuse, only those.

Correspondence: the whole builder, `EsBuild.build cfg tree` against ElasticsearchQueryBuilder(**cfg)(tree)
(canonical JSON or exception class), on sessions of calls (see es_common.run_sessions).
Oracle (independent of the model): on supported trees and well-formed configurations the outcome must be
  NestedSearchFieldException / ObjectSearchFieldException  iff  container_misuse(cfg, tree)
  OrAndAndOnSameLevel                                       iff  no container_misuse and mix(cfg, tree)
  a JSON                                                    otherwise
with container_misuse / mix the structural predicates of es_common (every ancestor of a declared path is a
container).  Known finding: F8 (container without leaf child not recognised).  F7 (range bound under `-`:
AttributeError) was repaired by commit 8352212; its inputs stay in the corpus as regression cases.
"""
import lib
import es_common as E
from runner import CorrResult  # noqa: F401


def wf_config(cfg):
    for o in (cfg.get("field_options") or {}).values():
        for k in ("match_type", "type"):
            if k in o and not isinstance(o[k], str):
                return False
    return True


def predicted(T, cfg, tree, ideal):
    if E.container_misuse(T, cfg, tree, ideal):
        return "field"
    if E.mix(T, cfg, tree):
        return "mix"
    return "ok"


def observed(outcome):
    kind, v = outcome
    if kind == "ok":
        return "ok"
    if v in ("NestedSearchFieldException", "ObjectSearchFieldException"):
        return "field"
    if v == "OrAndAndOnSameLevel":
        return "mix"
    return v


def classify(T, cfg, tree, outcome):
    """executable predicates recognising the known findings on the INPUT (plus the observed outcome)"""
    if E.container_misuse(T, cfg, tree, True) and not E.container_misuse(T, cfg, tree, False):
        # F8: the misplaced term sits on a container that is not the parent of a declared path;
        # the code then behaves as if there were no misuse
        if observed(outcome) == predicted(T, cfg, tree, False):
            return "F8"
    return None


def correspond(model_ok, res):
    import luqum.tree as T
    from luqum.parser import parser
    r = lib.rng("C07")
    n = 70 if lib.tier() == "quick" else 700
    sessions = [
        ({"nested_fields": {"a": {"b": {"c": {}}}}},
         [parser.parse("a:y"), parser.parse("a.b:y"), parser.parse("a.b.c:y"), parser.parse("a:(b:(c:y))")], "F8"),
        ({"object_fields": ["a.b.c"], "sub_fields": []},
         [parser.parse("a:y"), parser.parse("a.b:y"), parser.parse("a.b.c:y")], "F8"),
        ({}, [parser.parse("a:[-1 TO 5]"), parser.parse("[-1 TO 5] AND b OR c"),
              parser.parse('a:[1 TO -"x y"]')], "F7-regression"),
    ]
    # every kind of value attached DIRECTLY to a declared object / nested container (the lone wildcard, patterns,
    # phrases, ranges with open bounds, modifiers), in every spelling, negated and boosted
    values = ["*", "?", "par*", '"paris"', "[* TO *]", "[1 TO *]", "x~1", '"a b"~2', "x^2", "/re/", ">=1", "(* OR x)"]
    conts = [("a", "a"), ("a.b", "a:(b"), ("n.o", "n:(o")]
    cq = []
    for v in values:
        for dotted, grouped in conts:
            close = ")" * grouped.count("(")
            cq += ["%s:%s" % (dotted, v), "%s:%s%s" % (grouped, v, close), "NOT %s:%s" % (dotted, v),
                   "x AND (%s:%s)^2" % (dotted, v)]
    for cfg in ({"object_fields": ["a.b.c", "n.o.h"], "sub_fields": []},
                {"nested_fields": {"a": {"b": ["c"]}}, "object_fields": ["n.o.h"]},
                {"nested_fields": {"n": {"o": {"h": None}}}, "object_fields": {"a": {"b": {"c": None}}}, "sub_fields": ["a.b.c.raw"]}):
        sessions.append((cfg, [parser.parse(q) for q in cq], "containers-x-values"))
    # dotted keys in a nested-fields specification, in both orders of the keys, with and without object fields:
    # every declared container is refused, every declared inner field is translated
    dq = ["author.book:x", "author:(book:x)", "author.book.title:x", "author:(book:(isbn:x))", "author.name:x", "author:x",
          "shop.owner.pet:x", "shop.owner.pet.kind:x", "shop:(owner.name:x)", "shop.owner:x", "author.book.isbn:\"a b\""]
    for nf in ({"author.book": ["title", "isbn"], "author": ["name"]},
               {"author": ["name"], "author.book": ["title", "isbn"]},
               {"shop": {"owner.pet": ["kind"], "owner": ["name"]}, "author": {"name": None, "book": ["title", "isbn"]}},
               {"shop": {"owner": ["name"], "owner.pet": ["kind"]}, "author.book": {"title": None, "isbn": None}, "author.name": None}):
        for extra in ({}, {"object_fields": ["x.y"], "sub_fields": []}):
            sessions.append((dict(extra, nested_fields=nf), [parser.parse(q) for q in dq], "dotted-spec-key-order"))
    # a declared field four levels deep, addressed by every spelling (dots, colons, groups, mixed); the names on the way
    # are containers; strict configurations (object and sub fields both declared)
    deepq = ["company.address.geo.city:paris", "company:address:geo:city:paris", "company.address:(geo.city:paris)",
             "company:(address:(geo:(city:paris)))", "company:(address.geo.city:paris)", "company.address.geo:(city:paris AND city:x)",
             "company.address.geo:x", "company.address:x", "company:x", "company.address.geo.town:x", "company:address:geo:town:x",
             "title.raw:x", "title:(raw:x)", "title.rw:x"]
    for cfg in ({"object_fields": ["company.address.geo.city"], "sub_fields": ["title.raw"]},
                {"object_fields": {"company": {"address": {"geo": {"city": None}}}}, "sub_fields": ["title.raw"]},
                {"nested_fields": {"company": {"address": {"geo": ["city"]}}}, "object_fields": [], "sub_fields": []},
                {"nested_fields": {"company": {"address": {"geo": ["city"]}}}, "object_fields": ["x.y"], "sub_fields": ["title.raw"]}):
        sessions.append((cfg, [parser.parse(q) for q in deepq], "deep-declared-field-every-spelling"))
    sessions += E.builder_sessions(r, T, n)
    stats = {"oracle_cases": 0, "predicted": {"field": 0, "mix": 0, "ok": 0}, "F8": 0}

    def oracle(cfg, tree, outcome, info):
        if not (E.supported(T, tree) and wf_config(cfg)):
            return []
        stats["oracle_cases"] += 1
        want = predicted(T, cfg, tree, True)
        stats["predicted"][want] += 1
        if observed(outcome) == want:
            return []
        fid = classify(T, cfg, tree, outcome)
        if fid:
            stats[fid] += 1
        return [({"config": repr(cfg), "tree": info["desc"], "expected": want, "observed": repr(outcome)[:300]},
                 fid)]

    E.run_sessions("C07", res, model_ok, sessions, T, oracle)
    res.rule = ("sessions of 1-10 builder calls: parsed corpus x fixed configurations, then random supported "
                "trees (grammar shapes, names, wildcards, ranges with negative bounds), supported trees with odd "
                "values, and trees of every class in any shape, x random configurations (default operator, "
                "default field, not analysed fields, nested / object / sub specs in all spellings to depth 4, "
                "field_options, match_word_as_phrase); non-trivial = distinct (configuration, tree) with more "
                "than one node")
    res.distribution["oracle"] = stats
    return res


SPEC = {
    "id": "C07",
    "targets": ["props/C07.vo"],
    "model_targets": ["model/EsBuild.vo", "model/EsSpec.vo"],
    "module": "C07",
    "theorems": ["C07_container_partial", "C07_container_sound", "C07_mix_partial", "C07_translated",
                 "C07_no_other_exception",
                 "C07_container_refuted", "C07_mix_refuted"],
    "correspond": correspond,
    "statement": "on supported trees and well-formed configurations: Nested/ObjectSearchFieldException iff a term "
                 "sits on a declared container or an undeclared dotted field; OrAndAndOnSameLevel iff no such "
                 "misuse and an AND-like operation has an OR-like direct operand (or vice versa); otherwise a "
                 "JSON is produced, and no exception other than these three escapes (C07_no_other_exception: "
                 "build cfg t = RExc e -> e is XNested, XObject or XMix).  The mix clause is stated as "
                 "is_mix_exc (build cfg t) <-> ~ container_misuse cfg t /\\ mix cfg t (the nesting checker runs "
                 "first: a tree with both defects gets the container exception); a dot-less declared name (a "
                 "childless top-level key of nested_fields / a dot-less object field) counts as a container: it "
                 "is its own parent.  The last two clauses (and 'a checker refusal is a real misuse') proved in "
                 "full; the two iff clauses refuted (F8) and proved under containers_have_leaf cfg",
    "trusted_base": [
        "Coq 8.16.1 kernel (vm_compute for table facts, witnesses and correspondence; no native_compute)",
        "no axioms (Print Assumptions: closed under the global context)",
        "gen/translate.py: class MROs, method tables of ElasticsearchQueryBuilder and CheckNestedFields, "
        "the \\s character class",
        "hand-written models coq/model/{Json,EsSpecs,EsCheck,EsBuild}.v of luqum.utils spec normalisers, "
        "CheckNestedFields, ElasticsearchQueryBuilder and the E-items, tied by differential correspondence "
        "(harness/es_common.py, harness/c07.py) on every run; class-level constants of "
        "luqum/elasticsearch/tree.py come from the generated coq/gen/GenEs.v",
        "value-based model of the mutable E-items (argued in EsBuild.v, validated by correspondence)",
    ],
    "assumptions": [
        "supported trees: words, phrases, ranges (bounds: word / phrase, possibly under -), fuzzy, proximity, "
        "boost, groups, fields, AND / OR / implicit / boolean operations with >= 2 operands, NOT, +, -; no "
        "Regex, From, To, NoneItem",
        "well-formed configurations: specs are None / lists of names / dicts; field_options 'match_type' and "
        "'type' values are str (otherwise TypeError, modelled as an explicit outcome)",
        "floats are not modelled: numbers are compared as the exact decimals handed to float()",
        "'declared container' is read as: every ancestor of a declared (flattened) nested or object path; a "
        "dot-less declared path (childless top-level key) is its own parent, as in the code",
    ],
}
