(* AutoHeadTailProofs.v — lemmas about AutoHeadTail (model: AutoHeadTail.v).
   Part 1: the transformer as a direct function `daht`, when it raises, equality with the input,
           "only fills empty heads/tails", idempotence.
   Part 2: the round trip on an infinite family (flat AND of plain words), on the parser model. *)
Require Import Base Decimal Tree GenTree GenVisitors GenParser Visitor Eq Traverse Print Lexer Actions LR Parser.
Require Import AutoHeadTail TreeInd TraverseProofs.
From Coq Require Import Lia.

(* ================================================================ Part 1 *)

(* ---- the handler of every class, read off the generated tables by computation *)
Definition hspec (t : item) : handler :=
  match t with
  | Op KUnknown _ _ => HUnknown
  | Op _ _ _ => HBase
  | Unary KNot _ _ => HNot
  | Range _ _ _ _ _ => HRange
  | _ => HGeneric
  end.

Lemma handler_table : forall t, handler_of (cls_of t) = Some (hspec t).
Proof. destruct t as [[]| |[]| | | | |[]|[]|[]|]; vm_compute; reflexivity. Qed.

Definition op_h (k : opk) : handler := match k with KUnknown => HUnknown | _ => HBase end.

Definition fixl (h : handler) (cs : list item) : list item := mapi (fix_at h (length cs)) cs.

(* the transformer written directly *)
Fixpoint daht (t : item) : item :=
  match t with
  | Term k m v => Term k (clone_meta m) v
  | SearchField m n e => SearchField (clone_meta m) n (daht e)
  | Grp k m e => Grp k (clone_meta m) (daht e)
  | Range m lo hi il ih =>
      Range (clone_meta m) (aht_add_tail (daht lo)) (aht_add_head (daht hi)) il ih
  | Fuzzy m x d impl =>
      if impl then Fuzzy (clone_meta m) (daht x) dec_half true else Fuzzy (clone_meta m) (daht x) d false
  | Proximity m x d impl =>
      if impl then Proximity (clone_meta m) (daht x) 1%Z true else Proximity (clone_meta m) (daht x) d false
  | Boost m e f impl =>
      if impl then Boost (clone_meta m) (daht e) dec_one true
      else Boost (clone_meta m) (daht e) (dec_normalize f) false
  | Op k m ops => Op k (clone_meta m) (fixl (op_h k) (map daht ops))
  | Unary k m a =>
      Unary k (clone_meta m) (match k with KNot => aht_add_head (daht a) | _ => daht a end)
  | ORange k m a i => ORange k (clone_meta m) (daht a) i
  | NoneItem m => NoneItem (clone_meta m)
  end.

Lemma aht_unfold t :
  aht t =
  match handler_of (cls_of t) with
  | None => None
  | Some h =>
      match clone_item t with
      | None => None
      | Some n =>
          match copy_list aht (children t) with
          | None => None
          | Some cs' =>
              match fix_children h cs' with
              | None => None
              | Some cs'' => set_children n cs''
              end
          end
      end
  end.
Proof. destruct t; reflexivity. Qed.

Lemma every_node_unfold p t : every_node p t = p t && forallb (every_node p) (children t).
Proof.
  destruct t; simpl; rewrite ?andb_true_r; reflexivity.
Qed.

Lemma some_node_unfold p t : some_node p t = p t || existsb (some_node p) (children t).
Proof.
  destruct t; simpl; rewrite ?orb_false_r; reflexivity.
Qed.

Lemma copy_list_aht : forall l,
  Forall (fun c => aht c = if aht_defined c then Some (daht c) else None) l ->
  copy_list aht l = if forallb aht_defined l then Some (map daht l) else None.
Proof.
  induction l as [|c l IH]; intros HF; simpl; [reflexivity|].
  inversion HF as [|? ? Hc HFl]; subst. rewrite Hc, (IH HFl).
  destruct (aht_defined c); simpl; [|reflexivity]. destruct (forallb aht_defined l); reflexivity.
Qed.

(* the model is the direct function, and raises exactly when some AND/OR/Bool operation is empty *)
Theorem aht_daht : forall t, aht t = if aht_defined t then Some (daht t) else None.
Proof.
  apply item_children_ind. intros t IH.
  rewrite aht_unfold, handler_table, (copy_list_aht _ IH).
  unfold aht_defined at 2. rewrite every_node_unfold. fold aht_defined.
  destruct t as [[]|m n e|[]|m lo hi il ih|m x d []|m x d []|m e f []|k m ops|[]|[]|m]; simpl;
    repeat match goal with |- context [every_node ?p ?e] => change (every_node p e) with (aht_defined e) end;
    try reflexivity;
    try (repeat match goal with |- context [aht_defined ?e] => is_var e; destruct (aht_defined e) end;
         reflexivity).
  destruct k; destruct ops as [|c l]; simpl; try reflexivity;
    change (every_node (fun n : item => negb (empty_named_operation n))) with aht_defined;
    (destruct (aht_defined c); simpl; [|reflexivity]; destruct (forallb aht_defined l); reflexivity).
Qed.

Corollary aht_some t t' : aht t = Some t' -> aht_defined t = true /\ t' = daht t.
Proof. rewrite aht_daht. destruct (aht_defined t); [|discriminate]. intros E; inversion E; auto. Qed.

Corollary aht_none t : aht t = None <-> aht_defined t = false.
Proof. rewrite aht_daht. destruct (aht_defined t); split; congruence. Qed.

(* ---- every_node / some_node against paths *)
Lemma every_node_paths p : forall t,
  every_node p t = true <-> (forall q n, subtree_at t q = Some n -> p n = true).
Proof.
  apply item_children_ind. intros t IH. rewrite every_node_unfold, andb_true_iff, forallb_forall. split.
  - intros [Ht Hc] q n Hq. destruct q as [|i q]; simpl in Hq; [inversion Hq; subst; exact Ht|].
    destruct (nth_error (children t) i) as [c|] eqn:Hi; [|discriminate].
    pose proof (nth_error_In _ _ Hi) as Hin. rewrite Forall_forall in IH.
    apply (proj1 (IH c Hin) (Hc c Hin) q n Hq).
  - intros H. split; [apply (H [] t); reflexivity|]. intros c Hin. rewrite Forall_forall in IH.
    apply (IH c Hin). intros q n Hq. apply In_nth_error in Hin. destruct Hin as [i Hi].
    apply (H (i :: q) n). simpl. rewrite Hi. exact Hq.
Qed.

Lemma aht_defined_false t :
  aht_defined t = false <->
  exists q k m, subtree_at t q = Some (Op k m []) /\ k <> KUnknown.
Proof.
  split.
  - intros H. destruct (every_node (fun n => negb (empty_named_operation n)) t) eqn:E;
      [unfold aht_defined in H; congruence|]. clear H. revert E.
    pattern t. apply item_children_ind. clear t. intros t IH E.
    rewrite every_node_unfold in E. apply andb_false_iff in E. destruct E as [E|E].
    + exists []. destruct t as [| | | | | | |k m ops| | |]; try discriminate. destruct k, ops; try discriminate;
        eexists _, m; (split; [reflexivity|discriminate]).
    + assert (Hex : exists c, In c (children t) /\ every_node (fun n => negb (empty_named_operation n)) c = false).
      { clear IH. induction (children t) as [|c l IHl]; [discriminate|]. simpl in E.
        apply andb_false_iff in E. destruct E as [E|E]; [exists c; simpl; auto|].
        destruct (IHl E) as [c' [Hin Hc']]. exists c'. simpl. auto. }
      destruct Hex as [c [Hin Hc]]. rewrite Forall_forall in IH.
      destruct (IH c Hin Hc) as [q [k [m [Hq Hk]]]].
      apply In_nth_error in Hin. destruct Hin as [i Hi].
      exists (i :: q), k, m. simpl. rewrite Hi. auto.
  - intros [q [k [m [Hq Hk]]]]. destruct (aht_defined t) eqn:E; [|reflexivity]. exfalso.
    unfold aht_defined in E. rewrite every_node_paths in E. specialize (E q _ Hq).
    destruct k; simpl in E; congruence.
Qed.

(* ---- add_head / add_tail *)
Lemma head_set_tail x s : head_of (set_tail x s) = head_of x.
Proof. unfold head_of, set_tail. rewrite meta_set_meta. reflexivity. Qed.
Lemma tail_set_head x s : tail_of (set_head x s) = tail_of x.
Proof. unfold tail_of, set_head. rewrite meta_set_meta. reflexivity. Qed.
Lemma head_set_head x s : head_of (set_head x s) = s.
Proof. unfold head_of, set_head. rewrite meta_set_meta. reflexivity. Qed.
Lemma tail_set_tail x s : tail_of (set_tail x s) = s.
Proof. unfold tail_of, set_tail. rewrite meta_set_meta. reflexivity. Qed.

Lemma head_add_tail x : head_of (aht_add_tail x) = head_of x.
Proof. unfold aht_add_tail. destruct (is_empty (tail_of x)); [apply head_set_tail|reflexivity]. Qed.
Lemma tail_add_head x : tail_of (aht_add_head x) = tail_of x.
Proof. unfold aht_add_head. destruct (is_empty (head_of x)); [apply tail_set_head|reflexivity]. Qed.

Lemma HH x : aht_add_head (aht_add_head x) = aht_add_head x.
Proof.
  unfold aht_add_head at 2 3. destruct (is_empty (head_of x)) eqn:E.
  - unfold aht_add_head. rewrite head_set_head. reflexivity.
  - unfold aht_add_head. rewrite E. reflexivity.
Qed.
Lemma TT x : aht_add_tail (aht_add_tail x) = aht_add_tail x.
Proof.
  unfold aht_add_tail at 2 3. destruct (is_empty (tail_of x)) eqn:E.
  - unfold aht_add_tail. rewrite tail_set_tail. reflexivity.
  - unfold aht_add_tail. rewrite E. reflexivity.
Qed.
Lemma HT x : aht_add_head (aht_add_tail x) = aht_add_tail (aht_add_head x).
Proof.
  unfold aht_add_head, aht_add_tail.
  destruct (is_empty (head_of x)) eqn:Eh, (is_empty (tail_of x)) eqn:Et;
    rewrite ?head_set_tail, ?tail_set_head, ?Eh, ?Et; try reflexivity.
  destruct x; reflexivity.
Qed.

Ltac ht_norm := repeat (rewrite HT || rewrite HH || rewrite TT).

Lemma fix_at_idem h n i c : fix_at h n i (fix_at h n i c) = fix_at h n i c.
Proof.
  destruct h; simpl; unfold base_at, unknown_at, not_at, range_at;
    destruct (Nat.eqb i 0); destruct (Nat.eqb i (n - 1)); try destruct (Nat.leb 1 i && Nat.ltb i (n - 1));
    try destruct (Nat.ltb i (n - 1)); ht_norm; reflexivity.
Qed.

(* ---- mapi *)
Lemma mapi_from_length {A B} (g : nat -> A -> B) : forall l i, length (mapi_from i g l) = length l.
Proof. induction l as [|x l IH]; intros i; simpl; [reflexivity|]. rewrite IH. reflexivity. Qed.

Lemma fixl_length h l : length (fixl h l) = length l.
Proof. apply mapi_from_length. Qed.

Lemma mapi_from_idem (g : nat -> item -> item) :
  (forall i c, g i (g i c) = g i c) -> forall l i, mapi_from i g (mapi_from i g l) = mapi_from i g l.
Proof. intros Hg. induction l as [|x l IH]; intros i; simpl; [reflexivity|]. rewrite Hg, IH. reflexivity. Qed.

Lemma map_mapi_from (f : item -> item) (g : nat -> item -> item) :
  (forall i c, f (g i c) = g i (f c)) -> forall l i, map f (mapi_from i g l) = mapi_from i g (map f l).
Proof. intros Hfg. induction l as [|x l IH]; intros i; simpl; [reflexivity|]. rewrite Hfg, IH. reflexivity. Qed.

Lemma fixl_idem h l : fixl h (fixl h l) = fixl h l.
Proof. unfold fixl at 1. rewrite fixl_length. unfold fixl. apply mapi_from_idem. apply fix_at_idem. Qed.

Lemma Forall2_mapi_from {A} (R : A -> item -> Prop) (g : nat -> item -> item) :
  (forall i a c, R a c -> R a (g i c)) ->
  forall l l' i, Forall2 R l l' -> Forall2 R l (mapi_from i g l').
Proof.
  intros Hg l l' i H. revert i. induction H as [|a c l l' Hac _ IH]; intros i; simpl; constructor; auto.
Qed.

(* ---- (1) equal to the input, in luqum's sense *)
Lemma item_eqb_set_meta_l a m b : item_eqb (set_meta a m) b = item_eqb a b.
Proof. destruct a, b; reflexivity. Qed.

Lemma item_eqb_add_head x y : item_eqb (aht_add_head x) y = item_eqb x y.
Proof. unfold aht_add_head, set_head. destruct (is_empty (head_of x)); [apply item_eqb_set_meta_l|reflexivity]. Qed.
Lemma item_eqb_add_tail x y : item_eqb (aht_add_tail x) y = item_eqb x y.
Proof. unfold aht_add_tail, set_tail. destruct (is_empty (tail_of x)); [apply item_eqb_set_meta_l|reflexivity]. Qed.

Lemma item_eqb_fix_at h n i c y : item_eqb (fix_at h n i c) y = item_eqb c y.
Proof.
  destruct h; simpl; unfold base_at, unknown_at, not_at, range_at;
    destruct (Nat.eqb i 0); destruct (Nat.eqb i (n - 1)); try destruct (Nat.leb 1 i && Nat.ltb i (n - 1));
    try destruct (Nat.ltb i (n - 1)); repeat (rewrite item_eqb_add_head || rewrite item_eqb_add_tail); reflexivity.
Qed.

Definition eq_go := fix go (l l' : list item) : bool :=
  match l, l' with
  | c :: r, c' :: r' => item_eqb c c' && go r r'
  | _, _ => true
  end.

Lemma eq_go_mapi_from (g : nat -> item -> item) :
  (forall i c y, item_eqb (g i c) y = item_eqb c y) ->
  forall l l' i, eq_go (mapi_from i g l) l' = eq_go l l'.
Proof.
  intros Hg. induction l as [|c l IH]; intros l' i; simpl; [reflexivity|].
  destruct l' as [|c' l']; [reflexivity|]. rewrite Hg, IH. reflexivity.
Qed.

Theorem daht_eq : forall t, all_nodes eq_stable t -> item_eqb (daht t) t = true.
Proof.
  induction t using item_ind'; intros Hg;
    pose proof (all_nodes_here _ _ Hg) as Hh; pose proof (all_nodes_children _ _ Hg) as Hc; simpl in Hc.
  - destruct k; simpl; unfold attrs_eqb; simpl; rewrite str_eqb_refl; reflexivity.
  - inversion Hc; subst. simpl. unfold attrs_eqb. simpl. rewrite str_eqb_refl, IHt; auto.
  - inversion Hc; subst. destruct k; simpl; rewrite IHt; auto.
  - inversion Hc as [|? ? H1 H2]; subst. inversion H2; subst. simpl. unfold attrs_eqb. simpl.
    rewrite !Bool.eqb_reflx, item_eqb_add_tail, item_eqb_add_head, IHt1, IHt2; auto.
  - inversion Hc; subst. destruct i; simpl in *; unfold attrs_eqb; simpl.
    + rewrite Hh, IHt; auto.
    + rewrite dec_eqb_refl, IHt; auto.
  - inversion Hc; subst. destruct i; simpl in *; unfold attrs_eqb; simpl.
    + subst d. rewrite IHt; auto.
    + rewrite Z.eqb_refl, IHt; auto.
  - inversion Hc; subst. destruct i; simpl in *; unfold attrs_eqb; simpl.
    + rewrite Hh, IHt; auto.
    + rewrite dec_eqb_normalize, IHt; auto.
  - simpl daht. rewrite item_eqb_unfold_op. rewrite fixl_length, map_length, Nat.eqb_refl, cls_eqb_refl.
    replace (attrs_eqb (Op k (clone_meta m) (fixl (op_h k) (map daht ops))) (Op k m ops)) with true
      by (destruct k; reflexivity).
    simpl. change (eq_go (fixl (op_h k) (map daht ops)) ops = true).
    unfold fixl, mapi. rewrite eq_go_mapi_from by (intros; apply item_eqb_fix_at).
    clear Hg Hh. induction H as [|c l Hc1 _ IHl]; simpl; [reflexivity|].
    inversion Hc; subst. rewrite Hc1, IHl; auto.
  - inversion Hc; subst. destruct k; simpl; rewrite ?item_eqb_add_head, IHt; auto.
  - inversion Hc; subst. destruct k; simpl; unfold attrs_eqb; simpl; rewrite Bool.eqb_reflx, IHt; auto.
  - reflexivity.
Qed.

(* ---- (2) only fills empty heads and tails *)
Definition fill_str (a b : str) : Prop := b = a \/ (a = [] /\ b = SPACER).

(* the layout of a node of the result against the node of the input: positions kept, head and tail
   unchanged or changed from "" to " ", the attached name dropped (the copy never carries names) *)
Definition meta_fills (m m' : meta) : Prop :=
  m_pos m' = m_pos m /\ m_size m' = m_size m /\
  fill_str (m_head m) (m_head m') /\ fill_str (m_tail m) (m_tail m') /\ m_name m' = None.

(* same constructor and same attributes at every node, children related one by one *)
Inductive fills : item -> item -> Prop :=
| F_Term k m m' v : meta_fills m m' -> fills (Term k m v) (Term k m' v)
| F_SF m m' n e e' : meta_fills m m' -> fills e e' -> fills (SearchField m n e) (SearchField m' n e')
| F_Grp k m m' e e' : meta_fills m m' -> fills e e' -> fills (Grp k m e) (Grp k m' e')
| F_Range m m' lo lo' hi hi' il ih :
    meta_fills m m' -> fills lo lo' -> fills hi hi' -> fills (Range m lo hi il ih) (Range m' lo' hi' il ih)
| F_Fuzzy m m' x x' d i : meta_fills m m' -> fills x x' -> fills (Fuzzy m x d i) (Fuzzy m' x' d i)
| F_Prox m m' x x' d i : meta_fills m m' -> fills x x' -> fills (Proximity m x d i) (Proximity m' x' d i)
| F_Boost m m' e e' f i : meta_fills m m' -> fills e e' -> fills (Boost m e f i) (Boost m' e' f i)
| F_Op k m m' ops ops' : meta_fills m m' -> Forall2 fills ops ops' -> fills (Op k m ops) (Op k m' ops')
| F_Unary k m m' a a' : meta_fills m m' -> fills a a' -> fills (Unary k m a) (Unary k m' a')
| F_ORange k m m' a a' i : meta_fills m m' -> fills a a' -> fills (ORange k m a i) (ORange k m' a' i)
| F_None m m' : meta_fills m m' -> fills (NoneItem m) (NoneItem m').

Lemma meta_fills_clone m : meta_fills m (clone_meta m).
Proof. unfold meta_fills, fill_str. simpl. auto 10. Qed.

Lemma fills_meta t x : fills t x -> meta_fills (meta_of t) (meta_of x).
Proof. intros H. destruct H; simpl; assumption. Qed.

Lemma fills_set_meta t x m' : fills t x -> meta_fills (meta_of t) m' -> fills t (set_meta x m').
Proof. intros H Hm. destruct H; simpl in *; constructor; assumption. Qed.

Lemma fills_add_head t x : fills t x -> fills t (aht_add_head x).
Proof.
  intros H. unfold aht_add_head. destruct (is_empty (head_of x)) eqn:E; [|exact H].
  apply fills_set_meta; [exact H|]. pose proof (fills_meta _ _ H) as [H1 [H2 [H3 [H4 H5]]]].
  unfold head_of in E. destruct (m_head (meta_of x)) eqn:Ehx; [|discriminate].
  unfold meta_fills, with_head. simpl. repeat split; auto.
  right. split; [|reflexivity]. destruct H3 as [H3|[H3 _]]; congruence.
Qed.

Lemma fills_add_tail t x : fills t x -> fills t (aht_add_tail x).
Proof.
  intros H. unfold aht_add_tail. destruct (is_empty (tail_of x)) eqn:E; [|exact H].
  apply fills_set_meta; [exact H|]. pose proof (fills_meta _ _ H) as [H1 [H2 [H3 [H4 H5]]]].
  unfold tail_of in E. destruct (m_tail (meta_of x)) eqn:Ehx; [|discriminate].
  unfold meta_fills, with_tail. simpl. repeat split; auto.
  right. split; [|reflexivity]. destruct H4 as [H4|[H4 _]]; congruence.
Qed.

Lemma fills_fix_at h n i t c : fills t c -> fills t (fix_at h n i c).
Proof.
  intros H. destruct h; simpl; unfold base_at, unknown_at, not_at, range_at;
    destruct (Nat.eqb i 0); destruct (Nat.eqb i (n - 1)); try destruct (Nat.leb 1 i && Nat.ltb i (n - 1));
    try destruct (Nat.ltb i (n - 1));
    repeat (apply fills_add_head || apply fills_add_tail); exact H.
Qed.

Theorem daht_fills : forall t, all_nodes wf_node t -> fills t (daht t).
Proof.
  induction t using item_ind'; intros Hg;
    pose proof (all_nodes_here _ _ Hg) as Hh; pose proof (all_nodes_children _ _ Hg) as Hc; simpl in Hc.
  - constructor. apply meta_fills_clone.
  - inversion Hc; subst. constructor; [apply meta_fills_clone|auto].
  - inversion Hc; subst. constructor; [apply meta_fills_clone|auto].
  - inversion Hc as [|? ? H1 H2]; subst. inversion H2; subst. simpl. constructor; [apply meta_fills_clone| |].
    + apply fills_add_tail. auto.
    + apply fills_add_head. auto.
  - inversion Hc; subst. destruct i; simpl in *; [subst d|]; constructor; auto using meta_fills_clone.
  - inversion Hc; subst. destruct i; simpl in *; [subst d|]; constructor; auto using meta_fills_clone.
  - inversion Hc; subst. destruct i; simpl in *; [subst f|rewrite Hh]; constructor; auto using meta_fills_clone.
  - simpl. constructor; [apply meta_fills_clone|]. unfold fixl, mapi.
    apply Forall2_mapi_from; [intros; apply fills_fix_at; assumption|].
    clear Hg Hh. induction H as [|c l Hc1 _ IHl]; simpl; [constructor|].
    inversion Hc; subst. constructor; auto.
  - inversion Hc; subst. destruct k; simpl; constructor; auto using meta_fills_clone, fills_add_head.
  - inversion Hc; subst. constructor; auto using meta_fills_clone.
  - constructor. apply meta_fills_clone.
Qed.

(* ---- (3) idempotent *)
Lemma dec_normalize_idem f : dec_normalize (dec_normalize f) = dec_normalize f.
Proof.
  unfold dec_normalize at 2 3. destruct (N.eqb (dcoef f) 0) eqn:E0; [reflexivity|].
  apply N.eqb_neq in E0.
  destruct (strip_zeros (S (N.to_nat (N.size (dcoef f)))) (dcoef f) (dexp f)) as [c e] eqn:Hs.
  destruct (strip_zeros_stripped _ _ _ _ _ E0 (size_bound _) Hs) as [Hc Hm].
  unfold dec_normalize. cbn [dcoef dexp dsign].
  apply N.eqb_neq in Hc. rewrite Hc. apply N.eqb_neq in Hc.
  rewrite (strip_zeros_fix _ _ _ Hc Hm). reflexivity.
Qed.

Lemma meta_daht t : meta_of (daht t) = clone_meta (meta_of t).
Proof. destruct t as [| | | |? ? ? []|? ? ? []|? ? ? []| | | |]; reflexivity. Qed.

Lemma head_daht t : head_of (daht t) = head_of t.
Proof. unfold head_of. rewrite meta_daht. reflexivity. Qed.
Lemma tail_daht t : tail_of (daht t) = tail_of t.
Proof. unfold tail_of. rewrite meta_daht. reflexivity. Qed.

Lemma daht_set_meta x m : daht (set_meta x m) = set_meta (daht x) (clone_meta m).
Proof. destruct x as [| | | |? ? ? []|? ? ? []|? ? ? []| | | |]; reflexivity. Qed.

Lemma daht_add_head x : daht (aht_add_head x) = aht_add_head (daht x).
Proof.
  unfold aht_add_head. rewrite head_daht. destruct (is_empty (head_of x)); [|reflexivity].
  unfold set_head. rewrite daht_set_meta, meta_daht. reflexivity.
Qed.
Lemma daht_add_tail x : daht (aht_add_tail x) = aht_add_tail (daht x).
Proof.
  unfold aht_add_tail. rewrite tail_daht. destruct (is_empty (tail_of x)); [|reflexivity].
  unfold set_tail. rewrite daht_set_meta, meta_daht. reflexivity.
Qed.

Lemma daht_fix_at h n i c : daht (fix_at h n i c) = fix_at h n i (daht c).
Proof.
  destruct h; simpl; unfold base_at, unknown_at, not_at, range_at;
    destruct (Nat.eqb i 0); destruct (Nat.eqb i (n - 1)); try destruct (Nat.leb 1 i && Nat.ltb i (n - 1));
    try destruct (Nat.ltb i (n - 1)); repeat (rewrite daht_add_head || rewrite daht_add_tail); reflexivity.
Qed.

Lemma map_daht_fixl h l : map daht (fixl h l) = fixl h (map daht l).
Proof.
  unfold fixl, mapi. rewrite map_length. apply map_mapi_from. intros. apply daht_fix_at.
Qed.

Theorem daht_idem : forall t, daht (daht t) = daht t.
Proof.
  induction t using item_ind'; simpl.
  - reflexivity.
  - rewrite IHt. reflexivity.
  - rewrite IHt. reflexivity.
  - rewrite daht_add_tail, daht_add_head, IHt1, IHt2, TT, HH. reflexivity.
  - destruct i; simpl; rewrite IHt; reflexivity.
  - destruct i; simpl; rewrite IHt; reflexivity.
  - destruct i; simpl; rewrite IHt, ?dec_normalize_idem; reflexivity.
  - rewrite map_daht_fixl, fixl_idem, map_map. f_equal. f_equal.
    induction H as [|c l Hc _ IHl]; simpl; [reflexivity|]. rewrite Hc, IHl. reflexivity.
  - destruct k; simpl; rewrite ?daht_add_head, IHt, ?HH; reflexivity.
  - rewrite IHt. reflexivity.
  - reflexivity.
Qed.

Lemma every_node_set_meta p x m :
  (forall y m', p (set_meta y m') = p y) -> every_node p (set_meta x m) = every_node p x.
Proof. intros Hp. rewrite !every_node_unfold, Hp, children_set_meta. reflexivity. Qed.

Lemma ene_set_meta y m : negb (empty_named_operation (set_meta y m)) = negb (empty_named_operation y).
Proof. destruct y; reflexivity. Qed.

Lemma defined_add_head x : aht_defined (aht_add_head x) = aht_defined x.
Proof.
  unfold aht_add_head, set_head. destruct (is_empty (head_of x)); [|reflexivity].
  apply every_node_set_meta. apply ene_set_meta.
Qed.
Lemma defined_add_tail x : aht_defined (aht_add_tail x) = aht_defined x.
Proof.
  unfold aht_add_tail, set_tail. destruct (is_empty (tail_of x)); [|reflexivity].
  apply every_node_set_meta. apply ene_set_meta.
Qed.
Lemma defined_fix_at h n i c : aht_defined (fix_at h n i c) = aht_defined c.
Proof.
  destruct h; simpl; unfold base_at, unknown_at, not_at, range_at;
    destruct (Nat.eqb i 0); destruct (Nat.eqb i (n - 1)); try destruct (Nat.leb 1 i && Nat.ltb i (n - 1));
    try destruct (Nat.ltb i (n - 1)); repeat (rewrite defined_add_head || rewrite defined_add_tail); reflexivity.
Qed.

Lemma forallb_mapi_from (f : item -> bool) (g : nat -> item -> item) :
  (forall i c, f (g i c) = f c) -> forall l i, forallb f (mapi_from i g l) = forallb f l.
Proof. intros Hg. induction l as [|c l IH]; intros i; simpl; [reflexivity|]. rewrite Hg, IH. reflexivity. Qed.

Lemma children_daht t : children (daht t) = fixl (hspec t) (map daht (children t)).
Proof.
  destruct t as [| | | |? ? ? []|? ? ? []|? ? ? []|k| [] | |]; reflexivity.
Qed.

Lemma ene_daht t : empty_named_operation (daht t) = empty_named_operation t.
Proof.
  destruct t as [| | | |? ? ? []|? ? ? []|? ? ? []|k m ops| | |]; try reflexivity.
  destruct k, ops; reflexivity.
Qed.

Theorem defined_daht : forall t, aht_defined (daht t) = aht_defined t.
Proof.
  apply item_children_ind. intros t IH. unfold aht_defined. rewrite !every_node_unfold. fold aht_defined.
  rewrite ene_daht, children_daht. f_equal. unfold fixl, mapi.
  rewrite forallb_mapi_from by (intros; apply defined_fix_at).
  induction IH as [|c l Hc _ IHl]; simpl; [reflexivity|]. unfold aht_defined in Hc. rewrite Hc, IHl. reflexivity.
Qed.

Theorem aht_idempotent t t' : aht t = Some t' -> aht t' = Some t'.
Proof.
  intros H. apply aht_some in H. destruct H as [Hd Ht]. subst t'.
  rewrite aht_daht, defined_daht, Hd, daht_idem. reflexivity.
Qed.

Lemma nth_mapi_from_map (g : nat -> item -> item) (f : item -> item) : forall l k i c,
  nth_error (mapi_from k g (map f l)) i = Some c -> exists c0 j, c = g j (f c0).
Proof.
  induction l as [|x l IHl]; intros k i c Hn; destruct i; simpl in Hn; try discriminate.
  - inversion Hn; subst. eauto.
  - eapply IHl. exact Hn.
Qed.

(* the result carries no name anywhere, so idempotence needs no "up to names" *)
Lemma daht_no_names : forall q t n, subtree_at (daht t) q = Some n -> name_of n = None.
Proof.
  induction q as [|i q IH]; intros t n H; simpl in H.
  - inversion H; subst. unfold name_of. rewrite meta_daht. reflexivity.
  - rewrite children_daht in H. unfold fixl, mapi in H.
    match type of H with match nth_error ?L i with _ => _ end = _ => destruct (nth_error L i) as [c|] eqn:Hn end;
      [|discriminate].
    destruct (nth_mapi_from_map _ _ _ _ _ _ Hn) as [c0 [j Hc]]. subst c.
    rewrite <- daht_fix_at in H. eapply IH. exact H.
Qed.
