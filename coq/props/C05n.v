(* C05n — the NESTED part of property C05 (Elasticsearch translation is reject-or-equivalent in boolean and
   nested meaning).  Statements, theorems, witnesses, non-vacuity examples, Print Assumptions only.
   Builder model: model/{EsSpecs,EsCheck,EsBuild}.v.  Reference semantics: model/EsSem.v (es_matches, den).
   Guards: model/EsNested.v.  Lemmas: proofs/EsNestedProofs.v (and EsSemProofs.v).

   Clause of the property text proved here, for EVERY configuration (nested_fields of any depth, object_fields,
   sub_fields, default field / operator, not-analysed fields, field options) and EVERY document (a tree of
   objects: below each object a list of sub-objects per nested path):
     "... or returns a bool/nested query that matches exactly the documents the tree denotes: AND means all, OR
      any, implicit the configured default, NOT and - the complement, and a field path that crosses a nested
      field means that some nested object satisfies the sub-query."            -> C05_nested_partial
   den (EsSem.v) reads a condition on a field under the nested path p PER NESTED OBJECT of p: at a SearchField
   whose path crosses declared nested boundaries, SOME object of the innermost boundary crossed satisfies the
   whole sub-query; es_matches reads {"nested": {path, query}} as "some object of that path below the current
   one matches query" and a leaf clause on a field of another nested level as matching nothing.

   The guards are executable predicates on the input, one per finding (model/EsNested.v):
     nested_have_leaf cfg   not F8  : every declared nested container is the parent of a declared path
     default_ok cfg t       not F17 : no term outside every field while the default field is under a nested path
     nested_ok cfg t        not F6  : operands of a BoolOperation (with fields that become nested clauses
                                      counted as "something else", as the code does)
                            not F18 : a field named '' / '.x' while '' is a nested prefix for the code
                            not F19 : a ~ modifier ABOVE a field that crosses a nested boundary (new here; the
                                      grammar cannot produce it: Fuzzy(SearchField('a.b', Word('x')), 2) loses
                                      its fuzziness when a is nested and keeps it otherwise)
   Each guard is shown necessary by a refutation of the statement without it.  With no nested field declared
   the guards reduce to those of C05_boolean_partial, which this theorem subsumes.

   "each nested clause sits on the innermost nested path of the fields it contains"
                                                                              -> C05_nested_structure *)
Require Import Base Decimal Tree GenTree GenVisitors Visitor Json EsSpecs EsCheck EsBuild EsSpec EsSem EsNested
               TreeInd EsProofs EsSemProofs EsNestedProofs C05.

(* ---- statements *)
Definition C05_nested_with (g8 : es_config -> bool) (g17 gp : es_config -> item -> bool) : Prop :=
  forall cfg t, supported t = true -> wf_config cfg = true -> sem_config cfg = true ->
    g8 cfg = true -> g17 cfg t = true -> gp cfg t = true ->
    match build cfg t with
    | RExc e => documented_inconsistency e
    | ROk j => forall d, es_matches cfg j d = den cfg t d
    end.

Definition C05_nested_partial_statement : Prop := C05_nested_with nested_have_leaf default_ok nested_ok.

Definition any1 (_ : es_config) : bool := true.
Definition any2 (_ : es_config) (_ : item) : bool := true.

(* ---- the theorem *)
Theorem C05_nested_partial : C05_nested_partial_statement.
Proof.
  intros cfg t Hs Hwf Hsem H8 H17 Hok.
  destruct (build cfg t) as [j|e] eqn:Hbuild.
  - exact (build_sem_n cfg t j Hs Hsem H8 H17 Hok Hbuild).
  - exact (build_exc_documented cfg t e Hs Hwf Hbuild).
Qed.

(* it contains the boolean theorem of C05.v: without nested fields its guards are those of C05_boolean_partial *)
Theorem C05_nested_subsumes_boolean :
  forall cfg t, no_nested cfg = true ->
    nested_have_leaf cfg = true /\ default_ok cfg t = true /\
    (plain_tree cfg t = true -> nested_ok cfg t = true).
Proof.
  intros cfg t Hnn.
  assert (Hnp : nested_paths cfg = []) by (unfold no_nested in Hnn; destruct (nested_paths cfg); [reflexivity|discriminate]).
  split; [unfold nested_have_leaf; rewrite Hnp; reflexivity|].
  split; [unfold default_ok, default_level; rewrite Hnp, level_of_nil; apply orb_true_r|].
  unfold nested_ok. rewrite Hnp. apply plain_tree_nested_plain.
Qed.

(* ---- every guard is necessary *)
Ltac refute_n cfg t d :=
  let H := fresh "H" in
  intros H; specialize (H cfg t eq_refl eq_refl eq_refl eq_refl eq_refl eq_refl);
  let j := fresh "j" in let Hb := fresh "Hb" in
  destruct (build cfg t) as [j|?] eqn:Hb; [|vm_compute in Hb; discriminate Hb];
  specialize (H d); vm_compute in Hb; inversion Hb; subst j; vm_compute in H; discriminate H.

(* F8 (witness of C05_refuted_F8): nested_fields = {'a': {'b': {'c': {}}}},  a:(b.c:x AND b.c:y) *)
Theorem C05_nested_F8_guard_needed : ~ C05_nested_with any1 default_ok nested_ok.
Proof. refute_n cfg_F8 t_F8 d_F8. Qed.

(* F17: nested_fields = {'a': ['b']}, default_field = 'a.b', the query  x *)
Theorem C05_nested_F17_guard_needed : ~ C05_nested_with nested_have_leaf any2 nested_ok.
Proof. refute_n cfg_F17 (w [120]%N) d_F17. Qed.

(* F6, F18: the witnesses of C05.v *)
Theorem C05_nested_F6_guard_needed : ~ C05_nested_with nested_have_leaf default_ok any2.
Proof. refute_n default_config t_F6 d_F6. Qed.
Theorem C05_nested_F18_guard_needed : ~ C05_nested_with nested_have_leaf default_ok any2.
Proof. refute_n default_config t_F18 d_F18. Qed.

(* F19: nested_fields = {'a': ['b']}, Fuzzy(SearchField('a.b', Word('x')), 2): the builder answers
   {nested: {path: a, query: {match: {a.b: x}}}} — the fuzziness is dropped (without nested fields it answers
   {fuzzy: {a.b: {value: x, fuzziness: 2}}}).  The guard of C05.v (plain_tree) does not exclude it. *)
Definition cfg_F19 : es_config :=
  mkEsConfig DShould s_text [] (SDict [([97]%N, SList [[98]%N])]) SNone SNone [] false.
Definition t_F19 : item := Fuzzy meta0 (fld [97;46;98]%N (w [120]%N)) (mkDec false 2 0) false.
Definition fuzzy_ab_x : json :=
  JObj [(k_fuzzy, JObj [([97;46;98]%N, JObj [(k_fuzziness, JNum (mkDec false 2 0)); (k_value, JStr [120]%N)])])].
Definition d_F19 : doc := doc_of (FDoc [] [([97]%N, [FDoc [fuzzy_ab_x] []])]).

Theorem C05_nested_F19_guard_needed : ~ C05_nested_with nested_have_leaf default_ok plain_tree.
Proof. refute_n cfg_F19 t_F19 d_F19. Qed.

(* which guard each witness violates (and only that one) *)
Example C05_nested_witness_shapes :
  (nested_have_leaf cfg_F8 = false /\ default_ok cfg_F8 t_F8 = true /\ nested_ok cfg_F8 t_F8 = true) /\
  (nested_have_leaf cfg_F17 = true /\ default_ok cfg_F17 (w [120]%N) = false /\ nested_ok cfg_F17 (w [120]%N) = true) /\
  (nested_have_leaf default_config = true /\ default_ok default_config t_F6 = true /\
   nested_ok default_config t_F6 = false) /\
  (default_ok default_config t_F18 = true /\ nested_ok default_config t_F18 = false /\
   empty_prefix_free default_config = false) /\
  (nested_have_leaf cfg_F19 = true /\ default_ok cfg_F19 t_F19 = true /\ nested_ok cfg_F19 t_F19 = false /\
   supported t_F19 = true /\ plain_tree cfg_F19 t_F19 = true /\
   build default_config t_F19 = ROk fuzzy_ab_x).
Proof. vm_compute. repeat split. Qed.

(* ---- non-vacuity: a genuinely nested, multi-level configuration
   nested_fields = {'a': {'n': None, 'b': {'t': None, 'f': ['y']}}}   (nested paths a > a.b > a.b.f),
   object_fields = ['o.p'], sub_fields = ['a.n.r'], not_analyzed_fields = ['a.b.t'], default_operator = must;
   the query   a:(n:x AND b:(t:y OR f.y:z~2)) AND NOT a.b.f.y:v AND a:(b.t:u) AND (+a.n:p -a.b:(t:q) r)
   gives nested clauses inside nested clauses down to a.b.f, a nested clause that is not nested twice
   (a:(b.t:u) -> one clause on a.b), negation of a nested clause, and a boolean query over nested clauses. *)
Definition fg (e : item) : item := Grp KFieldGroup meta0 e.
Definition cfg_nx : es_config :=
  mkEsConfig DMust s_text [[97;46;98;46;116]%N]
    (SDict [([97]%N, SDict [([110]%N, SNone);
                            ([98]%N, SDict [([116]%N, SNone); ([102]%N, SList [[121]%N])])])])
    (SList [[111;46;112]%N]) (SList [[97;46;110;46;114]%N]) [] false.
Definition t_nx : item :=
  Op KAnd meta0
     [fld [97]%N (fg (Op KAnd meta0
                         [fld [110]%N (w [120]%N);
                          fld [98]%N (fg (Op KOr meta0
                                             [fld [116]%N (w [121]%N);
                                              fld [102;46;121]%N (Fuzzy meta0 (w [122]%N) (mkDec false 2 0) false)]))]));
      Unary KNot meta0 (fld [97;46;98;46;102;46;121]%N (w [118]%N));
      fld [97]%N (fld [98;46;116]%N (w [117]%N));
      Grp KGroup meta0
          (Op KBool meta0 [Unary KPlus meta0 (fld [97;46;110]%N (w [112]%N));
                           Unary KProhibit meta0 (fld [97;46;98]%N (fld [116]%N (w [113]%N)));
                           w [114]%N])].

Example C05_nested_guards_nonvacuous :
  supported t_nx = true /\ wf_config cfg_nx = true /\ sem_config cfg_nx = true /\
  nested_have_leaf cfg_nx = true /\ default_ok cfg_nx t_nx = true /\ nested_ok cfg_nx t_nx = true /\
  no_nested cfg_nx = false /\
  dedup (nested_paths cfg_nx) = [[97]%N; [97;46;98]%N; [97;46;98;46;102]%N] /\
  (exists j, build cfg_nx t_nx = ROk j).
Proof. vm_compute. repeat split. eexists. reflexivity. Qed.

(* the denotation is not trivial on it, and it is about THE SAME nested object two levels down *)
Definition a_match (f v : str) : json := clause_match f v.
Definition a_term (f v : str) : json := JObj [(k_term, JObj [(f, JObj [(k_value, JStr v)])])].
Definition s_an : str := [97;46;110]%N.
Definition s_abt : str := [97;46;98;46;116]%N.
Definition s_ab : str := [97;46;98]%N.
(* one a object with x, p and, below it, one a.b object with y, u *)
Definition d_nx_yes : doc :=
  doc_of (FDoc [] [([97]%N, [FDoc [a_match s_an [120]%N; a_match s_an [112]%N]
                                  [(s_ab, [FDoc [a_term s_abt [121]%N; a_term s_abt [117]%N] []])]])]).
(* the same atoms spread over two a objects: x, p in the first, the a.b object in the second *)
Definition d_nx_split : doc :=
  doc_of (FDoc [] [([97]%N, [FDoc [a_match s_an [120]%N; a_match s_an [112]%N] [];
                            FDoc [] [(s_ab, [FDoc [a_term s_abt [121]%N; a_term s_abt [117]%N] []])]])]).
(* as d_nx_yes, with an a.b object satisfying the prohibited  a.b:(t:q) *)
Definition d_nx_q : doc :=
  doc_of (FDoc [] [([97]%N, [FDoc [a_match s_an [120]%N; a_match s_an [112]%N]
                                  [(s_ab, [FDoc [a_term s_abt [121]%N; a_term s_abt [117]%N] [];
                                           FDoc [a_term s_abt [113]%N] []])]])]).

Example C05_nested_den_nontrivial :
  den cfg_nx t_nx d_nx_yes = true /\ den cfg_nx t_nx d_nx_split = false /\ den cfg_nx t_nx d_nx_q = false /\
  (forall j, build cfg_nx t_nx = ROk j ->
     es_matches cfg_nx j d_nx_yes = true /\ es_matches cfg_nx j d_nx_split = false /\
     es_matches cfg_nx j d_nx_q = false).
Proof.
  split; [vm_compute; reflexivity|]. split; [vm_compute; reflexivity|]. split; [vm_compute; reflexivity|].
  intros j Hj. vm_compute in Hj. inversion Hj; subst j. vm_compute. repeat split.
Qed.

(* ---- the structure of the generated query
   "each nested clause sits on the innermost nested path of the fields it contains": EsNested.nest_wf np j lvl
   reads the query j at the nested level lvl — every leaf clause addresses a field whose innermost declared
   nested path is lvl (or names no single field: multi_match), every nested clause has a DECLARED path that
   PROPERLY extends lvl and its query is read at that path, bool clauses are read at the same level.  Hence
   around every leaf the nested paths are strictly increasing from outside in, the innermost one is the
   innermost nested path of the leaf's field, no nested clause lies in a nested clause of the same path
   (not nesting a nested twice), and a leaf whose field is under no nested path is under no nested clause.
   This holds for EVERY tree the builder translates (not only supported ones) and does not need the F6 / F19
   guards: only not-F8, not-F17 and the field-name part of nested_ok (names_ok, not F18). *)
Definition C05_structure_with (g8 : es_config -> bool) (g17 gn : es_config -> item -> bool) : Prop :=
  forall cfg t j, sem_config cfg = true -> g8 cfg = true -> g17 cfg t = true -> gn cfg t = true ->
    build cfg t = ROk j -> nest_wf (nested_paths cfg) j [] = true.

Definition C05_nested_structure_statement : Prop := C05_structure_with nested_have_leaf default_ok names_ok.

Theorem C05_nested_structure : C05_nested_structure_statement.
Proof. intros cfg t j Hsem H8 H17 Hn Hb. exact (build_nest_wf cfg t j Hsem H8 H17 Hn Hb). Qed.

(* the guard of C05_nested_partial implies the one used here *)
Theorem C05_nested_ok_names : forall cfg t, nested_ok cfg t = true -> names_ok cfg t = true.
Proof. intros cfg t H. exact (nested_plain_names cfg _ _ t [] H). Qed.

Ltac refute_s cfg t :=
  let H := fresh "H" in intros H;
  let j := fresh "j" in let Hb := fresh "Hb" in
  destruct (build cfg t) as [j|?] eqn:Hb; [|vm_compute in Hb; discriminate Hb];
  specialize (H cfg t j eq_refl eq_refl eq_refl eq_refl Hb);
  vm_compute in Hb; inversion Hb; subst j; vm_compute in H; discriminate H.

(* F8: nested_fields = {'a': {'b': {'c': {}}}}, a.x:1 -> {match: {a.x: 1}} at the root although a is a
   nested container (the code only knows a.b) *)
Definition t_F8s : item := fld [97;46;120]%N (w [49]%N).
Theorem C05_structure_F8_guard_needed : ~ C05_structure_with any1 default_ok names_ok.
Proof. refute_s cfg_F8 t_F8s. Qed.
(* F17: {match: {a.b: x}} at the root *)
Theorem C05_structure_F17_guard_needed : ~ C05_structure_with nested_have_leaf any2 names_ok.
Proof. refute_s cfg_F17 (w [120]%N). Qed.
(* F18: {nested: {path: "", ...}} *)
Theorem C05_structure_F18_guard_needed : ~ C05_structure_with nested_have_leaf default_ok any2.
Proof. refute_s default_config t_F18. Qed.

(* nest_wf holds of the multi-level example and tells wrong placements apart: a nested clause on a path
   that is not the innermost one of its field, the same path nested twice, a nested leaf left at the root *)
Definition j_nested (p : str) (q : json) : json := JObj [(k_nested, JObj [(k_path, JStr p); (k_query, q)])].
Example C05_nest_wf_nonvacuous :
  (forall j, build cfg_nx t_nx = ROk j -> nest_wf (nested_paths cfg_nx) j [] = true) /\
  names_ok cfg_nx t_nx = true /\
  nest_wf (nested_paths cfg_nx) (j_nested s_ab (a_term s_abt [121]%N)) [] = true /\
  nest_wf (nested_paths cfg_nx) (j_nested [97]%N (j_nested s_ab (a_term s_abt [121]%N))) [] = true /\
  nest_wf (nested_paths cfg_nx) (j_nested [97]%N (a_term s_abt [121]%N)) [] = false /\
  nest_wf (nested_paths cfg_nx) (j_nested s_ab (j_nested s_ab (a_term s_abt [121]%N))) [] = false /\
  nest_wf (nested_paths cfg_nx) (a_term s_abt [121]%N) [] = false /\
  nest_wf (nested_paths cfg_nx) (j_nested [97]%N (a_match s_text [120]%N)) [] = false.
Proof.
  split; [intros j Hj; vm_compute in Hj; inversion Hj; subst j; vm_compute; reflexivity|].
  vm_compute. repeat split.
Qed.

Print Assumptions C05_nested_partial.
Print Assumptions C05_nested_subsumes_boolean.
Print Assumptions C05_nested_F8_guard_needed.
Print Assumptions C05_nested_F17_guard_needed.
Print Assumptions C05_nested_F6_guard_needed.
Print Assumptions C05_nested_F18_guard_needed.
Print Assumptions C05_nested_F19_guard_needed.
Print Assumptions C05_nested_structure.
Print Assumptions C05_nested_ok_names.
Print Assumptions C05_structure_F8_guard_needed.
Print Assumptions C05_structure_F17_guard_needed.
Print Assumptions C05_structure_F18_guard_needed.
