(* LRTermination.v — the LR driver always stops on the GENERATED tables (C04, totality).

   Arbitrary tables can loop (a cycle of unit reductions, or an empty production applied for ever),
   so termination uses two facts that are COMPUTED on gen/GenParser.v each time it is regenerated:
     (i)  no production has an empty right-hand side;
     (ii) for every state-below b, top state s and lookahead la, the chain of unit reductions
          s -> goto b lhs -> ... that the tables prescribe stops within K steps (unit_rank).
   Potential: phi c = (K+1) * (2*|pending tokens| + |state stack|) + rank(second state, top state,
   lookahead); every `Next` step lowers it (shift: one token less, one state more; reduction of
   length n >= 2: n-1 states less; unit reduction: the rank drops by one). *)
Require Import Base Decimal Tree GenParser Lexer Actions LR Parser.
From Coq Require Import Lia.

Definition all_toks : list tok :=
  [T_TERM; T_PHRASE; T_REGEX; T_APPROX; T_BOOST; T_MINUS; T_PLUS; T_COLUMN; T_LPAREN; T_RPAREN;
   T_LBRACKET; T_RBRACKET; T_LESSTHAN; T_GREATERTHAN; T_AND_OP; T_NOT; T_OR_OP; T_TO; T_EOF].
Definition all_nonterms : list nonterm :=
  [N_expression; N_unary_expression; N_possibly_negative_term; N_phrase_or_possibly_negative_term;
   N_phrase_or_term].
Definition all_states : list nat := seq 0 gen_nstates.

Lemma all_toks_complete t : In t all_toks.
Proof. destruct t; simpl; tauto. Qed.
Lemma all_nonterms_complete n : In n all_nonterms.
Proof. destruct n; simpl; tauto. Qed.
Lemma all_states_complete s : s < gen_nstates -> In s all_states.
Proof. intros H. apply in_seq. lia. Qed.

(* production p as the driver fetches it (PLY numbers productions from 1) *)
Definition prod_of (p : nat) : option (nonterm * list sym * action_name) :=
  match p with S p' => nth_error gen_prods p' | O => None end.

(* ---- states outside the table have no action and no goto *)
Lemma gen_action_oob s la : gen_nstates <= s -> gen_action s la = ActErr.
Proof.
  unfold gen_nstates. intros H.
  repeat (destruct s as [|s]; [exfalso; lia|]). reflexivity.
Qed.
Lemma gen_goto_oob s n : gen_nstates <= s -> gen_goto s n = None.
Proof.
  unfold gen_nstates. intros H.
  repeat (destruct s as [|s]; [exfalso; lia|]). reflexivity.
Qed.

(* ---- (i) no empty right-hand side *)
Definition no_empty_rhs : bool :=
  forallb (fun pr => match pr with (_, [], _) => false | _ => true end) gen_prods.
Lemma no_empty_rhs_ok : no_empty_rhs = true.
Proof. vm_compute. reflexivity. Qed.

Lemma prod_rhs_nonempty p lhs rhs a : prod_of p = Some (lhs, rhs, a) -> rhs <> [].
Proof.
  intros H. destruct p as [|p']; [discriminate|]. simpl in H. apply nth_error_In in H.
  pose proof no_empty_rhs_ok as F. unfold no_empty_rhs in F. rewrite forallb_forall in F.
  specialize (F _ H). simpl in F. destruct rhs; [discriminate|discriminate].
Qed.

(* ---- (ii) unit-reduction chains are bounded *)
Definition K : nat := 8.

Fixpoint unit_rank (fuel b s : nat) (la : tok) : option nat :=
  match fuel with
  | O => None
  | S f =>
      match gen_action s la with
      | Reduce p =>
          match prod_of p with
          | Some (lhs, [_], _) =>
              match gen_goto b lhs with
              | Some g => match unit_rank f b g la with Some r => Some (S r) | None => None end
              | None => Some 0
              end
          | _ => Some 0
          end
      | _ => Some 0
      end
  end.

Definition unit_chains_bounded : bool :=
  forallb (fun la => forallb (fun b => forallb (fun s =>
    match unit_rank K b s la with Some _ => true | None => false end) all_states) all_states) all_toks.
Lemma unit_chains_bounded_ok : unit_chains_bounded = true.
Proof. vm_compute. reflexivity. Qed.

Lemma unit_rank_S f b s la :
  unit_rank (S f) b s la =
    match gen_action s la with
    | Reduce p =>
        match prod_of p with
        | Some (lhs, [_], _) =>
            match gen_goto b lhs with
            | Some g => match unit_rank f b g la with Some r => Some (S r) | None => None end
            | None => Some 0
            end
        | _ => Some 0
        end
    | _ => Some 0
    end.
Proof. reflexivity. Qed.

Local Opaque gen_action gen_goto gen_prods.

Lemma unit_rank_lt : forall f b s la r, unit_rank f b s la = Some r -> r < f.
Proof.
  induction f as [|f IH]; intros b s la r H; [discriminate|].
  rewrite unit_rank_S in H.
  destruct (gen_action s la); try (inversion H; lia).
  destruct (prod_of p) as [[[lhs rhs] a]|]; try (inversion H; lia).
  destruct rhs as [|X [|Y rhs]]; try (inversion H; lia).
  destruct (gen_goto b lhs) as [g|]; try (inversion H; lia).
  destruct (unit_rank f b g la) as [r0|] eqn:Hr; [|discriminate].
  inversion H; subst. apply IH in Hr. lia.
Qed.

Lemma unit_rank_mono : forall f b s la r, unit_rank f b s la = Some r -> unit_rank (S f) b s la = Some r.
Proof.
  induction f as [|f IH]; intros b s la r H; [discriminate|].
  rewrite unit_rank_S in H. rewrite unit_rank_S.
  destruct (gen_action s la); try exact H.
  destruct (prod_of p) as [[[lhs rhs] a]|]; try exact H.
  destruct rhs as [|X [|Y rhs]]; try exact H.
  destruct (gen_goto b lhs) as [g|]; try exact H.
  destruct (unit_rank f b g la) as [r0|] eqn:Hr; [|discriminate].
  rewrite (IH _ _ _ _ Hr). exact H.
Qed.

Lemma unit_rank_total b s la : exists r, unit_rank K b s la = Some r.
Proof.
  destruct (le_lt_dec gen_nstates s) as [Hs|Hs].
  { exists 0. unfold K. rewrite unit_rank_S, gen_action_oob by exact Hs. reflexivity. }
  destruct (le_lt_dec gen_nstates b) as [Hb|Hb].
  { exists 0. unfold K. rewrite unit_rank_S.
    destruct (gen_action s la); try reflexivity.
    destruct (prod_of p) as [[[lhs rhs] a]|]; try reflexivity.
    destruct rhs as [|X [|Y rhs]]; try reflexivity.
    rewrite gen_goto_oob by exact Hb. reflexivity. }
  pose proof unit_chains_bounded_ok as F. unfold unit_chains_bounded in F.
  rewrite forallb_forall in F. specialize (F la (all_toks_complete la)).
  rewrite forallb_forall in F. specialize (F b (all_states_complete b Hb)).
  rewrite forallb_forall in F. specialize (F s (all_states_complete s Hs)).
  destruct (unit_rank K b s la) as [r|]; [exists r; reflexivity|discriminate].
Qed.

Definition rank (b s : nat) (la : tok) : nat :=
  match unit_rank K b s la with Some r => r | None => 0 end.

Lemma rank_lt_K b s la : rank b s la < K.
Proof.
  unfold rank. destruct (unit_rank K b s la) as [r|] eqn:H; [apply unit_rank_lt in H; exact H|unfold K; lia].
Qed.

(* a unit reduction lowers the rank *)
Lemma rank_unit_step b s la p lhs X a g :
  gen_action s la = Reduce p -> prod_of p = Some (lhs, [X], a) -> gen_goto b lhs = Some g ->
  rank b g la < rank b s la.
Proof.
  intros Ha Hp Hg. unfold rank.
  destruct (unit_rank_total b s la) as [r Hr]. rewrite Hr.
  unfold K in Hr. rewrite unit_rank_S, Ha, Hp, Hg in Hr.
  destruct (unit_rank 7 b g la) as [r0|] eqn:H0; [|discriminate].
  inversion Hr; subst. apply unit_rank_mono in H0. change 8 with K in H0. rewrite H0. lia.
Qed.

(* ---- the potential *)
Definition la_of (toks : list token) : tok := match toks with t :: _ => tk_type t | [] => T_EOF end.
Definition rank_of (c : config) : nat :=
  match c_states c with s :: b :: _ => rank b s (la_of (c_toks c)) | _ => 0 end.
Definition phi (c : config) : nat :=
  (K + 1) * (2 * length (c_toks c) + length (c_states c)) + rank_of c.

(* the state stack is one longer than the value stack (the driver itself refuses a reduction when the
   value stack is too short) *)
Definition shape_ok (c : config) : Prop := length (c_states c) = S (length (c_vals c)).

Lemma rank_of_lt_K c : rank_of c < K.
Proof.
  unfold rank_of. destruct (c_states c) as [|s [|b l]]; try (unfold K; lia). apply rank_lt_K.
Qed.

Ltac break H := repeat match type of H with
  | match ?x with _ => _ end = _ => destruct x eqn:?; try discriminate
  | (if ?b then _ else _) = _ => destruct b eqn:?; try discriminate
  end.

(* the driver's step with the lookahead made explicit *)
Lemma step_eq tb lexerr c :
  step tb lexerr c =
    match c_toks c, lexerr with
    | [], Some e => Final (Err (illegal_error e)) []
    | _, _ =>
        match tb_action tb (hd 0 (c_states c)) (la_of (c_toks c)) with
        | Shift n => do_shift c n
        | Reduce p => do_reduce tb c p
        | Accept => do_accept lexerr c
        | ActErr => Final (Err (syntax_error (hd_error (c_toks c)))) []
        end
    end.
Proof. unfold step, la_of. destruct (c_toks c); destruct lexerr; reflexivity. Qed.

Lemma do_accept_final lexerr c : exists r evs, do_accept lexerr c = Final r evs.
Proof. unfold do_accept. destruct (c_vals c) as [|[i|] below]; eauto. Qed.

Lemma shift_decreases c n c' :
  shape_ok c -> do_shift c n = Next c' -> shape_ok c' /\ phi c' < phi c.
Proof.
  unfold do_shift. intros Hs H. destruct (c_toks c) as [|t rest] eqn:Htoks; [discriminate|].
  inversion H; subst c'; clear H. unfold shape_ok in *. split; [simpl; lia|].
  pose proof (rank_of_lt_K (mkCfg (n :: c_states c) (token_value t :: c_vals c) rest (c_dropped c))) as Hr.
  unfold phi in *. simpl c_toks in *. simpl c_states in *. rewrite Htoks. simpl length. unfold K in *. lia.
Qed.

Lemma reduce_decreases c p c' :
  shape_ok c -> gen_action (hd 0 (c_states c)) (la_of (c_toks c)) = Reduce p ->
  do_reduce gen_tables c p = Next c' -> shape_ok c' /\ phi c' < phi c.
Proof.
  unfold do_reduce. intros Hs Ha H.
  destruct p as [|p']; [discriminate|]. simpl pred in H. simpl tb_prods in H. simpl tb_goto in H.
  destruct (nth_error gen_prods p') as [[[lhs rhs] a]|] eqn:Hp; [|discriminate].
  cbv zeta in H.
  destruct (Nat.ltb (length (c_vals c)) (length rhs)) eqn:Hlen; [discriminate|].
  destruct (run_action a _) as [[v d]|]; [|discriminate].
  destruct (gen_goto _ lhs) as [g|] eqn:Hg; [|discriminate].
  inversion H; subst c'; clear H.
  apply Nat.ltb_ge in Hlen.
  assert (Hp' : prod_of (S p') = Some (lhs, rhs, a)) by exact Hp.
  pose proof (prod_rhs_nonempty _ _ _ _ Hp') as Hne.
  set (c' := mkCfg (g :: skipn (length rhs) (c_states c)) (v :: skipn (length rhs) (c_vals c))
                   (c_toks c) (c_dropped c ++ d)).
  unfold shape_ok in *. split.
  - simpl. rewrite !skipn_length. lia.
  - pose proof (rank_of_lt_K c') as Hr'. unfold phi.
    change (c_toks c') with (c_toks c).
    change (length (c_states c')) with (S (length (skipn (length rhs) (c_states c)))).
    rewrite skipn_length.
    destruct rhs as [|X [|Y rhs]]; [congruence| |].
    + (* unit reduction: same height, lower rank *)
      simpl length in *.
      destruct (c_states c) as [|s [|b l]] eqn:Hst; simpl in Hs; try lia.
      assert (Hrank : rank_of c' < rank_of c).
      { unfold rank_of. subst c'. simpl c_states. simpl c_toks. rewrite Hst.
        simpl skipn in *. simpl hd in *.
        eapply rank_unit_step; eassumption. }
      simpl length. unfold K in *. lia.
    + simpl length in *. unfold K in *. lia.
Qed.

Lemma step_decreases lexerr c c' :
  shape_ok c -> step gen_tables lexerr c = Next c' -> shape_ok c' /\ phi c' < phi c.
Proof.
  intros Hs H. rewrite step_eq in H. simpl tb_action in H.
  assert (H' : match gen_action (hd 0 (c_states c)) (la_of (c_toks c)) with
               | Shift n => do_shift c n
               | Reduce p => do_reduce gen_tables c p
               | Accept => do_accept lexerr c
               | ActErr => Final (Err (syntax_error (hd_error (c_toks c)))) []
               end = Next c').
  { destruct (c_toks c); [destruct lexerr; [discriminate|]|]; exact H. }
  clear H.
  destruct (gen_action (hd 0 (c_states c)) (la_of (c_toks c))) eqn:Ha.
  - eapply shift_decreases; eassumption.
  - eapply reduce_decreases; eassumption.
  - destruct (do_accept_final lexerr c) as [r [evs E]]. rewrite E in H'. discriminate.
  - discriminate.
Qed.

Lemma run_terminates lexerr : forall fuel c,
  shape_ok c -> phi c < fuel -> run gen_tables lexerr fuel c <> OutOfFuel.
Proof.
  induction fuel as [|f IH]; intros c Hs Hphi; [lia|].
  simpl. destruct (step gen_tables lexerr c) as [c'|r evs] eqn:Hstep; [|discriminate].
  destruct (step_decreases _ _ _ Hs Hstep) as [Hs' Hd]. apply IH; [exact Hs'|lia].
Qed.

(* the fuel of Parser.parse_full is enough, for every input *)
Theorem parse_full_terminates s : parse_full s <> OutOfFuel.
Proof.
  unfold parse_full, parse_with. destruct (lex s) as [toks e].
  apply run_terminates.
  - reflexivity.
  - unfold phi, parse_fuel, init_config, rank_of, K. simpl. lia.
Qed.

Theorem parse_total s : exists r, parse s = Some r.
Proof.
  unfold parse. pose proof (parse_full_terminates s) as H.
  destruct (parse_full s) as [r evs|]; [exists r; reflexivity|congruence].
Qed.
