(* AutoHeadTail.v — luqum.auto_head_tail.AutoHeadTail (a visitor.TreeTransformer) and the
   predicates the C13 statements are written with.  Executable definitions only.

   Python side modelled (luqum/auto_head_tail.py, luqum/visitor.py):
     add_head(node)              if not node.head: node.head = " "
     add_tail(node)              if not node.tail: node.tail = " "
     every handler               new_node = node.clone_item()
                                 children = list(self.clone_children(node, new_node, context))
                                 <fix the heads/tails of some children, by index>
                                 new_node.children = children ; yield new_node
     visit_base_operation        children[0] tail ; children[1:-1] head and tail ; children[-1] head
     visit_unknown_operation     children[:-1] tail
     visit_not                   children[0] head
     visit_range                 children[0] tail ; children[-1] head
     generic_visit (inherited)   nothing
   Which handler runs for a class is `Visitor.dispatch` over the generated MRO and the generated
   method table `gen_methods_AutoHeadTail` (UnknownOperation has its own handler, the other three
   operation classes reach visit_base_operation through BaseOperation).
   `children[0]` / `children[-1]` on an empty list raise IndexError: outcome None. *)
Require Import Base Decimal Tree GenTree GenVisitors GenParser Visitor Eq Traverse Lexer Print Actions LR Parser.

Definition SPACER : str := [c_space].

Definition is_empty (s : str) : bool := match s with [] => true | _ => false end.

(* AutoHeadTail.add_head / add_tail *)
Definition aht_add_head (n : item) : item := if is_empty (head_of n) then set_head n SPACER else n.
Definition aht_add_tail (n : item) : item := if is_empty (tail_of n) then set_tail n SPACER else n.

Inductive handler := HBase | HUnknown | HNot | HRange | HGeneric.

(* the method _get_method finds for a node of class c; None = a visit_* method this model does
   not know (tie obligation aht_methods_known below says there is none) *)
Definition handler_of (c : cls) : option handler :=
  match dispatch gen_methods_AutoHeadTail c with
  | None => Some HGeneric
  | Some CBaseOperation => Some HBase
  | Some CUnknownOperation => Some HUnknown
  | Some CNot => Some HNot
  | Some CRange => Some HRange
  | Some _ => None
  end.

Definition aht_methods_known : bool :=
  forallb (fun c => mem_cls c [CRange; CUnknownOperation; CNot; CBaseOperation]) gen_methods_AutoHeadTail.

(* the three statements of visit_base_operation, in order, on the child at index i of n children *)
Definition base_at (n i : nat) (c : item) : item :=
  let c1 := if Nat.eqb i 0 then aht_add_tail c else c in                       (* children[0] *)
  let c2 := if Nat.leb 1 i && Nat.ltb i (n - 1)                                 (* children[1:-1] *)
            then aht_add_tail (aht_add_head c1) else c1 in
  if Nat.eqb i (n - 1) then aht_add_head c2 else c2.                            (* children[-1] *)

Definition unknown_at (n i : nat) (c : item) : item :=
  if Nat.ltb i (n - 1) then aht_add_tail c else c.                              (* children[:-1] *)

Definition not_at (n i : nat) (c : item) : item :=
  if Nat.eqb i 0 then aht_add_head c else c.                                    (* children[0] *)

Definition range_at (n i : nat) (c : item) : item :=
  let c1 := if Nat.eqb i 0 then aht_add_tail c else c in                        (* children[0] *)
  if Nat.eqb i (n - 1) then aht_add_head c1 else c1.                            (* children[-1] *)

(* does the handler index children[0] / children[-1] (IndexError on an empty list)? *)
Definition needs_child (h : handler) : bool :=
  match h with HBase | HNot | HRange => true | HUnknown | HGeneric => false end.

Definition fix_at (h : handler) : nat -> nat -> item -> item :=
  match h with
  | HBase => base_at | HUnknown => unknown_at | HNot => not_at | HRange => range_at
  | HGeneric => fun _ _ c => c
  end.

(* the head/tail fixing of a handler on the list of transformed children; None = IndexError *)
Definition fix_children (h : handler) (cs : list item) : option (list item) :=
  match cs with
  | [] => if needs_child h then None else Some []
  | _ => Some (mapi (fix_at h (length cs)) cs)
  end.

(* AutoHeadTail.visit_iter on one node; None = an exception *)
Fixpoint aht (t : item) : option item :=
  let via (cs : list item) :=
    match handler_of (cls_of t) with
    | None => None
    | Some h =>
        match clone_item t with
        | None => None
        | Some n =>
            match copy_list aht cs with
            | None => None
            | Some cs' =>
                match fix_children h cs' with
                | None => None
                | Some cs'' => set_children n cs''
                end
            end
        end
    end in
  match t with
  | Term _ _ _ | NoneItem _ => via []
  | SearchField _ _ e | Grp _ _ e | Boost _ e _ _ => via [e]
  | Fuzzy _ x _ _ | Proximity _ x _ _ => via [x]
  | Unary _ _ a | ORange _ _ a _ => via [a]
  | Range _ lo hi _ _ => via [lo; hi]
  | Op _ _ ops => via ops
  end.

(* auto_head_tail(tree) = AutoHeadTail().visit(tree): every handler yields exactly one node *)
Definition auto_head_tail (t : item) : option item := aht t.

(* ================================================================ predicates of the C13 statements *)

Definition every_list (f : item -> bool) := fix go (l : list item) : bool :=
  match l with [] => true | c :: l' => f c && go l' end.
Definition some_list (f : item -> bool) := fix go (l : list item) : bool :=
  match l with [] => false | c :: l' => f c || go l' end.

(* p holds at every node / at some node of the tree *)
Fixpoint every_node (p : item -> bool) (t : item) : bool :=
  p t &&
  match t with
  | Term _ _ _ | NoneItem _ => true
  | SearchField _ _ e | Grp _ _ e | Boost _ e _ _ => every_node p e
  | Fuzzy _ x _ _ | Proximity _ x _ _ => every_node p x
  | Unary _ _ a | ORange _ _ a _ => every_node p a
  | Range _ lo hi _ _ => every_node p lo && every_node p hi
  | Op _ _ ops => every_list (every_node p) ops
  end.

Fixpoint some_node (p : item -> bool) (t : item) : bool :=
  p t ||
  match t with
  | Term _ _ _ | NoneItem _ => false
  | SearchField _ _ e | Grp _ _ e | Boost _ e _ _ => some_node p e
  | Fuzzy _ x _ _ | Proximity _ x _ _ => some_node p x
  | Unary _ _ a | ORange _ _ a _ => some_node p a
  | Range _ lo hi _ _ => some_node p lo || some_node p hi
  | Op _ _ ops => some_list (some_node p) ops
  end.

(* "a tree built without layout": no head, tail, pos, size anywhere *)
Definition meta_free (m : meta) : bool :=
  match m_pos m, m_size m, m_head m, m_tail m with None, None, [], [] => true | _, _, _, _ => false end.
Definition layout_freeb (t : item) : bool := every_node (fun n => meta_free (meta_of n)) t.

(* ---- lexeme classes: the whole value is one lexeme of the rule *)
Definition word_lexeme (allow_to : bool) (v : str) : bool :=
  match lex_term [] v with
  | Some (l, []) =>
      str_eqb l v &&
      match find (fun p => str_eqb v (fst p)) gen_reserved with
      | None => true
      | Some (_, T_TO) => allow_to          (* TO is a term outside ranges (p_to_as_term) *)
      | Some _ => false
      end
  | _ => false
  end.
Definition phrase_lexeme (v : str) : bool :=
  match lex_delimited c_quote v with Some (l, []) => str_eqb l v | _ => false end.
Definition regex_lexeme (v : str) : bool :=
  match lex_delimited c_slash v with Some (l, []) => str_eqb l v | _ => false end.

(* phrase_or_term *)
Definition leaf_ok (t : item) : bool :=
  match t with
  | Term KWord _ v => word_lexeme false v
  | Term KPhrase _ v => phrase_lexeme v
  | _ => false
  end.
(* phrase_or_possibly_negative_term *)
Definition bound_ok (t : item) : bool :=
  match t with Unary KProhibit _ a => leaf_ok a | _ => leaf_ok t end.
(* a unary_expression to which `unary_expression BOOST` applies as a whole: prefix operators and
   `field:` absorb the boost into their operand *)
Definition boostable (t : item) : bool :=
  match t with
  | Term _ _ _ | Fuzzy _ _ _ _ | Proximity _ _ _ _ | Boost _ _ _ _ | Grp KGroup _ _
  | Range _ _ _ _ _ | ORange _ _ _ _ => true
  | _ => false
  end.

(* the shapes the documented grammar derives, with n-ary flattening and the precedences
   implicit < OR < AND < unary.  lvl: 0 = expression, 1 = operand of an implicit operation,
   2 = operand of OR, 3 = operand of AND / unary_expression *)
Fixpoint expressible_at (lvl : nat) (t : item) : bool :=
  match t with
  | Op KUnknown _ ops => Nat.leb lvl 0 && Nat.leb 2 (length ops) && forallb (expressible_at 1) ops
  | Op KOr _ ops => Nat.leb lvl 1 && Nat.leb 2 (length ops) && forallb (expressible_at 2) ops
  | Op KAnd _ ops => Nat.leb lvl 2 && Nat.leb 2 (length ops) && forallb (expressible_at 3) ops
  | Op KBool _ _ => false
  | Term KWord _ v => word_lexeme true v
  | Term KPhrase _ v => phrase_lexeme v
  | Term KRegex _ v => regex_lexeme v
  | Fuzzy _ x d impl =>
      (match x with Term KWord _ v => word_lexeme false v | _ => false end) && (impl || negb (dsign d))
  | Proximity _ x d impl =>
      (match x with Term KPhrase _ v => phrase_lexeme v | _ => false end) && (impl || (0 <=? d)%Z)
  | Boost _ e f impl => boostable e && expressible_at 3 e && (impl || negb (dsign f))
  | Unary _ _ a => expressible_at 3 a
  | Grp KGroup _ e => expressible_at 0 e
  | Grp KFieldGroup _ _ => false            (* only as the direct expression of a field *)
  | SearchField _ n e =>
      word_lexeme false n &&
      match e with
      | Grp KFieldGroup _ x => expressible_at 0 x
      | Grp KGroup _ _ => false
      | _ => expressible_at 3 e
      end
  | Range _ lo hi _ _ => bound_ok lo && bound_ok hi
  | ORange _ _ a _ => leaf_ok a
  | NoneItem _ => false
  end.
Definition expressibleb (t : item) : bool := expressible_at 0 t.

(* ---- F4: the first token of the printed form *)
Inductive ltok := LPlus | LMinus | LTo | LOther.
Fixpoint leftmost (t : item) : ltok :=
  match t with
  | Term KWord _ v => if str_eqb v s_TO then LTo else LOther
  | Unary KPlus _ _ => LPlus
  | Unary KProhibit _ _ => LMinus
  | Boost _ e _ _ => leftmost e
  | Fuzzy _ x _ _ | Proximity _ x _ _ => leftmost x
  | Op _ _ (x :: _) => leftmost x
  | _ => LOther
  end.
Definition is_sign (k : ltok) : bool := match k with LOther => false | _ => true end.
Definition is_and_or (t : item) : bool := match t with Op KAnd _ _ | Op KOr _ _ => true | _ => false end.
Fixpoint f4_adjacent (l : list item) : bool :=
  match l with
  | a :: ((b :: _) as l') => (is_and_or a && is_sign (leftmost b)) || f4_adjacent l'
  | _ => false
  end.
(* an implicit operation has an AND/OR operation as operand, directly followed by an operand whose
   first token is PLUS, MINUS or the word TO *)
Definition f4_patternb (t : item) : bool :=
  some_node (fun n => match n with Op KUnknown _ ops => f4_adjacent ops | _ => false end) t.

(* ---- F15: joints where no blank is added and the lexemes fuse *)
(* the TERM rule started on `name:rest` does not stop at the colon *)
Definition colon_fuses (name rest : str) : bool :=
  match lex_term [] (name ++ c_colon :: rest) with
  | Some (l, _) => Nat.ltb (length name) (length l)
  | None => false
  end.
Definition f15_at (n : item) : bool :=
  match n with
  | SearchField _ name e =>
      match aht e with Some e' => colon_fuses name (print true e') | None => false end
  | ORange _ _ (Term KWord _ (c :: _)) false => N.eqb c c_eq
  | _ => false
  end.
Definition f15_patternb (t : item) : bool := some_node f15_at t.

(* ---- the round trip, executable: parser.parse(str(auto_head_tail(t))) == t *)
Definition roundtripb (t : item) : bool :=
  match aht t with
  | None => false
  | Some t' =>
      match parse (print true t') with
      | Some (Ok b) => item_eqb b t
      | _ => false
      end
  end.

(* ---- when auto_head_tail raises: some AND / OR / Bool operation has no operand (IndexError in
   visit_base_operation; visit_unknown_operation only slices) *)
Definition empty_named_operation (n : item) : bool :=
  match n with
  | Op KUnknown _ _ => false
  | Op _ _ [] => true
  | _ => false
  end.
Definition aht_defined (t : item) : bool := every_node (fun n => negb (empty_named_operation n)) t.
