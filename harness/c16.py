"""C16 — MatchingPropagator: every sub-expression classified exactly once, as matching iff true."""
import copy

import lib
import gentree
from runner import CorrResult

QUERIES = [
    "a", "a AND b", "a OR b", "a b", "a AND (b OR -c) f:(x y)", "NOT a", "a AND NOT b", "-a b +c",
    "a AND b AND c OR d", "(a OR b) AND (c OR (d AND NOT e))", "f:(a b) AND g:c", "f:(a AND -b)",
    "a OR [1 TO 5] OR b~2", '"x y"~3 AND z^2', "f:[a TO b] g:{1 TO *] h", "a AND (b)", "a AND ((b))",
    "a AND (NOT b)", "a AND f:(NOT b)", "NOT (a OR b)", "NOT NOT a", "a AND NOT (b c)", "(a b)^2 OR c",
    "f:(g:(a b) c)", "a~ AND /re/ OR \"p\"", "x:>=3 AND y:<2", "-(a b)", "+a -(b OR c) d",
]


def pchildren(T, n):
    return [] if isinstance(n, (T.Range, T.BaseApprox)) else list(n.children)


def cnodes(T, n, p=()):
    """the classified sub-expressions: everything not strictly below a Range / Fuzzy / Proximity"""
    yield p, n
    for i, c in enumerate(pchildren(T, n)):
        yield from cnodes(T, c, p + (i,))


def is_leaf(T, n):
    return isinstance(n, (T.Term, T.NoneItem, T.Range, T.BaseApprox))


def covered(T, n, q):
    if is_leaf(T, n):
        return q
    if isinstance(n, T.BaseOperation):
        return None
    return covered(T, n.children[0], q + (0,))


def neg_between(T, n):
    if is_leaf(T, n) or isinstance(n, T.BaseOperation):
        return False
    e = n.children[0]
    return isinstance(e, (T.Not, T.Prohibit)) or neg_between(T, e)


def or_like(T, n, dor):
    return isinstance(n, T.OrOperation) or (dor and isinstance(n, T.UnknownOperation))


def ev(T, n, p, sig, dor):
    """direct boolean evaluation (independent of the propagator)"""
    if is_leaf(T, n):
        return sig[p]
    if isinstance(n, T.BaseOperation):
        bs = [ev(T, c, p + (i,), sig, dor) for i, c in enumerate(n.children)]
        return any(bs) if or_like(T, n, dor) else all(bs)
    v = ev(T, n.children[0], p + (0,), sig, dor)
    return (not v) if isinstance(n, (T.Not, T.Prohibit)) else v


def pre_neg(T, n, q, sig, dor):
    """what a reported name says about an element covering several terms: its value, taken BEFORE the negation
    when the element is itself a NOT / - (the same convention as for an element covering one term, where the
    name tells whether the TERM matched)"""
    if isinstance(n, (T.Not, T.Prohibit)):
        return ev(T, n.children[0], q + (0,), sig, dor)
    return ev(T, n, q, sig, dor)


def attr_names(tree):
    """the attribute names of every node, in pre-order (iterative)"""
    out, stack = [], [tree]
    while stack:
        n = stack.pop()
        out.append(tuple(sorted(vars(n))))
        stack.extend(reversed(n.children))
    return out


def payload_base(desc, dflt, sig, names, M, O):
    return {"tree": desc[:1500], "default": dflt.__name__, "sigma_true": sorted(list(p) for p, v in sig.items() if v),
            "names": sorted(names), "matching": sorted(map(list, M)), "other": sorted(map(list, O))}


def reported(T, tree, sig, M, O, dor=True):
    """the premise of the property: PropagateSpec.reported (an element covering several terms is never reported),
    widened: such an element may also be reported as matching, but only if its value before its own negation
    (pre_neg) is true.  This is PropagateSpecWide.reported_wide, clause by clause; the model's executable version
    reported_wide_b is compared with this function on every generated case (correspond, second comparison)"""
    named = M | O
    cn = dict(cnodes(T, tree))
    for q, n in cn.items():
        if q in named:
            a = covered(T, n, q)
            if a is None:
                if q in M and not pre_neg(T, n, q, sig, dor):
                    return False
            else:
                if (q in M) != sig[a]:
                    return False
                if q in M and neg_between(T, n):
                    return False
    for a, l in cn.items():
        if is_leaf(T, l):
            if not any(q in named and covered(T, cn[q], q) == a
                       for q in [a[:k] for k in range(len(a) + 1)]):
                return False
    return True


def has_empty_operation(T, tree):
    """a classified operation with zero operands (statistics only: such trees are judged by the plain oracle like
    any other; they were the two findings repaired in /repo 831a694 and stay in the corpus as regression cases)"""
    return any(isinstance(n, T.BaseOperation) and not n.children for _, n in cnodes(T, tree))


def rand_query(r, depth, top=True):
    ws = ["a", "b", "c", "d", "e", "foo", "bar"]
    if depth <= 0 or (not top and r.random() < 0.25):
        x = r.random()
        if x < 0.6:
            return r.choice(ws)
        if x < 0.7:
            return '"%s %s"' % (r.choice(ws), r.choice(ws))
        if x < 0.8:
            return "[%s TO %s]" % (r.choice(ws), r.choice(ws))
        if x < 0.9:
            return r.choice(ws) + "~2"
        return '"%s %s"~3' % (r.choice(ws), r.choice(ws))
    k = r.choice(["and", "or", "unk", "group", "field", "not", "minus", "plus", "boost", "and", "or", "unk"])
    sub = lambda: rand_query(r, depth - 1, False)  # noqa
    if k in ("and", "or", "unk"):
        sep = {"and": " AND ", "or": " OR ", "unk": " "}[k]
        return sep.join(sub() for _ in range(r.randrange(2, 4)))
    if k == "group":
        return "(%s)" % sub()
    if k == "field":
        return "%s:(%s)" % (r.choice(["f", "g"]), sub())
    if k == "not":
        return "NOT (%s)" % sub() if r.random() < 0.5 else "NOT " + r.choice(ws)
    if k == "minus":
        return "-" + (r.choice(ws) if r.random() < 0.6 else "(%s)" % sub())
    if k == "plus":
        return "+" + r.choice(ws)
    return "(%s)^2" % sub()


CLS = {"OrOperation": "COrOperation", "AndOperation": "CAndOperation",
       "UnknownOperation": "CUnknownOperation", "BoolOperation": "CBoolOperation"}


def g_paths(ps):
    return lib.g_list([lib.g_path(p) for p in sorted(ps)])


def correspond(model_ok, res):
    import luqum.tree as T
    import luqum.naming as naming
    from luqum.parser import parser
    r = lib.rng("C16")
    quick = lib.tier() == "quick"
    n_rand, n_query = (160, 110) if quick else (1600, 1100)
    g = gentree.Gen(r, T, layout=0.0, odd=0.12, max_ops=4)
    W = T.Word
    corpus = [
        T.AndOperation(),                                          # the finding repaired in 831a694, always first
        T.AndOperation(W("a"), T.Group(T.AndOperation())),
        T.OrOperation(), T.UnknownOperation(), T.BoolOperation(),
        T.OrOperation(W("a"), T.OrOperation()),
        W("a"), T.Not(W("a")), T.Group(T.Not(W("a"))),
        T.Range(T.AndOperation(W("a"), W("b")), W("c")),
        T.AndOperation(T.Range(T.AndOperation(W("a"), W("b")), W("c")), T.Fuzzy(T.OrOperation(W("x"), W("y")), 1)),
        T.AndOperation(W("a")), T.BoolOperation(T.Plus(W("a")), T.Prohibit(W("b")), W("c")),
        T.AndOperation(W("a"), T.Group(T.Not(W("b")))),
        T.AndOperation(W("a"), T.Not(T.Group(T.Not(W("b"))))),
        T.UnknownOperation(T.NoneItem(), W("a")),
    ]
    trees = corpus + [parser.parse(q) for q in QUERIES]
    for i in range(n_rand):
        if i % 2:
            trees.append(g.tree(r.randrange(2, 5)))
        else:   # an operation on top, so that most random trees have several terms
            k = r.choice([T.AndOperation, T.OrOperation, T.UnknownOperation, T.BoolOperation])
            trees.append(k(*[g.tree(r.randrange(1, 4)) for _ in range(r.randrange(2, 4))]))
    trees += [parser.parse(rand_query(r, r.randrange(2, 5))) for _ in range(n_query)]
    # the wide premise: trees on which every named element (compound ones included) is reported, always (appended
    # last so that the random stream of the cases above does not depend on them).  The first three carried the
    # second finding repaired in 831a694 (an empty any-operation inheriting True), the others are the examples of
    # props/C16w.v
    wide_corpus = [
        T.Not(T.Not(T.OrOperation())),
        T.AndOperation(W("a"), T.Group(T.Not(T.OrOperation()))),
        T.OrOperation(W("a"), T.Group(T.UnknownOperation())),
        T.AndOperation(W("a"), T.Group(T.AndOperation())),           # empty AND under a reported group: right
        parser.parse("(f:a OR g:b) AND NOT (c d)"), parser.parse("e AND NOT (c d)"),
        parser.parse("NOT (a OR b) AND -(c d) AND f:(NOT (x AND y))"),
    ]
    trees += wide_corpus
    forced_wide = {id(t) for t in wide_corpus}
    # regression corpus for the defect repaired in /repo 831a694 (an operation with zero operands got the status
    # of its named ancestor instead of all([]) / any([])): every kind of empty operation, at the root and below
    # named elements, each judged by the plain oracle under BOTH ways of reporting (first assignment: only elements
    # covering one term are reported - the empty all-operations went wrong; second assignment: every named element
    # that is true before its own negation - the empty any-operations went wrong).  Appended after everything else.
    regression_corpus = [
        T.AndOperation(), T.OrOperation(), T.UnknownOperation(), T.BoolOperation(),
        T.AndOperation(W("a"), T.Group(T.AndOperation())),
        T.AndOperation(W("a"), T.AndOperation()),
        T.OrOperation(W("a"), T.OrOperation()),
        T.Not(T.Not(T.OrOperation())), T.Not(T.OrOperation()), T.Prohibit(T.UnknownOperation()),
        T.AndOperation(W("a"), T.Group(T.Not(T.OrOperation()))),
        T.OrOperation(W("a"), T.Group(T.UnknownOperation())),
        T.AndOperation(W("a"), T.Group(T.Not(T.OrOperation())), T.Group(T.AndOperation()),
                       T.Group(T.BoolOperation()), T.Group(T.UnknownOperation())),
        T.UnknownOperation(T.SearchField("f", T.Group(T.BoolOperation())), T.Boost(T.Group(T.OrOperation()), 2),
                           T.Plus(T.Group(T.AndOperation())), W("b")),
        T.OrOperation(T.Group(T.OrOperation(T.OrOperation(), T.UnknownOperation())), T.Not(W("c"))),
    ]
    trees += regression_corpus
    forced_modes = {id(t): [0.3, 0.9] for t in regression_corpus}
    wcases, wexpect = [], []

    cases, payloads = [], []
    seen = set()
    dist = {"premise_holds": 0, "premise_fails": 0, "with_negation": 0, "keyerror_cases": 0,
            "default": {}, "leaves_bucket": {},
            "premise_holds_with_compound_element_reported": 0, "narrow_premise_holds": 0,
            "premise_holds_with_empty_operation": 0, "regression_corpus_cases_under_premise": 0}
    # call histories: ONE propagator instance per default operation is reused for HIST_LEN calls in a
    # row (different trees / assignments); every returned pair is kept and re-checked after the whole
    # history (a result that changes when the instance is used again is an identity fact the value
    # model of Coq cannot see)
    HIST_LEN = 5
    shared_objs, shared_attrs, shared_calls = {}, {}, {}
    hist = {}          # default class -> {"inst": propagator, "calls": [entry]}
    dist["histories"] = 0
    dist["history_calls"] = 0

    def close_history(dflt):
        h = hist.pop(dflt, None)
        if not h or not h["calls"]:
            return
        dist["histories"] += 1
        calls = h["calls"]
        summary = [{"tree": c["tree"], "names": c["names"], "sigma_true": c["sigma_true"]} for c in calls]
        for idx, c in enumerate(calls):
            ok_now, ko_now = c["kept"]
            why = None
            if (set(ok_now), set(ko_now)) != c["snapshot"]:
                why = "a kept result changed after later calls on the same propagator instance"
            elif c["expected"] is not None and (set(ok_now), set(ko_now)) != c["expected"]:
                why = "a kept result differs from boolean evaluation after the whole history"
            if why:
                res.failures.append(({"why": why, "default": dflt.__name__, "history": summary,
                                      "corrupted_index": idx,
                                      "right_after_call": [sorted(map(list, x)) for x in c["snapshot"]],
                                      "after_history": [sorted(map(list, ok_now)), sorted(map(list, ko_now))]},
                                     None))
                break

    for ti, tree in enumerate(trees):
        desc = gentree.describe(tree)
        try:
            g_tree = lib.g_item(tree)
        except lib.Unmodelled:
            continue
        named_tree = copy.deepcopy(tree)
        m = naming.auto_name(named_tree)
        cn = dict(cnodes(T, tree))
        leaves = [p for p, n in cn.items() if is_leaf(T, n)]
        has_neg = any(isinstance(n, (T.Not, T.Prohibit)) for n in cn.values())
        has_op = any(isinstance(n, T.BaseOperation) and len(n.children) >= 2 for n in cn.values())
        n_assign = 1 if ti < 5 else 2
        has_empty = has_empty_operation(T, tree)
        for ai in range(n_assign):
            sig = {p: r.random() < 0.5 for p in leaves}
            # how names are reported: 15% arbitrary names (outside the premise); 40% only the elements that cover
            # ONE term, when that term is true; 45% every named element exactly when it evaluates to true (what
            # Elasticsearch reports for named queries: an element covering several terms included)
            mode = r.random()
            if id(tree) in forced_wide:
                mode = 0.9
            if id(tree) in forced_modes:
                mode = forced_modes[id(tree)][ai]

            def names_for(dor):
                out = []
                for nm, q in m.items():
                    if q in cn and mode >= 0.15:
                        a = covered(T, cn[q], q)
                        if a is not None:
                            if sig[a]:
                                out.append(nm)
                        elif mode >= 0.55 and pre_neg(T, cn[q], q, sig, dor):
                            out.append(nm)
                    elif r.random() < 0.5:
                        out.append(nm)
                r.shuffle(out)
                if r.random() < 0.03:
                    out.append("zz")             # KeyError in matching_from_names
                return out
            defaults = [T.OrOperation, T.AndOperation]
            if r.random() < 0.1:
                defaults.append(r.choice([T.UnknownOperation, T.BoolOperation]))
            for dflt in defaults:
                dor = dflt is T.OrOperation
                names = names_for(dor)
                try:
                    M, O = naming.matching_from_names(list(names), dict(m))
                except KeyError:
                    dist["keyerror_cases"] += 1
                    cases.append("(%s, COrOperation, %s, %s, None, ([], []))" % (
                        g_tree, lib.g_list([lib.g_str(x) for x in names]),
                        lib.g_list(["(%s, %s)" % (lib.g_str(k), lib.g_path(v)) for k, v in m.items()])))
                    payloads.append({"tree": desc[:1500], "names": names})
                    continue
                t_run = copy.deepcopy(tree)
                M_in, O_in = set(M), set(O)
                ok, ko = naming.MatchingPropagator(dflt)(t_run, M_in, O_in)
                payload = {"tree": desc[:1500], "default": dflt.__name__,
                           "sigma_true": sorted(list(p) for p, v in sig.items() if v),
                           "names": sorted(names), "matching": sorted(map(list, M)),
                           "other": sorted(map(list, O))}
                # ONE tree object per source tree, propagated again and again with changing sets of named paths
                # (some names dropped altogether): the result is a function of (tree, matching, other) only, and
                # propagation leaves nothing behind on the tree
                if ti not in shared_objs:
                    shared_objs[ti] = copy.deepcopy(tree)
                    shared_attrs[ti] = attr_names(shared_objs[ti])
                M2 = {q for q in M if r.random() < 0.7}
                O2 = {q for q in O if r.random() < 0.7}
                try:
                    got_shared = naming.MatchingPropagator(dflt)(shared_objs[ti], set(M2), set(O2))
                    got_fresh = naming.MatchingPropagator(dflt)(copy.deepcopy(tree), set(M2), set(O2))
                    if (set(got_shared[0]), set(got_shared[1])) != (set(got_fresh[0]), set(got_fresh[1])):
                        res.failures.append((dict(payload_base(desc, dflt, sig, names, M2, O2),
                                                  why="propagation on a tree object that was propagated before (with "
                                                      "other named paths) differs from propagation on a fresh copy",
                                                  calls_before_on_this_object=shared_calls.get(ti, 0),
                                                  reused_object=[sorted(map(list, x)) for x in got_shared],
                                                  fresh_copy=[sorted(map(list, x)) for x in got_fresh]), None))
                    if attr_names(shared_objs[ti]) != shared_attrs[ti]:
                        res.failures.append((dict(payload_base(desc, dflt, sig, names, M2, O2),
                                                  why="propagation left new attributes on the nodes of its input",
                                                  attributes=sorted(set(sum(attr_names(shared_objs[ti]), ()))
                                                                    - set(sum(shared_attrs[ti], ())))), None))
                        shared_attrs[ti] = attr_names(shared_objs[ti])
                except Exception as e:
                    res.failures.append((dict(payload_base(desc, dflt, sig, names, M2, O2),
                                              why="exception %r on a re-used tree object" % (e,)), None))
                shared_calls[ti] = shared_calls.get(ti, 0) + 1
                # inputs are not modified
                if lib.g_item(t_run) != g_tree or M_in != M or O_in != O:
                    res.failures.append((dict(payload, why="propagation modified its inputs"), None))
                # ---- oracle: the property on the implementation
                why = None
                if ok & ko:
                    why = "a path is in both result sets"
                elif (ok | ko) != set(cn):
                    why = "classified paths are not exactly the sub-expressions"
                prem = reported(T, tree, sig, M, O, dor)
                # boolean evaluation by the oracle, for every sub-expression
                exp_ok = {p for p, n in cn.items() if ev(T, n, p, sig, dor)}
                # the model's premise and the specification's `ev` on the same input (second comparison below)
                wcases.append("(%s, %s, %s, %s, %s, %s, %s)" % (
                    g_tree, lib.g_bool(dor), g_paths([p for p, v in sig.items() if v]), g_paths(M), g_paths(O),
                    lib.g_bool(prem), g_paths(exp_ok)))
                wexpect.append({"tree": desc[:1500], "default_is_or": dor,
                                "sigma_true": sorted(list(p) for p, v in sig.items() if v),
                                "matching": sorted(map(list, M)), "other": sorted(map(list, O)),
                                "python_reported": prem, "python_true_paths": sorted(map(list, exp_ok))})
                if prem:
                    dist["premise_holds"] += 1
                    compound = any(q in cn and covered(T, cn[q], q) is None for q in M)
                    dist["premise_holds_with_compound_element_reported"] += compound
                    dist["narrow_premise_holds"] += not compound
                    dist["premise_holds_with_empty_operation"] += has_empty
                    dist["regression_corpus_cases_under_premise"] += id(tree) in forced_modes
                    if why is None and (ok != exp_ok or ko != set(cn) - exp_ok):
                        why = "status differs from boolean evaluation"
                    if has_op and (desc, tuple(sorted(sig.items())), dflt.__name__) not in seen:
                        seen.add((desc, tuple(sorted(sig.items())), dflt.__name__))
                else:
                    dist["premise_fails"] += 1
                if why:
                    # no known finding is left for C16: every failure of the oracle is a violation
                    res.failures.append((dict(payload, why=why, ok=sorted(map(list, ok)),
                                              ko=sorted(map(list, ko))), None))
                # ---- the same call on the reused instance of this default operation
                h = hist.setdefault(dflt, {"inst": naming.MatchingPropagator(dflt), "calls": []})
                t_h = copy.deepcopy(tree)
                M_h, O_h = set(M), (frozenset(O) if r.random() < 0.3 else set(O))
                kept = h["inst"](t_h, M_h, O_h)
                snapshot = (set(kept[0]), set(kept[1]))
                dist["history_calls"] += 1
                if lib.g_item(t_h) != g_tree or M_h != M or O_h != O:
                    res.failures.append((dict(payload, why="propagation modified its inputs (reused instance)"),
                                         None))
                if snapshot != (set(ok), set(ko)):
                    res.failures.append((dict(payload, why="a reused propagator instance answers differently "
                                              "from a fresh one", call_index=len(h["calls"]),
                                              history=[{"tree": c["tree"], "names": c["names"]}
                                                       for c in h["calls"]],
                                              fresh=[sorted(map(list, ok)), sorted(map(list, ko))],
                                              reused=[sorted(map(list, x)) for x in snapshot]), None))
                if kept[0] is M_h or kept[0] is O_h or kept[1] is M_h or kept[1] is O_h:
                    res.failures.append((dict(payload, why="a result set is one of the input collections"), None))
                expected = None
                if prem:
                    expected = (exp_ok, set(cn) - exp_ok)
                h["calls"].append({"tree": desc[:600], "names": sorted(names), "kept": kept,
                                   "sigma_true": payload["sigma_true"], "snapshot": snapshot,
                                   "expected": expected})
                if len(h["calls"]) >= HIST_LEN:
                    close_history(dflt)
                dist["with_negation"] += has_neg
                dist["default"][dflt.__name__] = dist["default"].get(dflt.__name__, 0) + 1
                b = len(leaves) if len(leaves) < 3 else min(len(leaves), 12) // 3 * 3
                dist["leaves_bucket"][b] = dist["leaves_bucket"].get(b, 0) + 1
                cases.append("(%s, %s, %s, %s, Some (%s, %s), (%s, %s))" % (
                    g_tree, CLS[dflt.__name__], lib.g_list([lib.g_str(x) for x in names]),
                    lib.g_list(["(%s, %s)" % (lib.g_str(k), lib.g_path(v)) for k, v in m.items()]),
                    g_paths(M), g_paths(O), g_paths(ok), g_paths(ko)))
                payloads.append(payload)
    for dflt in list(hist):
        close_history(dflt)
    # canary: a deliberately corrupted expectation must be reported by the comparison
    canary_tree = parser.parse("a AND b")
    cases.append("(%s, COrOperation, [], [], Some ([], []), ([[0]%%nat], [[]%%nat; [1]%%nat]))"
                 % lib.g_item(canary_tree))
    canary = len(cases) - 1
    res.cases = len(cases) - 1
    res.nontrivial = len(seen)
    res.rule = ("corpus of odd trees + parsed fixed queries + random programmatic trees (all classes, empty "
                "operations, operations inside ranges) + random parsed queries; names from the real auto_name, "
                "random truth assignment to every leaf, reported names = named elements whose covered term is "
                "true (40%), or every named element - those covering several terms included - whose value before "
                "its own negation is true (45%; always on the wide corpus), or arbitrary names (15%), "
                "matching_from_names, defaults Or / And (10%: another class); "
                "non-trivial = distinct (tree, assignment, default) satisfying the premise with an operation "
                "of at least 2 operands; every call is also replayed on a propagator instance reused for 5 "
                "calls in a row (per default), kept results re-checked after the history; a regression corpus of "
                "trees with zero-operand operations of every kind (the findings repaired in /repo 831a694), each "
                "run under both ways of reporting, judged by the same oracle; on every case the model's "
                "reported_wide_b is compared with the oracle's premise and the specification's ev with the "
                "oracle's boolean evaluation")
    res.samples = payloads[40:46]
    res.distribution = dist
    if model_ok:
        defs = (
            "Definition subset (a b : list path) : bool := forallb (fun p => mem_path p b) a.\n"
            "Definition seteq (a b : list path) : bool := subset a b && subset b a.\n"
            "Definition case_t : Type := (item * cls * list str * list (str * path)\n"
            "   * option (list path * list path) * (list path * list path))%type.\n"
            "Definition chk (c : case_t) : bool :=\n"
            "  let '(t, d, names, m, mo, (ok, ko)) := c in\n"
            "  match matching_from_names names m, mo with\n"
            "  | None, None => true\n"
            "  | Some (mt', ot'), Some (mt, ot) =>\n"
            "      seteq mt mt' && seteq ot ot' &&\n"
            "      (let '(ok', ko') := propagate d mt ot t in\n"
            "       seteq ok ok' && seteq ko ko' && Nat.eqb (length ok') (length ok)\n"
            "       && Nat.eqb (length ko') (length ko))\n"
            "  | _, _ => false\n"
            "  end.")
        cases = ["(%s : case_t)" % c for c in cases]   # a shard may hold only empty lists
        try:
            bad = lib.eval_cases("C16", "Base Decimal Tree Propagate", defs, cases, "chk", shard=50)
        except Exception as e:
            res.model_error = str(e)
            bad = []
        if not res.model_error and canary not in bad:
            res.model_error = "canary case was not reported by the comparison"
        for i in bad:
            if i != canary:
                res.disagreements.append(payloads[i])
        # ---- second comparison: the premise under which the oracle judges (Python `reported`) is the premise of
        # C16w_matching_iff_true (PropagateSpecWide.reported_wide_b), and the oracle's boolean evaluation (Python
        # `ev`) is the `ev` of the theorems (PropagateSpec.ev), on every generated case
        wdefs = (
            "Definition subset (a b : list path) : bool := forallb (fun p => mem_path p b) a.\n"
            "Definition seteq (a b : list path) : bool := subset a b && subset b a.\n"
            "Definition wcase_t : Type := (item * bool * list path * list path * list path * bool * list path)%type.\n"
            "Definition chkw (c : wcase_t) : bool :=\n"
            "  let '(t, dor, strue, mt, ot, prem, tru) := c in\n"
            "  let sg := fun p => mem_path p strue in\n"
            "  Bool.eqb (reported_wide_b dor sg t mt ot) prem &&\n"
            "  seteq tru (map fst (filter (fun qn => ev dor sg (snd qn) (fst qn)) (cnodes t []))).")
        # canaries: the premise holds on `a AND b` with a, b reported as they are; claim it does not — and the
        # true sub-expressions are exactly [0]; claim the root is true too
        ct = lib.g_item(canary_tree)
        wcases.append("(%s, true, [[0]%%nat], [[0]%%nat], [[1]%%nat], false, [[0]%%nat])" % ct)
        wcases.append("(%s, true, [[0]%%nat], [[0]%%nat], [[1]%%nat], true, [[]%%nat; [0]%%nat])" % ct)
        wcan = {len(wcases) - 2, len(wcases) - 1}
        wcases = ["(%s : wcase_t)" % c for c in wcases]
        try:
            wbad = lib.eval_cases("C16", "Base Decimal Tree Propagate PropagateSpec PropagateSpecWide", wdefs,
                                  wcases, "chkw", shard=100)
        except Exception as e:
            res.model_error = (res.model_error or "") + " premise comparison: " + str(e)
            wbad = []
        if not res.model_error and not wcan <= set(wbad):
            res.model_error = "premise canary was not reported by the comparison"
        for i in wbad:
            if i not in wcan:
                res.disagreements.append(dict(wexpect[i], why="model's reported_wide_b / ev differ from the "
                                              "oracle's premise / boolean evaluation"))
        dist["premise_comparisons"] = len(wexpect)
    else:
        res.model_error = "model did not build"
    return res


SPEC = {
    "id": "C16",
    "targets": ["props/C16.vo"],
    "model_targets": ["model/Propagate.vo", "model/PropagateSpec.vo", "model/PropagateSpecWide.vo"],
    "module": "C16",
    "theorems": ["C16_classified_once", "C16_subexpressions_are_paths", "C16_matching_iff_true",
                 "C16_matching_iff_true_partial", "C16_empty_operations_boolean", "C16_matching_from_names",
                 "C16_named_elements", "C16_end_to_end", "C16_calls_independent"],
    # the same conclusion under the wider premise the oracle judges under (named elements covering several terms
    # may be reported too, by their value before their own negation)
    "more": [{"module": "C16w", "target": "props/C16w.vo",
              "theorems": ["C16w_matching_iff_true", "C16w_matching_iff_true_partial", "C16w_premise_wider",
                           "C16w_subsumes_C16", "C16w_negation_convention_necessary", "C16w_end_to_end"]}],
    "correspond": correspond,
    "statement": "full under the property's own premise (narrow and wide reading). Every sub-expression (not "
                 "below a range/fuzzy/proximity) is classified exactly once, for any inputs "
                 "(C16_classified_once); under the premise a sub-expression is in paths_ok iff it evaluates to "
                 "true and in paths_ko iff false, for every tree, truth assignment and default operation, with "
                 "no guard on the shape of the tree. Narrow reading of the premise, `reported` "
                 "(C16_matching_iff_true; with the names of auto_name: C16_end_to_end): a named element "
                 "covering one term is in matching iff that term is true, with no negation strictly between it "
                 "and the term when it is; a named element covering several terms is never reported; every term "
                 "is covered by a named element covering just it. Wide reading, `reported_wide` - the premise "
                 "the oracle judges under (C16w_matching_iff_true, C16w_end_to_end): a named element covering "
                 "several terms - an operation, or a group / field / boost / unary operator around one - may "
                 "also be in matching, but only if its value, taken before the negation when it is itself a "
                 "NOT / -, is true. The narrow premise implies the wide one (C16w_premise_wider, "
                 "C16w_subsumes_C16). Reporting a named NOT around an operation by its value AFTER the negation "
                 "falsifies the conclusion (C16w_negation_convention_necessary). An operation with zero "
                 "operands is classified as all([]) = True / any([]) = False whatever is reported around it "
                 "(C16_empty_operations_boolean, no premise; regression for the two findings repaired in /repo "
                 "831a694: AndOperation() named and not reported was non matching; OrOperation() below an "
                 "element reported as matching, e.g. NOT NOT OrOperation(), was matching - examples "
                 "C16_regression_* / C16w_regression_* on the former witnesses, and a forced regression corpus "
                 "in the harness). The former guarded theorems C16_matching_iff_true_partial / "
                 "C16w_matching_iff_true_partial remain as corollaries. Python `reported` / `ev` of the oracle "
                 "== reported_wide_b / ev of the model on every generated case",
    "trusted_base": [
        "Coq 8.16.1 kernel (vm_compute for table facts, examples and correspondence; no native_compute)",
        "no axioms (Print Assumptions: closed under the global context)",
        "gen/translate.py: OR_NODES, NEGATION_NODES, NO_CHILDREN_PROPAGATE, class MROs",
        "hand-written model coq/model/Propagate.v of MatchingPropagator / matching_from_names (the "
        "extension of OR_NODES by UnknownOperation in __init__ and the test isinstance(node, tree.BaseOperation) "
        "of _propagate are hard-coded from the method bodies; the MRO it is evaluated against is generated), tied by "
        "differential correspondence (harness/c16.py) on every run",
        "coq/model/PropagateSpec.v: the reading of the property's premise and of boolean semantics "
        "(BoolOperation, which the property text does not name, is read as `all`)",
        "coq/model/PropagateSpecWide.v: the wider reading of the premise (what may be reported about a named "
        "element covering several terms; the name of a NOT / - tells the value before the negation), tied to "
        "the oracle's Python `reported` by comparison on every generated case",
        "value-based tree model: a Python object shared between two positions is not modelled",
    ],
    "assumptions": ["trees contain only luqum.tree classes",
                    "truth assignments are per occurrence (per path) of a leaf",
                    "matching / other are sets of tuples; default_operation is a class object",
                    "result-object aliasing (the sets returned by one call being the objects a later call on "
                    "the same MatchingPropagator instance clears/refills, or being the input collections) is an "
                    "identity fact outside the value model (propagate is a pure function, see "
                    "C16_calls_independent); it is checked by the harness: histories of 5 calls on one "
                    "instance per default operation, every returned pair kept and re-checked after the history "
                    "against its own snapshot and against boolean evaluation, reused instance == fresh "
                    "instance on every call, inputs not mutated"],
}
