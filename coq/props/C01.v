(* C01 — parsing is lossless: printing the tree with its head and tail gives back the query text.
   Model: Lexer.v, LR.v, Actions.v, Parser.v on the GENERATED tables (gen/GenParser.v); lemmas:
   LexerProofs.v (the lexer loses no character), ActionProofs.v (each semantic action keeps the text
   of its parts), LRProofs.v (driver invariant: value stack ++ pending tokens = input).  The theorem
   is proved for ANY action/goto tables, so it holds for whatever PLY generated today. *)
Require Import Base Decimal Tree GenTree GenParser Lexer Print Actions LR Parser.
Require Import TreeInd LexerProofs ActionProofs LRProofs.

(* ---- the property text as a statement *)

(* s' is s with numerals after ~ or ^ possibly re-spelled as numerically equal plain decimals *)
Definition numeral_equiv (d d' : str) : Prop :=
  plain_decimal d' = true /\
  exists x x', dec_of_lexeme d = Some x /\ dec_of_lexeme d' = Some x' /\ dec_eqb x x' = true.

Definition same_but_numeral (t t' : token) : Prop :=
  tk_type t = tk_type t' /\ tk_head t = tk_head t' /\ tk_tail t = tk_tail t' /\
  (tk_lexeme t = tk_lexeme t' \/
   ((tk_type t = T_APPROX \/ tk_type t = T_BOOST) /\
    exists c d d', tk_lexeme t = c :: d /\ tk_lexeme t' = c :: d' /\ numeral_equiv d d')).

Definition respelled (s s' : str) : Prop :=
  exists toks toks', lex s = (toks, None) /\ Forall2 same_but_numeral toks toks' /\ s' = render toks'.

Definition C01_statement : Prop :=
  forall s t, parse s = Some (Ok t) -> respelled s (print true t).

(* ---- what holds of the code today *)

(* the model records, as ghost events, every text an action drops and every token text it prints
   anew; the printed tree is exactly the input whenever all of them are trivial *)
Definition no_event (s : str) : Prop := parse_events s = [].

Definition C01_partial_statement : Prop :=
  forall s t, parse s = Some (Ok t) -> no_event s -> print true t = s.

Definition C01_any_tables_statement : Prop :=
  forall tb s t evs, parse_with tb s = Done (Ok t) evs -> all_trivial evs -> print true t = s.

Lemma filter_nil_trivial evs : filter nontrivial_event evs = [] -> all_trivial evs.
Proof.
  induction evs as [|e evs IH]; simpl; intros H; [constructor|].
  destruct (nontrivial_event e) eqn:He; [discriminate|]. constructor; [|apply IH; exact H].
  destruct e as [x|a b]; simpl in *.
  - destruct x; [reflexivity|discriminate].
  - apply Bool.negb_false_iff in He. apply str_eqb_eq in He. exact He.
Qed.

Theorem C01_any_tables : C01_any_tables_statement.
Proof. exact parse_with_lossless. Qed.

Theorem C01_partial : C01_partial_statement.
Proof.
  intros s t Hp Hne. unfold parse, no_event, parse_events, parse_full in *.
  destruct (parse_with gen_tables s) as [r evs|] eqn:Hpw; [|discriminate].
  inversion Hp; subst. eapply parse_with_lossless; [exact Hpw|]. apply filter_nil_trivial. exact Hne.
Qed.

(* the full statement is false today: a blank between a field name and its colon is lost (F1) *)
Definition f1_witness : str := [102;111;111;32;58;98;97;114]%N.    (* "foo :bar" *)

Theorem C01_refuted : ~ C01_statement.
Proof.
  intros H. specialize (H f1_witness).
  assert (Hp : exists t, parse f1_witness = Some (Ok t) /\ print true t = [102;111;111;58;98;97;114]%N).
  { eexists. split; vm_compute; reflexivity. }
  destruct Hp as [t [Hp Hprint]]. specialize (H t Hp).
  destruct H as [toks [toks' [Hlex [Hf Hr]]]]. rewrite Hprint in Hr.
  vm_compute in Hlex. inversion Hlex; subst toks; clear Hlex.
  inversion Hf as [|a1 b1 l1 l1' H1 Hf1]; subst. inversion Hf1 as [|a2 b2 l2 l2' H2 Hf2]; subst.
  inversion Hf2 as [|a3 b3 l3 l3' H3 Hf3]; subst. inversion Hf3; subst.
  destruct H1 as [T1 [Hh1 [Ht1 L1]]], H2 as [T2 [Hh2 [Ht2 L2]]], H3 as [T3 [Hh3 [Ht3 L3]]].
  simpl in *.
  destruct L1 as [L1|[[K|K] _]]; try discriminate.
  destruct L2 as [L2|[[K|K] _]]; try discriminate.
  destruct L3 as [L3|[[K|K] _]]; try discriminate.
  unfold render, tok_text in Hr. simpl in Hr.
  rewrite <- Hh1, <- Ht1, <- L1, <- Hh2, <- Ht2, <- L2, <- Hh3, <- Ht3, <- L3 in Hr. simpl in Hr. discriminate.
Qed.

(* a consequence users rely on: on event-free queries parsing is INJECTIVE — two different query texts
   never collapse into one tree (head and tail included), so the tree identifies the text it came from *)
Definition C01_injective_statement : Prop :=
  forall s1 s2 t, parse s1 = Some (Ok t) -> parse s2 = Some (Ok t) -> no_event s1 -> no_event s2 -> s1 = s2.

Theorem C01_injective : C01_injective_statement.
Proof.
  intros s1 s2 t H1 H2 E1 E2.
  rewrite <- (C01_partial s1 t H1 E1). exact (C01_partial s2 t H2 E2).
Qed.

(* (without the guard the PRINTED text no longer identifies the input — "foo :bar" and "foo:bar" print alike, F1 —
   although their trees still differ in the recorded sizes) *)
Example C01_injective_guard_print :
  exists t t', parse f1_witness = Some (Ok t) /\ parse [102;111;111;58;98;97;114]%N = Some (Ok t') /\
               print true t = print true t' /\ t <> t'.
Proof.
  eexists. eexists. split; [vm_compute; reflexivity|]. split; [vm_compute; reflexivity|].
  split; [vm_compute; reflexivity|discriminate].
Qed.

(* ---- non-vacuity: a query using most productions, with blanks everywhere, has no event *)
Definition ex_query : str :=
  (* "  (a AND  b:[1 TO 2}) -c~2 \"x y\"~3^4 OR +d  " with a tab and an ideographic space *)
  [32;9;40;97;32;65;78;68;32;12288;98;58;91;49;32;84;79;32;50;125;41;32;45;99;126;50;32;34;120;32;121;34;126;51;94;52;32;79;82;32;43;100;32;32]%N.
Example C01_nonvacuous :
  no_event ex_query /\ exists t, parse ex_query = Some (Ok t) /\ print true t = ex_query.
Proof. split; [vm_compute; reflexivity|]. eexists. split; vm_compute; reflexivity. Qed.

(* the ghost really sees F1 and numeral re-spelling *)
Example C01_events_seen :
  parse_events f1_witness = [GDrop [32]%N] /\
  parse_events [97;94;48;48;55]%N = [GRespell [94;48;48;55]%N [94;55]%N].     (* "a^007" -> "^7" *)
Proof. split; vm_compute; reflexivity. Qed.

Print Assumptions C01_any_tables.
Print Assumptions C01_partial.
Print Assumptions C01_refuted.
Print Assumptions C01_injective.
