(* C10 — UnknownOperationResolver replaces exactly the implicit operations, same meaning.
   Statements, `exact`-closed theorems, non-vacuity examples, Print Assumptions.
   Model: model/Resolver.v (+ Eq.clone_item); lemmas and vocabulary: proofs/ResolverProofs.v.

   Clauses of the property text -> statements
   (1) "no implicit operation left"                                   C10_no_unknown_left (+ C10_total)
   (2) "every other node keeps type, content, position, order; layout changes only by the
        separator in front of the 2nd.. operands of each resolved operation"
                                                                      C10_structure + C10_copy_keeps
                                                                      + C10_content_kept
       what the copy does change, stated not hidden: the attached name (_luqum_name) is dropped on
       every node (the resolved operation is rebuilt by hand, the others go through clone_item);
       clone_item recomputes the defaults of an implicit degree/force and re-normalises an explicit
       boost force — the identity on objects as the constructors build them ([std_node]).
       So "keeps its content" is NOT unconditional: C10_content_kept says, node by node, that the
       class is always kept and the content attributes are kept IF AND ONLY IF the node is
       [std_node] (the narrowest guard); C10_content_needs_std_node is the witness (an implicit
       fuzzy degree reassigned after construction, replayed on the real code).
   (3) "explicit target: that operation; Lucene-like mode: AND or OR;
        AND throughout when no explicit operator"                     C10_explicit_target, C10_lucene_and_or,
                                                                      C10_lucene_default_and
   (4) "same boolean meaning as the input read with that operator"    C10_same_meaning(_explicit)
       [sem]: And = all, Or = any, groups transparent; BoolOperation, unary operators, an unread
       UnknownOperation and every other node (fields, ranges, approximations, boosts, terms) are
       OPAQUE connectives given by an arbitrary interpretation [interp] (functions of the operands'
       class and meaning, resp. of the node's own content, its enclosing non-boolean nodes and its
       sub-meanings); the theorem holds for every interpretation, Lucene's must/should/must_not
       reading of BoolOperation is one of them.
   (5) "resolving again changes nothing"                              C10_idempotent (no guard: every
       result is as the constructors build it, whatever the input held)
   (6) "the input tree is not modified": an object-identity fact, outside a value model;
       checked by snapshots in harness/c10.py only.

   SCOPE — trees WITHOUT OBJECT SHARING.  [item] is a value: the model has no object identity, and
   every theorem below is about a tree in which no node object occurs at two positions (what the
   parser and every transformer of luqum build).  The code is NOT a function of the tree's value in
   the Lucene-like mode: the memory of the last explicit operator is a dict keyed by `id()` of the
   outermost non-operation ancestor (`_first_nonop_parent`), which model/Resolver.v represents by
   that ancestor's PATH.  When one such object occurs at two positions below the same dict, what was
   remembered inside the first occurrence leaks into the second: known finding F24
   (known_findings/C10.json; examples C10_F24_* at the end of this file; harness/c10.py feeds trees
   with shared objects to the code, judges every position against an unshared copy and classifies
   the deviations by an executable predicate on the input). *)
Require Import Base Decimal Tree GenTree GenVisitors Visitor Eq Resolver TreeInd ResolverProofs.

(* ---- tie obligation on generated data: no resolver handler unknown to the model *)
Lemma resolver_methods_known_ok : resolver_methods_known = true.
Proof. vm_compute. reflexivity. Qed.

(* ---- statements *)

(* the four documented targets never raise *)
Definition C10_total_statement : Prop :=
  forall tg ah t, valid_target tg = true -> exists r, resolve tg ah t = Some r.

(* resolve_to=UnknownOperation: ValueError of the constructor *)
Definition C10_invalid_target_statement : Prop :=
  forall ah t, resolve (Some KUnknown) ah t = None.

Definition C10_no_unknown_left_statement : Prop :=
  forall tg ah t r, resolve tg ah t = Some r ->
    forall p n, subtree_at r p = Some n -> is_unknown n = false.

(* the result is a [resolution] of the input (inductive description), and, path by path: same
   shape; at every path the node of the result is [node_res] of the input's node — an
   UnknownOperation became an allowed operation, any other node has the class and attributes of
   its clone_item; same number of children, same pos/size/tail, name dropped, implicit flags kept;
   its head is the old head, with add_head in front exactly when the node is operand 2.. of an
   UnknownOperation ([later_operand]) *)
Definition C10_structure_statement : Prop :=
  forall tg ah t r, resolve tg ah t = Some r ->
    resolution tg ah t r /\
    forall p, rel_at tg (if later_operand t p then ah else []) (subtree_at t p) (subtree_at r p).

(* what clone_item keeps of a node (the part of C09 this property leans on) *)
Definition C10_copy_keeps_statement : Prop :=
  forall n c, clone_item n = Some c ->
    cls_of c = cls_of n /\ m_pos (meta_of c) = m_pos (meta_of n) /\ m_size (meta_of c) = m_size (meta_of n) /\
    m_head (meta_of c) = m_head (meta_of n) /\ m_tail (meta_of c) = m_tail (meta_of n) /\
    m_name (meta_of c) = None /\ (std_node n -> forall a, get_attr c a = get_attr n a).

Definition C10_explicit_target_statement : Prop :=
  forall k ah t r, resolve (Some k) ah t = Some r ->
    forall p m ops, subtree_at t p = Some (Op KUnknown m ops) ->
      exists m' ops', subtree_at r p = Some (Op k m' ops').

Definition C10_lucene_and_or_statement : Prop :=
  forall ah t r, resolve None ah t = Some r ->
    forall p m ops, subtree_at t p = Some (Op KUnknown m ops) ->
      exists k m' ops', (k = KAnd \/ k = KOr) /\ subtree_at r p = Some (Op k m' ops').

(* no AndOperation / OrOperation anywhere: the Lucene-like mode is resolve_to=AndOperation *)
Definition C10_lucene_default_and_statement : Prop :=
  forall ah t, no_andor t -> resolve None ah t = resolve (Some KAnd) ah t.

(* the result, read with any interpretation (it holds no UnknownOperation, so d0 is irrelevant),
   means what the input means when each UnknownOperation is read as the operator found at its path
   in the result *)
Definition C10_same_meaning_statement : Prop :=
  forall tg ah t r, resolve tg ah t = Some r -> std_attrs t ->
    forall I d0 ctx, sem I d0 ctx r = sem I (chosen r) ctx t.

(* explicit target: the input read with the target as the default operator *)
Definition C10_same_meaning_explicit_statement : Prop :=
  forall k ah t r, resolve (Some k) ah t = Some r -> std_attrs t ->
    forall I d0 ctx, sem I d0 ctx r = sem I (fun _ => k) ctx t.

(* the guard [std_attrs] of the two statements above is needed: an implicit fuzzy degree that does
   not hold its default (only reachable by assigning `.degree` after construction) is reset by the
   copy.  Replayed on the real code: f = Fuzzy(Word('a')); f.degree = Decimal(2);
   UnknownOperationResolver()(f).degree == Decimal('0.5'). *)
Definition C10_same_meaning_unguarded_statement : Prop :=
  forall tg ah t r, resolve tg ah t = Some r ->
    forall I d0 ctx, sem I d0 ctx r = sem I (chosen r) ctx t.

(* resolving the result again — with any valid target and any add_head — returns it unchanged
   (full structural equality: layout, names, flags) *)
Definition C10_idempotent_statement : Prop :=
  forall tg ah tg' ah' t r, resolve tg ah t = Some r -> valid_target tg' = true ->
    resolve tg' ah' r = Some r.

(* "every other node keeps its type and content", node by node: at every path a node that is not an
   implicit operation keeps its class; it keeps its content attributes exactly when it is as the
   constructors build it.  [std_node] is a guard on THAT node only (not on the tree), and it is the
   narrowest one (iff). *)
Definition C10_content_kept_statement : Prop :=
  forall tg ah t r, resolve tg ah t = Some r ->
    forall p n n', subtree_at t p = Some n -> subtree_at r p = Some n' -> is_unknown n = false ->
      cls_of n' = cls_of n /\ ((forall a, get_attr n' a = get_attr n a) <-> std_node n).

(* the same without the guard: false.  Replayed on the real code (/venv/bin/python, PYTHONPATH=/repo):
   f = Fuzzy(Word('a')); f.degree = Decimal(2); UnknownOperationResolver()(f).degree == Decimal('0.5')
   (and b = Boost(Word('a'), 2); b.force = Decimal('2.50'): the copy holds Decimal('2.5'), equal as a
   number, another object content: it prints a^2.5 instead of a^2.50). *)
Definition C10_content_unguarded_statement : Prop :=
  forall tg ah t r, resolve tg ah t = Some r ->
    forall p n n', subtree_at t p = Some n -> subtree_at r p = Some n' -> is_unknown n = false ->
      forall a, get_attr n' a = get_attr n a.

(* calls on one resolver instance are independent: the k-th result of a sequence of calls is what
   a single call gives on the k-th tree.  Immediate in this pure model ([resolve_calls] gives a call
   no access to the previous ones: the code starts every visit from a new context and keeps no
   memory on the instance); what ties it to the code is the call-sequence correspondence and the
   history oracle of harness/c10.py (one instance reused on 2-6 trees vs a fresh resolver). *)
Definition C10_calls_independent_statement : Prop :=
  forall tg ah ts k t, nth_error ts k = Some t ->
    nth_error (resolve_calls tg ah ts) k = Some (resolve tg ah t).

(* ---- proofs (lemmas live in proofs/ResolverProofs.v) *)
Theorem C10_calls_independent : C10_calls_independent_statement.
Proof. intros tg ah ts k t H. unfold resolve_calls. rewrite nth_error_map, H. reflexivity. Qed.

Lemma resolve_valid tg ah t r : resolve tg ah t = Some r -> valid_target tg = true.
Proof. unfold resolve. destruct (valid_target tg); [reflexivity|discriminate]. Qed.

Theorem C10_total : C10_total_statement.
Proof. exact resolve_total. Qed.

Theorem C10_invalid_target : C10_invalid_target_statement.
Proof. intros ah t. reflexivity. Qed.

Theorem C10_structure : C10_structure_statement.
Proof.
  intros tg ah t r H. pose proof (resolve_resolution _ _ _ _ H) as Hr. split; [exact Hr|].
  exact (resolution_pointwise tg ah (resolve_valid _ _ _ _ H) t r Hr).
Qed.

Theorem C10_no_unknown_left : C10_no_unknown_left_statement.
Proof.
  intros tg ah t r H p n Hp. destruct (C10_structure tg ah t r H) as [_ Hpw]. specialize (Hpw p).
  rewrite Hp in Hpw. destruct (subtree_at t p); [|contradiction]. exact (proj1 (proj2 Hpw)).
Qed.

Theorem C10_copy_keeps : C10_copy_keeps_statement.
Proof. exact clone_keeps. Qed.

Lemma unknown_becomes tg ah t r : resolve tg ah t = Some r ->
  forall p m ops, subtree_at t p = Some (Op KUnknown m ops) ->
    exists k m' ops', allowed tg k /\ subtree_at r p = Some (Op k m' ops').
Proof.
  intros H p m ops Hp. destruct (C10_structure tg ah t r H) as [_ Hpw]. specialize (Hpw p).
  rewrite Hp in Hpw. destruct (subtree_at r p) as [n'|]; [|contradiction].
  destruct Hpw as [[k [Hal Hk]] _]. destruct (cls_is_op _ _ Hk) as [m' [ops' Hn]]. subst n'.
  exists k, m', ops'. auto.
Qed.

Theorem C10_explicit_target : C10_explicit_target_statement.
Proof.
  intros k ah t r H p m ops Hp. destruct (unknown_becomes _ _ _ _ H p m ops Hp) as [k' [m' [ops' [Hal Hs]]]].
  simpl in Hal. subst k'. eauto.
Qed.

Theorem C10_lucene_and_or : C10_lucene_and_or_statement.
Proof.
  intros ah t r H p m ops Hp. destruct (unknown_becomes _ _ _ _ H p m ops Hp) as [k [m' [ops' [Hal Hs]]]].
  exists k, m', ops'. auto.
Qed.

Theorem C10_lucene_default_and : C10_lucene_default_and_statement.
Proof. exact resolve_default_and. Qed.

Theorem C10_same_meaning : C10_same_meaning_statement.
Proof. exact resolve_same_meaning. Qed.

Theorem C10_same_meaning_explicit : C10_same_meaning_explicit_statement.
Proof. exact resolve_same_meaning_explicit. Qed.

Theorem C10_idempotent : C10_idempotent_statement.
Proof. exact resolve_idempotent_unguarded. Qed.

Theorem C10_content_kept : C10_content_kept_statement.
Proof. exact resolve_content. Qed.

(* witness: an implicit fuzzy degree 2 *)
Definition odd_fuzzy : item := Fuzzy meta0 (Term KWord meta0 [97]%N) (mkDec false 2 0) true.
Definition degree_reader : interp :=
  mkInterp (fun _ key _ => match key with
                           | (CFuzzy, [_; _; _; _; Some (VDec d); _; _]) => dec_struct_eqb d dec_half
                           | _ => false
                           end)
           (fun _ => false) (fun _ => false) (fun _ b => b).
Theorem C10_meaning_needs_std_attrs : ~ C10_same_meaning_unguarded_statement.
Proof.
  intros H.
  specialize (H None [32]%N odd_fuzzy _ eq_refl degree_reader (fun _ => KAnd) []).
  vm_compute in H. discriminate.
Qed.

Theorem C10_content_needs_std_node : ~ C10_content_unguarded_statement.
Proof.
  intros H.
  specialize (H None [32]%N odd_fuzzy _ eq_refl [] _ _ eq_refl eq_refl eq_refl ADegree).
  vm_compute in H. discriminate.
Qed.

(* ---- non-vacuity *)
Definition w (c : N) : item := Term KWord meta0 [c].
(* Group( a b OR(c,d) Unknown(e,f) ), an explicit operator before an implicit one *)
Definition ex_tree : item :=
  Grp KGroup meta0
    (Op KUnknown meta0 [w 97; w 98; Op KOr meta0 [w 99; w 100]; Op KUnknown meta0 [w 101; w 102]]).
(* the Lucene-like mode really uses its memory: the outer operation (met first) is AND, the inner
   one, met after the OR, is OR; add_head sits on operands 2.. only *)
Example C10_lucene_memory :
  resolve None [32]%N ex_tree =
  Some (Grp KGroup meta0
    (Op KAnd meta0 [w 97; set_head (w 98) [32]%N;
                    Op KOr (with_head meta0 [32]%N) [w 99; w 100];
                    Op KOr (with_head meta0 [32]%N) [w 101; set_head (w 102) [32]%N]])).
Proof. vm_compute. reflexivity. Qed.

Example C10_std_attrs_nonvacuous :
  std_attrs ex_tree /\
  std_attrs (Op KUnknown meta0 [Fuzzy meta0 (w 97) dec_half true; Boost meta0 (w 98) (mkDec false 25 (-1)) false]).
Proof.
  split; repeat (apply std_attrs_intro; [vm_compute; auto|]; repeat constructor).
Qed.

Example C10_no_andor_nonvacuous :
  no_andor (Op KBool meta0 [Op KUnknown meta0 [w 97; w 98]; Grp KGroup meta0 (Op KUnknown meta0 [w 99; w 100])]) /\
  ~ no_andor ex_tree.
Proof.
  split.
  - repeat (apply no_andor_intro; [reflexivity|]; repeat constructor).
  - intros H. specialize (H [0; 2] _ eq_refl). discriminate.
Qed.

(* the Lucene reading of BoolOperation is an instance of [i_bool] *)
Definition lucene_bool (rs : list (cls * bool)) : bool :=
  let must := filter (fun x => cls_eqb (fst x) CPlus) rs in
  let must_not := filter (fun x => cls_eqb (fst x) CProhibit || cls_eqb (fst x) CNot) rs in
  let should := filter (fun x => negb (cls_eqb (fst x) CPlus || cls_eqb (fst x) CProhibit || cls_eqb (fst x) CNot)) rs in
  forallb snd must && negb (existsb snd must_not) &&
  (match must, should with [], _ :: _ => existsb snd should | _, _ => true end).
Example C10_sem_instance :
  let I := mkInterp (fun _ _ _ => true) lucene_bool (fun _ => false) (fun _ b => b) in
  sem I (fun _ => KBool) [] (Op KUnknown meta0 [Unary KPlus meta0 (w 97); Unary KProhibit meta0 (w 98)]) = false.
Proof. vm_compute. reflexivity. Qed.

(* idempotence needs no guard: the odd object of C10_meaning_needs_std_attrs is covered *)
Example C10_idempotent_on_odd_input :
  exists r, resolve None [32]%N odd_fuzzy = Some r /\ r <> odd_fuzzy /\ resolve (Some KOr) [] r = Some r.
Proof. eexists. split; [vm_compute; reflexivity|]. split; [discriminate|vm_compute; reflexivity]. Qed.

Example C10_std_node_nonvacuous :
  std_node (Fuzzy meta0 (w 97) dec_half true) /\ std_node (Boost meta0 (w 98) (mkDec false 25 (-1)) false) /\
  ~ std_node odd_fuzzy /\ ~ std_node (Boost meta0 (w 98) (mkDec false 250 (-2)) false).
Proof. repeat split; try (vm_compute; reflexivity); vm_compute; discriminate. Qed.

(* ---- F24: shared node objects (outside the model: a value has no identity).
   Python:  g = Group(UnknownOperation(Word("x"), OrOperation(Word("a"), Word("b"))))
            UnknownOperationResolver()(AndOperation(g, g))
   As a VALUE the input is [f24_witness]; the model (and the code on two distinct equal Group objects)
   resolves the implicit operation of both groups to AND: inside each group it comes before the OR. *)
Definition f24_g : item := Grp KGroup meta0 (Op KUnknown meta0 [w 120; Op KOr meta0 [w 97; w 98]]).
Definition f24_witness : item := Op KAnd meta0 [f24_g; f24_g].
Definition f24_res (k : opk) : item :=
  Grp KGroup meta0 (Op k meta0 [w 120; Op KOr (with_head meta0 [32]%N) [w 97; w 98]]).
Example C10_F24_model_answer :
  resolve None [32]%N f24_witness = Some (Op KAnd meta0 [f24_res KAnd; f24_res KAnd]).
Proof. vm_compute. reflexivity. Qed.
(* what the real code returns when both operands are the SAME object g (replayed, /venv/bin/python,
   PYTHONPATH=/repo; transcribed by lib.g_item): the second occurrence is resolved to OR, because
   id(g) is the key of the memory and the OR met inside the first occurrence is still remembered.
   Not the model's answer, and not C10's Lucene rule judged position by position. *)
Definition f24_code_answer : item := Op KAnd meta0 [f24_res KAnd; f24_res KOr].
Example C10_F24_code_answer_differs :
  resolve None [32]%N f24_witness <> Some f24_code_answer /\
  (exists m ops, subtree_at f24_witness [1; 0] = Some (Op KUnknown m ops)) /\
  (exists m ops, subtree_at f24_code_answer [1; 0] = Some (Op KOr m ops)) /\
  (exists m ops, subtree_at f24_code_answer [0; 0] = Some (Op KAnd m ops)).
Proof. split; [vm_compute; discriminate|]. repeat split; eexists _, _; reflexivity. Qed.

Print Assumptions C10_total.
Print Assumptions C10_invalid_target.
Print Assumptions C10_no_unknown_left.
Print Assumptions C10_structure.
Print Assumptions C10_copy_keeps.
Print Assumptions C10_explicit_target.
Print Assumptions C10_lucene_and_or.
Print Assumptions C10_lucene_default_and.
Print Assumptions C10_same_meaning.
Print Assumptions C10_same_meaning_explicit.
Print Assumptions C10_meaning_needs_std_attrs.
Print Assumptions C10_idempotent.
Print Assumptions C10_content_kept.
Print Assumptions C10_content_needs_std_node.
Print Assumptions C10_calls_independent.
