(* SchemaSpec.v — the vocabulary of property C19, written on index descriptions, queries and JSON
   WITHOUT reference to the analyzer's methods (Schema.v) or to the builder.  Definitions only.

   A mapped field is found by resolving its name components through "properties" (and, for the last
   component, through the multi-fields "fields" of a leaf); its own definition decides whether it is
   analysed text; its ancestors decide the nested clause. *)
Require Import Base Decimal Tree Json EsSpecs EsCheck EsBuild Schema.

Definition nodot (s : str) : bool := negb (mem_N c_dot s).
Definition nonempty_name (s : str) : bool := match s with [] => false | _ => true end.

(* ---------------------------------------------------------------- types *)
(* analysed text: "text", or the legacy "string" unless index = "not_analyzed" *)
Definition analysed_text (d : fdef) : bool :=
  type_is (fd_type d) k_text ||
  (type_is (fd_type d) k_string &&
   negb (str_eqb (match fd_index d with Some i => i | None => [] end) k_not_analyzed)).

Definition is_container_type (d : fdef) : bool :=
  type_is (fd_type d) k_object || type_is (fd_type d) k_nested.

(* a leaf: carries a type that is not object / nested, and has no properties *)
Definition is_leaf_def (d : fdef) : bool :=
  match fd_type d with Some _ => true | None => false end &&
  negb (is_container_type d) &&
  match fd_props d with [] => true | _ => false end.

(* ---------------------------------------------------------------- resolution of a path *)
(* (definition, ancestors outermost first); a sub-field of a leaf has that leaf as last ancestor *)
Fixpoint resolve (props : fprops) (anc : list (str * fdef)) (comps : list str)
  : option (fdef * list (str * fdef)) :=
  match comps with
  | [] => None
  | c :: cs =>
      match obj_get c props with
      | None => None
      | Some d =>
          match cs with
          | [] => Some (d, anc)
          | s :: cs' =>
              match fd_props d with
              | _ :: _ => resolve (fd_props d) (anc ++ [(c, d)]) cs
              | [] =>
                  match cs' with
                  | [] => match obj_get s (fd_fields d) with
                          | Some sd => Some (sd, anc ++ [(c, d)])
                          | None => None
                          end
                  | _ :: _ => None
                  end
              end
          end
      end
  end.

(* the leaf `comps` of some document type, with its own definition and its ancestors *)
Definition mapped_leaf (s : schema) (comps : list str) (d : fdef) (anc : list (str * fdef)) : Prop :=
  exists props, In props (doc_props s) /\ resolve props [] comps = Some (d, anc) /\ is_leaf_def d = true.

(* the dotted path of the innermost ancestor of type nested *)
Fixpoint innermost_from (pre : list str) (anc : list (str * fdef)) (acc : option str) : option str :=
  match anc with
  | [] => acc
  | (n, d) :: anc' =>
      innermost_from (pre ++ [n]) anc'
                     (if type_is (fd_type d) k_nested then Some (dotted (pre ++ [n])) else acc)
  end.
Definition innermost_nested_ancestor (anc : list (str * fdef)) : option str := innermost_from [] anc None.

(* ---------------------------------------------------------------- well-formed descriptions *)
(* what Elasticsearch accepts: names without dots, distinct keys, only leaves have multi-fields,
   sub-fields are typed leaves without multi-fields of their own, fields with properties are objects
   (type absent or "object") or nested *)
Definition wf_sub (sd : fdef) : bool :=
  is_leaf_def sd && match fd_fields sd with [] => true | _ => false end.

Fixpoint wf_def (d : fdef) : bool :=
  match d with
  | FDef ty idx flds props =>
      match props with
      | [] =>
          negb (type_is ty k_object || type_is ty k_nested) || match flds with [] => true | _ => false end
      | _ :: _ =>
          match flds with [] => true | _ => false end &&
          match ty with None => true | Some t => str_eqb t k_object || str_eqb t k_nested end
      end &&
      match ty, props with None, [] => false | _, _ => true end &&
      nodup_keys (map fst flds) && forallb (fun e => nonempty_name (fst e) && nodot (fst e) && wf_sub (snd e)) flds &&
      nodup_keys (map fst props) &&
      (fix go (l : list (str * fdef)) : bool :=
         match l with
         | [] => true
         | (n, c) :: l' => nonempty_name n && nodot n && wf_def c && go l'
         end) props
  end.

Definition wf_props (p : fprops) : bool := wf_def (FDef (Some k_object) None [] p).
Definition wf_schema (s : schema) : bool := forallb wf_props (doc_props s).

(* ---------------------------------------------------------------- queries *)
(* field:x with the full dotted name *)
Definition dotted_spelling (comps : list str) (x : str) (t : item) : Prop :=
  exists mf mw, m_name mf = None /\ m_name mw = None /\
                t = SearchField mf (dotted comps) (Term KWord mw x).

(* a:(b:(c:x)) as the parser builds it: SearchField a (FieldGroup (SearchField b (FieldGroup (SearchField c x)))) *)
Inductive chain : list str -> str -> item -> Prop :=
| chain_last c x mf mw :
    m_name mf = None -> m_name mw = None -> chain [c] x (SearchField mf c (Term KWord mw x))
| chain_cons c cs x mf mg t :
    m_name mf = None -> m_name mg = None -> cs <> [] -> chain cs x t ->
    chain (c :: cs) x (SearchField mf c (Grp KFieldGroup mg t)).

Definition spelling (comps : list str) (x : str) (t : item) : Prop :=
  dotted_spelling comps x t \/ chain comps x t.

(* ---------------------------------------------------------------- expected JSON *)
(* a clause on `field`: term-level, or a full-text match *)
Definition clause (field : str) (term_level : bool) (x : str) : json :=
  if term_level
  then JObj [(k_term, JObj [(field, JObj [(k_value, JStr x)])])]
  else JObj [(k_match, JObj [(field, JObj [(k_query, JStr x); (k_zero_terms_query, JStr k_none)])])].

Definition wrap_nested (p : option str) (j : json) : json :=
  match p with
  | Some p => JObj [(k_nested, JObj [(k_path, JStr p); (k_query, j)])]
  | None => j
  end.

Definition expected_json (comps : list str) (d : fdef) (anc : list (str * fdef)) (x : str) : json :=
  wrap_nested (innermost_nested_ancestor anc) (clause (dotted comps) (negb (analysed_text d)) x).

(* ---------------------------------------------------------------- guards (negations = findings) *)
(* d, or something below it, is a nested field that has properties *)
Fixpoint has_nested_container (d : fdef) : bool :=
  match d with
  | FDef ty _ _ props =>
      (type_is ty k_nested && match props with [] => false | _ => true end) ||
      (fix go (l : list (str * fdef)) : bool :=
         match l with [] => false | (_, c) :: l' => has_nested_container c || go l' end) props
  end.

(* F12 guard: the innermost nested ancestor has a direct child below which (itself included) there is no
   nested field with properties *)
Fixpoint innermost_def (anc : list (str * fdef)) (acc : option fdef) : option fdef :=
  match anc with
  | [] => acc
  | (_, d) :: anc' => innermost_def anc' (if type_is (fd_type d) k_nested then Some d else acc)
  end.
Definition anchor_registered (anc : list (str * fdef)) : bool :=
  match innermost_def anc None with
  | None => true
  | Some d => existsb (fun e => negb (has_nested_container (snd e))) (fd_props d)
  end.

(* F12b guard: a sub-field that is a legacy string says itself whether it is analysed, or does not inherit
   index = not_analyzed from its parent *)
Definition sub_self_described (p sd : fdef) : bool :=
  match fd_type sd with
  | None => false
  | Some ty => negb (str_eqb ty k_string) ||
               match fd_index sd with
               | Some _ => true
               | None => match fd_index p with None => true | Some i => negb (str_eqb i k_not_analyzed) end
               end
  end.

(* the holder of a resolved sub-field: the last ancestor when it has no properties *)
Definition subfield_holder (anc : list (str * fdef)) : option fdef :=
  match rev anc with
  | (_, p) :: _ => match fd_props p with [] => Some p | _ :: _ => None end
  | [] => None
  end.
(* F12b guard on a resolved field: nothing to check unless it is a sub-field *)
Definition subfield_ok (anc : list (str * fdef)) (d : fdef) : bool :=
  match subfield_holder anc with Some p => sub_self_described p d | None => true end.
