(* C07 — the ES builder refuses ambiguous AND/OR mixes and container-field misuse, only those.
   Statements, theorems, witnesses, non-vacuity examples, Print Assumptions only.
   Model: model/{EsSpecs,EsCheck,EsBuild}.v; vocabulary (supported, mix, container_misuse — written
   without the builder): model/EsSpec.v; lemmas: proofs/EsProofs.v.  Handlers and MROs are the
   generated ones (gen/GenVisitors.v, gen/GenTree.v): the theorems are re-checked against them.

   Clauses of the property text:
   (a) "raises NestedSearchFieldException / ObjectSearchFieldException exactly when a term is
       attached directly to a declared nested or object container, or to an undeclared dotted
       field while object and sub fields are both declared"            -> C07_container
   (b) "raises OrAndAndOnSameLevel exactly for trees in which an AND-like operation has an
       un-parenthesised OR-like operation as a direct operand or vice versa (implicit operations
       counting as the configured default)"                            -> C07_mix
       (the nesting checker runs to completion first: a tree with both defects gets (a))
   (c) "on supported constructs no other exception escapes, and every query that is not refused is
       translated"                                                     -> C07_no_other_exception,
                                                                          C07_translated
   The code violates (a) and (b): F8 (a nested / object container none of whose children is a leaf is
   not recognised).  (c) holds in full since the repair of F7 (commit 8352212: a range bound under `-`
   made visit_range read `.value` of a Prohibit: AttributeError); regression examples are kept. *)
Require Import Base Decimal Tree GenTree GenVisitors Visitor Json EsSpecs EsCheck EsBuild EsSpec
               TreeInd EsProofs.

(* ---- tie obligations on generated data *)
Lemma chk_methods_known_ok : chk_methods_known = true.
Proof. vm_compute. reflexivity. Qed.
Lemma builder_methods_known_ok : builder_methods_known = true.
Proof. vm_compute. reflexivity. Qed.

(* ---- statements (full strength) *)
Definition C07_container_statement : Prop :=
  forall cfg t, supported t = true -> wf_config cfg = true ->
    (is_nested_exc (build cfg t) <-> container_misuse cfg t).

Definition C07_mix_statement : Prop :=
  forall cfg t, supported t = true -> wf_config cfg = true ->
    (is_mix_exc (build cfg t) <-> ~ container_misuse cfg t /\ mix cfg t).

Definition C07_translated_statement : Prop :=
  forall cfg t, supported t = true -> wf_config cfg = true ->
    ~ container_misuse cfg t -> ~ mix cfg t -> exists j, build cfg t = ROk j.

(* "on supported constructs no other exception escapes": whatever the builder raises on a supported tree is
   one of the three documented exceptions — none of the XOther outcomes of the model (AttributeError,
   ValueError, IndexError, TypeError), which unsupported trees do reach (Example range_bound_without_value) *)
Definition C07_no_other_exception_statement : Prop :=
  forall cfg t e, supported t = true -> wf_config cfg = true ->
    build cfg t = RExc e -> e = XNested \/ e = XObject \/ e = XMix.

(* ---- partial statements: the guard removes exactly the finding F8
   containers_have_leaf cfg : every ancestor of a declared nested / object path is the parent of a
                              declared path *)
Definition C07_container_partial_statement : Prop :=
  forall cfg t, supported t = true -> wf_config cfg = true ->
    containers_have_leaf cfg = true ->
    (is_nested_exc (build cfg t) <-> container_misuse cfg t).

Definition C07_mix_partial_statement : Prop :=
  forall cfg t, supported t = true -> wf_config cfg = true ->
    containers_have_leaf cfg = true ->
    (is_mix_exc (build cfg t) <-> ~ container_misuse cfg t /\ mix cfg t).

(* whatever the configuration declares, a refusal by the nesting checker is a real misuse (this
   direction needs no guard) *)
Definition C07_container_sound_statement : Prop :=
  forall cfg t, supported t = true -> wf_config cfg = true ->
    is_nested_exc (build cfg t) -> container_misuse cfg t.

(* ---- proofs *)
Lemma build_cases cfg t :
  supported t = true -> wf_config cfg = true ->
  (exists e, (e = XNested \/ e = XObject) /\ build cfg t = RExc e /\
             misuse_with cfg (parent_containers cfg) t) \/
  (~ misuse_with cfg (parent_containers cfg) t /\
   ((mix cfg t /\ build cfg t = RExc XMix) \/ (~ mix cfg t /\ exists j, build cfg t = ROk j))).
Proof.
  intros Hs Hwf. pose proof (build_spec cfg t Hs Hwf) as Hb.
  destruct (check_nested_spec cfg t) as [Hnone Hsome].
  destruct (check_nested (ev_chk (mk_env cfg)) t) as [e|].
  - left. destruct (Hsome e eq_refl) as [Hk Hm]. exists e. auto.
  - right. split; [apply Hnone; reflexivity|].
    destruct (mixb cfg t) eqn:Hm.
    + left. split; [apply mixb_mix; exact Hm|exact Hb].
    + right. split; [|exact Hb]. intros H. apply mixb_mix in H. congruence.
Qed.

Theorem C07_container_sound : C07_container_sound_statement.
Proof.
  intros cfg t Hs Hwf Hn.
  destruct (build_cases cfg t Hs Hwf) as [[e [He [Hb Hm]]]|[_ [[_ Hb]|[_ [j Hb]]]]].
  - apply misuse_mono. exact Hm.
  - destruct Hn as [Hn|Hn]; rewrite Hb in Hn; discriminate.
  - destruct Hn as [Hn|Hn]; rewrite Hb in Hn; discriminate.
Qed.

Theorem C07_container_partial : C07_container_partial_statement.
Proof.
  intros cfg t Hs Hwf Hc. split; [apply C07_container_sound; assumption|].
  intros Hm. apply (misuse_closed cfg t Hc) in Hm.
  destruct (build_cases cfg t Hs Hwf) as [[e [He [Hb _]]]|[Hno _]]; [|contradiction].
  unfold is_nested_exc. rewrite Hb. destruct He; subst; auto.
Qed.

Theorem C07_mix_partial : C07_mix_partial_statement.
Proof.
  intros cfg t Hs Hwf Hc. unfold is_mix_exc.
  destruct (build_cases cfg t Hs Hwf) as [[e [He [Hb Hm]]]|[Hno [[Hmix Hb]|[Hmix [j Hb]]]]];
    rewrite Hb.
  - split.
    + intros H. destruct He; subst; discriminate.
    + intros [H _]. exfalso. apply H. apply misuse_mono. exact Hm.
  - split; [|reflexivity]. intros _. split; [|exact Hmix].
    intros H. apply Hno. apply (misuse_closed cfg t Hc). exact H.
  - split; [discriminate|]. intros [_ H]. contradiction.
Qed.

(* clause (c) holds in full *)
Theorem C07_translated : C07_translated_statement.
Proof.
  intros cfg t Hs Hwf Hnm Hnx.
  destruct (build_cases cfg t Hs Hwf) as [[e [He [Hb Hm]]]|[Hno [[Hmix Hb]|[Hmix Hb]]]].
  - exfalso. apply Hnm. apply misuse_mono. exact Hm.
  - contradiction.
  - exact Hb.
Qed.

Theorem C07_no_other_exception : C07_no_other_exception_statement.
Proof.
  intros cfg t e Hs Hwf He.
  destruct (build_cases cfg t Hs Hwf) as [[e' [Hk [Hb _]]]|[_ [[_ Hb]|[_ [j Hb]]]]];
    rewrite Hb in He; inversion He; subst.
  - destruct Hk; auto.
  - auto.
Qed.

(* ---- refutations of the full statements on the unchanged code *)
Definition w (s : str) : item := Term KWord meta0 s.

(* F8: nested_fields = {'a': {'b': {'c': {}}}}, query  a:y  *)
Definition cfg_F8 : es_config :=
  mkEsConfig DShould [116;101;120;116]%N []
             (SDict [([97]%N, SDict [([98]%N, SDict [([99]%N, SDict [])])])]) SNone SNone [] false.
Definition t_F8 : item := SearchField meta0 [97]%N (w [121]%N).

Lemma F8_misuse : container_misuse cfg_F8 t_F8.
Proof. exists [0], KWord, meta0, [121]%N. split; vm_compute; reflexivity. Qed.

Lemma F8_translated :
  build cfg_F8 t_F8 =
  ROk (JObj [(k_match, JObj [([97]%N, JObj [(k_query, JStr [121]%N);
                                           (k_zero_terms_query, JStr k_none)])])]).
Proof. vm_compute. reflexivity. Qed.

Theorem C07_container_refuted : ~ C07_container_statement.
Proof.
  intros H. destruct (H cfg_F8 t_F8 eq_refl eq_refl) as [_ H2].
  destruct (H2 F8_misuse) as [Hn|Hn]; rewrite F8_translated in Hn; discriminate.
Qed.

(* F8 again:  a:(x AND y OR z)  is refused for the mix although a term sits on the container a *)
Definition t_F8_mix : item :=
  SearchField meta0 [97]%N
    (Grp KFieldGroup meta0 (Op KAnd meta0 [w [120]%N; Op KOr meta0 [w [121]%N; w [122]%N]])).

Theorem C07_mix_refuted : ~ C07_mix_statement.
Proof.
  intros H. destruct (H cfg_F8 t_F8_mix eq_refl eq_refl) as [H1 _].
  assert (Hb : build cfg_F8 t_F8_mix = RExc XMix) by (vm_compute; reflexivity).
  destruct (H1 Hb) as [Hno _]. apply Hno.
  exists [0; 0; 0], KWord, meta0, [120]%N. split; vm_compute; reflexivity.
Qed.

(* regression for F7 (repaired by commit 8352212):  a:[-1 TO 5]  and  [-1 TO 5] AND b OR c *)
Definition t_F7 : item :=
  Range meta0 (Unary KProhibit meta0 (w [49]%N)) (w [53]%N) true true.

Example F7_regression_translated :
  build default_config (SearchField meta0 [97]%N t_F7) =
  ROk (JObj [(k_range, JObj [([97]%N, JObj [(k_lte, JStr [53]%N); (k_gte, JStr [45;49]%N)])])]).
Proof. vm_compute. reflexivity. Qed.

Example F7_regression_mix :
  build default_config (Op KAnd meta0 [t_F7; Op KOr meta0 [w [98]%N; w [99]%N]]) = RExc XMix.
Proof. vm_compute. reflexivity. Qed.

(* a bound under `-` that has no value is still an AttributeError (not a supported tree) *)
Example range_bound_without_value :
  build default_config
        (Range meta0 (Unary KProhibit meta0 (Grp KGroup meta0 (w [49]%N))) (w [53]%N) true true)
  = RExc (XOther KAttributeError).
Proof. vm_compute. reflexivity. Qed.

(* ---- non-vacuity: a configuration and trees satisfying every guard, with the three outcomes *)
(* nested_fields = {'a': ['b'], 'n': {'o': {'h': None}, 's': None}}, object_fields = ['x.y'],
   sub_fields = ['x.y.raw'], default operator must *)
Definition cfg_ex : es_config :=
  mkEsConfig DMust [116;101;120;116]%N []
    (SDict [([97]%N, SList [[98]%N]);
            ([110]%N, SDict [([111]%N, SDict [([104]%N, SNone)]); ([115]%N, SNone)])])
    (SList [[120;46;121]%N]) (SList [[120;46;121;46;114;97;119]%N]) [] false.
Definition fld (n : str) (e : item) : item := SearchField meta0 n e.

(* a.b:x (n.o.h:[1 TO 5] OR "p q"~2) -z   : translated, with nested clauses *)
Definition t_ok : item :=
  Op KUnknown meta0
     [fld [97;46;98]%N (w [120]%N);
      Grp KGroup meta0
          (Op KOr meta0 [fld [110;46;111;46;104]%N (Range meta0 (w [49]%N) (w [53]%N) true true);
                         Proximity meta0 (Term KPhrase meta0 [34;112;32;113;34]%N) 2 false]);
      Unary KProhibit meta0 (w [122]%N)].
(* same with the group's parentheses removed: an OR directly under the implicit AND *)
Definition t_mix : item :=
  Op KUnknown meta0
     [fld [97;46;98]%N (w [120]%N);
      Op KOr meta0 [fld [110;46;111;46;104]%N (Range meta0 (w [49]%N) (w [53]%N) true true);
                    Proximity meta0 (Term KPhrase meta0 [34;112;32;113;34]%N) 2 false]].
(* n:(o:x)  : a term on the nested container n.o;  x.z:1 : undeclared dotted field *)
Definition t_nested : item := fld [110]%N (Grp KFieldGroup meta0 (fld [111]%N (w [120]%N))).
Definition t_object : item := fld [120;46;122]%N (w [49]%N).

Example C07_guards_nonvacuous :
  wf_config cfg_ex = true /\ containers_have_leaf cfg_ex = true /\
  supported t_ok = true /\ supported t_mix = true /\
  supported t_nested = true /\ supported t_object = true.
Proof. vm_compute. repeat split. Qed.

Example C07_outcomes :
  (exists j, build cfg_ex t_ok = ROk j) /\
  build cfg_ex t_mix = RExc XMix /\
  build cfg_ex t_nested = RExc XNested /\
  build cfg_ex t_object = RExc XObject.
Proof. vm_compute. repeat split. eexists. reflexivity. Qed.

Example C07_predicates_nonvacuous :
  mix cfg_ex t_mix /\ ~ mix cfg_ex t_ok /\ container_misuse cfg_ex t_nested /\
  container_misuse cfg_ex t_object /\ ~ container_misuse cfg_ex t_ok.
Proof.
  split; [apply mixb_mix; vm_compute; reflexivity|].
  split; [intros H; apply mixb_mix in H; vm_compute in H; discriminate|].
  split; [exists [0; 0; 0], KWord, meta0, [120]%N; split; vm_compute; reflexivity|].
  split; [exists [0], KWord, meta0, [49]%N; split; vm_compute; reflexivity|].
  intros H. apply (misuse_closed cfg_ex t_ok eq_refl) in H.
  apply (proj1 (check_nested_spec cfg_ex t_ok)) in H; [exact H|vm_compute; reflexivity].
Qed.

Print Assumptions C07_container_partial.
Print Assumptions C07_container_sound.
Print Assumptions C07_mix_partial.
Print Assumptions C07_translated.
Print Assumptions C07_no_other_exception.
Print Assumptions C07_container_refuted.
Print Assumptions C07_mix_refuted.
