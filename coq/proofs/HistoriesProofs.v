(* HistoriesProofs.v — after ANY history, on either entry point, a parse call returns `Parser.parse s`
   (C04, purity).  Invariant: the first raw token of any input sits at position 0
   (LexerProofs.lex_raw_spec / raw_ok), so HeadTailLexer.handle re-creates the tracker before it is
   ever read; an input with no token never reads it.  Hence the per-call lemma holds for EVERY
   world, reachable or not, and the history theorem is a plain induction. *)
Require Import Base Decimal Tree GenParser Lexer Actions LR Parser Histories LexerProofs.
From Coq Require Import Lia.

Lemma nth_upd_same {A} (f : A -> A) : forall l i x,
  nth_error l i = Some x -> nth_error (upd i f l) i = Some (f x).
Proof.
  induction l as [|y l IH]; intros i x H; destruct i; simpl in *; try discriminate.
  - inversion H; subst. reflexivity.
  - apply IH. exact H.
Qed.

(* how the tracker in use relates to the tokens emitted so far in this call *)
Definition link (tr : tracker) (racc : list token) : Prop :=
  (tr_last tr = LNone /\ racc = []) \/ (tr_last tr = LCur /\ racc <> []).

(* once the tracker of this call exists, every later token (position > 0) reads it, and the
   stateful handler computes exactly the pure fold *)
Lemma handle_all_tail : forall raws pos after st idx tr,
  raw_ok pos after raws -> 0 < pos ->
  ls_attr st = Some idx -> nth_error (ls_heap st) idx = Some tr -> link tr (ls_racc st) ->
  exists st', handle_all ResetAtPos0 st raws = (st', false) /\
              rev (ls_racc st') = head_tail_fold raws (tr_head tr) (ls_racc st) /\
              ls_stale st' = ls_stale st /\ ls_attr st' = Some idx.
Proof.
  induction raws as [|r raws IH]; intros pos after st idx tr Hok Hpos Hattr Hnth Hlink.
  - exists st. simpl. auto.
  - simpl in Hok. destruct Hok as [Hp [Hl [_ Hrest]]].
    assert (Hnz : Nat.eqb (rk_pos r) 0 = false) by (apply Nat.eqb_neq; lia).
    assert (Hpos' : 0 < pos + length (rk_lexeme r)) by lia.
    simpl handle_all. unfold handle. simpl resets. rewrite Hnz, Hattr.
    unfold handle_token. rewrite Hnth. simpl head_tail_fold.
    destruct (rk_kind r) as [|t] eqn:Hk.
    + rewrite Hnz.
      destruct Hlink as [[Hlast Hracc]|[Hlast Hracc]]; rewrite Hlast.
      * (* no token yet: the separator is dropped, as in the fold *)
        rewrite Hracc.
        destruct (IH _ _ st idx tr Hrest Hpos' Hattr Hnth (or_introl (conj Hlast Hracc)))
          as [st' [H1 [H2 [H3 H4]]]].
        exists st'. rewrite Hracc in H2. auto.
      * destruct (ls_racc st) as [|lastt racc'] eqn:Hr; [congruence|].
        edestruct (IH _ _ (mkLs (ls_heap st) (ls_attr st) (add_tail lastt (rk_lexeme r) :: racc') (ls_stale st))
                      idx tr Hrest Hpos') as [st' [H1 [H2 [H3 H4]]]];
          [exact Hattr|exact Hnth|right; split; [exact Hlast|discriminate]|].
        exists st'. simpl in *. auto.
    + edestruct (IH _ _ (mkLs (upd idx (fun _ => mkTr None LCur) (map age (ls_heap st))) (ls_attr st)
                              (mkTok t (rk_lexeme r) (rk_pos r)
                                     match tr_head tr with Some h => h | None => [] end [] :: ls_racc st)
                              (ls_stale st))
                    idx (mkTr None LCur) Hrest Hpos') as [st' [H1 [H2 [H3 H4]]]].
      * exact Hattr.
      * simpl. apply (nth_upd_same (fun _ => mkTr None LCur)) with (x := age tr).
        apply map_nth_error. exact Hnth.
      * right. split; [reflexivity|discriminate].
      * exists st'. simpl in *. auto.
Qed.

(* a whole input, from ANY lexer state: the first raw token is at position 0 and re-creates the
   tracker; no AttributeError, no mutation of an old token, and the tokens of the pure lexer *)
Lemma handle_all_spec raws st :
  raw_ok 0 false raws -> ls_racc st = [] ->
  exists st', handle_all ResetAtPos0 st raws = (st', false) /\
              rev (ls_racc st') = head_tail_fold raws None [] /\ ls_stale st' = ls_stale st.
Proof.
  intros Hok Hracc. destruct raws as [|r raws].
  - exists st. simpl. rewrite Hracc. auto.
  - simpl in Hok. destruct Hok as [Hp [Hl [_ Hrest]]].
    assert (Hz : Nat.eqb (rk_pos r) 0 = true) by (apply Nat.eqb_eq; exact Hp).
    assert (Hpos' : 0 < 0 + length (rk_lexeme r)) by (destruct (rk_lexeme r); [congruence|simpl; lia]).
    simpl handle_all. unfold handle. simpl resets. rewrite Hz.
    unfold handle_token. simpl ls_heap.
    assert (Hn : nth_error (ls_heap st ++ [fresh_tracker]) (length (ls_heap st)) = Some fresh_tracker).
    { rewrite nth_error_app2 by lia. rewrite Nat.sub_diag. reflexivity. }
    rewrite Hn. simpl head_tail_fold. rewrite Hracc.
    destruct (rk_kind r) as [|t] eqn:Hk.
    + rewrite Hz.
      edestruct (handle_all_tail raws _ _
                   (mkLs (upd (length (ls_heap st)) (fun t => mkTr (Some (rk_lexeme r)) (tr_last t))
                              (ls_heap st ++ [fresh_tracker]))
                         (Some (length (ls_heap st))) [] (ls_stale st))
                   (length (ls_heap st)) (mkTr (Some (rk_lexeme r)) LNone) Hrest Hpos')
        as [st' [H1 [H2 [H3 H4]]]].
      * reflexivity.
      * simpl. apply (nth_upd_same (fun t => mkTr (Some (rk_lexeme r)) (tr_last t))) with (x := fresh_tracker).
        exact Hn.
      * left. split; reflexivity.
      * exists st'. simpl in *. auto.
    + edestruct (handle_all_tail raws _ _
                   (mkLs (upd (length (ls_heap st)) (fun _ => mkTr None LCur)
                              (map age (ls_heap st ++ [fresh_tracker])))
                         (Some (length (ls_heap st)))
                         [mkTok t (rk_lexeme r) (rk_pos r) [] []] (ls_stale st))
                   (length (ls_heap st)) (mkTr None LCur) Hrest Hpos')
        as [st' [H1 [H2 [H3 H4]]]].
      * reflexivity.
      * simpl. apply (nth_upd_same (fun _ => mkTr None LCur)) with (x := age fresh_tracker).
        apply map_nth_error. exact Hn.
      * right. split; [reflexivity|discriminate].
      * exists st'. simpl in *. auto.
Qed.

(* one call, from ANY world, through either entry point *)
Theorem parse_call_pure w en s :
  fst (parse_call ResetAtPos0 w en s) = parse s /\
  w_stale (snd (parse_call ResetAtPos0 w en s)) = w_stale w.
Proof.
  unfold parse_call.
  destruct (lex_raw (S (length s)) [] 0 s) as [raws e] eqn:Hraw.
  destruct (lex_raw_spec _ _ _ _ _ _ false Hraw) as [_ [Hok _]]; [lia|discriminate|].
  set (lx := match en with
             | Module => w_main w
             | Thread => match w_thread w with Some l => l | None => w_main w end
             end).
  destruct (handle_all_spec raws (mkLs (map age (w_heap w)) (lx_attr lx) [] false) Hok eq_refl)
    as [st' [H1 [H2 H3]]].
  rewrite H1. simpl. rewrite H2, H3. split; [|apply orb_false_r].
  unfold call_result, parse, parse_full, parse_with, lex. rewrite Hraw. reflexivity.
Qed.

Definition pure_result (o : op) : option (res item) := match o with ParseCall _ s => parse s end.

(* every result of every history is the pure function of its own input *)
Theorem exec_pure : forall ops w, exec w ops = map pure_result ops.
Proof.
  unfold exec. induction ops as [|[en s] ops IH]; intros w; simpl; [reflexivity|].
  pose proof (parse_call_pure w en s) as [Hr _].
  destruct (parse_call ResetAtPos0 w en s) as [r w']. simpl in Hr. rewrite Hr, IH. reflexivity.
Qed.

Theorem history_independent h en s :
  last (exec w0 (h ++ [ParseCall en s])) None = parse s.
Proof. rewrite exec_pure, map_app. simpl. apply last_last. Qed.

(* no call ever writes into a token (hence a tree) that an earlier call returned *)
Theorem no_stale_write : forall ops w, w_stale (world_after ResetAtPos0 w ops) = w_stale w.
Proof.
  induction ops as [|[en s] ops IH]; intros w; simpl; [reflexivity|].
  rewrite IH. apply parse_call_pure.
Qed.
