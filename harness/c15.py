"""C15 — auto_name: distinct names on exactly the operands of operations, mapped to their paths."""
import copy

import lib
import gentree
from runner import CorrResult


def oracle(T, naming, tree, mapping):
    """the property, evaluated directly on the implementation's result; returns None or a reason.
    EVERY tree is judged by the exact clauses, whatever names it carried before the call: every node of the
    tree is walked, and no element other than the operands of operations (or the root alone when no operation
    has an operand) may carry a name afterwards."""
    named = [(p, naming.get_name(n)) for p, n in gentree.all_nodes(tree) if naming.get_name(n) is not None]
    names = [nm for _, nm in named]
    if len(set(names)) != len(names):
        return "two elements carry the same name"
    expected = set()
    for p, n in gentree.all_nodes(tree):
        if isinstance(n, T.BaseOperation):
            for i in range(len(n.children)):
                expected.add(p + (i,))
    if not expected:
        expected = {()}
    if set(p for p, _ in named) != expected:
        extra = sorted(set(p for p, _ in named) - expected)
        missing = sorted(expected - set(p for p, _ in named))
        return ("named elements are not exactly the operands of operations (or the root): named but not an "
                "operand %r, operand without name %r" % (extra[:5], missing[:5]))
    if len(mapping) != len(named) or dict((nm, p) for p, nm in named) != dict(mapping):
        return "mapping does not send each name to the path of the element carrying it"
    for nm, p in mapping.items():
        if naming.get_name(naming.element_from_path(tree, p)) != nm:
            return "element_from_path(mapping[name]) does not carry the name"
    return None


def correspond(model_ok, res):
    import luqum.tree as T
    import luqum.naming as naming
    r = lib.rng("C15")
    n = 250 if lib.tier() == "quick" else 2500
    g = gentree.Gen(r, T, layout=0.2, odd=0.15, wide=[0, 1, 51, 52, 53, 60, 104, 110, 130])
    cases, payloads = [], []
    widths = {}
    seen = set()
    # fixed corpus first: widths around the alphabet size and its square
    corpus = [T.Word("a"), T.AndOperation(), T.Group(T.OrOperation()),
              T.AndOperation(*[T.Word("w") for _ in range(53)]),
              T.OrOperation(*[T.UnknownOperation(*[T.Word("w") for _ in range(30)]) for _ in range(3)]),
              T.Range(T.AndOperation(T.Word("a"), T.Word("b")), T.Word("c"))]
    # more than a thousand names given, THEN another operation (a table of precomputed names must resume rightly)
    corpus.append(T.OrOperation(*([T.Word("w") for _ in range(1001)] + [T.AndOperation(T.Word("x"), T.Word("y"))])))
    corpus.append(T.AndOperation(T.SearchField("f", T.FieldGroup(T.OrOperation(*[T.Word("v") for _ in range(1100)]))),
                                 T.OrOperation(T.Word("a"), T.Group(T.UnknownOperation(T.Word("b"), T.Word("c"))))))
    if lib.tier() != "quick":
        corpus.append(T.AndOperation(*[T.Word("w") for _ in range(52 * 51 + 60)]))
        corpus.append(T.OrOperation(T.AndOperation(T.Word("x"), T.Word("y")),
                                    *([T.Word("w") for _ in range(2100)] +
                                      [T.Group(T.AndOperation(T.Word("p"), T.Not(T.OrOperation(T.Word("q"), T.Word("r")))))])))
    trees = corpus + [g.tree(r.randrange(0, 5)) for _ in range(n)]
    # regression corpus for the repaired defect (auto_name kept the names of a previous naming on elements that
    # are not operands any more).  Histories: a tree that was named before, then edited (an operand inserted
    # in front of an operation, a named sub-tree embedded in a new operation or under a non-operation, the
    # operation taken away, names put by hand anywhere), is named again: NO old name may survive
    hist = []
    for _ in range(n // 3):
        t0 = g.tree(r.randrange(1, 4))
        try:
            naming.auto_name(t0)
        except Exception as e:  # the property says names are always produced
            res.failures.append(({"tree": gentree.describe(t0)[:2000], "exception": repr(e),
                                  "where": "first naming of a history"}, None))
            continue
        ops = [nd for _, nd in gentree.all_nodes(t0) if isinstance(nd, T.BaseOperation)]
        k = r.random()
        if ops and k < 0.4:
            o = r.choice(ops)
            o.children = [g.leaf()] + list(o.children)
        elif k < 0.6:
            t0 = r.choice([T.AndOperation, T.OrOperation, T.UnknownOperation])(g.leaf(), t0, g.leaf())
        elif k < 0.8:
            # the named tree goes below elements that are not operations
            t0 = r.choice([lambda e: T.Group(e), lambda e: T.Not(e), lambda e: T.SearchField("f", T.FieldGroup(e)),
                           lambda e: T.AndOperation(T.Group(e), g.leaf()),
                           lambda e: T.Boost(T.Group(e), 2)])(t0)
        else:
            # names put by hand on arbitrary nodes (duplicates, names the generator will produce itself)
            nodes = [nd for _, nd in gentree.all_nodes(t0)]
            for nd in r.sample(nodes, min(len(nodes), r.randrange(1, 5))):
                naming.set_name(nd, r.choice(["a", "b", "c", "aa", "Z", "zz", "", "name"]))
        hist.append(t0)
    # the former witness of C15_named_exactly_refuted / C15_mapping_exact_refuted /
    # C15_tree_names_distinct_refuted (now Example C15_regression_stale_tree, coq/props/C15.v): a stale name on
    # an element that is not an operand survived
    w_ = T.Word("x")
    naming.set_name(w_, "b")
    stale = T.AndOperation(T.Group(w_), T.Word("y"))
    hist.append(stale)
    # named, then edited (Example C15_regression_named_then_edited): the word named as a root, then embedded
    w2 = T.Word("x")
    naming.auto_name(w2)
    hist.append(T.AndOperation(T.Group(w2), T.Word("y")))
    # the operation taken away (Example C15_regression_operation_removed)
    a_and_b = T.AndOperation(T.Word("x"), T.Word("y"))
    naming.auto_name(a_and_b)
    hist.append(T.Not(a_and_b.children[0]))
    # everything pre-named with the same name (Example C15_regression_all_prenamed)
    allp = T.OrOperation(T.Group(T.Word("x")), T.Range(T.Word("1"), T.Word("2")))
    for _, nd in gentree.all_nodes(allp):
        naming.set_name(nd, "a")
    hist.append(allp)
    st2 = copy.deepcopy(stale)
    st_map = naming.auto_name(st2)
    witness_clean = (dict(st_map) == {"a": (0,), "b": (1,)}
                     and naming.get_name(st2.children[0].children[0]) is None
                     and naming.get_name(st2.children[0]) == "a"
                     and naming.get_name(st2.children[1]) == "b"
                     and naming.get_name(st2) is None)
    if not witness_clean:
        res.failures.append(({"tree": "w = Word('x'); set_name(w, 'b'); AndOperation(Group(w), Word('y'))",
                              "why": "the former witness of the stale-name defect: the name put on w beforehand "
                                     "is still there after auto_name (or the mapping is not {'a': (0,), 'b': (1,)})",
                              "mapping": {k: list(v) for k, v in st_map.items()},
                              "name_of_w": naming.get_name(st2.children[0].children[0])}, None))
    trees += hist
    prenamed_ids = set(id(t) for t in hist)
    prenamed_with_stale = 0
    aborted = 0
    for ti_, tree in enumerate(trees):
        if ti_ % 40 == 7:
            # a call that cannot complete (a tree deeper than the interpreter's recursion limit): whatever it
            # raises, the calls that FOLLOW must not see anything of it
            deep = T.Word("x")
            for _ in range(3000):
                deep = T.AndOperation(T.Group(deep), T.Word("y"))
            try:
                naming.auto_name(deep)
            except RecursionError:
                aborted += 1
            except Exception as e:  # noqa
                res.notes.append("auto_name on a 3000-level tree raised %r" % (e,))
            del deep
        before = lib.g_item(tree)
        desc = gentree.describe(tree)
        had_names = sorted((list(p), naming.get_name(nd)) for p, nd in gentree.all_nodes(tree)
                           if naming.get_name(nd) is not None)
        if id(tree) in prenamed_ids and had_names:
            prenamed_with_stale += 1
        w = max([len(nd.children) for _, nd in gentree.all_nodes(tree) if isinstance(nd, T.BaseOperation)] or [0])
        widths[min(w, 60) // 10 * 10] = widths.get(min(w, 60) // 10 * 10, 0) + 1
        t2 = copy.deepcopy(tree)
        try:
            mapping = naming.auto_name(t2)
        except Exception as e:  # the property says names are always produced
            res.failures.append(({"tree": desc[:2000], "exception": repr(e)}, None))
            expected = "None"
        else:
            why = oracle(T, naming, t2, mapping)
            if why:
                res.failures.append(({"tree": desc[:2000], "why": why,
                                      "names_before_the_call": had_names[:50],
                                      "names_after_the_call": sorted(
                                          (list(p), naming.get_name(nd)) for p, nd in gentree.all_nodes(t2)
                                          if naming.get_name(nd) is not None)[:50],
                                      "mapping": {k: list(v) for k, v in list(mapping.items())[:50]}}, None))
            expected = "(Some (%s, %s))" % (
                lib.g_item(t2),
                lib.g_list(["(%s, %s)" % (lib.g_str(nm), lib.g_path(p)) for nm, p in mapping.items()]))
        cases.append("(%s, %s)" % (before, expected))
        payloads.append(desc[:2000])
        if desc not in seen and gentree.count_nodes(tree) > 1:
            seen.add(desc)
    res.cases = len(cases)
    res.nontrivial = len(seen)
    res.rule = ("random programmatic trees of every item class (depth<=4, odd shapes: operations with 0/1 "
                "operands, NoneItem, operations under ranges), plus operations wider than the 52-letter "
                "alphabet; non-trivial = distinct tree with more than one node")
    res.samples = payloads[3:9]
    res.distribution = {"max_operation_width_bucket": widths, "aborted_calls_interleaved": aborted,
                        "prenamed_histories": len(hist), "prenamed_histories_carrying_names": prenamed_with_stale,
                        "former_witness_clean": bool(witness_clean)}
    if model_ok:
        defs = ("Definition chk (c : item * option (item * list (str * path))) : bool :=\n"
                "  match auto_name (fst c), snd c with\n"
                "  | None, None => true\n"
                "  | Some (t, m), Some (t', m') => item_beq t t' && named_paths_beq m m'\n"
                "  | _, _ => false end.")
        try:
            bad = lib.eval_cases("C15", "Base Decimal Tree TreeEq Naming", defs, cases, "chk", shard=60)
        except Exception as e:
            res.model_error = str(e)
            bad = []
        for i in bad:
            res.disagreements.append({"tree": payloads[i]})
    else:
        res.model_error = "model did not build"
    return res


SPEC = {
    "id": "C15",
    "targets": ["props/C15.vo"],
    "model_targets": ["model/Naming.vo", "model/TreeEq.vo"],
    "module": "C15",
    "theorems": ["C15_total", "C15_names_distinct", "C15_named_exactly_operands", "C15_mapping_exact",
                 "C15_next_name_never_repeats", "C15_mapping_sound_any_history",
                 "C15_operands_named_any_history", "C15_tree_names_distinct", "C15_names_cleared_first"],
    "correspond": correspond,
    "statement": "for EVERY tree, whatever names it carried beforehand (a tree named earlier and edited since, "
                 "names put by hand): auto_name never fails; all names of the mapping are distinct; the elements "
                 "that carry a name afterwards are exactly the operands of operations, or the root alone when NO "
                 "OPERATION HAS AN OPERAND (the model's reading of 'no operation': "
                 "auto_name(Group(AndOperation())) names the root - Example C15_root_alone_empty_operation); the "
                 "mapping is exactly name -> path of the element carrying it; no two elements carry the same name "
                 "(C15_tree_names_distinct). No hypothesis on the input: TreeAutoNamer.visit first removes the name "
                 "of every node (_clear_names; C15_names_cleared_first: the cleared tree carries no name and "
                 "differs from the input by names only). Regression Examples (C15_regression_stale_tree, "
                 "_named_then_edited, _operation_removed, _all_prenamed) on the former witnesses: before the "
                 "repair AndOperation(Group(w), Word('y')) with set_name(w, 'b') left w named 'b', the name given "
                 "to Word('y'). The oracle walks every node of every tree, pre-named or not",
    "trusted_base": [
        "Coq 8.16.1 kernel (vm_compute used for table facts and correspondence; no native_compute)",
        "no axioms (Print Assumptions: closed under the global context)",
        "gen/translate.py: LETTERS, _pos_letter shape, class MROs, TreeAutoNamer method table",
        "hand-written model coq/model/Naming.v of TreeAutoNamer / PathTrackingVisitor traversal, tied by "
        "differential correspondence (harness/c15.py) on every run",
        "value-based tree model: a Python object shared between two positions is not modelled",
    ],
    "assumptions": ["trees contain only luqum.tree classes; no node object occurs at two positions"],
}
