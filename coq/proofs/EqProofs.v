(* EqProofs.v — lemmas for property C09: Item.__eq__ (Eq.item_eqb, driven by the generated
   _equality_attrs tables) against the hand-written fingerprint of EqSpec.v; clone_item. *)
Require Import Base Decimal Tree GenTree Eq Print TreeInd EqSpec.
From Coq Require Import Lia.

(* ---------------------------------------------------------------- decimals *)

Lemma dec_struct_eqb_iff x y : dec_struct_eqb x y = true <-> x = y.
Proof.
  split.
  - unfold dec_struct_eqb. intros H. apply andb_prop in H as [H H3]. apply andb_prop in H as [H1 H2].
    apply Bool.eqb_prop in H1. apply N.eqb_eq in H2. apply Z.eqb_eq in H3.
    destruct x, y; simpl in *; subst; reflexivity.
  - intros ->. unfold dec_struct_eqb. rewrite Bool.eqb_reflx, N.eqb_refl, Z.eqb_refl. reflexivity.
Qed.

(* Python's numeric == on Decimals is equality of canonical forms *)
Lemma dec_eqb_iff a b : dec_eqb a b = true <-> dec_canon a = dec_canon b.
Proof. unfold dec_eqb. apply dec_struct_eqb_iff. Qed.

Lemma dec_eqb_refl d : dec_eqb d d = true.
Proof. apply dec_eqb_iff. reflexivity. Qed.

Lemma strip_zeros_stripped : forall fuel c e c' e',
  c <> 0%N -> (c < 2 ^ N.of_nat fuel)%N -> strip_zeros fuel c e = (c', e') ->
  c' <> 0%N /\ (c' mod 10 <> 0)%N.
Proof.
  induction fuel as [|f IH]; intros c e c' e' Hc Hlt H.
  - simpl in Hlt. lia.
  - simpl in H. destruct (N.eqb c 0) eqn:E0; [apply N.eqb_eq in E0; congruence|].
    destruct (N.eqb (c mod 10) 0) eqn:E1.
    + apply N.eqb_eq in E1. apply (IH (c / 10)%N (e + 1)%Z c' e'); auto.
      * intros Hz. apply N.div_small_iff in Hz; [|lia].
        rewrite (N.mod_small c 10) in E1 by lia. congruence.
      * apply N.div_lt_upper_bound; [lia|].
        rewrite Nat2N.inj_succ, N.pow_succ_r' in Hlt. lia.
    + apply N.eqb_neq in E1. inversion H; subst. auto.
Qed.

Lemma strip_zeros_fix : forall fuel c e, c <> 0%N -> (c mod 10 <> 0)%N -> strip_zeros fuel c e = (c, e).
Proof.
  intros [|f] c e Hc Hm; simpl; [reflexivity|].
  destruct (N.eqb c 0); [reflexivity|]. apply N.eqb_neq in Hm. rewrite Hm. reflexivity.
Qed.

Lemma size_bound c : (c < 2 ^ N.of_nat (S (N.to_nat (N.size c))))%N.
Proof.
  rewrite Nat2N.inj_succ, N2Nat.id, N.pow_succ_r'. pose proof (N.size_gt c). lia.
Qed.

(* normalisation keeps the numeric value ... *)
Lemma dec_canon_normalize f : dec_canon (dec_normalize f) = dec_canon f.
Proof.
  unfold dec_normalize, dec_canon. destruct (N.eqb (dcoef f) 0) eqn:E0; [reflexivity|].
  apply N.eqb_neq in E0.
  destruct (strip_zeros (S (N.to_nat (N.size (dcoef f)))) (dcoef f) (dexp f)) as [c e] eqn:Hs.
  destruct (strip_zeros_stripped _ _ _ _ _ E0 (size_bound _) Hs) as [Hc Hm]. cbn [dcoef dexp dsign].
  apply N.eqb_neq in Hc. rewrite Hc. apply N.eqb_neq in Hc.
  rewrite (strip_zeros_fix _ _ _ Hc Hm). reflexivity.
Qed.

(* ... and is idempotent: what a constructor stored is a fixpoint *)
Lemma dec_normalize_idem f : dec_normalize (dec_normalize f) = dec_normalize f.
Proof.
  unfold dec_normalize. destruct (N.eqb (dcoef f) 0) eqn:E0; [reflexivity|].
  apply N.eqb_neq in E0.
  destruct (strip_zeros (S (N.to_nat (N.size (dcoef f)))) (dcoef f) (dexp f)) as [c e] eqn:Hs.
  destruct (strip_zeros_stripped _ _ _ _ _ E0 (size_bound _) Hs) as [Hc Hm]. cbn [dcoef dexp dsign].
  apply N.eqb_neq in Hc. rewrite Hc. apply N.eqb_neq in Hc.
  rewrite (strip_zeros_fix _ _ _ Hc Hm). reflexivity.
Qed.

Lemma dec_eqb_normalize f : dec_eqb (dec_normalize f) f = true.
Proof. apply dec_eqb_iff. apply dec_canon_normalize. Qed.

(* ---------------------------------------------------------------- class tags *)

Lemma cls_termk_iff k k' : cls_eqb (cls_of_termk k) (cls_of_termk k') = true <-> k = k'.
Proof. destruct k, k'; simpl; split; intros H; try reflexivity; discriminate H. Qed.
Lemma cls_groupk_iff k k' : cls_eqb (cls_of_groupk k) (cls_of_groupk k') = true <-> k = k'.
Proof. destruct k, k'; simpl; split; intros H; try reflexivity; discriminate H. Qed.
Lemma cls_opk_iff k k' : cls_eqb (cls_of_opk k) (cls_of_opk k') = true <-> k = k'.
Proof. destruct k, k'; simpl; split; intros H; try reflexivity; discriminate H. Qed.
Lemma cls_unk_iff k k' : cls_eqb (cls_of_unk k) (cls_of_unk k') = true <-> k = k'.
Proof. destruct k, k'; simpl; split; intros H; try reflexivity; discriminate H. Qed.
Lemma cls_ork_iff k k' : cls_eqb (cls_of_ork k) (cls_of_ork k') = true <-> k = k'.
Proof. destruct k, k'; simpl; split; intros H; try reflexivity; discriminate H. Qed.

Lemma cls_eqb_refl c : cls_eqb c c = true.
Proof. destruct c; reflexivity. Qed.

(* __eq__ starts with the class test *)
Lemma item_eqb_cls a b : item_eqb a b = true -> cls_eqb (cls_of a) (cls_of b) = true.
Proof.
  destruct a; simpl; intros H; apply andb_prop in H as [H _]; apply andb_prop in H as [H _];
    apply andb_prop in H as [H _]; exact H.
Qed.

Lemma item_eqb_diff_cls a b : cls_eqb (cls_of a) (cls_of b) = false -> item_eqb a b = false.
Proof.
  intros H. destruct (item_eqb a b) eqn:E; [|reflexivity]. apply item_eqb_cls in E. congruence.
Qed.

(* ---------------------------------------------------------------- operands *)

Definition eq_zip : list item -> list item -> bool :=
  fix go (l l' : list item) : bool :=
    match l, l' with
    | c :: r, c' :: r' => item_eqb c c' && go r r'
    | _, _ => true
    end.

Lemma item_eqb_unfold_op k m ops k' m' ops' :
  item_eqb (Op k m ops) (Op k' m' ops') =
  cls_eqb (cls_of_opk k) (cls_of_opk k') && Nat.eqb (length ops) (length ops') &&
  attrs_eqb (Op k m ops) (Op k' m' ops') && eq_zip ops ops'.
Proof. reflexivity. Qed.

(* the attribute list of the four operation classes is empty in the generated table *)
Lemma attrs_eqb_op k m ops k' m' ops' : attrs_eqb (Op k m ops) (Op k' m' ops') = true.
Proof. destruct k; reflexivity. Qed.

Definition eq_fp_at (c : item) : Prop :=
  forall b, item_eqb c b = true <-> fingerprint c = fingerprint b.

Lemma ops_eq_iff ops : Forall eq_fp_at ops ->
  forall ops', Nat.eqb (length ops) (length ops') && eq_zip ops ops' = true <->
               map fingerprint ops = map fingerprint ops'.
Proof.
  induction 1 as [|c l Hc _ IH]; intros [|c' l']; simpl; split; intros H;
    try reflexivity; try discriminate.
  - apply andb_prop in H as [Hl H]. apply andb_prop in H as [H1 H2].
    apply Hc in H1. rewrite H1. f_equal. apply IH. simpl in Hl. rewrite Hl, H2. reflexivity.
  - injection H as H1 H2. apply Hc in H1. apply IH in H2. apply andb_prop in H2 as [Hl H2].
    simpl. rewrite Hl, H1, H2. reflexivity.
Qed.

(* ---------------------------------------------------------------- equality <-> same content *)

Ltac boolprops :=
  repeat match goal with
  | H : _ && _ = true |- _ => apply andb_prop in H; destruct H
  | H : str_eqb _ _ = true |- _ => apply str_eqb_eq in H
  | H : Bool.eqb _ _ = true |- _ => apply Bool.eqb_prop in H
  | H : dec_eqb _ _ = true |- _ => apply dec_eqb_iff in H
  | H : Z.eqb _ _ = true |- _ => apply Z.eqb_eq in H
  | H : false = true |- _ => discriminate H
  end.

Ltac boolgoal :=
  repeat (apply andb_true_intro; split);
  try reflexivity;
  try apply str_eqb_refl; try apply Bool.eqb_reflx; try apply Z.eqb_refl.

Ltac diffcls :=
  split; intros H; [apply item_eqb_cls in H; simpl in H;
                    repeat match goal with k : termk |- _ => destruct k | k : groupk |- _ => destruct k
                                      | k : opk |- _ => destruct k | k : unk |- _ => destruct k
                                      | k : ork |- _ => destruct k end; discriminate H
                   | discriminate H].

Arguments dec_eqb : simpl never.

Theorem eq_iff_fingerprint : forall a b, item_eqb a b = true <-> fingerprint a = fingerprint b.
Proof.
  induction a as [k m v|m n e IHe|k m e IHe|m lo hi il ih IHlo IHhi|m t d i IHt|m t d i IHt
                 |m e f i IHe|k m ops IHops|k m x IHx|k m x i IHx|m] using item_ind';
    intros b; destruct b as [k' m' v'|m' n' e'|k' m' e'|m' lo' hi' il' ih'|m' t' d' i'|m' t' d' i'
                            |m' e' f' i'|k' m' ops'|k' m' x'|k' m' x' i'|m']; try diffcls.
  - (* Word / Phrase / Regex : value *)
    destruct k, k'; try diffcls; simpl; unfold attrs_eqb; simpl; split; intros H; boolprops;
      try congruence; injection H as ->; boolgoal.
  - (* SearchField : name, expr *)
    simpl; unfold attrs_eqb; simpl. split; intros H.
    + boolprops. apply IHe in H0. congruence.
    + injection H as -> H. apply IHe in H. rewrite H. boolgoal.
  - (* Group / FieldGroup *)
    destruct k, k'; try diffcls; simpl; split; intros H.
    1,3: apply IHe in H; congruence.
    all: injection H as H; apply IHe in H; exact H.
  - (* Range : include_low, include_high, low, high *)
    simpl; unfold attrs_eqb; simpl. split; intros H.
    + boolprops. apply IHlo in H0. apply IHhi in H1. congruence.
    + injection H as -> -> H1 H2. apply IHlo in H1. apply IHhi in H2. rewrite H1, H2. boolgoal.
  - (* Fuzzy : degree (numeric), term *)
    simpl; unfold attrs_eqb; simpl. split; intros H.
    + boolprops. apply IHt in H0. congruence.
    + injection H as H1 H2. apply IHt in H2. apply dec_eqb_iff in H1. rewrite H1, H2. reflexivity.
  - (* Proximity : degree, term *)
    simpl; unfold attrs_eqb; simpl. split; intros H.
    + boolprops. apply IHt in H0. congruence.
    + injection H as -> H2. apply IHt in H2. rewrite H2. boolgoal.
  - (* Boost : force (numeric), expr *)
    simpl; unfold attrs_eqb; simpl. split; intros H.
    + boolprops. apply IHe in H0. congruence.
    + injection H as H1 H2. apply IHe in H2. apply dec_eqb_iff in H1. rewrite H1, H2. reflexivity.
  - (* operations : class, number and order of operands *)
    rewrite item_eqb_unfold_op, attrs_eqb_op, andb_true_r. simpl fingerprint.
    split; intros H.
    + rewrite <- andb_assoc in H. apply andb_prop in H as [Hk H]. apply cls_opk_iff in Hk.
      apply (ops_eq_iff ops IHops) in H. congruence.
    + injection H as -> H. apply (ops_eq_iff ops IHops) in H.
      rewrite <- andb_assoc, H, andb_true_r. apply cls_opk_iff. reflexivity.
  - (* Plus / Not / Prohibit *)
    destruct k, k'; try diffcls; simpl; split; intros H.
    1,3,5: apply IHx in H; congruence.
    all: injection H as H; apply IHx in H; exact H.
  - (* From / To : include, a *)
    destruct k, k'; try diffcls; simpl; unfold attrs_eqb; simpl; split; intros H.
    1,3: boolprops; apply IHx in H0; congruence.
    all: injection H as -> H; apply IHx in H; rewrite H; boolgoal.
  - (* NoneItem *)
    simpl. split; reflexivity.
Qed.

(* ---------------------------------------------------------------- equivalence relation *)

Lemma item_eqb_refl a : item_eqb a a = true.
Proof. apply eq_iff_fingerprint. reflexivity. Qed.

Lemma item_eqb_sym a b : item_eqb a b = true -> item_eqb b a = true.
Proof. intros H. apply eq_iff_fingerprint. symmetry. apply eq_iff_fingerprint. exact H. Qed.

Lemma item_eqb_trans a b c : item_eqb a b = true -> item_eqb b c = true -> item_eqb a c = true.
Proof.
  intros H1 H2. apply eq_iff_fingerprint in H1. apply eq_iff_fingerprint in H2.
  apply eq_iff_fingerprint. congruence.
Qed.

Lemma bool_iff_eq (x y : bool) : (x = true <-> y = true) -> x = y.
Proof. destruct x, y; intros [H1 H2]; try reflexivity; [symmetry; apply H1; reflexivity|apply H2; reflexivity]. Qed.

(* the answer of == only depends on the fingerprints of both sides *)
Lemma item_eqb_fp_congr a a' b b' :
  fingerprint a = fingerprint a' -> fingerprint b = fingerprint b' -> item_eqb a b = item_eqb a' b'.
Proof.
  intros Ha Hb. apply bool_iff_eq. rewrite !eq_iff_fingerprint. rewrite Ha, Hb. reflexivity.
Qed.

(* ---------------------------------------------------------------- layout, names, implicit flags *)

Lemma fingerprint_erase : forall a, fingerprint (erase a) = fingerprint a.
Proof.
  induction a using item_ind'; simpl; try congruence.
  f_equal. rewrite map_map. induction H as [|c l Hc _ IH]; simpl; [reflexivity|]. rewrite Hc, IH. reflexivity.
Qed.

Lemma erase_same_fingerprint a a' : erase a = erase a' -> fingerprint a = fingerprint a'.
Proof. intros H. rewrite <- (fingerprint_erase a), <- (fingerprint_erase a'), H. reflexivity. Qed.

Lemma erase_set_meta a m : erase (set_meta a m) = erase a.
Proof. destruct a; reflexivity. Qed.

(* erase only touches meta and implicit flags: classes, own attributes and arity stay *)
Lemma cls_erase a : cls_of (erase a) = cls_of a.
Proof. destruct a; reflexivity. Qed.

Lemma get_attr_erase a at_ : get_attr (erase a) at_ = get_attr a at_.
Proof. destruct a, at_; reflexivity. Qed.

Lemma children_erase a : children (erase a) = map erase (children a).
Proof. destruct a; reflexivity. Qed.

(* ---------------------------------------------------------------- clone_item *)

Lemma clone_shape x :
  exists y, clone_item x = Some y /\
    cls_of y = cls_of x /\
    layout_of y = layout_of x /\ name_of y = None /\
    (forall a, get_attr y a = get_attr (reinit x) a) /\
    implicit_of y = implicit_of x /\
    children y = (if is_op x then [] else map (fun _ => none_item) (children x)) /\
    wf_node y.
Proof.
  destruct x as [[]| |[]| |? ? ? []|? ? ? []|? ? ? []|[]|[]|[]|]; eexists; (split; [reflexivity|]);
    repeat split; try (intros []; reflexivity).
  apply dec_normalize_idem.
Qed.

Lemma wf_node_guards x : wf_node x -> implicit_is_default x /\ force_prints_normalized x /\ reinit x = x.
Proof.
  destruct x as [| | | |? ? ? []|? ? ? []|? ? ? []| | | |]; simpl; intros H; subst; auto.
  rewrite H. auto.
Qed.

Lemma reinit_wf x : reinit x = x -> wf_node x.
Proof.
  destruct x as [| | | |? ? ? []|? ? ? []|? ? ? []| | | |]; simpl; intros H; auto; congruence.
Qed.

Ltac inv_F2 :=
  repeat match goal with
  | H : Forall2 _ _ (_ :: _) |- _ => inversion H; subst; clear H
  | H : Forall2 _ _ [] |- _ => inversion H; subst; clear H
  end.

Lemma eq_zip_Forall2 cs ops :
  Forall2 (fun c c' => item_eqb c c' = true) cs ops ->
  Nat.eqb (length cs) (length ops) && eq_zip cs ops = true.
Proof.
  induction 1 as [|c c' l l' Hc _ IH]; simpl; [reflexivity|].
  apply andb_prop in IH as [Hl Hz]. rewrite Hl, Hc, Hz. reflexivity.
Qed.

Lemma Forall2_refl {A} (R : A -> A -> Prop) : (forall x, R x x) -> forall l, Forall2 R l l.
Proof. intros HR. induction l; constructor; auto. Qed.

(* the clone, given children that compare equal to the original's, compares equal to the original *)
Lemma clone_rebuild_eq x y cs :
  clone_item x = Some y -> implicit_is_default x ->
  Forall2 (fun c c' => item_eqb c c' = true) cs (children x) ->
  item_eqb (rebuild y cs) x = true.
Proof.
  intros Hc Hg HF.
  destruct x as [[]| |[]| |? ? ? []|? ? ? []|? ? ? []|k m ops|[]|[]|]; simpl in Hc; inversion Hc; subst y; clear Hc;
    simpl in HF; try (inv_F2; simpl in *; unfold attrs_eqb; simpl;
                      repeat match goal with H : item_eqb _ _ = true |- _ => rewrite H; clear H end;
                      boolgoal; fail).
  - inv_F2. simpl in *. unfold attrs_eqb. simpl. rewrite H2. symmetry in Hg. apply dec_eqb_iff in Hg.
    rewrite Hg. reflexivity.
  - inv_F2. simpl in *. unfold attrs_eqb. simpl. rewrite H2, dec_eqb_refl. reflexivity.
  - inv_F2. simpl in *. subst. unfold attrs_eqb. simpl. rewrite H2. reflexivity.
  - inv_F2. simpl in *. unfold attrs_eqb. simpl. rewrite H2. symmetry in Hg. apply dec_eqb_iff in Hg.
    rewrite Hg. reflexivity.
  - inv_F2. simpl in *. unfold attrs_eqb. simpl. rewrite H2, dec_eqb_normalize. reflexivity.
  - change (rebuild (Op k (clone_meta m) []) cs) with (Op k (clone_meta m) cs). rewrite item_eqb_unfold_op, attrs_eqb_op, andb_true_r, cls_eqb_refl.
    simpl. apply eq_zip_Forall2. exact HF.
Qed.

(* ... and the condition on implicit values is necessary *)
Lemma clone_roundtrip_eq_exact x y :
  clone_item x = Some y ->
  (item_eqb (rebuild y (children x)) x = true <-> implicit_is_default x).
Proof.
  intros Hc. split.
  - intros H. apply eq_iff_fingerprint in H.
    destruct x as [| | | |? ? ? []|? ? ? []|? ? ? []| | | |]; simpl; auto; simpl in Hc; inversion Hc; subst y;
      unfold rebuild in H; simpl in H; injection H; intros; congruence.
  - intros Hg. apply (clone_rebuild_eq x y _ Hc Hg). apply Forall2_refl. apply item_eqb_refl.
Qed.

Lemma map_print_Forall2 cs ops :
  Forall2 (fun c c' => print true c = print true c') cs ops -> map (print true) cs = map (print true) ops.
Proof. induction 1 as [|c c' l l' Hc _ IH]; simpl; [reflexivity|]. rewrite Hc, IH. reflexivity. Qed.

(* the clone, given children that print like the original's, prints like the original *)
Lemma clone_rebuild_print x y cs :
  clone_item x = Some y -> force_prints_normalized x ->
  Forall2 (fun c c' => print true c = print true c') cs (children x) ->
  forall ht, print ht (rebuild y cs) = print ht x.
Proof.
  intros Hc Hg HF ht.
  destruct x as [[]| |[]| |? ? ? []|? ? ? []|? ? ? []|k ? ?|[]|[]|]; simpl in Hc; inversion Hc; subst y; clear Hc;
    simpl in HF; try (inv_F2; unfold rebuild; simpl;
                      repeat match goal with H : print true _ = print true _ |- _ => rewrite H; clear H end;
                      reflexivity).
  - inv_F2. unfold rebuild. simpl in *. rewrite H2, Hg. reflexivity.
  - unfold rebuild. simpl. rewrite (map_print_Forall2 _ _ HF). reflexivity.
Qed.

Lemma clone_roundtrip_print_exact x y :
  clone_item x = Some y ->
  ((forall ht, print ht (rebuild y (children x)) = print ht x) <-> force_prints_normalized x).
Proof.
  intros Hc. split.
  - intros H. specialize (H false).
    destruct x as [| | | |? ? ? []|? ? ? []|? ? ? []| | | |]; simpl; auto; simpl in Hc; inversion Hc; subst y.
    unfold rebuild in H. simpl in H. apply app_inv_head in H. injection H as H. exact H.
  - intros Hg. apply (clone_rebuild_print x y _ Hc Hg). apply Forall2_refl. reflexivity.
Qed.

(* ---------------------------------------------------------------- deep clones *)

Lemma everywhere_here P t : everywhere P t -> P t.
Proof. intros H. inversion H; assumption. Qed.

Lemma everywhere_children P t : everywhere P t -> Forall (everywhere P) (children t).
Proof. intros H. inversion H; assumption. Qed.

Lemma everywhere_impl (P Q : item -> Prop) : (forall n, P n -> Q n) -> forall t, everywhere P t -> everywhere Q t.
Proof.
  intros HPQ. induction t as [t IH] using item_children_ind. intros H. inversion H as [t' Hp Hc]; subst.
  constructor; [auto|]. clear H Hp. induction Hc as [|c l Hc1 _ IHl]; constructor.
  - inversion IH; subst. auto.
  - apply IHl. inversion IH; subst. assumption.
Qed.

Lemma deep_clone_exists : forall x, exists z, deep_clone x z.
Proof.
  induction x as [x IH] using item_children_ind.
  assert (Hcs : exists cs, Forall2 deep_clone (children x) cs).
  { induction IH as [|c l [z Hz] _ [cs Hcs]]; [exists []; constructor|exists (z :: cs); constructor; assumption]. }
  destruct Hcs as [cs Hcs]. destruct (clone_shape x) as [y [Hy _]].
  exists (rebuild y cs). econstructor; eassumption.
Qed.

Lemma deep_children_rel (G : item -> Prop) (R : item -> item -> Prop) l cs :
  Forall (fun c => forall z, deep_clone c z -> everywhere G c -> R z c) l ->
  Forall (everywhere G) l -> Forall2 deep_clone l cs -> Forall2 R cs l.
Proof.
  intros HP HE HF. induction HF as [|c z l cs Hcz _ IH]; [constructor|].
  inversion HP; subst. inversion HE; subst. constructor; auto.
Qed.

Lemma deep_clone_eq : forall x z,
  deep_clone x z -> everywhere implicit_is_default x -> item_eqb z x = true.
Proof.
  induction x as [x IH] using item_children_ind. intros z Hd He.
  inversion Hd as [x' y cs Hy Hcs]; subst.
  apply (clone_rebuild_eq x y cs Hy (everywhere_here _ _ He)).
  exact (deep_children_rel _ (fun c c' => item_eqb c c' = true) _ _ IH (everywhere_children _ _ He) Hcs).
Qed.

Lemma deep_clone_print : forall x z,
  deep_clone x z -> everywhere force_prints_normalized x -> forall ht, print ht z = print ht x.
Proof.
  induction x as [x IH] using item_children_ind. intros z Hd He.
  inversion Hd as [x' y cs Hy Hcs]; subst.
  apply (clone_rebuild_print x y cs Hy (everywhere_here _ _ He)).
  refine (deep_children_rel _ (fun c c' => print true c = print true c') _ _ _
            (everywhere_children _ _ He) Hcs).
  apply Forall_impl with (2 := IH). intros c Hc z Hz Hev. apply Hc; assumption.
Qed.

(* ---------------------------------------------------------------- more on layout variants / clone content *)

Lemma map_erase_Forall2 cs cs' :
  Forall2 (fun c c' => erase c = erase c') cs cs' -> map erase cs = map erase cs'.
Proof. induction 1 as [|c c' l l' Hc _ IH]; simpl; [reflexivity|]. rewrite Hc, IH. reflexivity. Qed.

(* replacing children by layout variants of them gives a layout variant *)
Lemma erase_rebuild_congr t cs cs' :
  Forall2 (fun c c' => erase c = erase c') cs cs' -> erase (rebuild t cs) = erase (rebuild t cs').
Proof.
  intros HF. pose proof (map_erase_Forall2 _ _ HF) as Hm.
  destruct t; unfold rebuild; simpl;
    try (destruct HF as [|c c' l l' Hc HF]; simpl; try reflexivity;
         destruct HF as [|d d' l2 l2' Hd HF]; simpl; try reflexivity; try congruence;
         destruct HF as [|e1 e1' l3 l3' He HF]; simpl; try reflexivity; congruence).
  congruence.
Qed.

(* the clone's own attributes compare equal to the original's, both ways *)
Lemma clone_attrs_eqb x y :
  clone_item x = Some y -> implicit_is_default x -> attrs_eqb x y = true /\ attrs_eqb y x = true.
Proof.
  intros Hc Hg.
  destruct x as [[]| |[]| |? ? ? []|? ? ? []|? ? ? []|[]|[]|[]|]; simpl in Hc; inversion Hc; subst y; clear Hc;
    unfold attrs_eqb; simpl in *; subst;
    rewrite ?str_eqb_refl, ?Bool.eqb_reflx, ?Z.eqb_refl, ?dec_eqb_refl, ?dec_eqb_normalize; auto.
  - split; [|symmetry in Hg]; apply dec_eqb_iff in Hg; rewrite Hg; reflexivity.
  - split; [|symmetry in Hg]; apply dec_eqb_iff in Hg; rewrite Hg; reflexivity.
  - pose proof (dec_eqb_normalize force) as H. apply dec_eqb_iff in H. symmetry in H. apply dec_eqb_iff in H.
    rewrite H. auto.
Qed.

Lemma wf_nodeb_spec x : wf_nodeb x = true <-> wf_node x.
Proof.
  destruct x as [| | | |? ? ? []|? ? ? []|? ? ? []| | | |]; simpl;
    try (split; intros; [exact I|reflexivity]); try apply dec_struct_eqb_iff; apply Z.eqb_eq.
Qed.
