"""runner.py — the common protocol of every property check (DESIGN §7).

A property module exposes a dict SPEC:
  id            'C15'
  targets       ['props/C15.vo']            make targets holding the theorems (and their deps)
  module        'C15'                       Coq module with the property theorems
  theorems      ['C15_total', ...]          theorems whose assumptions are printed and must be closed
  model_targets ['model/Naming.vo']         what the correspondence needs (built even if proofs break)
  tie_facts     'C15_tie'                   optional: name of a bool-list definition in `module` … (unused)
  correspond    fn(ctx) -> CorrResult       differential run model vs implementation (+ oracle)
  trusted_base  [...]                       strings for the evidence file
  statement     short text

CorrResult:
  cases            number of cases evaluated
  nontrivial       number of distinct non-trivial cases
  rule             text
  samples          list
  disagreements    [payload]   model != implementation
  failures         [(payload, finding_id or None)]  property oracle false on the implementation
  distribution     dict (input distribution)
  model_error      str or None  (the model could not be evaluated)
"""
import json
import os
import sys
import time
import traceback

import lib


class CorrResult:
    def __init__(self):
        self.cases = 0
        self.nontrivial = 0
        self.rule = ""
        self.samples = []
        self.disagreements = []
        self.failures = []
        self.distribution = {}
        self.model_error = None
        self.notes = []


def known_for(prop):
    kf = lib.load_known_findings()
    return {k["id"]: k for k in kf.get("known", []) if k["property"] == prop}


def _all_theorems(module, listed):
    """the SPEC list, completed with every Theorem / Lemma / Corollary of coq/props/<module>.v that it does not
    name (glue lemmas and tie facts included): all of them go through Print Assumptions"""
    import re as _re
    path = os.path.join(lib.COQ, "props", module + ".v")
    try:
        src = open(path).read()
    except OSError:
        return list(listed)
    src = _re.sub(r"\(\*.*?\*\)", "", src, flags=_re.S)
    found = _re.findall(r"^\s*(?:Theorem|Lemma|Corollary)\s+([A-Za-z_][A-Za-z0-9_']*)", src, flags=_re.M)
    out = list(listed)
    for nm in found:
        if nm not in out:
            out.append(nm)
    return out


def run_property(spec):
    prop = spec["id"]
    t0 = time.time()
    obligations = []      # (kind, name, ok, detail)
    lib.import_luqum()
    # watchdog: a check never hangs; past the limit it reports that it could not conclude
    import signal as _signal

    def _too_long(signum, frame):
        path = lib.write_replay(prop, {"property": prop, "kind": "obligation-no-longer-checks",
                                       "broken_obligations": [["correspondence", "termination of the check",
                                                               "the check did not finish within its time limit "
                                                               "(a call on the implementation or the build hangs)"]]})
        print("VIOLATION property=%s replay=%s no-failing-input-found" % (prop, path), flush=True)
        os._exit(1)
    try:
        _signal.signal(_signal.SIGALRM, _too_long)
        _signal.alarm(int(os.environ.get("VERIF_TIME_LIMIT", "2700" if lib.tier() == "quick" else "14400")))
    except (ValueError, AttributeError):
        pass
    spec = dict(spec)
    spec["theorems"] = _all_theorems(spec["module"], spec["theorems"])
    spec["more"] = [dict(e, theorems=_all_theorems(e["module"], e["theorems"])) for e in spec.get("more", [])]

    # 1. translator + build of the model (always) and of the proofs
    res_model = lib.build(spec.get("model_targets") or None)
    for g, m in res_model.tie_errors:
        obligations.append(("tie", "translator:" + g, False, m))
    if not res_model.tie_errors:
        obligations.append(("tie", "translator", True, "generated files: %s" %
                            (", ".join(res_model.changed) or "unchanged")))
    model_ok = res_model.ok
    if not model_ok:
        obligations.append(("tie", "model-typechecks-against-generated-data", False,
                            res_model.error_text[-1500:]))
    res = lib.build(spec["targets"])
    proofs_ok = res.ok
    obligations.append(("proof", "coqc:" + ",".join(spec["targets"]), proofs_ok,
                        "" if proofs_ok else res.error_text[-1500:]))

    # 2. assumptions
    axioms = {}
    if proofs_ok:
        axioms, out = lib.print_assumptions(spec["module"], spec["theorems"])
        if axioms is None:
            obligations.append(("proof", "print-assumptions", False, out[-1500:]))
            axioms = {}
        else:
            for t in spec["theorems"]:
                bad = [a for a in axioms[t] if a not in lib.ALLOWED_AXIOMS]
                obligations.append(("proof", "theorem:" + t, not bad,
                                    "closed under the global context" if not bad
                                    else "depends on " + ", ".join(bad)))
    # further theorem files of the same property (spec["more"] = [{"module", "target", "theorems"}])
    for extra in spec.get("more", []):
        r2 = lib.build([extra["target"]])
        obligations.append(("proof", "coqc:" + extra["target"], r2.ok, "" if r2.ok else r2.error_text[-1500:]))
        if r2.ok:
            ax2, out2 = lib.print_assumptions(extra["module"], extra["theorems"])
            if ax2 is None:
                obligations.append(("proof", "print-assumptions:" + extra["module"], False, out2[-1500:]))
            else:
                for t in extra["theorems"]:
                    bad = [a for a in ax2[t] if a not in lib.ALLOWED_AXIOMS]
                    axioms[t] = ax2[t]
                    obligations.append(("proof", "theorem:" + t, not bad,
                                        "closed under the global context" if not bad
                                        else "depends on " + ", ".join(bad)))
            if lib.tier() == "thorough":
                ok, summary = lib.coqchk(extra["module"])
                obligations.append(("proof", "coqchk -o " + extra["module"], ok, summary))
    if proofs_ok and lib.tier() == "thorough":
        ok, summary = lib.coqchk(spec["module"])
        obligations.append(("proof", "coqchk -o " + spec["module"], ok, summary))
    bad_tokens = lib.forbidden_tokens(spec["targets"] + [e["target"] for e in spec.get("more", [])])
    obligations.append(("proof", "no-admit-no-axiom-grep", not bad_tokens, "; ".join(bad_tokens)))

    # 3. correspondence + oracle on the implementation
    corr = CorrResult()
    try:
        spec["correspond"](model_ok, corr)
    except Exception:
        corr.model_error = traceback.format_exc()[-3000:]
    if corr.model_error:
        obligations.append(("correspondence", "model-evaluation", False, corr.model_error[-1500:]))
    obligations.append(("correspondence", "model==implementation on %d cases" % corr.cases,
                        not corr.disagreements and not corr.model_error,
                        "" if not corr.disagreements else "%d disagreements, first: %s" % (
                            len(corr.disagreements),
                            json.dumps(corr.disagreements[0], default=repr)[:800])))

    # 4. verdict
    known = known_for(prop)
    lines = []
    violations = 0
    seen_known = set()
    new_failures = []
    for payload, fid in corr.failures:
        if fid is not None and fid in known:
            seen_known.add(fid)
        else:
            new_failures.append(payload)
    for fid in sorted(known):
        if fid in seen_known:
            lines.append("KNOWN-FINDING: property=%s %s" % (prop, known[fid]["what"]))
        else:
            lines.append("NOTE: known finding %s of %s was not reproduced by this run (stale?)"
                         % (fid, prop))
    broken = [o for o in obligations if not o[2]]
    if new_failures:
        # concrete failing inputs on the implementation
        shown = 0
        for payload in new_failures[:3]:
            path = lib.write_replay(prop, {"property": prop, "kind": "failing-input",
                                           "case": payload,
                                           "broken_obligations": [o[:2] + (o[3][:500],) for o in broken]})
            lines.append("VIOLATION property=%s replay=%s" % (prop, path))
            shown += 1
        violations = len(new_failures)
    elif broken:
        path = lib.write_replay(prop, {"property": prop, "kind": "obligation-no-longer-checks",
                                       "broken_obligations": [o[:2] + (o[3][:3000],) for o in broken],
                                       "first_disagreement": corr.disagreements[:1]})
        lines.append("VIOLATION property=%s replay=%s no-failing-input-found" % (prop, path))
        violations = 1

    n_obl = len(obligations)
    n_ok = len([o for o in obligations if o[2]])
    coverage = {
        "obligations": n_obl,
        "discharged": n_ok,
        "checker_cmd": "make -C /verif/coq %s  (coqc 8.16.1, full .vo) ; Print Assumptions %s"
                       % (" ".join(spec["targets"]), " ".join(spec["theorems"])),
        "trusted_base": spec.get("trusted_base", []),
        "obligation_list": [{"kind": k, "name": n, "ok": ok, "detail": d[:300]}
                            for k, n, ok, d in obligations],
        "theorems": {t: ("closed" if not axioms.get(t) else axioms[t])
                     for t in list(spec["theorems"]) + [x for e in spec.get("more", []) for x in e["theorems"]]},
        "evaluations": corr.cases,
        "distinct_nontrivial": corr.nontrivial,
        "rule": corr.rule,
        "samples": corr.samples[:8] or ["(no correspondence sample)"],
        "traces_validated_against_impl": corr.cases,
        "input_distribution": corr.distribution,
        "known_findings_reproduced": sorted(seen_known),
        "statement": spec.get("statement", ""),
        "notes": corr.notes,
    }
    lib.write_evidence(prop, "proof", coverage, spec.get("assumptions", []), violations)
    for l in lines:
        print(l)
    print("%s: %d/%d obligations discharged, %d correspondence cases, %d violations, %.1fs" % (
        prop, n_ok, n_obl, corr.cases, violations, time.time() - t0))
    return 1 if violations else 0
