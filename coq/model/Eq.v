(* Eq.v — Item.__eq__ (generic algorithm driven by the generated _equality_attrs tables) and
   Item.clone_item.  Executable definitions only. *)
Require Import Base Decimal Tree GenTree Visitor.

Inductive attrval := VStr (s : str) | VBool (b : bool) | VDec (d : dec) | VInt (z : Z).

(* getattr(item, a) ; None = attribute absent (getattr(..., _MARKER)) *)
Definition get_attr (t : item) (a : attr) : option attrval :=
  match t, a with
  | Term _ _ v, AValue => Some (VStr v)
  | SearchField _ n _, AName => Some (VStr n)
  | Range _ _ _ il _, AIncludeLow => Some (VBool il)
  | Range _ _ _ _ ih, AIncludeHigh => Some (VBool ih)
  | Fuzzy _ _ d _, ADegree => Some (VDec d)
  | Proximity _ _ d _, ADegree => Some (VInt d)
  | Boost _ _ f _, AForce => Some (VDec f)
  | ORange _ _ _ i, AInclude => Some (VBool i)
  | _, _ => None
  end.

Definition attrval_eqb (a b : attrval) : bool :=
  match a, b with
  | VStr x, VStr y => str_eqb x y
  | VBool x, VBool y => Bool.eqb x y
  | VDec x, VDec y => dec_eqb x y
  | VInt x, VInt y => Z.eqb x y
  | VDec x, VInt y | VInt y, VDec x => dec_eqb x (dec_of_Z y)
  | _, _ => false
  end.

Definition oattrval_eqb (a b : option attrval) : bool :=
  match a, b with
  | None, None => true          (* _MARKER == _MARKER *)
  | Some x, Some y => attrval_eqb x y
  | _, _ => false
  end.

Definition attrs_eqb (a b : item) : bool :=
  forallb (fun at_ => oattrval_eqb (get_attr a at_) (get_attr b at_)) (gen_eq_attrs (cls_of a)).

(* Item.__eq__ *)
Fixpoint item_eqb (a b : item) : bool :=
  cls_eqb (cls_of a) (cls_of b) &&
  Nat.eqb (length (children a)) (length (children b)) &&
  attrs_eqb a b &&
  match a, b with
  | SearchField _ _ e, SearchField _ _ e' | Grp _ _ e, Grp _ _ e' | Boost _ e _ _, Boost _ e' _ _ =>
      item_eqb e e'
  | Fuzzy _ x _ _, Fuzzy _ x' _ _ | Proximity _ x _ _, Proximity _ x' _ _ => item_eqb x x'
  | Unary _ _ x, Unary _ _ x' | ORange _ _ x _, ORange _ _ x' _ => item_eqb x x'
  | Range _ lo hi _ _, Range _ lo' hi' _ _ => item_eqb lo lo' && item_eqb hi hi'
  | Op _ _ ops, Op _ _ ops' =>
      (fix go (l l' : list item) : bool :=
         match l, l' with
         | c :: r, c' :: r' => item_eqb c c' && go r r'
         | _, _ => true           (* zip stops at the shorter list *)
         end) ops ops'
  | _, _ => true
  end.

(* ---------------------------------------------------------------- clone_item *)

Fixpoint mem_attr (a : attr) (l : list attr) : bool :=
  match l with
  | [] => false
  | x :: l' =>
      (match a, x with
       | AValue, AValue | AName, AName | AIncludeLow, AIncludeLow | AIncludeHigh, AIncludeHigh
       | ADegree, ADegree | AForce, AForce | AInclude, AInclude => true
       | _, _ => false
       end) || mem_attr a l'
  end.

Definition none_item : item := NoneItem meta0.

(* layout is copied, the attached name is not (it is not an __init__ argument) *)
Definition clone_meta (m : meta) : meta := mkMeta (m_pos m) (m_size m) (m_head m) (m_tail m) None.

(* Item.clone_item(): cls(pos, size, head, tail, <equality attrs>, <children attrs> = NONE_ITEM);
   BaseApprox / Boost override _clone_item to pass degree=None / force=None when the value is implicit.
   An attribute missing from _equality_attrs falls back to the __init__ default; None models the
   TypeError of a missing required argument. *)
Definition clone_item (t : item) : option item :=
  let attrs := gen_eq_attrs (cls_of t) in
  let m' := clone_meta (meta_of t) in
  match t with
  | Term k _ v => if mem_attr AValue attrs then Some (Term k m' v) else None
  | SearchField _ n _ => if mem_attr AName attrs then Some (SearchField m' n none_item) else None
  | Grp k _ _ => Some (Grp k m' none_item)
  | Range _ _ _ il ih =>
      Some (Range m' none_item none_item
              (if mem_attr AIncludeLow attrs then il else true)
              (if mem_attr AIncludeHigh attrs then ih else true))
  | Fuzzy _ _ d impl =>
      (* an implicit degree is passed as None (stays implicit, default recomputed); an explicit one
         is passed as it is *)
      if impl || negb (mem_attr ADegree attrs) then Some (Fuzzy m' none_item dec_half true)
      else Some (Fuzzy m' none_item d false)
  | Proximity _ _ d impl =>
      if impl || negb (mem_attr ADegree attrs) then Some (Proximity m' none_item 1%Z true)
      else Some (Proximity m' none_item d false)
  | Boost _ _ f impl =>
      if impl then Some (Boost m' none_item dec_one true)
      else if mem_attr AForce attrs then Some (Boost m' none_item (dec_normalize f) false) else None
  | Op k _ _ => Some (Op k m' [])
  | Unary k _ _ => Some (Unary k m' none_item)
  | ORange k _ _ i => Some (ORange k m' none_item (if mem_attr AInclude attrs then i else true))
  | NoneItem _ => Some (NoneItem m')
  end.
