(* C03d — clause (c) of C03 ("the tree is the one the documented grammar dictates"), what C03c.v left
   out.  Only statements, short glue, non-vacuity examples, Print Assumptions.
   Lemmas: proofs/GrammarMoreProofs.v (symbolic execution of the LR driver on the generated tables;
   every table entry used is a closed fact re-computed at each build).

   The syntax trees `qtree` are those of C03c (`ptree`, embedded by `emb`) plus bracketed ranges:

     query   := query orx | orx            orx := orx OR andx | andx        andx := andx AND operand | operand
     operand := NOT operand | + operand | - operand | TERM : operand | postfix
     postfix := postfix ^force | TERM | PHRASE | REGEX | TERM~d | PHRASE~n | ( query ) | TO
              | < value | <= value | > value | >= value
              | [ bound TO bound ]   with `[`/`{` and `]`/`}` in any combination
     bound   := value | - value            value := TERM | PHRASE        (a number and `*` are TERMs)

   `wfs` = the level discipline above and "numerals after ~ ^ are numbers"; NO restriction on signs.
   `f4free` = THE guard (it is the complement of finding F4's predicate, C03d_guard_is_f4_complement):
       in `query orx`, if orx begins with + - or the word TO, the operand just before it is not an
       AND / OR operation.

   Clause -> statement
     (c) for every yield of a syntax tree, ranges included, signed operands in juxtaposition
         included, any depth, any layout                         C03d_grammar_trees        (token lists)
                                                                 C03d_grammar_trees_parse  (strings)
         the dictated tree, explicitly                           C03d_grammar_trees_value
         this extends C03c_grammar_trees                         C03d_extends_C03c
     what the tables do with + - TO after an expression          C03d_sign_table_facts
     the guard cannot be dropped (F4)                            C03d_unguarded_refuted
     the guard is exactly the complement of F4's predicate       C03d_guard_is_f4_complement
     the reference parser itself needs no guard                  C03d_spec_total
     the trees are ALL the queries of the documented grammar     C03d_trees_are_the_grammar
   the CONVERSE (C03c left it to the exhaustive comparison of harness/c03.py):
     accepted => derivable from `expression` by the generated productions, the returned tree being
     the semantic value of the derivation                        C03d_accepted_derivable
     accepted => a yield of the documented grammar               C03d_accepted_is_query
     not a query of the documented grammar => ParseError          C03d_rejects_non_queries
   and all of it together, clause (c) AS STATED IN C03.v (`C03_grammar_statement`) for every input
   outside F4's class                                            C03d_grammar_outside_f4 *)
Require Import Base Decimal Tree GenTree GenParser Lexer Print Actions LR Parser Erase Grammar.
Require Import TreeEq LayoutProofs LRTyping PrecedenceProofs PrecedenceGeneral GrammarMoreProofs.

(* ---- the statement on token lists (what `parse` runs after the lexer), any layout, any ghost prefix *)
Definition C03d_grammar_trees_statement : Prop :=
  forall p toks ev0, wfs p = true -> f4free p = true -> map tok_key toks = map tok_key (flq p) ->
    exists t evs,
      run gen_tables None (parse_fuel toks) (init_config toks ev0) = Done (Ok t) evs /\
      spec_parse (map tok_key toks) = Some (erase t).

Theorem C03d_grammar_trees : C03d_grammar_trees_statement.
Proof.
  intros p toks ev0 W F Hk. destruct (more_core_keys toks ev0 p W F Hk) as [t [evs [Hr [Hs _]]]].
  exists t, evs. split; assumption.
Qed.

(* ---- on strings, in the form of C03_grammar_statement *)
Definition C03d_grammar_trees_parse_statement : Prop :=
  forall s p, snd (lex s) = None -> wfs p = true -> f4free p = true ->
    map tok_key (fst (lex s)) = map tok_key (flq p) ->
    exists t, parse s = Some (Ok t) /\ spec_parse (map tok_key (fst (lex s))) = Some (erase t) /\
              erase t = valq p.

Theorem C03d_grammar_trees_parse : C03d_grammar_trees_parse_statement.
Proof.
  intros s p He W F Hk. unfold parse, parse_full, parse_with.
  destruct (lex s) as [toks e]. simpl in He, Hk. subst e.
  destruct (more_core_keys toks (match toks with [] => [GDrop s] | _ => [] end) p W F Hk) as [t [evs [Hr Hs]]].
  rewrite Hr. exists t. split; [reflexivity|exact Hs].
Qed.

(* ---- the dictated tree, explicitly *)
Definition C03d_grammar_trees_value_statement : Prop :=
  forall p ev0, wfs p = true -> f4free p = true ->
    exists t evs,
      run gen_tables None (parse_fuel (flq p)) (init_config (flq p) ev0) = Done (Ok t) evs /\ erase t = valq p.

Theorem C03d_grammar_trees_value : C03d_grammar_trees_value_statement.
Proof.
  intros p ev0 W F. destruct (more_core p ev0 W F) as [t [evs [Hr [_ Hv]]]]. exists t, evs. split; assumption.
Qed.

(* ---- every tree of C03c is one of these, with the same yield and the same dictated tree, and C03c's
   restriction ("a signed phrase never follows by juxtaposition") implies the guard *)
Definition C03d_extends_C03c_statement : Prop :=
  forall p, wfb p = true ->
    wfs (emb p) = true /\ f4free (emb p) = true /\ flq (emb p) = fl p /\ valq (emb p) = val p.

Theorem C03d_extends_C03c : C03d_extends_C03c_statement.
Proof.
  intros p W. split; [apply emb_wfs; exact W|]. split; [apply emb_f4free; exact W|].
  split; [apply emb_fl|apply emb_val].
Qed.

(* ---- the reference parser reads every yield, guard or not: the guard is about the LR tables only *)
Definition C03d_spec_total_statement : Prop :=
  forall p, wfs p = true -> spec_parse (map tok_key (flq p)) = Some (valq p).

Theorem C03d_spec_total : C03d_spec_total_statement.
Proof. exact qp_query. Qed.

(* ---- what the generated tables do on + - TO after a complete expression: in `E E .` they shift
   (harmless: the implicit operation nests to the right and create_operation flattens it), in
   `E OR E .` and `E AND E .` they shift too (F4: the juxtaposition binds tighter than OR / AND);
   on every other token that may follow, these states reduce *)
Definition C03d_sign_table_facts_statement : Prop :=
  (forall la, In la SG ->
     (exists n, gen_action (gotoE SOR) la = Shift n) /\ (exists n, gen_action (gotoE SAND) la = Shift n) /\
     (exists n, gen_action S14 la = Shift n)) /\
  (forall la, In la K1 -> exists p, gen_action S14 la = Reduce (S p) /\
     nth_error gen_prods p = Some (N_expression, [SN N_expression; SN N_expression], A_expression_implicit)) /\
  (forall la, In la K2 -> exists p, gen_action (gotoE SOR) la = Reduce (S p) /\
     nth_error gen_prods p = Some (N_expression, [SN N_expression; ST T_OR_OP; SN N_expression], A_expression_or)) /\
  (forall la, In la K3 -> exists p, gen_action (gotoE SAND) la = Reduce (S p) /\
     nth_error gen_prods p = Some (N_expression, [SN N_expression; ST T_AND_OP; SN N_expression], A_expression_and)).

Theorem C03d_sign_table_facts : C03d_sign_table_facts_statement.
Proof.
  split; [exact Q_f4_shifts|]. split; [|split].
  - intros la H. destruct (Q_j S0) as [_ [_ [_ Hr]]]; [unfold RC, XCO; simpl; auto|]. exact (Hr la H).
  - intros la H. destruct (Q_or S0) as [_ Hr]; [unfold XCOs, XCO; simpl; auto|]. exact (Hr la H).
  - intros la H. destruct (Q_and S0) as [_ Hr]; [unfold XCAs, XCA; simpl; auto|]. exact (Hr la H).
Qed.

(* f:[a TO "b c"}^2 AND NOT {-1 TO *] (x OR [* TO -"q"]) g:(+{2 TO 3}^4)   [37 tokens: TERM COLUMN LBRACKET TERM TO PHRASE RBRACKET BOOST AND_OP NOT LBRACKET MINUS TERM TO TERM RBRACKET LPAREN TERM OR_OP LBRACKET TERM TO MINUS PHRASE RBRACKET RPAREN TERM COLUMN LPAREN PLUS LBRACKET TERM TO TERM RBRACKET BOOST RPAREN] *)
Definition ex_rng : str := [102;58;91;97;32;84;79;32;34;98;32;99;34;125;94;50;32;65;78;68;32;78;79;84;32;123;45;49;32;84;79;32;42;93;32;40;120;32;79;82;32;91;42;32;84;79;32;45;34;113;34;93;41;32;103;58;40;43;123;50;32;84;79;32;51;125;94;52;41]%N.
Definition ex_rng_tree : qtree :=
  let k i := nth i (fst (lex ex_rng)) (mkTok T_EOF [] 0 [] []) in
  (QJuxt (QJuxt (QAnd (QField (k 0) (k 1) (QBoost (QRange (k 2) (BVal (k 3)) (k 4) (BVal (k 5)) (k 6)) (k 7))) (k 8) (QNot (k 9) (QRange (k 10) (BNeg (k 11) (k 12)) (k 13) (BVal (k 14)) (k 15)))) (QGroup (k 16) (QOr (QAtom (k 17)) (k 18) (QRange (k 19) (BVal (k 20)) (k 21) (BNeg (k 22) (k 23)) (k 24))) (k 25))) (QField (k 26) (k 27) (QGroup (k 28) (QSign (k 29) (QBoost (QRange (k 30) (BVal (k 31)) (k 32) (BVal (k 33)) (k 34)) (k 35))) (k 36)))).
(* luqum: UnknownOperation(AndOperation(SearchField('f', Boost(Range(Word('a'), Phrase('"b c"')), 2)), Not(Range(Prohibit(Word('1')), Word('*')))), Group(OrOperation(Word('x'), Range(Word('*'), Prohibit(Phrase('"q"'))))), SearchField('g', FieldGroup(Plus(Boost(Range(Word('2'), Word('3')), 4))))) *)
(* a -b +c d AND e f -g OR h (i -j TO) NOT k -l m:n -[1 TO 2]   [32 tokens: TERM MINUS TERM PLUS TERM TERM AND_OP TERM TERM MINUS TERM OR_OP TERM LPAREN TERM MINUS TERM TO RPAREN NOT TERM MINUS TERM TERM COLUMN TERM MINUS LBRACKET TERM TO TERM RBRACKET] *)
Definition ex_sgn : str := [97;32;45;98;32;43;99;32;100;32;65;78;68;32;101;32;102;32;45;103;32;79;82;32;104;32;40;105;32;45;106;32;84;79;41;32;78;79;84;32;107;32;45;108;32;109;58;110;32;45;91;49;32;84;79;32;50;93]%N.
Definition ex_sgn_tree : qtree :=
  let k i := nth i (fst (lex ex_sgn)) (mkTok T_EOF [] 0 [] []) in
  (QJuxt (QJuxt (QJuxt (QJuxt (QJuxt (QJuxt (QJuxt (QJuxt (QJuxt (QJuxt (QAtom (k 0)) (QSign (k 1) (QAtom (k 2)))) (QSign (k 3) (QAtom (k 4)))) (QAnd (QAtom (k 5)) (k 6) (QAtom (k 7)))) (QAtom (k 8))) (QOr (QSign (k 9) (QAtom (k 10))) (k 11) (QAtom (k 12)))) (QGroup (k 13) (QJuxt (QJuxt (QAtom (k 14)) (QSign (k 15) (QAtom (k 16)))) (QTo (k 17))) (k 18))) (QNot (k 19) (QAtom (k 20)))) (QSign (k 21) (QAtom (k 22)))) (QField (k 23) (k 24) (QAtom (k 25)))) (QSign (k 26) (QRange (k 27) (BVal (k 28)) (k 29) (BVal (k 30)) (k 31)))).
(* luqum: UnknownOperation(Word('a'), Prohibit(Word('b')), Plus(Word('c')), AndOperation(Word('d'), Word('e')), Word('f'), OrOperation(Prohibit(Word('g')), Word('h')), Group(UnknownOperation(Word('i'), Prohibit(Word('j')), Word('TO'))), Not(Word('k')), Prohibit(Word('l')), SearchField('m', Word('n')), Prohibit(Range(Word('1'), Word('2')))) *)

(* ---- non-vacuity (1): ranges with every bracket combination and every bound form, boosted, inside a
   field, a field group, a group, under NOT and +, as AND / OR / juxtaposition operands *)
Example C03d_ranges_nonvacuous :
  snd (lex ex_rng) = None /\ wfs ex_rng_tree = true /\ f4free ex_rng_tree = true /\
  flq ex_rng_tree = fst (lex ex_rng) /\ length (fst (lex ex_rng)) = 37.
Proof.
  split; [vm_compute; reflexivity|]. split; [vm_compute; reflexivity|]. split; [vm_compute; reflexivity|].
  split; vm_compute; reflexivity.
Qed.

Example C03d_ranges_nonvacuous_result :
  exists t, parse ex_rng = Some (Ok t) /\ erase t = valq ex_rng_tree /\
            spec_parse (map tok_key (fst (lex ex_rng))) = Some (erase t) /\
            (* f:[a TO "b c"}^2 AND NOT {-1 TO *]   is the first operand *)
            match erase t with
            | Op KUnknown _ (Op KAnd _ [SearchField _ _ (Boost _ (Range _ _ _ true false) _ _);
                                        Unary KNot _ (Range _ (Unary KProhibit _ _) _ false true)] :: _) => True
            | _ => False
            end.
Proof. eexists. split; [vm_compute; reflexivity|]. split; [vm_compute; reflexivity|]. split; vm_compute; [reflexivity|exact I]. Qed.

(* ---- non-vacuity (2): signed operands in juxtaposition, everywhere the guard allows them: after an
   atom, after another signed operand, after NOT x, after a field, starting an OR chain, inside a
   group, TO as a word, a signed range *)
Example C03d_signs_nonvacuous :
  snd (lex ex_sgn) = None /\ wfs ex_sgn_tree = true /\ f4free ex_sgn_tree = true /\
  flq ex_sgn_tree = fst (lex ex_sgn) /\ length (fst (lex ex_sgn)) = 32.
Proof.
  split; [vm_compute; reflexivity|]. split; [vm_compute; reflexivity|]. split; [vm_compute; reflexivity|].
  split; vm_compute; reflexivity.
Qed.

Example C03d_signs_nonvacuous_result :
  exists t, parse ex_sgn = Some (Ok t) /\ erase t = valq ex_sgn_tree /\
            spec_parse (map tok_key (fst (lex ex_sgn))) = Some (erase t) /\
            f4_input (map tok_key (fst (lex ex_sgn))) = false /\
            match erase t with Op KUnknown _ l => length l = 11 | _ => False end.
Proof.
  eexists. split; [vm_compute; reflexivity|]. split; [vm_compute; reflexivity|].
  split; [vm_compute; reflexivity|]. split; vm_compute; reflexivity.
Qed.

(* C03c's class did not contain it: a signed operand in juxtaposition is refused by `wfb` whatever the
   shape, e.g. `a -b` *)
Example C03d_beyond_C03c :
  let k i := nth i (fst (lex [97;32;45;98]%N)) (mkTok T_EOF [] 0 [] []) in
  wfb (PJuxt (PAtom (k 0)) (PSign (k 1) (PAtom (k 2)))) = false /\
  wfs (QJuxt (QAtom (k 0)) (QSign (k 1) (QAtom (k 2)))) = true /\
  f4free (QJuxt (QAtom (k 0)) (QSign (k 1) (QAtom (k 2)))) = true.
Proof. repeat split; vm_compute; reflexivity. Qed.

(* ---- the guard cannot be dropped: `a AND b -c` is the yield of a well-formed tree, the reference
   parser reads it as (a AND b) -c, the driver returns a AND (b -c)  — finding F4 *)
Definition f4_str : str := [97;32;65;78;68;32;98;32;45;99]%N.
Definition f4_tree : qtree :=
  let k i := nth i (fst (lex f4_str)) (mkTok T_EOF [] 0 [] []) in
  QJuxt (QAnd (QAtom (k 0)) (k 1) (QAtom (k 2))) (QSign (k 3) (QAtom (k 4))).

Definition C03d_unguarded_statement : Prop :=
  forall p toks ev0, wfs p = true -> map tok_key toks = map tok_key (flq p) ->
    exists t evs,
      run gen_tables None (parse_fuel toks) (init_config toks ev0) = Done (Ok t) evs /\
      spec_parse (map tok_key toks) = Some (erase t).

Theorem C03d_unguarded_refuted : ~ C03d_unguarded_statement.
Proof.
  intros H. destruct (H f4_tree (flq f4_tree) [] eq_refl eq_refl) as [t [evs [Hr Hs]]].
  vm_compute in Hr. inversion Hr; subst. vm_compute in Hs. discriminate.
Qed.

Example C03d_f4_guard_false :
  wfs f4_tree = true /\ f4free f4_tree = false /\ flq f4_tree = fst (lex f4_str) /\
  f4_input (map tok_key (fst (lex f4_str))) = true.
Proof. repeat split; vm_compute; reflexivity. Qed.

(* the same with OR, +, the word TO, and one level down in a group: each has guard false and the two
   readings differ; and the harmless relatives `a b -c`, `-a -b`, `NOT a -b` have guard true *)
Definition agree (s : str) : bool :=
  match parse s, spec_parse (map tok_key (fst (lex s))) with
  | Some (Ok t), Some u => item_beq (erase t) u
  | _, _ => false
  end.
Example C03d_f4_relatives :
  map (fun s => (agree s, f4_input (map tok_key (fst (lex s)))))
      [ [97;32;79;82;32;98;32;45;99]%N;                 (* a OR b -c *)
        [97;32;65;78;68;32;98;32;43;99]%N;              (* a AND b +c *)
        [97;32;79;82;32;98;32;84;79]%N;                 (* a OR b TO *)
        [40;97;32;65;78;68;32;98;32;45;99;41;32;100]%N; (* (a AND b -c) d *)
        [97;32;98;32;45;99]%N;                          (* a b -c *)
        [45;97;32;45;98]%N;                             (* -a -b *)
        [78;79;84;32;97;32;45;98]%N;                    (* NOT a -b *)
        [97;32;65;78;68;32;98;32;99;32;45;100]%N ]      (* a AND b c -d *)
  = [(false, true); (false, true); (false, true); (false, true);
     (true, false); (true, false); (true, false); (true, false)].
Proof. vm_compute. reflexivity. Qed.

(* ---- the guard is the complement of F4's executable predicate (`Grammar.f4_input`, the one
   harness/c03.py classifies failures with), for tokens as the lexer makes them (`lexok`: the word TO is
   a T_TO token and no T_TERM spells TO — `lex_tokok` shows the lexer guarantees it) *)
Definition C03d_guard_is_f4_complement_statement : Prop :=
  forall p, wfs p = true -> lexok p = true -> f4_input (map tok_key (flq p)) = negb (f4free p).

Theorem C03d_guard_is_f4_complement : C03d_guard_is_f4_complement_statement.
Proof. exact f4free_iff_no_f4. Qed.

Example C03d_guard_complement_nonvacuous :
  lexok ex_sgn_tree = true /\ lexok f4_tree = true /\ lexok ex_rng_tree = true /\
  forallb tokok (fst (lex ex_sgn)) = true.
Proof. repeat split; vm_compute; reflexivity. Qed.

(* ---- `qtree` + `wfs` is not a sub-class: every query the reference parser accepts is the yield of a
   well-formed tree, with that dictated tree *)
Definition C03d_trees_are_the_grammar_statement : Prop :=
  forall ks u, spec_parse ks = Some u -> exists p, wfs p = true /\ map tok_key (flq p) = ks /\ valq p = u.

Theorem C03d_trees_are_the_grammar : C03d_trees_are_the_grammar_statement.
Proof. exact spec_is_tree. Qed.

Example C03d_trees_are_the_grammar_nonvacuous :
  exists u, spec_parse (map tok_key (fst (lex ex_rng))) = Some u /\
            match u with Op KUnknown _ l => length l = 3 | _ => False end.
Proof. eexists. split; vm_compute; reflexivity. Qed.

(* ================================================================ the converse *)
(* ---- accepted => derivable in the PLY grammar; the tree is the value of the derivation *)
Definition C03d_accepted_derivable_statement : Prop :=
  forall s t, snd (lex s) = None -> parse s = Some (Ok t) ->
    deriv (SN N_expression) (fst (lex s)) (VItem t).

Theorem C03d_accepted_derivable : C03d_accepted_derivable_statement.
Proof.
  intros s t He Hp. pose proof (lex_no_eof s) as Hne.
  unfold parse, parse_full, parse_with in Hp. destruct (lex s) as [toks le]. simpl in *. subst le.
  destruct (run gen_tables None (parse_fuel toks) _) as [r evs|] eqn:Hr; [|discriminate].
  inversion Hp; subst. exact (accepted_derivable _ _ _ _ _ Hne Hr).
Qed.

(* ---- accepted => a yield of the documented grammar *)
Definition C03d_accepted_is_query_statement : Prop :=
  forall s t, snd (lex s) = None -> parse s = Some (Ok t) ->
    exists p, wfs p = true /\ flq p = fst (lex s).

Theorem C03d_accepted_is_query : C03d_accepted_is_query_statement.
Proof. intros s t He Hp. eapply derivable_in_grammar. exact (C03d_accepted_derivable s t He Hp). Qed.

Example C03d_accepted_nonvacuous :
  exists t, snd (lex ex_sgn) = None /\ parse ex_sgn = Some (Ok t) /\
            deriv (SN N_expression) (fst (lex ex_sgn)) (VItem t).
Proof.
  eexists. split; [vm_compute; reflexivity|].
  assert (H : parse ex_sgn = Some (Ok _)) by (vm_compute; reflexivity).
  split; [exact H|]. apply C03d_accepted_derivable; [vm_compute; reflexivity|exact H].
Qed.

(* ---- what the documented grammar does not derive is rejected with a ParseError *)
Definition C03d_rejects_non_queries_statement : Prop :=
  forall s, snd (lex s) = None -> spec_parse (map tok_key (fst (lex s))) = None ->
    exists e, parse s = Some (Err e) /\ match e with EOther _ => False | _ => True end.

Theorem C03d_rejects_non_queries : C03d_rejects_non_queries_statement.
Proof. exact non_query_rejected. Qed.

(* `a AND`, `[a TO`, `a~2~` and `(a OR b` are not queries *)
Example C03d_rejects_nonvacuous :
  map (fun s => (match snd (lex s) with None => true | _ => false end,
                 match spec_parse (map tok_key (fst (lex s))) with None => true | _ => false end,
                 match parse s with Some (Err (ESyntax _)) => true | _ => false end))
      [ [97;32;65;78;68]%N; [91;97;32;84;79]%N; [97;126;50;126]%N; [40;97;32;79;82;32;98]%N ]
  = [(true, true, true); (true, true, true); (true, true, true); (true, true, true)].
Proof. vm_compute. reflexivity. Qed.

(* ================================================================ clause (c) as C03.v states it, outside F4 *)
Definition C03d_grammar_outside_f4_statement : Prop :=
  forall s, snd (lex s) = None -> f4_input (map tok_key (fst (lex s))) = false ->
    match parse s with
    | Some (Ok t) => spec_parse (map tok_key (fst (lex s))) = Some (erase t)
    | Some (Err _) => spec_parse (map tok_key (fst (lex s))) = None
    | None => False
    end.

Theorem C03d_grammar_outside_f4 : C03d_grammar_outside_f4_statement.
Proof. exact grammar_outside_f4_parse. Qed.

(* it is C03_grammar_statement with the one extra hypothesis; the hypothesis holds of the examples
   above and fails of the F4 witness *)
Example C03d_outside_f4_nonvacuous :
  map (fun s => f4_input (map tok_key (fst (lex s)))) [ex_rng; ex_sgn; f4_str] = [false; false; true].
Proof. vm_compute. reflexivity. Qed.

Print Assumptions C03d_grammar_trees.
Print Assumptions C03d_grammar_trees_parse.
Print Assumptions C03d_grammar_trees_value.
Print Assumptions C03d_extends_C03c.
Print Assumptions C03d_spec_total.
Print Assumptions C03d_sign_table_facts.
Print Assumptions C03d_unguarded_refuted.
Print Assumptions C03d_guard_is_f4_complement.
Print Assumptions C03d_trees_are_the_grammar.
Print Assumptions C03d_accepted_derivable.
Print Assumptions C03d_accepted_is_query.
Print Assumptions C03d_rejects_non_queries.
Print Assumptions C03d_grammar_outside_f4.
