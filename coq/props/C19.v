(* C19 — schema-derived options make the builder nest and type each mapped field right.

   Clauses of the property text -> statements
     "querying any mapped leaf field by its full dotted path - or by the equivalent chain of nested
      field:( ) groups - yields a clause on that full path which is term-level exactly when the field's
      mapped type is not analysed text, wrapped in a nested clause on the field's innermost nested
      ancestor exactly when it has one"
         C19_query_statement            exact JSON, both spellings            REFUTED (F12; also F12b, F12c)
         C19_typing_statement           path + term-level clause only         REFUTED (F12b)
         C19_nesting_statement          nested wrapper only                   REFUTED (F12)
         C19_nesting_registered_statement   nested wrapper, under the structural F12 guard anchor_registered
                                                                               REFUTED (F12c: two document types)
         C19_query_partial_statement    the SAME exact statement under executable guards       proved
                                        (coherent, walk_sane, subfield_ok = F12b guard, anchor_survives = F12/F12c guard)
         C19_nesting_partial_statement  the nested wrapper, under walk_sane + anchor_survives   proved
         C19_builder_side_statement     what the builder does with options m  proved (both spellings)
         C19_spellings_agree_statement  dotted and chain spelling agree       proved
         C19_typing_partial_statement   typing clause for mapped leaves (resolve), wf + coherent + F12b guard   proved
         C19_typing_walk_partial_statement   typing clause, on the fields of the walk, coherent descriptions
         C19_subfield_typing_partial_statement   same for multi-fields under the F12b guard
     "Spellings of a field specification that denote the same set of fields configure identical behaviour"
         C19_nested_spellings_statement, C19_object_spellings_statement       proved (derived sets)
   Schema-side lemmas: C19_not_analyzed_fields_statement, C19_object_fields_statement,
   C19_nested_fields_statement (what the cumulated-key construction of nested_fields() computes). *)
Require Import Base Decimal Tree Json EsSpecs EsCheck EsBuild Schema SchemaSpec TreeInd SchemaProofs.

(* ================================================================ the builder fed with options m *)
(* For ANY index description (no hypothesis on it): the outcome of a query on the dot-free path `comps`,
   in either spelling, is decided by three things computed from query_builder_options():
   whether the dotted name is a nested / object prefix (then NestedSearchFieldException), the longest
   dotted prefix of the name that is in the builder's nested prefix set (the nested wrapper), and whether
   the dotted name is listed in not_analyzed_fields (term / match). *)
Definition C19_builder_side_statement : Prop :=
  forall s comps x t,
    comps <> [] -> forallb nodot comps = true -> has_wildcard x = false -> spelling comps x t ->
    build (options s) t =
    if refused s comps then RExc XNested
    else ROk (wrap_nested (nested_anchor s comps)
                          (clause (dotted comps) (mem_str (dotted comps) (not_analyzed_fields s)) x)).
Theorem C19_builder_side : C19_builder_side_statement.
Proof. exact build_options. Qed.

(* the two spellings of a path give the same outcome, for any builder options without field_options *)
Definition C19_spellings_agree_statement : Prop :=
  forall cfg cs x t mf mw,
    c_field_options cfg = [] -> c_match_word_as_phrase cfg = false -> has_wildcard x = false ->
    m_name mf = None -> m_name mw = None ->
    cs <> [] -> forallb nodot cs = true -> chain cs x t ->
    build cfg t = build cfg (SearchField mf (dotted cs) (Term KWord mw x)).
Theorem C19_spellings_agree : C19_spellings_agree_statement.
Proof. exact spellings_agree. Qed.

(* ================================================================ the property at full strength *)
Definition C19_query_statement : Prop :=
  forall s comps d anc x t,
    wf_schema s = true -> mapped_leaf s comps d anc -> has_wildcard x = false -> spelling comps x t ->
    build (options s) t = ROk (expected_json comps d anc x).

(* only "a clause on the full path, term-level iff not analysed text" *)
Definition C19_typing_statement : Prop :=
  forall s comps d anc x t j,
    wf_schema s = true -> mapped_leaf s comps d anc -> has_wildcard x = false -> spelling comps x t ->
    build (options s) t = ROk j ->
    exists p, j = wrap_nested p (clause (dotted comps) (negb (analysed_text d)) x).

(* only "wrapped in nested{path P} iff P is the innermost nested ancestor" *)
Definition C19_nesting_statement : Prop :=
  forall s comps d anc x t j,
    wf_schema s = true -> mapped_leaf s comps d anc -> has_wildcard x = false -> spelling comps x t ->
    build (options s) t = ROk j ->
    exists b, j = wrap_nested (innermost_nested_ancestor anc) (clause (dotted comps) b x).

(* ---- witnesses (generated by harness/c19.py g_schema from the Python dicts; replayed on the real code) *)
(* F12: n1 (nested) -> o (object) -> { g: keyword, n2 (nested) -> h: text } ; n1.o.g:x gives a bare term *)
Definition w_f12 : schema :=
  (mkSchema None (mkMappings (Some [([110;49]%N, (FDef (Some ([110;101;115;116;101;100]%N : str)) None [] [([111]%N, (FDef (Some ([111;98;106;101;99;116]%N : str)) None [] [([103]%N, (FDef (Some ([107;101;121;119;111;114;100]%N : str)) None [] [])); ([110;50]%N, (FDef (Some ([110;101;115;116;101;100]%N : str)) None [] [([104]%N, (FDef (Some ([116;101;120;116]%N : str)) None [] []))]))]))]))]) [])).
Definition c_f12 : list str := [[110;49]%N; [111]%N; [103]%N].                 (* n1.o.g *)
(* F12b: legacy city: string, not_analyzed, fields {an: string} ; city.an:x gives a term although the
   sub-field is an analysed string *)
Definition w_f12b : schema :=
  (mkSchema None (mkMappings None [([100]%N, (Some [([99;105;116;121]%N, (FDef (Some ([115;116;114;105;110;103]%N : str)) (Some ([110;111;116;95;97;110;97;108;121;122;101;100]%N : str)) [([97;110]%N, (FDef (Some ([115;116;114;105;110;103]%N : str)) None [] []))] []))]))])).
Definition c_f12b : list str := [[99;105;116;121]%N; [97;110]%N].              (* city.an *)
(* F12c: two document types; the second re-declares the nested field n1.n2 without properties, which wipes
   the children recorded for it: n1.n2.h:x is wrapped in nested{path n1} instead of n1.n2 *)
Definition w_f12c : schema :=
  (mkSchema None (mkMappings None [([100;49]%N, (Some [([110;49]%N, (FDef (Some ([110;101;115;116;101;100]%N : str)) None [] [([110;50]%N, (FDef (Some ([110;101;115;116;101;100]%N : str)) None [] [([104]%N, (FDef (Some ([116;101;120;116]%N : str)) None [] []))]))]))])); ([100;50]%N, (Some [([110;49]%N, (FDef (Some ([110;101;115;116;101;100]%N : str)) None [] [([110;50]%N, (FDef (Some ([110;101;115;116;101;100]%N : str)) None [] []))]))]))])).
Definition c_f12c : list str := [[110;49]%N; [110;50]%N; [104]%N].             (* n1.n2.h *)
(* a well-behaved description: n1 (nested) -> { o (object) -> h: keyword, t: text with fields raw: keyword },
   title: text *)
Definition g_simple : schema :=
  (mkSchema None (mkMappings (Some [([110;49]%N, (FDef (Some ([110;101;115;116;101;100]%N : str)) None [] [([111]%N, (FDef (Some ([111;98;106;101;99;116]%N : str)) None [] [([104]%N, (FDef (Some ([107;101;121;119;111;114;100]%N : str)) None [] []))])); ([116]%N, (FDef (Some ([116;101;120;116]%N : str)) None [([114;97;119]%N, (FDef (Some ([107;101;121;119;111;114;100]%N : str)) None [] []))] []))])); ([116;105;116;108;101]%N, (FDef (Some ([116;101;120;116]%N : str)) None [] []))]) [])).
Definition c_noh : list str := [[110;49]%N; [111]%N; [104]%N].                 (* n1.o.h *)
Definition c_ntraw : list str := [[110;49]%N; [116]%N; [114;97;119]%N].        (* n1.t.raw *)
Definition c_title : list str := [[116;105;116;108;101]%N].                    (* title *)
Definition w_x : str := [120]%N.

Definition dotted_q (comps : list str) (x : str) : item := SearchField meta0 (dotted comps) (Term KWord meta0 x).
Fixpoint chain_q (comps : list str) (x : str) : item :=
  match comps with
  | [] => Term KWord meta0 x
  | [c] => SearchField meta0 c (Term KWord meta0 x)
  | c :: cs => SearchField meta0 c (Grp KFieldGroup meta0 (chain_q cs x))
  end.

Lemma dotted_q_spelling comps x : spelling comps x (dotted_q comps x).
Proof. left. exists meta0, meta0. repeat split. Qed.

(* the leaf of the first document type *)
Definition resolved (s : schema) (comps : list str) : option (fdef * list (str * fdef)) :=
  match doc_props s with p :: _ => resolve p [] comps | [] => None end.
Lemma resolved_mapped s comps d anc :
  resolved s comps = Some (d, anc) -> is_leaf_def d = true -> mapped_leaf s comps d anc.
Proof.
  unfold resolved. destruct (doc_props s) as [|p l] eqn:E; [discriminate|]. intros H Hl.
  exists p. split; [rewrite E; left; reflexivity|]. split; assumption.
Qed.

Theorem C19_query_refuted : ~ C19_query_statement.
Proof.
  intros H.
  destruct (resolved w_f12 c_f12) as [[d anc]|] eqn:E; [|vm_compute in E; discriminate E].
  assert (Hl : is_leaf_def d = true) by (vm_compute in E; injection E as <- <-; reflexivity).
  specialize (H w_f12 c_f12 d anc w_x (dotted_q c_f12 w_x) eq_refl (resolved_mapped _ _ _ _ E Hl) eq_refl
                (dotted_q_spelling _ _)).
  vm_compute in E. injection E as <- <-. vm_compute in H. discriminate H.
Qed.

Theorem C19_nesting_refuted : ~ C19_nesting_statement.
Proof.
  intros H.
  destruct (resolved w_f12 c_f12) as [[d anc]|] eqn:E; [|vm_compute in E; discriminate E].
  assert (Hl : is_leaf_def d = true) by (vm_compute in E; injection E as <- <-; reflexivity).
  destruct (build (options w_f12) (dotted_q c_f12 w_x)) as [j|e] eqn:Eb; [|vm_compute in Eb; discriminate Eb].
  destruct (H w_f12 c_f12 d anc w_x (dotted_q c_f12 w_x) j eq_refl (resolved_mapped _ _ _ _ E Hl) eq_refl
              (dotted_q_spelling _ _) Eb) as [b Hj].
  vm_compute in E. injection E as <- <-. vm_compute in Eb. injection Eb as <-.
  destruct b; vm_compute in Hj; discriminate Hj.
Qed.

Theorem C19_typing_refuted : ~ C19_typing_statement.
Proof.
  intros H.
  destruct (resolved w_f12b c_f12b) as [[d anc]|] eqn:E; [|vm_compute in E; discriminate E].
  assert (Hl : is_leaf_def d = true) by (vm_compute in E; injection E as <- <-; reflexivity).
  destruct (build (options w_f12b) (dotted_q c_f12b w_x)) as [j|e] eqn:Eb; [|vm_compute in Eb; discriminate Eb].
  destruct (H w_f12b c_f12b d anc w_x (dotted_q c_f12b w_x) j eq_refl (resolved_mapped _ _ _ _ E Hl) eq_refl
              (dotted_q_spelling _ _) Eb) as [p Hj].
  vm_compute in E. injection E as <- <-. vm_compute in Eb. injection Eb as <-.
  destruct p; vm_compute in Hj; discriminate Hj.
Qed.

(* F12c as a theorem.  The nesting clause again, now under the structural guard that removes F12
   (`anchor_registered anc`: the innermost nested ancestor has a direct child below which there is no nested
   field with properties): still false — with two document types a LATER re-declaration of the nested field
   without properties wipes the children recorded for it.  Witness w_f12c / n1.n2.h (replayed on the real code:
   the wrapper is nested{path n1} instead of n1.n2). *)
Definition C19_nesting_registered_statement : Prop :=
  forall s comps d anc x t j,
    wf_schema s = true -> mapped_leaf s comps d anc -> anchor_registered anc = true ->
    has_wildcard x = false -> spelling comps x t ->
    build (options s) t = ROk j ->
    exists b, j = wrap_nested (innermost_nested_ancestor anc) (clause (dotted comps) b x).

Theorem C19_nesting_registered_refuted : ~ C19_nesting_registered_statement.
Proof.
  intros H.
  destruct (resolved w_f12c c_f12c) as [[d anc]|] eqn:E; [|vm_compute in E; discriminate E].
  assert (Hl : is_leaf_def d = true) by (vm_compute in E; injection E as <- <-; reflexivity).
  assert (Hr : anchor_registered anc = true) by (vm_compute in E; injection E as <- <-; reflexivity).
  destruct (build (options w_f12c) (dotted_q c_f12c w_x)) as [j|e] eqn:Eb; [|vm_compute in Eb; discriminate Eb].
  destruct (H w_f12c c_f12c d anc w_x (dotted_q c_f12c w_x) j eq_refl (resolved_mapped _ _ _ _ E Hl) Hr eq_refl
              (dotted_q_spelling _ _) Eb) as [b Hj].
  vm_compute in E. injection E as <- <-. vm_compute in Eb. injection Eb as <-.
  destruct b; vm_compute in Hj; discriminate Hj.
Qed.

(* ================================================================ partial results: the typing clause *)
(* On the fields enumerated by the analyzer's walk (_walk_properties with sub-fields; validated against
   the implementation by correspondence, and against an independent descent of the raw mapping by the
   harness oracle), for a description in which fields with the same dotted name agree on being analysed
   (`coherent`, executable): whenever the builder answers, the clause is on the full path and is term-level
   exactly when the field's definition is not analysed text. *)
Definition C19_typing_walk_partial_statement : Prop :=
  forall s e x t j,
    coherent s = true -> In e (iter_fields s true) -> is_container_type (e_def e) = false ->
    forallb nodot (map fst (e_parents e) ++ [e_name e]) = true -> has_wildcard x = false ->
    spelling (map fst (e_parents e) ++ [e_name e]) x t ->
    build (options s) t = ROk j ->
    exists p, j = wrap_nested p (clause (e_dot e) (negb (analysed_text (e_def e))) x).
Theorem C19_typing_walk_partial : C19_typing_walk_partial_statement.
Proof.
  intros s e x t j Hc Hin Hk Hd Hx Hsp Hb.
  assert (Hne : map fst (e_parents e) ++ [e_name e] <> []) by (destruct (map fst (e_parents e)); discriminate).
  rewrite (build_options s _ x t Hne Hd Hx Hsp) in Hb.
  destruct (refused s _); [discriminate Hb|]. injection Hb as <-.
  exists (nested_anchor s (map fst (e_parents e) ++ [e_name e])).
  change (dotted (map fst (e_parents e) ++ [e_name e])) with (e_dot e).
  rewrite (not_analyzed_iff s e Hc Hin), (leaf_not_analyzed _ Hk). reflexivity.
Qed.

(* multi-fields: the walk yields a sub-field with the parent's definition overlaid by its own; under the
   F12b guard the clause is typed by the sub-field's OWN definition *)
Definition C19_subfield_typing_partial_statement : Prop :=
  forall s sn p sd parents x t j,
    coherent s = true -> In (sn, merge_def p sd, parents) (iter_fields s true) ->
    sub_self_described p sd = true -> is_container_type sd = false ->
    forallb nodot (map fst parents ++ [sn]) = true -> has_wildcard x = false ->
    spelling (map fst parents ++ [sn]) x t ->
    build (options s) t = ROk j ->
    exists q, j = wrap_nested q (clause (dotted (map fst parents ++ [sn])) (negb (analysed_text sd)) x).
Theorem C19_subfield_typing_partial : C19_subfield_typing_partial_statement.
Proof.
  intros s sn p sd parents x t j Hc Hin Hg Hk Hd Hx Hsp Hb.
  assert (Hne : map fst parents ++ [sn] <> []) by (destruct (map fst parents); discriminate).
  rewrite (build_options s _ x t Hne Hd Hx Hsp) in Hb.
  destruct (refused s _); [discriminate Hb|]. injection Hb as <-.
  exists (nested_anchor s (map fst parents ++ [sn])).
  pose proof (not_analyzed_iff s _ Hc Hin) as Hna. unfold e_dot, e_name, e_parents, e_def, dot_name in Hna.
  cbn [fst snd] in Hna. rewrite Hna, (merge_not_analyzed _ _ Hg), (leaf_not_analyzed _ Hk). reflexivity.
Qed.

(* The typing clause against the independent notion of mapped leaf (`resolve`): for a well-formed, coherent
   description, a mapped leaf (a multi-field under the F12b guard `subfield_ok`), a dot-free path and either
   spelling: whenever the builder answers, the clause is on the full dotted path and is `term` exactly when
   the leaf's OWN definition is not analysed text.  (Not covered: that the builder does answer, and which
   nested wrapper it puts — see C19_builder_side and the refutations.) *)
Definition C19_typing_partial_statement : Prop :=
  forall s comps d anc x t j,
    wf_schema s = true -> coherent s = true -> mapped_leaf s comps d anc -> subfield_ok anc d = true ->
    forallb nodot comps = true -> has_wildcard x = false -> spelling comps x t ->
    build (options s) t = ROk j ->
    exists p, j = wrap_nested p (clause (dotted comps) (negb (analysed_text d)) x).
Theorem C19_typing_partial : C19_typing_partial_statement.
Proof. exact typing_resolved. Qed.

(* ================================================================ partial results: nesting, and the whole *)
(* The guards are executable predicates on the description (and the resolved field):
     coherent s          fields of the walk with the same dotted name agree on being analysed
     walk_sane s         names on the paths of fields with a nested / object parent are dot-free, and such a
                         parent path never coincides with an initial part of the path of a walked field of
                         another type at that place (true for every well-formed description with one
                         document type; NOT proved from wf_schema — checked by computation on every generated
                         description by harness/c19.py)
     subfield_ok anc d   F12b guard (a legacy string sub-field says itself whether it is analysed)
     anchor_survives s anc   F12 / F12c guard: some field directly under the innermost nested ancestor is
                         recorded by nested_fields() and no field with a nested parent walked LATER lies
                         strictly below it (F12) or is a strict ancestor path of it (F12c) *)
Definition C19_nesting_partial_statement : Prop :=
  forall s comps d anc,
    wf_schema s = true -> mapped_leaf s comps d anc ->
    forallb nodot comps = true -> forallb nonempty_name comps = true ->
    walk_sane s = true -> anchor_survives s anc = true ->
    nested_anchor s comps = innermost_nested_ancestor anc.
Theorem C19_nesting_partial : C19_nesting_partial_statement.
Proof. exact nested_anchor_resolved. Qed.

(* C19_query_statement with the guards added: never refused, exactly the expected JSON, both spellings *)
Definition C19_query_partial_statement : Prop :=
  forall s comps d anc x t,
    wf_schema s = true -> coherent s = true -> walk_sane s = true ->
    mapped_leaf s comps d anc -> subfield_ok anc d = true -> anchor_survives s anc = true ->
    forallb nodot comps = true -> forallb nonempty_name comps = true ->
    has_wildcard x = false -> spelling comps x t ->
    build (options s) t = ROk (expected_json comps d anc x).
Theorem C19_query_partial : C19_query_partial_statement.
Proof. exact query_resolved. Qed.

(* what nested_fields() — through the builder's nested prefix set — really computes, for ANY description:
   every non-empty nested prefix is the parent path of a walked field whose parent is nested; and the parent
   path of such a field (with a dot-free name) is a nested prefix provided no such field walked later lies
   strictly below it or is a strict ancestor path of it *)
Definition C19_nested_fields_statement : Prop :=
  (forall s p, p <> [] -> mem_str p (nested_prefix_set s) = true ->
     exists e, In e (iter_fields s false) /\ relevant e = true /\ rsplit1_head c_dot (e_dot e) = p) /\
  (forall s E1 e E2,
     iter_fields s false = E1 ++ e :: E2 -> relevant e = true -> nodot (e_name e) = true ->
     (forall e', In e' E2 -> relevant e' = true ->
                 ~ sprefix (e_dot e) (e_dot e') /\ ~ sprefix (e_dot e') (e_dot e)) ->
     mem_str (parent_str e) (nested_prefix_set s) = true).
Theorem C19_nested_fields : C19_nested_fields_statement.
Proof. split; [exact nested_prefix_sound|exact nested_prefix_complete]. Qed.

(* ================================================================ schema-side lemmas *)
Definition C19_not_analyzed_fields_statement : Prop :=
  (forall s f, mem_str f (not_analyzed_fields s) = true <->
               exists e, In e (iter_fields s true) /\ e_dot e = f /\ not_analyzed_def (e_def e) = true) /\
  (forall s e, coherent s = true -> In e (iter_fields s true) -> is_container_type (e_def e) = false ->
               mem_str (e_dot e) (not_analyzed_fields s) = negb (analysed_text (e_def e))).
Theorem C19_not_analyzed_fields : C19_not_analyzed_fields_statement.
Proof.
  split; [exact not_analyzed_fields_spec|].
  intros s e Hc Hin Hk. rewrite (not_analyzed_iff s e Hc Hin). apply leaf_not_analyzed. exact Hk.
Qed.

(* object_fields: the fields whose parent has the explicit type "object" and that are not containers *)
Definition C19_object_fields_statement : Prop :=
  forall s f, mem_str f (object_fields s) = true <->
    exists e, In e (iter_fields s false) /\ e_dot e = f /\
              type_is (parent_type (e_parents e)) k_object = true /\
              type_is (fd_type (e_def e)) k_object = false /\ type_is (fd_type (e_def e)) k_nested = false.
Theorem C19_object_fields : C19_object_fields_statement.
Proof. exact object_fields_spec. Qed.

(* ================================================================ spellings of field specifications *)
(* Two specifications that denote the same set of dotted names (`denotes` is written from the documentation
   of the specs: lists, dicts, None / {} / [] values) give the builder and its nesting checker the same
   name sets and the same prefix sets — up to the empty name "" (an EMPTY nested specification flattens to
   {""}, and so does an empty dict given as object specification, whereas an empty list gives {}).
   A nested specification is used by the builder only through these two sets; in particular which levels
   count as nested containers is decided by the parents of the denoted names alone (cf. F8). *)
Definition C19_nested_spellings_statement : Prop :=
  forall cfg1 cfg2, same_field_set (c_nested cfg1) (c_nested cfg2) ->
    (forall x, x <> [] -> mem_str x (ce_nested_fields (ev_chk (mk_env cfg1))) =
                          mem_str x (ce_nested_fields (ev_chk (mk_env cfg2)))) /\
    (forall p, p <> [] -> mem_str p (ce_nested_prefixes (ev_chk (mk_env cfg1))) =
                          mem_str p (ce_nested_prefixes (ev_chk (mk_env cfg2)))) /\
    (forall p, p <> [] -> mem_str p (ev_nested_prefixes (mk_env cfg1)) =
                          mem_str p (ev_nested_prefixes (mk_env cfg2))).
Theorem C19_nested_spellings : C19_nested_spellings_statement.
Proof.
  intros cfg1 cfg2 Hs. destruct (nested_spellings _ _ Hs) as [H1 H2].
  split; [exact H1|]. split; exact H2.
Qed.

Definition C19_object_spellings_statement : Prop :=
  forall cfg1 cfg2, same_field_set (c_object cfg1) (c_object cfg2) ->
    c_object cfg1 <> SNone -> c_object cfg2 <> SNone ->
    (forall x, x <> [] -> omem x (ev_object (mk_env cfg1)) = omem x (ev_object (mk_env cfg2))) /\
    (forall x, x <> [] -> omem x (ce_object_fields (ev_chk (mk_env cfg1))) =
                          omem x (ce_object_fields (ev_chk (mk_env cfg2)))) /\
    (forall p, p <> [] -> mem_str p (ce_object_prefixes (ev_chk (mk_env cfg1))) =
                          mem_str p (ce_object_prefixes (ev_chk (mk_env cfg2)))).
Theorem C19_object_spellings : C19_object_spellings_statement.
Proof. exact object_spellings_env. Qed.

(* ================================================================ non-vacuity and examples *)
Lemma chain_q_chain comps x : comps <> [] -> chain comps x (chain_q comps x).
Proof.
  induction comps as [|c [|c' cs] IH]; intros Hne; [congruence| |].
  - apply chain_last; reflexivity.
  - change (chain_q (c :: c' :: cs) x) with (SearchField meta0 c (Grp KFieldGroup meta0 (chain_q (c' :: cs) x))).
    apply chain_cons; try reflexivity; [discriminate|]. apply IH. discriminate.
Qed.

(* the hypotheses of the statements hold on concrete descriptions, the refuting ones included *)
Example ex_wf_good : wf_schema g_simple = true /\ coherent g_simple = true. Proof. split; reflexivity. Qed.
Example ex_wf_f12 : wf_schema w_f12 = true /\ coherent w_f12 = true. Proof. split; reflexivity. Qed.
Example ex_wf_f12b : wf_schema w_f12b = true /\ coherent w_f12b = true. Proof. split; reflexivity. Qed.
Example ex_wf_f12c : wf_schema w_f12c = true /\ coherent w_f12c = true. Proof. split; reflexivity. Qed.
Example ex_mapped_good : exists d anc, mapped_leaf g_simple c_ntraw d anc /\
                                       innermost_nested_ancestor anc = Some [110;49]%N /\ analysed_text d = false.
Proof.
  destruct (resolved g_simple c_ntraw) as [[d anc]|] eqn:E; [|vm_compute in E; discriminate E].
  exists d, anc. split; [apply resolved_mapped; [exact E|]|]; vm_compute in E; injection E as <- <-; [reflexivity|].
  split; reflexivity.
Qed.

(* on the well-behaved description the full statement holds for every leaf, in both spellings *)
Example ex_good_queries :
  forall comps, In comps [c_noh; c_ntraw; c_title; [[110;49]%N; [116]%N]] ->
  forall d anc, resolved g_simple comps = Some (d, anc) ->
    build (options g_simple) (dotted_q comps w_x) = ROk (expected_json comps d anc w_x) /\
    build (options g_simple) (chain_q comps w_x) = ROk (expected_json comps d anc w_x).
Proof.
  intros comps Hin d anc E. cbn [In] in Hin.
  destruct Hin as [<-|[<-|[<-|[<-|[]]]]]; vm_compute in E; injection E as <- <-; split; vm_compute; reflexivity.
Qed.

(* the guards: false exactly on the refuting inputs *)
Example ex_guard_f12 :
  forall d anc, resolved w_f12 c_f12 = Some (d, anc) -> anchor_registered anc = false.
Proof. intros d anc E. vm_compute in E. injection E as <- <-. reflexivity. Qed.
Example ex_guard_good :
  forall d anc, resolved g_simple c_noh = Some (d, anc) ->
                anchor_registered anc = true /\ innermost_nested_ancestor anc = Some [110;49]%N.
Proof. intros d anc E. vm_compute in E. injection E as <- <-. split; reflexivity. Qed.
(* the first suspected form of F12 (DESIGN: nested n1 -> object o -> keyword h, no leaf directly under n1)
   is NOT a defect: o itself is recorded as a child of n1, so n1 is a nested prefix *)
Example ex_f12_as_first_suspected :
  build (options g_simple) (dotted_q c_noh w_x) =
  ROk (wrap_nested (Some [110;49]%N) (clause (dotted c_noh) true w_x)).
Proof. vm_compute. reflexivity. Qed.
Example ex_guard_f12b :
  sub_self_described (FDef (Some k_string) (Some k_not_analyzed) [] []) (FDef (Some k_string) None [] []) = false /\
  sub_self_described (FDef (Some k_text) None [] []) (FDef (Some [107;101;121;119;111;114;100]%N) None [] []) = true.
Proof. split; reflexivity. Qed.
(* F12c: with two document types the wrapper is on n1 instead of n1.n2 *)
Example ex_f12c :
  build (options w_f12c) (dotted_q c_f12c w_x) =
  ROk (wrap_nested (Some [110;49]%N) (clause (dotted c_f12c) false w_x)) /\
  forall d anc, resolved w_f12c c_f12c = Some (d, anc) ->
                innermost_nested_ancestor anc = Some [110;49;46;110;50]%N.
Proof.
  split; [vm_compute; reflexivity|]. intros d anc E. vm_compute in E. injection E as <- <-. reflexivity.
Qed.
(* the hypotheses of the typing theorems are satisfiable: a walked non-container field, a walked sub-field *)
Example ex_entry :
  existsb (fun e => str_eqb (e_dot e) (dotted c_noh) && negb (is_container_type (e_def e)) &&
                    forallb nodot (map fst (e_parents e) ++ [e_name e]))
          (iter_fields g_simple true) = true.
Proof. reflexivity. Qed.
Example ex_sub_entry :
  exists p sd parents,
    In ([114;97;119]%N, merge_def p sd, parents) (iter_fields g_simple true) /\
    sub_self_described p sd = true /\ is_container_type sd = false.
Proof.
  exists (FDef (Some k_text) None [([114;97;119]%N, FDef (Some [107;101;121;119;111;114;100]%N) None [] [])] []),
         (FDef (Some [107;101;121;119;111;114;100]%N) None [] []).
  eexists. split; [vm_compute; do 4 right; left; reflexivity|]. split; reflexivity.
Qed.

(* same_field_set is inhabited by genuinely different spellings: ["a.b"] and {"a": ["b"]} *)
Example ex_same_field_set :
  same_field_set (SList [[97;46;98]%N]) (SDict [([97]%N, SList [[98]%N])]).
Proof.
  intros x. split; intros [p [Hden Hd]].
  - inversion Hden as [l k Hin | | ]; subst. destruct Hin as [<-|[]].
    exists [[97]%N; [98]%N]. split; [|reflexivity].
    eapply den_sub with (v := SList [[98]%N]); [left; reflexivity|reflexivity|]. constructor. left. reflexivity.
  - inversion Hden as [ | kv k v Hin Hfa | kv k v q Hin Hfa Hq]; subst.
    + destruct Hin as [Heq|[]]. inversion Heq; subst. discriminate Hfa.
    + destruct Hin as [Heq|[]]. inversion Heq; subst.
      inversion Hq as [l k' Hin' | | ]; subst. destruct Hin' as [<-|[]].
      exists [[97;46;98]%N]. split; [constructor; left; reflexivity|reflexivity].
Qed.
Example ex_spec_not_none : SList [[97;46;98]%N] <> SNone /\ SDict [([97]%N, SList [[98]%N])] <> SNone.
Proof. split; discriminate. Qed.

(* the guard of C19_typing_partial: holds on the well-behaved sub-field n1.t.raw, fails on F12b's city.an *)
Example ex_subfield_ok :
  (forall d anc, resolved g_simple c_ntraw = Some (d, anc) -> subfield_ok anc d = true) /\
  (forall d anc, resolved w_f12b c_f12b = Some (d, anc) -> subfield_ok anc d = false) /\
  forallb nodot c_ntraw = true.
Proof.
  split; [|split; [|reflexivity]]; intros d anc E; vm_compute in E; injection E as <- <-; reflexivity.
Qed.

(* all guards of C19_query_partial hold on the well-behaved description (every leaf); on each refuting
   description exactly the guard of its finding fails *)
Definition all_guards (s : schema) (comps : list str) : bool * bool * bool * bool * bool :=
  match resolved s comps with
  | Some (d, anc) => (wf_schema s, coherent s, walk_sane s, subfield_ok anc d, anchor_survives s anc)
  | None => (false, false, false, false, false)
  end.
Example ex_guards_good :
  all_guards g_simple c_noh = (true, true, true, true, true) /\
  all_guards g_simple c_ntraw = (true, true, true, true, true) /\
  all_guards g_simple c_title = (true, true, true, true, true) /\
  forallb nodot c_ntraw && forallb nonempty_name c_ntraw = true.
Proof. repeat split; vm_compute; reflexivity. Qed.
Example ex_guards_findings :
  all_guards w_f12 c_f12 = (true, true, true, true, false) /\
  all_guards w_f12b c_f12b = (true, true, true, false, true) /\
  all_guards w_f12c c_f12c = (true, true, true, true, false).
Proof. repeat split; vm_compute; reflexivity. Qed.

(* non-vacuity of C19_query_partial on a LEGACY description with two document types (mappings = {d1: {properties:
   ...}, d2: {properties: ...}}, types "string" with index "not_analyzed"):
     d1: n1 (nested) -> { h: string, k: string not_analyzed }, title: string
     d2: au (object) -> { name: string not_analyzed },          title: string
   every guard holds, for a leaf of the first and for a leaf of the SECOND document type, and the theorem (not a
   computation) gives the exact JSON in the chain spelling: n1:(k:x) -> nested{path n1}{term n1.k};
   au:(name:x) -> term au.name  (replayed on the real code) *)
Definition s_n1 : str := [110;49]%N.
Definition s_au : str := [97;117]%N.
Definition s_name : str := [110;97;109;101]%N.
Definition g_legacy2 : schema :=
  mkSchema None (mkMappings None
    [([100;49]%N, Some [(s_n1, FDef (Some k_nested) None []
                                 [([104]%N, FDef (Some k_string) None [] []);
                                  ([107]%N, FDef (Some k_string) (Some k_not_analyzed) [] [])]);
                        ([116;105;116;108;101]%N, FDef (Some k_string) None [] [])]);
     ([100;50]%N, Some [(s_au, FDef (Some k_object) None []
                                 [(s_name, FDef (Some k_string) (Some k_not_analyzed) [] [])]);
                        ([116;105;116;108;101]%N, FDef (Some k_string) None [] [])])]).
Definition c_n1k : list str := [s_n1; [107]%N].                                (* n1.k, document type d1 *)
Definition c_auname : list str := [s_au; s_name].                              (* au.name, document type d2 *)

Example ex_query_partial_two_doctypes :
  length (doc_props g_legacy2) = 2 /\
  wf_schema g_legacy2 = true /\ coherent g_legacy2 = true /\ walk_sane g_legacy2 = true /\
  (exists d anc, mapped_leaf g_legacy2 c_n1k d anc /\ subfield_ok anc d = true /\
                 anchor_survives g_legacy2 anc = true /\
                 build (options g_legacy2) (chain_q c_n1k w_x) = ROk (expected_json c_n1k d anc w_x) /\
                 expected_json c_n1k d anc w_x = wrap_nested (Some s_n1) (clause (dotted c_n1k) true w_x)) /\
  (exists d anc, mapped_leaf g_legacy2 c_auname d anc /\ subfield_ok anc d = true /\
                 anchor_survives g_legacy2 anc = true /\
                 build (options g_legacy2) (chain_q c_auname w_x) = ROk (expected_json c_auname d anc w_x) /\
                 expected_json c_auname d anc w_x = clause (dotted c_auname) true w_x).
Proof.
  split; [reflexivity|]. split; [reflexivity|]. split; [reflexivity|]. split; [vm_compute; reflexivity|].
  assert (Hws : walk_sane g_legacy2 = true) by (vm_compute; reflexivity).
  assert (Hm : forall props comps d anc, In props (doc_props g_legacy2) ->
                 resolve props [] comps = Some (d, anc) -> is_leaf_def d = true -> mapped_leaf g_legacy2 comps d anc).
  { intros props comps d anc Hin Hr Hl. exists props. auto. }
  split.
  - destruct (resolve (nth 0 (doc_props g_legacy2) []) [] c_n1k) as [[d anc]|] eqn:E; [|vm_compute in E; discriminate E].
    assert (Hml : mapped_leaf g_legacy2 c_n1k d anc).
    { apply (Hm (nth 0 (doc_props g_legacy2) [])); [left; reflexivity|exact E|].
      vm_compute in E. injection E as <- <-. reflexivity. }
    assert (Hs : subfield_ok anc d = true) by (vm_compute in E; injection E as <- <-; reflexivity).
    assert (Ha : anchor_survives g_legacy2 anc = true) by (vm_compute in E; injection E as <- <-; vm_compute; reflexivity).
    exists d, anc. split; [exact Hml|]. split; [exact Hs|]. split; [exact Ha|]. split.
    + apply (C19_query_partial g_legacy2 c_n1k d anc w_x _ eq_refl eq_refl Hws Hml Hs Ha eq_refl eq_refl eq_refl).
      right. apply chain_q_chain. discriminate.
    + vm_compute in E. injection E as <- <-. reflexivity.
  - destruct (resolve (nth 1 (doc_props g_legacy2) []) [] c_auname) as [[d anc]|] eqn:E; [|vm_compute in E; discriminate E].
    assert (Hml : mapped_leaf g_legacy2 c_auname d anc).
    { apply (Hm (nth 1 (doc_props g_legacy2) [])); [right; left; reflexivity|exact E|].
      vm_compute in E. injection E as <- <-. reflexivity. }
    assert (Hs : subfield_ok anc d = true) by (vm_compute in E; injection E as <- <-; reflexivity).
    assert (Ha : anchor_survives g_legacy2 anc = true) by (vm_compute in E; injection E as <- <-; vm_compute; reflexivity).
    exists d, anc. split; [exact Hml|]. split; [exact Hs|]. split; [exact Ha|]. split.
    + apply (C19_query_partial g_legacy2 c_auname d anc w_x _ eq_refl eq_refl Hws Hml Hs Ha eq_refl eq_refl eq_refl).
      right. apply chain_q_chain. discriminate.
    + vm_compute in E. injection E as <- <-. reflexivity.
Qed.

Print Assumptions C19_builder_side.
Print Assumptions C19_nesting_registered_refuted.
Print Assumptions C19_spellings_agree.
Print Assumptions C19_query_partial.
Print Assumptions C19_nesting_partial.
Print Assumptions C19_nested_fields.
Print Assumptions C19_query_refuted.
Print Assumptions C19_nesting_refuted.
Print Assumptions C19_typing_refuted.
Print Assumptions C19_typing_partial.
Print Assumptions C19_typing_walk_partial.
Print Assumptions C19_subfield_typing_partial.
Print Assumptions C19_not_analyzed_fields.
Print Assumptions C19_object_fields.
Print Assumptions C19_nested_spellings.
Print Assumptions C19_object_spellings.
