"""C17 — HTML marking wraps exactly the marked elements' text and keeps the query intact.

Correspondence: HTMLMarker(ok_class, ko_class, element)(tree, paths_ok, paths_ko, parcimonious) against
the model `Marker.html` (flat strings, `str_eqb`), and the model's `classes_per_char (mark_segs ...)` against
the per-character classes read off the implementation's output.

Oracle (model-independent): the marker is run a second time with a private-use sentinel element name, so that
the inserted tags can be recognised unambiguously even when the query text itself contains `<span ...>`; then
  * the sentinel run is the real run up to the element name,
  * removing the tags gives `tree.__str__(head_tail=True)` of the (untouched) input,
  * the tags are properly nested (stack),
  * every character carries the class of the innermost marked node whose widened text contains it — computed
    directly on the input tree, the layout of a node being observed by printing a shallow copy whose children
    are replaced by sentinel words (no knowledge of the classes' __str__ is used),
  * the parsimonious and the exhaustive outputs give the same class to every character,
  * the input tree is not modified (snapshot before / after).

Second oracle (the property as a CONSUMER of the output sees it; C17m.v): the REAL output — real element name,
default parameters span / ok / ko, the custom triple em / hit / miss, and the others — is read back by an
independent left-to-right markup scanner (`scan_markup`) that recognises exactly the three tags the marker can
emit and knows nothing about the tree; then nesting, stripped text == query text and per-character classes are
judged as above, in both modes.  HTMLMarker does not escape the query text, so this oracle fails when the text
contains one of the marker's own tags: failures on which `text_has_marker_tag` (F23's predicate, a predicate on
the INPUT: some tag of the marker is a substring of the tree's text) holds are classified F23; any other failure
is a violation.  Texts with a harmless '<' / '>' (`a:<5`, `"<b>"`, `"</spam>"`, `x<y`) are judged and must pass.
The same reading is computed by the Coq model (`Markup.read_markup`) and compared case by case, together with
the guards `no_tag_in_text` / `params_simple` / `params_ok` and the conclusion of C17_markup_partial.
"""
import copy
import gc
import re

import lib
import gentree
from runner import CorrResult

SENT = "\ue000m\ue001"          # private-use element name for the oracle run
CHILD0 = 0xF0000               # private-use plane: sentinel words standing for children

QUERIES = [
    # a blank between a field name and its colon (F1 territory): whatever the tree prints, the marker's copy must
    # print the same
    'title :foo', 'a OR title : (b AND c)  OR d', 'x:y AND name  :"john doe"~2', 'f\t:[1 TO 2] g',
    'price:>10 OR price:<=5', '>10', 'date:>=2020-01-01 AND NOT draft', 'f:(<1 OR >5)',
    'a',
    'foo:bar',
    'a AND b',
    'a OR b OR c',
    'a b c',
    '(a OR b) AND NOT c',
    'foo:(a OR "b c") AND x~ AND y^1.50 AND "z"~2 [1 TO 3]',
    'title:"<span class=\\"ok\\">x</span>" AND b',
    '"</span>" OR "<span class=\\"ko\\">" OR c',
    'f:[* TO 10} g:{a TO b]',
    '+a -b !c',
    'a~0.5 b~ c~2 "d e"~ "d e"~3 f^ g^2 (h i)^0.10',
    '  a   AND\tb  ',
    'n.o.h:(x AND (y OR z))^3',
    'a:>=1 b:<2 c:>x d:<=y',
    '/re.*x/ AND w?ld*',
    'x:(+a -b) OR NOT (c AND d)',
    '((((a))))',
    'a AND (b OR (c AND (d OR (e AND f))))',
    'é:"à b"~2 OR ü*',
]
# texts with '<' / '>' : harmless ones, near-tags, and the marker's own tags (default and custom parameters)
QUERIES_MARKUP = [
    'a:<5 AND "x>y"',
    '"<b>" OR c',
    'a:<5 b:>=3 "</spam>"',
    '"<span class=ok>" x',
    'x<y AND z>t',
    'a:>1 AND b:<2 AND "<" AND ">"',
    '<b> OR "a > b"',
    'f:"<span class=\\"ok\\">" AND g:<10',
    'a AND "</span>"',
    '"</span>" AND a',
    '/<\\/span>/ OR b',
    '<span class="ok">x</span>',
    'a<span class="ok">b',
    '"<span class="ko">" b',
    'a AND</span>',
    '"<em class="hit">" OR "</em>"',
    '"</em>" AND (b OR c:<3)',
]
MARKUP_TRIPLES = [("ok", "ko", "span"), ("ok", "ko", "span"), ("hit", "miss", "em"), ("ok", "ko", "b")]
CLASSES_OK = ["ok", "ok", "good", "x y", "", "é", "match"]
CLASSES_KO = ["ko", "ko", "bad", "ok", "", "no match", "x y"]
ELEMENTS = ["span", "span", "em", "b", "mark", "x-y"]


def expected_classes(T, node, path, inh, ok, ko, okc, koc):
    """per-character class, computed directly on the input tree (see module docstring)"""
    c = okc if path in ok else koc if path in ko else inh
    kids = list(node.children)
    sh = copy.copy(node)
    sents = [chr(CHILD0 + i) for i in range(len(kids))]
    if kids:
        sh.children = [T.Word(s) for s in sents]
    tpl = sh.__str__(head_tail=True)
    out, pos = [], 0
    for i, s in enumerate(sents):
        j = tpl.index(s, pos)
        out += [c] * (j - pos)
        out += expected_classes(T, kids[i], path + (i,), c, ok, ko, okc, koc)
        pos = j + 1
    out += [c] * (len(tpl) - pos)
    return out


def segment(out_s, okc, koc, elem=SENT):
    """cut an output into ('text', s) / ('open', cls) / ('close',) ; None if a tag is not understood.
    Unambiguous when the element name does not occur in the query text (the sentinel never does)."""
    alts = sorted({okc, koc}, key=len, reverse=True)
    pat = re.compile("<%s class=\"(%s)\">|</%s>" % (re.escape(elem), "|".join(re.escape(a) for a in alts),
                                                   re.escape(elem)), re.S)
    segs, pos = [], 0
    for m in pat.finditer(out_s):
        if m.start() > pos:
            segs.append(("text", out_s[pos:m.start()]))
        segs.append(("close",) if m.group(0).startswith("</") else ("open", m.group(1)))
        pos = m.end()
    if pos < len(out_s):
        segs.append(("text", out_s[pos:]))
    if elem == SENT and SENT in "".join(s[1] for s in segs if s[0] == "text"):
        return None
    return segs


def read_output(segs):
    """(stripped text, nested ok?, per-character classes)"""
    stack, text, classes, nested = [], [], [], True
    for s in segs:
        if s[0] == "text":
            text.append(s[1])
            classes += [stack[-1] if stack else None] * len(s[1])
        elif s[0] == "open":
            stack.append(s[1])
        else:
            if not stack:
                nested = False
            else:
                stack.pop()
    return "".join(text), nested and not stack, classes


def judge(T, tree, ok, ko, okc, koc, elem, out):
    """the clauses of the property on ONE output `out` whose tags are named `elem` (which must not occur in the
    text of `tree`), against the tree as it is now; returns (reason or None, per-character classes or None)"""
    s0 = tree.__str__(head_tail=True)
    segs = segment(out, okc, koc, elem)
    if segs is None:
        return "an inserted tag carries an unexpected class", None
    text, nested, classes = read_output(segs)
    if text != s0:
        return "removing the inserted elements does not give back the query text: %r" % text, classes
    if not nested:
        return "inserted elements are not properly nested", classes
    exp = expected_classes(T, tree, (), None, ok, ko, okc, koc)
    # the property is about disjoint path sets; with overlapping sets which of the two classes wins is not
    # part of it (the model, which gives paths_ok precedence like the code, is still compared case by case)
    if not (set(ok) & set(ko)) and classes != exp:
        return "a character is not rendered with the class of the innermost marked node containing it", classes
    return None, classes


# ---------------------------------------------------------------------------------------------------------
# second oracle: the output read as markup with the marker's REAL tags

def marker_tags(okc, koc, elem):
    """the three strings HTMLMarker.mark_node can insert"""
    return ['<%s class="%s">' % (elem, okc), '<%s class="%s">' % (elem, koc), '</%s>' % elem]


def params_simple(okc, koc, elem):
    """the three tags can be told apart (Markup.params_simple)"""
    return "<" not in elem + okc + koc and '"' not in okc + koc and not elem.startswith("/")


def text_has_marker_tag(text, okc, koc, elem):
    """F23's predicate, on the input: a tag of the marker occurs in the text of the tree"""
    return any(tag in text for tag in marker_tags(okc, koc, elem))


def scan_markup(out, okc, koc, elem):
    """read `out` as markup: (text without the marker's tags, properly nested?, class of every character of the
    text).  Knows the three tags and nothing else."""
    o_ok, o_ko, close = marker_tags(okc, koc, elem)
    i, stack, text, classes, nested = 0, [], [], [], True
    while i < len(out):
        if out.startswith(o_ok, i):
            stack.append(okc)
            i += len(o_ok)
        elif out.startswith(o_ko, i):
            stack.append(koc)
            i += len(o_ko)
        elif out.startswith(close, i):
            if stack:
                stack.pop()
            else:
                nested = False
            i += len(close)
        else:
            text.append(out[i])
            classes.append(stack[-1] if stack else None)
            i += 1
    return "".join(text), nested and not stack, classes


def markup_oracle(T, naming, tree, ok, ko, pars, okc, koc, elem, out):
    """the clauses of the property on the real output read as markup.
    returns (reason or None, reading) with reading = None (mis-nested) or (text, classes)"""
    s0 = tree.__str__(head_tail=True)
    text, nested, classes = scan_markup(out, okc, koc, elem)
    reading = (text, classes) if nested else None
    if not nested:
        return "read as markup, the elements are not properly nested (stripped text %r)" % text, reading
    if text != s0:
        return "read as markup, removing the marker's elements does not give back the query text: %r" % text, reading
    if not (set(ok) & set(ko)):
        exp = expected_classes(T, tree, (), None, ok, ko, okc, koc)
        if classes != exp:
            return ("read as markup, a character is not rendered with the class of the innermost marked node "
                    "containing it"), reading
    other = naming.HTMLMarker(okc, koc, elem)(tree, ok, ko, not pars)
    text2, nested2, classes2 = scan_markup(other, okc, koc, elem)
    if not nested2 or text2 != text or classes2 != classes:
        return "read as markup, the parsimonious and the exhaustive outputs differ in text or classes", reading
    return None, reading


def inject_markup(r, T, tree, okc, koc, elem):
    """put '<' / '>' / near-tags / the marker's own tags into values, heads and tails of a programmatic tree"""
    o_ok, o_ko, close = marker_tags(okc, koc, elem)
    harmless = ["<", ">", "a<b", "<b>", "</spam>", "<%s>" % elem, "<%s class=%s>" % (elem, okc), "</", "< /%s>" % elem,
                close[:-1], o_ok[:-1], "<%s class='%s'>" % (elem, okc), close.upper() if close.upper() != close else "<"]
    tags = [o_ok, o_ko, close]
    nodes = [n for _, n in gentree.all_nodes(tree)]
    hot = r.random() < 0.4
    for _ in range(r.randrange(1, 4)):
        n = r.choice(nodes)
        snip = r.choice(tags) if hot and r.random() < 0.6 else r.choice(harmless)
        x = r.random()
        if isinstance(n, T.Term) and x < 0.5:
            n.value = snip if isinstance(n, T.Word) else n.value[:1] + snip + n.value[-1:]
        elif x < 0.75:
            n.head = n.head + snip
        else:
            n.tail = snip + n.tail
    return tree


def oracle(T, naming, tree, ok, ko, pars, okc, koc, elem, out):
    """returns (reason or None, per-character classes observed or None)"""
    out_s = naming.HTMLMarker(okc, koc, SENT)(tree, ok, ko, pars)
    if out_s.replace(SENT, elem) != out:
        return "output depends on the element name otherwise than by the tag names", None
    why, classes = judge(T, tree, ok, ko, okc, koc, SENT, out_s)
    if why:
        return why, classes
    other = naming.HTMLMarker(okc, koc, SENT)(tree, ok, ko, not pars)
    segs2 = segment(other, okc, koc)
    if segs2 is None or read_output(segs2)[2] != classes:
        return "parsimonious and exhaustive modes render a character with different classes", classes
    return None, classes


# ---------------------------------------------------------------------------------------------------------
# Histories: ONE marker instance used for many trees.  Instance state and object identity (id(tree), address
# reuse after garbage collection) are outside the value model of the Coq side, so they are covered here:
#  (A) request-handler loop: parse / build a fresh tree, mark it on the shared marker, judge, drop the tree;
#      few shapes (same-sized trees), a small pool of path-set pairs and both modes, so that the arguments
#      other than the tree repeat all the time and freed addresses are reused;
#  (B) the same tree object marked, edited in place, marked again.
# Every output of the shared marker is judged on the CURRENT tree and compared with a fresh marker's output.

H_WORDS = ["foo", "bar", "baz", "spam", "eggs", "ham", "fizz", "buzz", "title", "body", "qux", "nil"]
H_SHAPES = [
    # (kind, template / builder name, number of words, [(paths_ok, paths_ko), ...])
    ("parse", "%s AND %s", 2, [([(0,)], [(1,)]), ([()], [(1,)])]),
    ("parse", "%s OR (%s AND NOT %s)", 3, [([(), (1, 0, 0)], [(1,), (1, 0, 1, 0)]), ([(1, 0)], [(0,)])]),
    ("parse", "f:%s~2 %s^3", 2, [([(0, 0)], [(1,), (0,)]), ([(1,)], [])]),
    ("parse", "%s", 1, [([()], []), ([], [()])]),
    ("build", "and2", 2, [([(0,)], [(1,)]), ([(), (0,)], [(1,)])]),
    ("build", "group_or3", 3, [([(0,)], [(0, 1)]), ([(0, 2)], [()])]),
]
H_CONFIGS = [("ok", "ko", SENT), ("good", "bad", SENT), ("ok", "ok", SENT), ("ok", "ko", "span")]


def h_make(T, parser, kind, what, words):
    """a FRESH tree for one step of a history (nothing else references it)"""
    if kind == "parse":
        return parser.parse(what % tuple(words))
    if what == "and2":
        return T.AndOperation(T.Word(words[0], tail=" "), T.Word(words[1], head=" "))
    if what == "group_or3":
        return T.Group(T.OrOperation(T.Word(words[0], tail=" "), T.Word(words[1], head=" ", tail=" "),
                                     T.Word(words[2], head=" ")), tail=" ")
    raise AssertionError(what)


def h_edit(T, tree, edit):
    """in-place edits of a tree between two markings (history B)"""
    first = tree
    while first.children:
        first = first.children[0]
    if edit == "value" and isinstance(first, T.Term):
        first.value = first.value + "X"
    elif edit == "head":
        first.head = first.head + "  "
    elif edit == "tail":
        tree.tail = tree.tail + " "
    elif edit == "append":
        op = tree
        while not isinstance(op, T.BaseOperation) and op.children:
            op = op.children[0]
        if isinstance(op, T.BaseOperation):
            op.children = list(op.children) + [T.Word("appended", head=" ")]
        else:
            tree.head = "\t" + tree.head
    else:
        tree.head = " " + tree.head


def h_step_check(T, naming, marker, cfg, tree, ok, ko, pars):
    """mark `tree` on the shared marker, judge the result on the tree as it is now, compare with a fresh marker"""
    okc, koc, elem = cfg
    a_ok, a_ko = set(ok), set(ko)
    out = marker(tree, a_ok, a_ko, pars)
    why, _ = judge(T, tree, a_ok, a_ko, okc, koc, elem, out)
    fresh = naming.HTMLMarker(okc, koc, elem)(tree, a_ok, a_ko, pars)
    if why is None and fresh != out:
        why = "a marker that was used before renders differently from a fresh marker"
    return why, out, fresh


def run_histories(T, naming, parser, r, res, n_loop, n_edit):
    stats = {"loop_steps": 0, "edit_histories": 0, "edit_steps": 0, "configs": len(H_CONFIGS),
             "distinct_argument_keys_per_marker": 0, "gc_collects": 0}
    for cfg in H_CONFIGS:
        okc, koc, elem = cfg
        # ---- (A) parse / mark / drop loop on one marker
        marker = naming.HTMLMarker(okc, koc, elem)
        if r.random() < 0.2:
            # a call that cannot complete (a tree deeper than the recursion limit) before the instance is reused
            gentree.aborted_call(lambda t_: marker(t_, {()}, set()), T)
        history, reported, keys = [], 0, set()
        for i in range(n_loop):
            kind, what, nw, pool = H_SHAPES[i % len(H_SHAPES)] if i % 3 else r.choice(H_SHAPES)
            words = [r.choice(H_WORDS) + str(r.randrange(10, 100)) for _ in range(nw)]   # same sizes
            ok, ko = r.choice(pool)
            pars = r.random() < 0.5
            step = {"kind": kind, "what": what, "words": words, "paths_ok": ok, "paths_ko": ko,
                    "parcimonious": pars}
            history.append(step)
            keys.add((what, repr(ok), repr(ko), pars))
            tree = h_make(T, parser, kind, what, words)
            try:
                why, out, fresh = h_step_check(T, naming, marker, cfg, tree, ok, ko, pars)
            except Exception as e:
                why, out, fresh = "exception %r" % e, None, None
            if why and reported < 3:
                reported += 1
                res.failures.append(({"history_kind": "one marker, fresh tree per call, tree dropped after the call",
                                      "ok_class": okc, "ko_class": koc, "element": elem,
                                      "history": [dict(h) for h in history], "index": i,
                                      "query_text": tree.__str__(head_tail=True), "why": why,
                                      "output": out, "fresh_marker_output": fresh}, None))
            elif why:
                reported += 1
            del tree
            if i % 40 == 39:
                gc.collect()
                stats["gc_collects"] += 1
        stats["loop_steps"] += n_loop
        stats["distinct_argument_keys_per_marker"] = len(keys)
        if reported > 3:
            res.notes.append("history on marker %r: %d failing steps in all (3 reported)" % (cfg, reported))
        # ---- (B) same object marked, edited in place, marked again (same marker as above: it has a past)
        for j in range(n_edit):
            kind, what, nw, pool = r.choice(H_SHAPES)
            words = [r.choice(H_WORDS) + str(r.randrange(10, 100)) for _ in range(nw)]
            ok, ko = r.choice(pool)
            pars = r.random() < 0.5
            edits = [r.choice(["value", "head", "tail", "append"]) for _ in range(r.randrange(1, 4))]
            tree = h_make(T, parser, kind, what, words)
            hist = {"kind": kind, "what": what, "words": words, "paths_ok": ok, "paths_ko": ko,
                    "parcimonious": pars, "edits": edits}
            stats["edit_histories"] += 1
            for k in range(len(edits) + 1):
                if k:
                    h_edit(T, tree, edits[k - 1])
                stats["edit_steps"] += 1
                try:
                    why, out, fresh = h_step_check(T, naming, marker, cfg, tree, ok, ko, pars)
                except Exception as e:
                    why, out, fresh = "exception %r" % e, None, None
                if why:
                    res.failures.append(({"history_kind": "same tree object marked, edited in place, marked again",
                                          "ok_class": okc, "ko_class": koc, "element": elem, "history": hist,
                                          "index": k, "query_text": tree.__str__(head_tail=True), "why": why,
                                          "output": out, "fresh_marker_output": fresh}, None))
                    break
            del tree
    return stats


def g_oclasses(classes):
    # run-length free: lists are short (one entry per character of the query)
    return lib.g_list(["None" if c is None else "(Some (%s : str))" % lib.g_str(c) for c in classes])


def random_paths(r, tree):
    """two path collections: subsets of the tree's paths, overlapping sometimes, plus paths not in the tree"""
    paths = [p for p, _ in gentree.all_nodes(tree)]
    def pick():
        x = r.random()
        if x < 0.1:
            sel = []
        elif x < 0.2:
            sel = list(paths)
        else:
            k = r.randrange(0, min(len(paths), 6) + 1)
            sel = r.sample(paths, k)
        if r.random() < 0.35:       # paths that are not in the tree
            for _ in range(r.randrange(1, 3)):
                base = r.choice(paths)
                sel.append(base + tuple(r.randrange(0, 70) for _ in range(r.randrange(1, 3))))
        return sel
    ok, ko = pick(), pick()
    x = r.random()
    if x < 0.45:                    # the property's domain: disjoint sets
        ko = [p for p in ko if p not in ok]
    elif x < 0.55 and ok:           # heavy overlap
        ko = ko + r.sample(ok, r.randrange(1, len(ok) + 1))
    return ok, ko


def correspond(model_ok, res):
    import luqum.tree as T
    import luqum.naming as naming
    from luqum.parser import parser
    r = lib.rng("C17")
    quick = lib.tier() == "quick"
    n_random = 500 if quick else 5000
    per_query = 10 if quick else 100
    g = gentree.Gen(r, T, layout=0.4, odd=0.2, max_ops=4, wide=[0, 1, 12])

    inputs = []     # (tree, origin)
    # fixed corpus of nasty programmatic trees first
    none_range = T.Range(T.NoneItem(head=" ", tail=" "), T.Word("b", head=" "), head=" ", tail="\n")
    corpus = [
        (T.NoneItem(head="h", tail="t"), [()], [], True),
        (none_range, [(0,)], [(1,), ()], True),
        (none_range, [(0,), ()], [(1,)], False),
        (T.AndOperation(), [()], [], True),
        (T.AndOperation(T.Word("a", tail=" "), T.Word("b", head=" ")), [(), (0,)], [(1,)], True),
        (T.AndOperation(T.Word("a", tail=" "), T.Word("b", head=" ")), [(), (0,)], [(1,), (0,)], False),
        (T.Group(T.Group(T.Group(T.Word("a")))), [(), (0, 0)], [(0,), (0, 0, 0)], True),
        (T.Group(T.Group(T.Group(T.Word("a")))), [(), (0,), (0, 0), (0, 0, 0)], [], True),
        (T.Boost(T.Fuzzy(T.Word("a")), None), [(0,)], [(0, 0)], True),
        (T.Boost(T.Fuzzy(T.Word("a"), "1.50"), "1.50"), [(0,)], [(0, 0)], False),
        (T.Word("a"), [(0,), (1, 2)], [(5,)], True),
    ]
    fixed = []
    for tree, ok, ko, pars in corpus:
        fixed.append((tree, ok, ko, pars, "ok", "ko", "span", "corpus"))
    # texts with '<': F23's witness, the harmless a:<5 AND "x>y" marked on both operands, a tag formed across
    # two adjacent words (nothing marked: mis-read; first word marked: the element cuts the tag, reads right)
    for q, ok, ko, pars, triple in [
            ('a AND "</span>"', [(0,)], [(1,)], True, ("ok", "ko", "span")),
            ('a AND "</span>"', [(0,)], [(1,)], False, ("ok", "ko", "span")),
            ('a AND "</span>"', [(0,)], [(1,)], True, ("hit", "miss", "em")),
            ('a AND "</em>"', [(0,)], [(1,)], True, ("hit", "miss", "em")),
            ('a:<5 AND "x>y"', [(0,)], [(1,)], True, ("ok", "ko", "span")),
            ('a:<5 AND "x>y"', [(0,)], [(1,)], False, ("ok", "ko", "span")),
            ('a:<5 AND "x>y"', [(0,), (0, 0)], [(1,), ()], False, ("hit", "miss", "em"))]:
        fixed.append((parser.parse(q), ok, ko, pars) + triple + ("markup-corpus",))
    for ok, ko in [([], []), ([(0,)], []), ([()], [(1,)])]:
        fixed.append((T.UnknownOperation(T.Word("</sp"), T.Word("an>")), ok, ko, True, "ok", "ko", "span",
                      "markup-corpus"))
        fixed.append((T.AndOperation(T.Word("a", tail=" <span class="), T.Word("b", head='"ok"> ')), ok, ko, False,
                      "ok", "ko", "span", "markup-corpus"))
    for q in QUERIES_MARKUP:
        tree = parser.parse(q)
        for _ in range(per_query):
            ok, ko = random_paths(r, tree)
            okc, koc, elem = r.choice(MARKUP_TRIPLES)
            fixed.append((copy.deepcopy(tree), ok, ko, r.random() < 0.5, okc, koc, elem, "parsed-markup"))
    for _ in range(n_random // 3):
        okc, koc, elem = r.choice(MARKUP_TRIPLES) if r.random() < 0.7 else (
            r.choice(CLASSES_OK), r.choice(CLASSES_KO), r.choice(ELEMENTS))
        tree = inject_markup(r, T, g.tree(r.randrange(0, 4)), okc, koc, elem)
        ok, ko = random_paths(r, tree)
        fixed.append((tree, ok, ko, r.random() < 0.5, okc, koc, elem, "random-markup"))
    for q in QUERIES:
        tree = parser.parse(q)
        for _ in range(per_query):
            ok, ko = random_paths(r, tree)
            fixed.append((copy.deepcopy(tree), ok, ko, r.random() < 0.5, r.choice(CLASSES_OK),
                          r.choice(CLASSES_KO), r.choice(ELEMENTS), "parsed"))
    for _ in range(n_random):
        tree = g.tree(r.randrange(0, 5))
        ok, ko = random_paths(r, tree)
        fixed.append((tree, ok, ko, r.random() < 0.5, r.choice(CLASSES_OK), r.choice(CLASSES_KO),
                      r.choice(ELEMENTS), "random"))

    cases, payloads = [], []
    seen = set()
    dist = {"origin": {}, "parcimonious": {}, "marked_nodes_in_tree": {}, "paths_not_in_tree": 0,
            "ok_ko_overlap": 0, "same_class_for_ok_and_ko": 0, "marked_NoneItem": 0,
            "text_contains_lt": 0, "paths_as_set": 0,
            "markup_oracle": {"judged": 0, "passed": 0, "F23": 0, "other_failures": 0,
                              "text_with_lt_or_gt_judged_and_passed": 0, "text_with_a_marker_tag": 0,
                              "text_with_a_marker_tag_yet_read_right": 0, "default_span_ok_ko": 0,
                              "custom_em_hit_miss": 0, "skipped_parameters_not_simple": 0}}
    mo = dist["markup_oracle"]
    for tree, ok, ko, pars, okc, koc, elem, origin in fixed:
        try:
            before = lib.g_item(tree)
        except lib.Unmodelled as e:
            res.notes.append("unmodelled input skipped: %s" % e)
            continue
        desc = gentree.describe(tree)
        in_tree = dict(gentree.all_nodes(tree))
        as_set = r.random() < 0.5
        a_ok, a_ko = (set(ok), set(ko)) if as_set else (list(ok), list(ko))
        payload = {"tree": desc[:1500], "str": tree.__str__(head_tail=True)[:500], "paths_ok": sorted(set(ok)),
                   "paths_ko": sorted(set(ko)), "parcimonious": pars, "ok_class": okc, "ko_class": koc,
                   "element": elem, "origin": origin}
        try:
            out = naming.HTMLMarker(okc, koc, elem)(tree, a_ok, a_ko, pars)
        except Exception as e:
            res.failures.append((dict(payload, exception=repr(e)), None))
            continue
        why, classes = oracle(T, naming, tree, a_ok, a_ko, pars, okc, koc, elem, out)
        if why is None and lib.g_item(tree) != before:
            why = "the input tree was modified"
        if why:
            res.failures.append((dict(payload, why=why, output=out[:1000]), None))
        # second oracle: the real output read as markup
        s0 = tree.__str__(head_tail=True)
        has_tag = text_has_marker_tag(s0, okc, koc, elem)
        simple = params_simple(okc, koc, elem)
        why2, reading = markup_oracle(T, naming, tree, a_ok, a_ko, pars, okc, koc, elem, out)
        if not simple:
            mo["skipped_parameters_not_simple"] += 1
        else:
            mo["judged"] += 1
            mo["default_span_ok_ko"] += (okc, koc, elem) == ("ok", "ko", "span")
            mo["custom_em_hit_miss"] += (okc, koc, elem) == ("hit", "miss", "em")
            mo["text_with_a_marker_tag"] += has_tag
            if why2 is None:
                mo["passed"] += 1
                mo["text_with_lt_or_gt_judged_and_passed"] += "<" in s0 or ">" in s0
                mo["text_with_a_marker_tag_yet_read_right"] += has_tag
            else:
                # F23 is recognised by a predicate on the INPUT; any other failure is a violation
                fid = "F23" if has_tag else None
                mo["F23" if fid else "other_failures"] += 1
                if fid is None or mo["F23"] <= 5:
                    res.failures.append((dict(payload, why=why2, output=out[:1000], oracle="output read as markup",
                                              marker_tags=marker_tags(okc, koc, elem)), fid))
        cases.append("(%s, %s, %s, %s, %s, %s, %s, %s, %s, %s, %s, %s)" % (
            before, lib.g_list([lib.g_path(p) for p in ok]), lib.g_list([lib.g_path(p) for p in ko]),
            lib.g_bool(pars), lib.g_str(okc), lib.g_str(koc), lib.g_str(elem), lib.g_str(out),
            "None" if classes is None else "(Some %s)" % g_oclasses(classes),
            "None" if reading is None else "(Some (%s, %s))" % (lib.g_str(reading[0]), g_oclasses(reading[1])),
            lib.g_bool(not has_tag), lib.g_bool(simple)))
        payloads.append(payload)
        marked = [p for p in set(ok) | set(ko) if p in in_tree]
        dist["origin"][origin] = dist["origin"].get(origin, 0) + 1
        dist["parcimonious"][str(pars)] = dist["parcimonious"].get(str(pars), 0) + 1
        b = str(min(len(marked), 8))
        dist["marked_nodes_in_tree"][b] = dist["marked_nodes_in_tree"].get(b, 0) + 1
        dist["paths_not_in_tree"] += any(p not in in_tree for p in set(ok) | set(ko))
        dist["ok_ko_overlap"] += bool(set(ok) & set(ko))
        dist["same_class_for_ok_and_ko"] += okc == koc
        dist["marked_NoneItem"] += any(isinstance(in_tree[p], T.NoneItem) for p in marked)
        dist["text_contains_lt"] += "<" in tree.__str__(head_tail=True)
        dist["paths_as_set"] += as_set
        if marked and gentree.count_nodes(tree) > 1:
            seen.add((desc, tuple(sorted(set(ok))), tuple(sorted(set(ko))), pars, okc, koc))
    # histories on shared marker instances (instance state / object identity: outside the value model)
    dist["histories"] = run_histories(T, naming, parser, r, res, 260 if quick else 2600, 40 if quick else 400)
    res.cases = len(cases)
    res.nontrivial = len(seen)
    res.rule = ("parsed queries (incl. phrases containing <span class=\"ok\"> / </span>) and random programmatic "
                "trees of every item class (odd shapes, NoneItem, random head/tail) x random ok/ko path "
                "collections (subsets of the tree's paths, paths not in the tree, disjoint or overlapping) x both "
                "modes x several ok_class/ko_class/element; plus queries and trees whose text contains '<' / '>' / "
                "near-tags / the marker's own tags (default span-ok-ko, em-hit-miss, ...), each output also read "
                "back as markup with the real tags; non-trivial = distinct (tree, ok, ko, mode, classes) "
                "with more than one node and at least one marked path inside the tree")
    res.samples = payloads[11:17]
    res.distribution = dist
    if model_ok:
        defs = (
            "Definition case := (item * list path * list path * bool * str * str * str * str * "
            "option (list (option str)) * option (str * list (option str)) * bool * bool)%type.\n"
            "Definition beq (a b : bool) : bool := if a then b else negb b.\n"
            "Definition seg_eqb (a b : seg) : bool :=\n"
            "  match a, b with Text x, Text y => str_eqb x y | Open x, Open y => str_eqb x y\n"
            "  | Close, Close => true | _, _ => false end.\n"
            "Definition rd_eqb (a b : option (str * list (option str))) : bool :=\n"
            "  match a, b with\n"
            "  | Some (x, l), Some (y, m) => str_eqb x y && list_eqb ostr_eqb l m\n"
            "  | None, None => true | _, _ => false end.\n"
            "Definition chk (c : case) : bool :=\n"
            "  let '(t, ok, ko, pars, okc, koc, elem, out, cls, rd, tagfree, simple) := c in\n"
            "  match html okc koc elem pars t ok ko, mark_segs okc koc pars t ok ko with\n"
            "  | Some h, Some sg =>\n"
            "      str_eqb h out && force_stable t &&\n"
            "      match cls with Some l => list_eqb ostr_eqb (classes_per_char sg) l | None => true end &&\n"
            "      (* the output read as markup: the model's reader against the harness' scanner, the guards, and\n"
            "         the conclusion of C17_markup_partial / C17_markup_exact_partial / _exact_tokens *)\n"
            "      rd_eqb (read_markup elem okc koc out) rd &&\n"
            "      beq (no_tag_in_text elem okc koc t) tagfree && beq (params_simple elem okc koc) simple &&\n"
            "      (negb simple || params_ok elem okc koc) &&\n"
            "      (negb (params_ok elem okc koc && clean_output elem okc koc pars t ok ko) ||\n"
            "       rd_eqb rd (Some (print true t, owner_class okc koc ok ko t))) &&\n"
            "      (negb (params_ok elem okc koc && tagfree) || clean_output elem okc koc pars t ok ko) &&\n"
            "      (negb (params_ok elem okc koc) ||\n"
            "       beq (list_eqb seg_eqb (scan_markup elem okc koc out) (explode sg))\n"
            "           (clean_output elem okc koc pars t ok ko))\n"
            "  | _, _ => false end.")
        # canary: a corrupted expected output must be reported
        tree, ok, ko, pars = corpus[4]
        canary = "(%s, %s, %s, %s, %s, %s, %s, %s, None, None, true, true)" % (
            lib.g_item(tree), lib.g_list([lib.g_path(p) for p in ok]), lib.g_list([lib.g_path(p) for p in ko]),
            lib.g_bool(pars), lib.g_str("ok"), lib.g_str("ko"), lib.g_str("span"),
            lib.g_str(naming.HTMLMarker()(tree, ok, ko, pars) + "x"))
        try:
            bad = lib.eval_cases("C17", "Base Decimal Tree TreeEq Print Marker Markup", defs, cases + [canary], "chk", shard=40)
        except Exception as e:
            res.model_error = str(e)
            bad = []
        else:
            if len(cases) not in bad:
                res.model_error = "canary (corrupted expected output) was not reported by the comparison"
            bad = [i for i in bad if i != len(cases)]
        for i in bad:
            res.disagreements.append(payloads[i])
    else:
        res.model_error = "model did not build"
    return res


SPEC = {
    "id": "C17",
    "targets": ["props/C17.vo"],
    "model_targets": ["model/Marker.vo", "model/Markup.vo", "model/TreeEq.vo"],
    "module": "C17",
    "theorems": ["C17_total", "C17_segments_are_output", "C17_strip_gives_copy",
                 "C17_strip_gives_text_partial", "C17_strip_gives_text_refuted", "C17_nested",
                 "C17_classes_of_copy", "C17_classes_partial", "C17_classes_refuted",
                 "C17_owner_class_is_innermost_marked", "C17_parsimony"],
    # the property on the OUTPUT STRING read as markup (independent tokenizer model/Markup.v)
    "more": [{"module": "C17m", "target": "props/C17m.vo",
              "theorems": ["C17_markup_partial", "C17_markup_exact_partial", "C17_markup_exact_tokens",
                           "C17_guard_implies_clean", "C17_markup_text_partial", "C17_markup_parsimony",
                           "C17_parsed", "C17_markup_parsed", "C17_markup_parsed_respelled", "C17_params_simple",
                           "C17_markup_refuted", "C17_markup_params_needed", "C17_F1_consequence"]}],
    "correspond": correspond,
    "statement": "for every parsed query, every ok/ko path collections (disjoint or not: ok wins) and both modes, the "
                 "OUTPUT STRING read as markup (a tokenizer that knows the three tags <elem class=\"ok\">, "
                 "<elem class=\"ko\">, </elem> and nothing about the tree) is properly nested, strips to the query "
                 "text, and gives every character the class of the innermost marked node whose widened text contains "
                 "it; the parsimonious mode reads the same: REFUTED (F23) by 'a AND \"</span>\"' marked {(0,)} / "
                 "{(1,)} — HTMLMarker does not escape the query text, the phrase's </span> is taken for a closing tag. "
                 "PROVED (C17m.v) for every tree, both modes, all path collections, under two executable guards: "
                 "no_tag_in_text (none of the marker's three tags is a substring of the tree's text; a '<' that "
                 "starts no complete tag is fine: a:<5, \"<b>\") and params_ok (element / classes contain no '<' and "
                 "no tag is a proper prefix of another; implied by: no '<', no double quote in the classes, element "
                 "not starting with '/'; needed: C17_markup_params_needed). The path-dependent guard clean_output "
                 "(no tag starts at a text character of this output) is exact: it holds iff the tokenizer recovers "
                 "the marker's own segments (C17_markup_exact_tokens), follows from no_tag_in_text, and suffices "
                 "(C17_markup_exact_partial). For a parsed query the Boost-force guard of C17.v needs no hypothesis "
                 "(C17_parsed, from C11_parsed_wellformed) and the stripped text is the query itself when the parse "
                 "has no ghost event, the query up to re-spelled numerals when no text was dropped (C01 / C01r); "
                 "outside that it is F1's consequence (C17_F1_consequence: 'f :a AND b' strips to 'f:a AND b'). "
                 "C17.v: the same clauses on the marker's own segment list, for every tree, without any guard on "
                 "the text",
    "level_text": "Coq proof (PARTIAL: F23). C17m.v — the property on the output string read back by an independent "
                  "tokenizer: refuted without a guard on the text (C17_markup_refuted, witness replayed on the real "
                  "code), proved for every tree / path collections / mode / parameters under no_tag_in_text and "
                  "params_ok (C17_markup_partial, _text_partial, _parsimony), exact path-dependent criterion "
                  "(C17_markup_exact_tokens, _exact_partial, C17_guard_implies_clean), the property's own quantifier "
                  "'parsed queries' end to end from the query string (C17_parsed, C17_markup_parsed, "
                  "_parsed_respelled), F1's consequence stated (C17_F1_consequence). C17.v — full proofs on the "
                  "marker's segment list (no guard on the text). Correspondence on every run: model output == "
                  "implementation output, model reader == the harness' Python scanner, guards == their Python "
                  "counterparts; oracles: sentinel-element oracle (all clauses, any text) and real-tag markup oracle "
                  "(failures classified F23 by a predicate on the input, anything else is a violation)",
    "trusted_base": [
        "Coq 8.16.1 kernel (vm_compute used for table facts, witnesses and correspondence; no native_compute)",
        "no axioms (Print Assumptions: closed under the global context)",
        "gen/translate.py: class MROs, _equality_attrs, operator strings, bracket characters, method tables of "
        "HTMLMarker / ExpressionMarker / PathTrackingTransformer (tie: marker_all_generic_ok)",
        "hand-written models coq/model/Marker.v (ExpressionMarker.generic_visit, HTMLMarker.css_class / "
        "mark_node, PathTrackingTransformer.clone_children), Eq.v (clone_item), Print.v (__str__), tied by "
        "differential correspondence (harness/c17.py, harness/c09.py) on every run",
        "segment semantics (mark_segs / flatten) is proved equal to the modelled output string, and its "
        "classes_per_char is also compared with the classes read off the implementation's output",
        "coq/model/Markup.v: the reader of the output string (scan_markup / read_markup) IS the meaning given to "
        "'the output parsed as markup': left to right, the marker's three tags recognised wherever they start, "
        "tried in the order ok / ko / closing; compared on every case with the harness' Python scanner",
        "C17_parsed / C17_markup_parsed rest on the parser model (Lexer.v, LR.v, Actions.v, Parser.v, generated "
        "tables) tied by C01 / C11's correspondence",
        "value-based tree model: a Python object shared between two positions is not modelled",
    ],
    "assumptions": ["trees contain only luqum.tree classes; ok_class / ko_class / element are str",
                    "'original query text' is tree.__str__(head_tail=True); for a parsed query it is the parsed string "
                    "when the parse has no ghost event, and the string up to re-spelled numerals (a^1.0 -> a^1) when "
                    "no text was dropped (C17_parsed, from C01 / C01r); a query with a blank before a field's colon "
                    "(F1) strips to the text without that blank (C17_F1_consequence)",
                    "KNOWN FINDING F23: the query text is not escaped; the markup theorems are guarded by "
                    "no_tag_in_text (no tag of the marker is a substring of the tree's text) — the narrower exact "
                    "guard is clean_output (path dependent); without a guard the statement is refuted",
                    "the marker's parameters give distinguishable tags (params_ok; true when element and classes "
                    "contain no '<', the classes no double quote and the element does not start with '/'); "
                    "ko_class = 'x\">y' with ok_class = 'x' is mis-read even on tag-free text "
                    "(C17_markup_params_needed)",
                    "the Coq model is a function of the VALUES (tree, paths, mode, classes, element): state kept on "
                    "the marker instance and object identity (id(tree), address reuse after garbage collection, "
                    "in-place edits between calls) are outside it; they are covered by harness histories only — one "
                    "marker per configuration over >= 260 fresh trees that are dropped after each call, with "
                    "repeating path sets and modes, and mark / edit in place / mark again sequences, every output "
                    "judged on the current tree and compared with a fresh marker",
                    "text identity with the input tree needs every explicit Boost force to print like its "
                    "normalisation (true of parsed trees: C17_parsed, and of constructed trees; false only after "
                    "overwriting .force)"],
}
