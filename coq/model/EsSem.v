(* EsSem.v — REFERENCE SEMANTICS for property C05: what an Elasticsearch bool / nested query matches
   (es_eval) and what a luqum tree denotes (den), both over the same documents.  Executable definitions
   only.  This file is the one place where a specification, not code, is trusted for C05.

   It does not use the builder's visitor, its E-operations, its nested wrapping or its JSON assembly
   (visit, mk_op, mk_nested, split_nested, ejson, bool_parts).  The only thing taken from EsBuild.v is
   the LEAF layer (mk_word / mk_phrase / mk_range / leaf_set_* / leaf_json): the clause a single term
   becomes is the NAME of the term's atom.  That this clause has the right field, value and kind is
   property C06; C05 is about how the clauses are combined.

   What is assumed about Elasticsearch (from the query DSL documentation):
   * a document is a tree of objects: the root object, and below each object a list of sub-objects for
     every nested path; each object decides every leaf clause (match, term, range, ...) addressed to a
     field of its own nested level;
   * a leaf clause on a field whose innermost declared nested ancestor is NOT the level the clause is
     evaluated at matches nothing (nested objects are separate hidden documents);
   * {"nested": {"path": P, "query": q}} matches an object iff q matches some P-object below it; a
     multi-level path is resolved directly (all P-objects below, through the intermediate levels);
   * {"bool": {must, filter, should, must_not}} matches iff every must and every filter clause
     matches, no must_not clause matches, and -- minimum_should_match defaulting to 1 when there is at
     least one should clause and no must / filter clause, to 0 otherwise -- some should clause matches
     in the first case.  A bool with only must_not clauses matches every object not matching them;
   * zero_terms_query, boost and _name do not change WHICH documents match (analysis of empty
     queries aside): two leaf clauses that differ only there are the same atom. *)
Require Import Base Decimal Tree Json EsSpecs EsCheck EsBuild EsSpec.

(* ---------------------------------------------------------------- documents *)
(* an object: the truth of every leaf clause (given as normalised JSON), and its sub-objects per
   declared nested path (full dotted path) *)
Inductive doc := Doc (truth : json -> bool) (subs : str -> list doc).
Definition truth (d : doc) : json -> bool := match d with Doc t _ => t end.
Definition subs (d : doc) : str -> list doc := match d with Doc _ s => s end.

(* the declared nested paths, as the property means them: every ancestor of a (flattened) declared
   nested path; a dot-less declared path is its own parent.  (The code only knows the parents: F8.)
   The empty path that an empty specification flattens to is not a nested field. *)
Definition nonempty_path (p : str) : bool := match p with [] => false | _ => true end.
Definition nested_paths (cfg : es_config) : list str :=
  filter nonempty_path (flat_map ancestors (declared_nested cfg)).
Definition nested_paths_code (cfg : es_config) : list str :=
  filter nonempty_path (map parent_path (declared_nested cfg)).

(* a nested level is a list of path components; [] is the root *)
Definition level := list str.

(* the innermost declared nested path that is a prefix of the field f (components) *)
Fixpoint longest_nested (np : list str) (f : list str) (k : nat) : level :=
  match k with
  | O => []
  | S k' => if mem_str (dotted (firstn (S k') f)) np then firstn (S k') f else longest_nested np f k'
  end.
Definition level_of (np : list str) (f : list str) : level := longest_nested np f (length f).

Fixpoint is_prefix (a b : list str) : bool :=
  match a, b with
  | [], _ => true
  | x :: a', y :: b' => str_eqb x y && is_prefix a' b'
  | _ :: _, [] => false
  end.

(* from the objects at the nested level made of the first k components of P, go down to level P *)
Fixpoint descend (np : list str) (P : list str) (k n : nat) (objs : list doc) : list doc :=
  match n with
  | O => objs
  | S n' =>
      let q := dotted (firstn (S k) P) in
      descend np P (S k) n'
              (if mem_str q np then flat_map (fun o => subs o q) objs else objs)
  end.

(* the objects of nested level P below the object d of level lvl (d itself when P = lvl) *)
Definition objects_at (np : list str) (lvl P : level) (d : doc) : list doc :=
  if is_prefix lvl P then descend np P (length lvl) (length P - length lvl) [d] else [].

(* ---------------------------------------------------------------- atoms *)
Definition k_filter : str := [102;105;108;116;101;114]%N.   (* "filter" *)
Definition not_semantics : list str := [k_zero_terms_query; k_boost; k_name].

Definition strip_opts (o : jobj) : jobj :=
  filter (fun kv => negb (mem_str (fst kv) not_semantics)) o.

(* a leaf clause {kind: {...}} / {kind: {field: {...}}} without zero_terms_query, boost, _name *)
Definition norm_clause (j : json) : json :=
  match j with
  | JObj [(m, JObj o)] =>
      JObj [(m, JObj (map (fun kv => (fst kv, match snd kv with
                                              | JObj inner => JObj (strip_opts inner)
                                              | v => v
                                              end)) (strip_opts o)))]
  | _ => j
  end.

(* the field a leaf clause addresses.  None: the clause names no single field (multi_match: its
   `fields` are the user's field_options) and is taken to address the level it is evaluated at *)
Definition clause_field (j : json) : option str :=
  match j with
  | JObj [(m, JObj o)] =>
      if str_eqb m k_exists then
        match obj_get k_field o with Some (JStr f) => Some f | _ => None end
      else if str_eqb m k_query_string then
        match obj_get k_default_field o with Some (JStr f) => Some f | _ => None end
      else if str_eqb m k_multi_match then None
      else match o with [(f, _)] => Some f | _ => None end
  | _ => None
  end.

Definition level_eqb : level -> level -> bool := list_eqb str_eqb.

Definition clause_holds (np : list str) (j : json) (lvl : level) (d : doc) : bool :=
  match clause_field j with
  | Some f => level_eqb (level_of np (split_on c_dot f)) lvl
  | None => true
  end && truth d (norm_clause j).

(* ---------------------------------------------------------------- Elasticsearch queries *)
Definition bool_matches (must should must_not : list bool) : bool :=
  forallb id must && negb (existsb id must_not) &&
  match should, must with
  | _ :: _, [] => existsb id should          (* minimum_should_match = 1 *)
  | _, _ => true                             (* minimum_should_match = 0 *)
  end.

(* does the object d of nested level lvl match the query j ?  Anything that is not a one-key object
   is not a query and matches nothing. *)
Fixpoint es_eval (np : list str) (j : json) (lvl : level) (d : doc) {struct j} : bool :=
  match j with
  | JObj [(k, JObj body)] =>
      if str_eqb k k_bool then
        let evs := fix evs (l : list json) : list bool :=
                     match l with [] => [] | q :: l' => es_eval np q lvl d :: evs l' end in
        (* the clauses under one key: a list, or a single query *)
        let part := fix part (key : str) (o : list (str * json)) : list bool :=
                      match o with
                      | [] => []
                      | (k', v) :: o' =>
                          if str_eqb key k'
                          then match v with JList l => evs l | _ => [es_eval np v lvl d] end
                          else part key o'
                      end in
        bool_matches (part k_must body ++ part k_filter body) (part k_should body)
                     (part k_must_not body)
      else if str_eqb k k_nested then
        match obj_get k_path body with
        | Some (JStr p) =>
            let P := split_on c_dot p in
            (fix qr (o : list (str * json)) : bool :=
               match o with
               | [] => false
               | (k', v) :: o' =>
                   if str_eqb k_query k'
                   then existsb (fun ob => es_eval np v P ob) (objects_at np lvl P d)
                   else qr o'
               end) body
        | _ => false
        end
      else clause_holds np j lvl d
  | _ => false
  end.

(* ---------------------------------------------------------------- denotation of a luqum tree *)
(* pending ~ modifiers, outermost first (boost is not semantics) *)
Inductive lmod := MFuzzy (d : dec) | MSlop (d : dec).
Definition apply_mod (m : lmod) (l : leaf) : leaf :=
  match m with MFuzzy d => leaf_set_fuzziness d l | MSlop d => leaf_set_slop d l end.
Definition apply_mods (ms : list lmod) (l : leaf) : leaf := fold_right apply_mod l ms.

(* INTERFACE WITH C06: the leaf item of a word / phrase / range in its field context *)
Definition term_leaf (cfg : es_config) (cx : ectx) (t : item) : option leaf :=
  let fields := ctx_fields cfg cx in
  match t with
  | Term KWord _ v =>
      Some (mk_word v (if ctx_is_analyzed cfg cx
                       then (if c_match_word_as_phrase cfg then k_match_phrase else k_match)
                       else k_term) fields None)
  | Term KPhrase _ v =>
      Some (if ctx_is_analyzed cfg cx then mk_phrase v fields None
            else mk_word (strip_ends v) k_term fields None)
  | Range _ lo hi il ih =>
      match range_bound_value lo, range_bound_value hi with
      | Some vlo, Some vhi =>
          Some (mk_range (if il then k_gte else k_gt) vlo (if ih then k_lte else k_lt) vhi fields None)
      | _, _ => None
      end
  | _ => None
  end.

(* the atom of a term carrying the modifiers ms *)
Definition term_atom (cfg : es_config) (cx : ectx) (ms : list lmod) (t : item) : option json :=
  match term_leaf cfg cx t with
  | Some l => match leaf_json cfg (apply_mods ms l) with
              | ROk j => Some (norm_clause j)
              | RExc _ => None
              end
  | None => None
  end.

(* the field path of the terms in this context (the default field when no field was given) *)
Definition ctx_path (cfg : es_config) (cx : ectx) : list str :=
  match x_prefix cx with Some p => p | None => split_on c_dot (c_default_field cfg) end.

(* a term holds at an object iff SOME object of the term's nested level below it satisfies the atom
   (the object itself when the levels coincide, which is the case under a field: see SearchField) *)
Definition term_holds (cfg : es_config) (np : list str) (cx : ectx) (ms : list lmod) (t : item)
           (lvl : level) (d : doc) : bool :=
  match term_atom cfg cx ms t with
  | Some a => existsb (fun o => truth o a) (objects_at np lvl (level_of np (ctx_path cfg cx)) d)
  | None => false
  end.

Definition is_unary (t : item) : bool := match t with Unary _ _ _ => true | _ => false end.
Definition is_plus (t : item) : bool := match t with Unary KPlus _ _ => true | _ => false end.

(* den_at cfg np t cx ms lvl d : the object d of nested level lvl satisfies t, where cx carries the
   field path accumulated so far (and the analysed marker the leaf layer needs) and ms the pending ~ *)
Fixpoint den_at (cfg : es_config) (np : list str) (t : item) (cx : ectx) (ms : list lmod)
         (lvl : level) (d : doc) {struct t} : bool :=
  let sub := fun c => den_at cfg np c cx [] lvl d in
  match t with
  | Term KRegex _ _ | ORange _ _ _ _ | NoneItem _ => false           (* not supported constructs *)
  | Term _ _ _ | Range _ _ _ _ _ => term_holds cfg np cx ms t lvl d
  | SearchField _ n e =>
      (* the field path grows; when it crosses declared nested boundaries, SOME object of the
         innermost boundary crossed satisfies the sub-query (the same object for all of it) *)
      let prefix := field_prefix cx ++ split_on c_dot n in
      let cx' := mkECtx (Some prefix) (Some (negb (mem_str (dotted prefix) (c_not_analyzed cfg)))) None in
      let l2 := level_of np prefix in
      existsb (den_at cfg np e cx' ms l2) (objects_at np lvl l2 d)
  | Grp _ _ e | Boost _ e _ _ => den_at cfg np e cx ms lvl d
  | Fuzzy _ x deg _ => den_at cfg np x cx (ms ++ [MFuzzy deg]) lvl d
  | Proximity _ x deg _ =>
      den_at cfg np x cx (ms ++ [if ctx_is_analyzed cfg cx then MSlop (dec_of_Z deg)
                                 else MFuzzy (dec_of_Z deg)]) lvl d
  | Op KAnd _ ops => forallb sub ops
  | Op KOr _ ops => existsb sub ops
  | Op KUnknown _ ops =>                      (* any default_operator other than SHOULD acts as MUST *)
      match c_default_operator cfg with DShould => existsb sub ops | _ => forallb sub ops end
  | Op KBool _ ops =>
      (* Lucene boolean query: every +x, no -x / NOT x (sub (-x) is the complement of x), and some
         optional operand when there is no +x (and there are optional operands) *)
      forallb (fun c => negb (is_unary c) || sub c) ops &&
      (existsb is_plus ops || negb (existsb (fun c => negb (is_unary c)) ops) ||
       existsb (fun c => negb (is_unary c) && sub c) ops)
  | Unary KPlus _ a => den_at cfg np a cx [] lvl d
  | Unary _ _ a => negb (den_at cfg np a cx [] lvl d)
  end.

Definition den (cfg : es_config) (t : item) (d : doc) : bool :=
  den_at cfg (nested_paths cfg) t ctx0 [] [] d.
Definition es_matches (cfg : es_config) (j : json) (d : doc) : bool :=
  es_eval (nested_paths cfg) j [] d.

(* ---------------------------------------------------------------- configurations the semantics reads *)
(* field_options never rename a leaf query into one of the two compound queries *)
Definition k_structural : list str := [k_bool; k_nested].
Definition not_structural (o : option json) : bool :=
  match o with Some (JStr s) => negb (mem_str s k_structural) | _ => true end.
Definition sem_config (cfg : es_config) : bool :=
  forallb (fun fo => not_structural (obj_get k_match_type (snd fo)) &&
                     not_structural (obj_get k_type (snd fo))) (c_field_options cfg).

(* ---------------------------------------------------------------- finite documents (for evaluation) *)
(* an object given by the list of its true atoms (compared up to key order) and an association list of
   sub-objects *)
Inductive fdoc := FDoc (true_atoms : list json) (children : list (str * list fdoc)).

Fixpoint doc_of (f : fdoc) : doc :=
  match f with
  | FDoc atoms kids =>
      Doc (fun a => existsb (fun x => json_ceqb a x && json_ceqb x a) atoms)
          (fun p => (fix find (l : list (str * list fdoc)) : list doc :=
                       match l with
                       | [] => []
                       | (q, fs) :: l' =>
                           if str_eqb p q
                           then (fix conv (fs : list fdoc) : list doc :=
                                   match fs with [] => [] | x :: fs' => doc_of x :: conv fs' end) fs
                           else find l'
                       end) kids)
  end.

(* ---------------------------------------------------------------- guards used by the partial theorems *)
(* no nested field is declared (then F8 and F17 cannot occur) *)
Definition no_nested (cfg : es_config) : bool :=
  match nested_paths cfg with [] => true | _ => false end.

(* what kind of E-item the builder makes of a tree: an EMust, an EMustNot, or something else.  Parentheses,
   boosts, ~ and (un-nested) fields are transparent for the builder: they hand the item up unchanged. *)
Inductive ikind := IMust | IMustNot | IOther.
Fixpoint item_kind (cfg : es_config) (t : item) : ikind :=
  match t with
  | Unary KPlus _ _ | Op KAnd _ _ => IMust
  | Unary _ _ _ => IMustNot
  | Op KUnknown _ _ => match c_default_operator cfg with DShould => IOther | _ => IMust end
  | SearchField _ _ e | Grp _ _ e | Boost _ e _ _ => item_kind cfg e
  | Fuzzy _ x _ _ | Proximity _ x _ _ => item_kind cfg x
  | _ => IOther
  end.

(* a field name with a non-empty first component (the code takes the fields "" and ".x" for fields
   under the nested path "" that an EMPTY nested_fields specification flattens to) *)
Definition plain_field_name (n : str) : bool :=
  match n with [] => false | c :: _ => negb (N.eqb c c_dot) end.

(* not F6: every operand of a BoolOperation is +x / -x / NOT x, or something whose translation is
   neither an EMust nor an EMustNot item, and is not itself a BoolOperation *)
Definition bool_operand_ok (cfg : es_config) (c : item) : bool :=
  match c with
  | Unary _ _ _ => true
  | Op KBool _ _ => false
  | _ => match item_kind cfg c with IOther => true | _ => false end
  end.

(* plain_tree: no BoolOperation has an operand of the F6 shape, and every field name is plain *)
Fixpoint plain_tree (cfg : es_config) (t : item) : bool :=
  match t with
  | Term _ _ _ | NoneItem _ => true
  | Range _ lo hi _ _ => plain_tree cfg lo && plain_tree cfg hi
  | SearchField _ n e => plain_field_name n && plain_tree cfg e
  | Grp _ _ e | Boost _ e _ _ => plain_tree cfg e
  | Fuzzy _ x _ _ | Proximity _ x _ _ => plain_tree cfg x
  | Unary _ _ a | ORange _ _ a _ => plain_tree cfg a
  | Op k _ ops =>
      forallb (plain_tree cfg) ops &&
      match k with KBool => forallb (bool_operand_ok cfg) ops | _ => true end
  end.
