(* PrecedenceProofs.v — C03 clause (c), the precedence / flattening core as a THEOREM about the LR
   driver on the generated tables.

   Input class (`atomic_infix`): token lists  u1 o1 u2 o2 ... un  (n >= 1) where every ui is a single
   TERM, PHRASE or REGEX token (any lexeme, head, tail, position) and every oi is an AND_OP token, an
   OR_OP token or nothing (juxtaposition).  For every such list the driver on PLY's tables returns a
   tree whose layout-free form is exactly the tree of the documented grammar (`Grammar.spec_parse`):
   juxtaposition binds loosest, then OR, then AND; chains of one operator are one n-ary node.

   Method: the token list is cut (uniquely) into juxtaposed OR-groups of AND-groups of atoms.  Both the
   reference parser (three nested loops with fuel) and the LR driver (three nested loops on the state
   stack) are executed symbolically on that structure, by induction on each of the three list levels.
   The LR states are never written by hand: they are *computed* from the tables (`SJ`, `SOR`, `SAND`,
   `gotoE`), and every table entry used is a closed fact discharged by `vm_compute`, so a renumbering
   of the states re-checks automatically and a structural change of the tables breaks the build. *)
Require Import Base Decimal Tree GenTree GenParser Lexer Print Actions LR Parser Erase Grammar.
Require Import TreeInd LayoutProofs LRTermination.
From Coq Require Import Lia.

(* ================================================================ the input class *)
Definition is_atom_tok (t : tok) : bool :=
  match t with T_TERM | T_PHRASE | T_REGEX => true | _ => false end.
Definition is_binop_tok (t : tok) : bool :=
  match t with T_AND_OP | T_OR_OP => true | _ => false end.

(* u1 o1 u2 ... un on the token types *)
Fixpoint infix_shape (ts : list tok) : bool :=
  match ts with
  | [] => false
  | a :: r =>
      is_atom_tok a &&
      match r with
      | [] => true
      | o :: r' => if is_binop_tok o then infix_shape r' else infix_shape r
      end
  end.

Definition atomic_infix (toks : list token) : Prop := infix_shape (map tk_type toks) = true.

Definition is_atom (t : token) : Prop := is_atom_tok (tk_type t) = true.

(* the layout-free tree of one atom *)
Definition atom_item (t : token) : item :=
  match tk_type t with
  | T_PHRASE => Term KPhrase meta0 (tk_lexeme t)
  | T_REGEX => Term KRegex meta0 (tk_lexeme t)
  | _ => Term KWord meta0 (tk_lexeme t)
  end.

(* ---- the same class, structured: juxtaposed OR-groups of AND-groups of atoms *)
Definition andg := (token * list (token * token))%type.       (* u (AND u)* *)
Definition org := (andg * list (token * andg))%type.          (* A (OR A)* *)
Definition query := (org * list org)%type.                    (* O O* *)

Fixpoint fl_pairs (ps : list (token * token)) : list token :=
  match ps with [] => [] | p :: r => fst p :: snd p :: fl_pairs r end.
Definition fl_and (g : andg) : list token := fst g :: fl_pairs (snd g).
Fixpoint fl_ors (qs : list (token * andg)) : list token :=
  match qs with [] => [] | q :: r => fst q :: fl_and (snd q) ++ fl_ors r end.
Definition fl_or (g : org) : list token := fl_and (fst g) ++ fl_ors (snd g).
Fixpoint fl_js (os : list org) : list token :=
  match os with [] => [] | o :: r => fl_or o ++ fl_js r end.
Definition fl_q (q : query) : list token := fl_or (fst q) ++ fl_js (snd q).

Definition wf_pair (p : token * token) : Prop := tk_type (fst p) = T_AND_OP /\ is_atom (snd p).
Definition wf_and (g : andg) : Prop := is_atom (fst g) /\ Forall wf_pair (snd g).
Definition wf_orp (q : token * andg) : Prop := tk_type (fst q) = T_OR_OP /\ wf_and (snd q).
Definition wf_or (g : org) : Prop := wf_and (fst g) /\ Forall wf_orp (snd g).
Definition wf_q (q : query) : Prop := wf_or (fst q) /\ Forall wf_or (snd q).

(* the tree the precedence rules dictate, directly on the structure *)
Definition val_and (g : andg) : item :=
  nary KAnd (atom_item (fst g) :: map (fun p => atom_item (snd p)) (snd g)).
Definition val_or (g : org) : item :=
  nary KOr (val_and (fst g) :: map (fun q => val_and (snd q)) (snd g)).
Definition val_q (q : query) : item :=
  nary KUnknown (val_or (fst q) :: map val_or (snd q)).

(* ---- every list of the class has such a structure *)
Inductive AI : list token -> Prop :=
| AI_one t : is_atom t -> AI [t]
| AI_op t o r : is_atom t -> is_binop_tok (tk_type o) = true -> AI r -> AI (t :: o :: r)
| AI_jx t r : is_atom t -> AI r -> AI (t :: r).

Lemma atomic_infix_AI : forall n toks, length toks <= n -> atomic_infix toks -> AI toks.
Proof.
  unfold atomic_infix. induction n as [|n IH]; intros toks Hl H.
  - destruct toks; [discriminate|simpl in Hl; lia].
  - destruct toks as [|t r]; [discriminate|]. simpl in H. apply andb_prop in H. destruct H as [Ht H].
    destruct r as [|o r']; [constructor; exact Ht|].
    change (map tk_type (o :: r')) with (tk_type o :: map tk_type r') in H. cbv iota beta in H.
    destruct (is_binop_tok (tk_type o)) eqn:Ho.
    + apply AI_op; auto. apply IH; [simpl in Hl; lia|exact H].
    + apply AI_jx; auto. apply IH; [simpl in Hl |- *; lia|exact H].
Qed.

Lemma AI_structure toks : AI toks -> exists q, wf_q q /\ fl_q q = toks.
Proof.
  induction 1 as [t Ht|t o r Ht Ho _ IH|t r Ht _ IH].
  - exists (((t, []), []), []). split; [|reflexivity].
    split; [split; [split; [exact Ht|constructor]|constructor]|constructor].
  - destruct IH as [[[[t0 ps] qs] os] [[[[Ht0 Hps] Hqs] Hos] E]]. simpl in *.
    destruct (tk_type o) eqn:Eo; try discriminate.
    + (* AND: the atom joins the first AND-group *)
      exists (((t, (o, t0) :: ps), qs), os). split; [|rewrite <- E; reflexivity].
      split; [split; [split; [exact Ht|]|exact Hqs]|exact Hos].
      constructor; [split; assumption|exact Hps].
    + (* OR: a new AND-group in front of the first OR-group *)
      exists (((t, []), (o, (t0, ps)) :: qs), os). split; [|rewrite <- E; reflexivity].
      split; [split; [split; [exact Ht|constructor]|]|exact Hos].
      constructor; [split; [assumption|split; assumption]|exact Hqs].
  - destruct IH as [[o1 os] [[Ho1 Hos] E]].
    exists (((t, []), []), o1 :: os). split; [|rewrite <- E; reflexivity].
    split; [split; [split; [exact Ht|constructor]|constructor]|constructor; assumption].
Qed.

(* ================================================================ lookahead sets *)
Definition LA3 : list tok := [T_TERM; T_PHRASE; T_REGEX; T_AND_OP; T_OR_OP; T_EOF].  (* after an atom *)
Definition LA2 : list tok := [T_TERM; T_PHRASE; T_REGEX; T_OR_OP; T_EOF].           (* after an AND-group *)
Definition LA1 : list tok := [T_TERM; T_PHRASE; T_REGEX; T_EOF].                    (* after an OR-group *)
Definition la_in (L : list tok) (rest : list token) : Prop := In (la_of rest) L.

Ltac la_cases H :=
  unfold la_in in H; simpl in H;
  repeat (destruct H as [H|H]; [|]); try contradiction.

Lemma la1_la2 rest : la_in LA1 rest -> la_in LA2 rest.
Proof. unfold la_in. simpl. tauto. Qed.
Lemma la2_la3 rest : la_in LA2 rest -> la_in LA3 rest.
Proof. unfold la_in. simpl. tauto. Qed.
Lemma la_atom L t r : is_atom t -> incl [T_TERM; T_PHRASE; T_REGEX] L -> la_in L (t :: r).
Proof.
  unfold is_atom, la_in. simpl. intros H HL. apply HL. destruct (tk_type t); try discriminate; simpl; auto.
Qed.

Lemma la_pairs ps rest : Forall wf_pair ps -> la_in LA2 rest -> la_in LA3 (fl_pairs ps ++ rest).
Proof.
  intros Hp Hr. destruct Hp as [|p r [Hp _] _]; [apply la2_la3; exact Hr|].
  unfold la_in. simpl. rewrite Hp. simpl. auto.
Qed.
Lemma la_ors qs rest : Forall wf_orp qs -> la_in LA1 rest -> la_in LA2 (fl_ors qs ++ rest).
Proof.
  intros Hq Hr. destruct Hq as [|q r [Hq _] _]; [apply la1_la2; exact Hr|].
  unfold la_in. simpl. rewrite Hq. simpl. auto.
Qed.
Lemma la_js os : Forall wf_or os -> la_in LA1 (fl_js os).
Proof.
  intros Ho. destruct Ho as [|o r [[Ho _] _] _]; [unfold la_in; simpl; auto|].
  destruct o as [[t ps] qs]. simpl in *. apply la_atom; [exact Ho|]. intros x Hx. simpl in *. tauto.
Qed.

(* ================================================================ the reference parser on the structure *)
Definition keys_of (l : list token) : list key := map tok_key l.

(* the three local loops of Grammar.level, named *)
Definition more_j (lev : nat -> list key -> option (item * list key)) :=
  fix more (g : nat) (acc : list item) (ks : list key) : option (item * list key) :=
    match g with
    | O => None
    | S g' =>
        if starts_unary ks then
          match lev 1 ks with
          | Some (y, ks') => more g' (acc ++ [y]) ks'
          | None => None
          end
        else Some (nary KUnknown acc, ks)
    end.
Definition more_or (lev : nat -> list key -> option (item * list key)) :=
  fix more (g : nat) (acc : list item) (ks : list key) : option (item * list key) :=
    match g with
    | O => None
    | S g' =>
        match ks with
        | (T_OR_OP, _) :: ks0 =>
            match lev 2 ks0 with
            | Some (y, ks') => more g' (acc ++ [y]) ks'
            | None => None
            end
        | _ => Some (nary KOr acc, ks)
        end
    end.
Definition more_and (lev : nat -> list key -> option (item * list key)) :=
  fix more (g : nat) (acc : list item) (ks : list key) : option (item * list key) :=
    match g with
    | O => None
    | S g' =>
        match ks with
        | (T_AND_OP, _) :: ks0 =>
            match lev 3 ks0 with
            | Some (y, ks') => more g' (acc ++ [y]) ks'
            | None => None
            end
        | _ => Some (nary KAnd acc, ks)
        end
    end.

Lemma level_0 f ks : level (S f) 0 ks =
  match level f 1 ks with None => None | Some (x, ks1) => more_j (level f) f [x] ks1 end.
Proof. reflexivity. Qed.
Lemma level_1 f ks : level (S f) 1 ks =
  match level f 2 ks with None => None | Some (x, ks1) => more_or (level f) f [x] ks1 end.
Proof. reflexivity. Qed.
Lemma level_2 f ks : level (S f) 2 ks =
  match level f 3 ks with None => None | Some (x, ks1) => more_and (level f) f [x] ks1 end.
Proof. reflexivity. Qed.

Lemma more_and_go lev g acc l ks0 : more_and lev (S g) acc ((T_AND_OP, l) :: ks0) =
  match lev 3 ks0 with Some (y, ks') => more_and lev g (acc ++ [y]) ks' | None => None end.
Proof. reflexivity. Qed.
Lemma more_and_stop lev g acc ks : next_is T_AND_OP ks = false ->
  more_and lev (S g) acc ks = Some (nary KAnd acc, ks).
Proof. destruct ks as [|[[] ?] ?]; simpl; intros H; try reflexivity; discriminate. Qed.
Lemma more_or_go lev g acc l ks0 : more_or lev (S g) acc ((T_OR_OP, l) :: ks0) =
  match lev 2 ks0 with Some (y, ks') => more_or lev g (acc ++ [y]) ks' | None => None end.
Proof. reflexivity. Qed.
Lemma more_or_stop lev g acc ks : next_is T_OR_OP ks = false ->
  more_or lev (S g) acc ks = Some (nary KOr acc, ks).
Proof. destruct ks as [|[[] ?] ?]; simpl; intros H; try reflexivity; discriminate. Qed.
Lemma more_j_go lev g acc ks : starts_unary ks = true ->
  more_j lev (S g) acc ks =
  match lev 1 ks with Some (y, ks') => more_j lev g (acc ++ [y]) ks' | None => None end.
Proof. intros H. simpl. rewrite H. reflexivity. Qed.
Lemma more_j_stop lev g acc : more_j lev (S g) acc [] = Some (nary KUnknown acc, []).
Proof. reflexivity. Qed.

Lemma next_is_la t L rest : la_in L rest -> ~ In t L -> next_is t (keys_of rest) = false.
Proof.
  unfold la_in. destruct rest as [|x r]; [reflexivity|]. simpl. intros H Hn.
  destruct (tok_eqb t (tk_type x)) eqn:E; [|reflexivity]. exfalso. apply Hn.
  destruct t, (tk_type x); try discriminate; exact H.
Qed.

(* one atom: `unary := ... | postfix`, nothing follows that belongs to it *)
Lemma level3_atom f t rest : is_atom t -> la_in LA3 rest ->
  level (S (S f)) 3 (keys_of (t :: rest)) = Some (atom_item t, keys_of rest).
Proof.
  unfold is_atom, atom_item. intros Ht Hla. destruct t as [ty lx po hd tl]. simpl in *.
  destruct rest as [|[ty2 lx2 po2 hd2 tl2] r].
  - destruct ty; try discriminate; reflexivity.
  - la_cases Hla; simpl in Hla; subst ty2; destruct ty; try discriminate; reflexivity.
Qed.

Lemma len_pairs ps : length (fl_pairs ps) = 2 * length ps.
Proof. induction ps as [|p r IH]; simpl; [reflexivity|]. rewrite IH. lia. Qed.

Lemma more_and_spec f : forall ps g acc rest,
  Forall wf_pair ps -> la_in LA2 rest -> length ps < g ->
  more_and (level (S (S f))) g acc (keys_of (fl_pairs ps ++ rest)) =
  Some (nary KAnd (acc ++ map (fun p => atom_item (snd p)) ps), keys_of rest).
Proof.
  induction ps as [|[o t] r IH]; intros g acc rest Hp Hla Hg.
  - destruct g as [|g]; [simpl in Hg; lia|]. simpl app. rewrite app_nil_r.
    apply more_and_stop. apply (next_is_la _ _ _ Hla). simpl. intuition discriminate.
  - destruct g as [|g]; [simpl in Hg; lia|]. inversion Hp as [|? ? [Ho Ht] Hr]; subst. simpl in Ho, Ht.
    change (keys_of (fl_pairs ((o, t) :: r) ++ rest))
      with (tok_key o :: keys_of (t :: fl_pairs r ++ rest)).
    unfold tok_key at 1. rewrite Ho, more_and_go.
    rewrite level3_atom by (auto using la_pairs).
    rewrite IH by (auto; simpl in Hg; lia). simpl map. rewrite <- app_assoc. reflexivity.
Qed.

Lemma level2_spec f g rest : wf_and g -> la_in LA2 rest -> length (snd g) <= f ->
  level (S (S (S f))) 2 (keys_of (fl_and g ++ rest)) = Some (val_and g, keys_of rest).
Proof.
  destruct g as [t ps]. intros [Ht Hps] Hla Hf. simpl in Ht, Hps, Hf. rewrite level_2.
  change (keys_of (fl_and (t, ps) ++ rest)) with (keys_of (t :: fl_pairs ps ++ rest)).
  rewrite level3_atom by (auto using la_pairs).
  rewrite more_and_spec by (auto; lia). reflexivity.
Qed.

Lemma len_and g : length (fl_and g) = S (2 * length (snd g)).
Proof. unfold fl_and. simpl. rewrite len_pairs. reflexivity. Qed.

Lemma more_or_spec f : forall qs g acc rest,
  Forall wf_orp qs -> la_in LA1 rest -> length (fl_ors qs) < g -> length (fl_ors qs) <= f ->
  more_or (level (S (S (S f)))) g acc (keys_of (fl_ors qs ++ rest)) =
  Some (nary KOr (acc ++ map (fun q => val_and (snd q)) qs), keys_of rest).
Proof.
  induction qs as [|[o a] r IH]; intros g acc rest Hq Hla Hg Hf.
  - destruct g as [|g]; [simpl in Hg; lia|]. simpl app. rewrite app_nil_r.
    apply more_or_stop. apply (next_is_la _ _ _ Hla). simpl. intuition discriminate.
  - destruct g as [|g]; [simpl in Hg; lia|]. inversion Hq as [|? ? [Ho Ha] Hr]; subst. simpl in Ho, Ha.
    simpl in Hg, Hf. rewrite app_length, len_pairs in Hg, Hf.
    change (fl_ors ((o, a) :: r)) with (o :: fl_and a ++ fl_ors r).
    change (keys_of ((o :: fl_and a ++ fl_ors r) ++ rest))
      with (tok_key o :: keys_of ((fl_and a ++ fl_ors r) ++ rest)).
    rewrite <- app_assoc.
    unfold tok_key at 1. rewrite Ho, more_or_go.
    rewrite level2_spec by (auto using la_ors; lia).
    rewrite IH by (auto; lia). simpl map. rewrite <- app_assoc. reflexivity.
Qed.

Lemma len_or g : length (fl_or g) = S (2 * length (snd (fst g))) + length (fl_ors (snd g)).
Proof. unfold fl_or. rewrite app_length, len_and. reflexivity. Qed.

Lemma level1_spec f g rest : wf_or g -> la_in LA1 rest -> length (fl_or g) <= f ->
  level (S (S (S (S f)))) 1 (keys_of (fl_or g ++ rest)) = Some (val_or g, keys_of rest).
Proof.
  destruct g as [a qs]. intros [Ha Hqs] Hla Hf. rewrite len_or in Hf. simpl in Ha, Hqs, Hf. rewrite level_1.
  unfold fl_or. simpl fst. simpl snd. rewrite <- app_assoc.
  rewrite level2_spec by (auto using la_ors; lia).
  rewrite more_or_spec by (auto; lia). reflexivity.
Qed.

Lemma starts_unary_atom t r : is_atom t -> starts_unary (keys_of (t :: r)) = true.
Proof. unfold is_atom. simpl. destruct (tk_type t); try discriminate; reflexivity. Qed.

Lemma more_j_spec f : forall os g acc,
  Forall wf_or os -> length (fl_js os) < g -> length (fl_js os) <= f ->
  more_j (level (S (S (S (S f))))) g acc (keys_of (fl_js os)) =
  Some (nary KUnknown (acc ++ map val_or os), []).
Proof.
  induction os as [|o r IH]; intros g acc Ho Hg Hf.
  - destruct g as [|g]; [simpl in Hg; lia|]. simpl. rewrite app_nil_r. reflexivity.
  - destruct g as [|g]; [simpl in Hg; lia|]. inversion Ho as [|? ? Ho1 Hr]; subst.
    change (fl_js (o :: r)) with (fl_or o ++ fl_js r) in *. rewrite app_length in Hg, Hf.
    assert (Hlo : 1 <= length (fl_or o)) by (rewrite len_or; lia).
    rewrite more_j_go.
    + rewrite level1_spec by (auto using la_js; lia).
      rewrite IH by (auto; lia). simpl map. rewrite <- app_assoc. reflexivity.
    + destruct o as [[t ps] qs]. destruct Ho1 as [[Ht _] _]. apply starts_unary_atom. exact Ht.
Qed.

Theorem spec_parse_structure q : wf_q q -> spec_parse (keys_of (fl_q q)) = Some (val_q q).
Proof.
  destruct q as [o os]. intros [Ho Hos]. unfold spec_parse, keys_of. rewrite map_length. fold keys_of.
  unfold fl_q. simpl fst. simpl snd.
  set (n := length (fl_or o ++ fl_js os)).
  replace (4 * n + 8) with (S (S (S (S (S (4 * n + 3)))))) by lia.
  assert (Hn : n = length (fl_or o) + length (fl_js os)) by (unfold n; apply app_length).
  rewrite level_0, level1_spec by (auto using la_js; lia).
  rewrite more_j_spec by (auto; lia). reflexivity.
Qed.

(* ================================================================ the LR driver: generic step lemmas *)
Definition reach (c c' : config) : Prop :=
  exists n, forall fuel, run gen_tables None (n + fuel) c = run gen_tables None fuel c'.

Lemma reach_refl c : reach c c.
Proof. exists 0. reflexivity. Qed.
Lemma reach_trans a b c : reach a b -> reach b c -> reach a c.
Proof. intros [n Hn] [m Hm]. exists (n + m). intros fuel. rewrite <- Nat.add_assoc, Hn, Hm. reflexivity. Qed.
Lemma reach_step c c' : step gen_tables None c = Next c' -> reach c c'.
Proof. intros H. exists 1. intros fuel. simpl. rewrite H. reflexivity. Qed.

Lemma step_shift st sts vals t rest d n :
  gen_action st (tk_type t) = Shift n ->
  step gen_tables None (mkCfg (st :: sts) vals (t :: rest) d) =
  Next (mkCfg (n :: st :: sts) (token_value t :: vals) rest d).
Proof. intros H. unfold step. simpl. rewrite H. reflexivity. Qed.

Lemma step_reduce states vals toks d p lhs rhs a v evs g :
  gen_action (hd 0 states) (la_of toks) = Reduce (S p) ->
  nth_error gen_prods p = Some (lhs, rhs, a) ->
  length rhs <= length vals ->
  run_action a (rev (firstn (length rhs) vals)) = Ok (v, evs) ->
  gen_goto (hd 0 (skipn (length rhs) states)) lhs = Some g ->
  step gen_tables None (mkCfg states vals toks d) =
  Next (mkCfg (g :: skipn (length rhs) states) (v :: skipn (length rhs) vals) toks (d ++ evs)).
Proof.
  intros Ha Hp Hl Hr Hg. unfold step, la_of in *. simpl.
  assert (E : tb_action gen_tables (hd 0 states)
                match hd_error toks with Some t => tk_type t | None => T_EOF end = Reduce (S p)).
  { destruct toks; exact Ha. }
  destruct toks as [|t rest]; simpl in *; rewrite E; simpl; rewrite Hp;
    (destruct (Nat.ltb_spec (length vals) (length rhs)); [lia|]); rewrite Hr, Hg; reflexivity.
Qed.

Lemma step_reduce1 s b sts x vals toks d p lhs X a v evs g :
  gen_action s (la_of toks) = Reduce (S p) -> nth_error gen_prods p = Some (lhs, [X], a) ->
  run_action a [x] = Ok (v, evs) -> gen_goto b lhs = Some g ->
  step gen_tables None (mkCfg (s :: b :: sts) (x :: vals) toks d) =
  Next (mkCfg (g :: b :: sts) (v :: vals) toks (d ++ evs)).
Proof.
  intros H1 H2 H3 H4.
  apply (step_reduce (s :: b :: sts) (x :: vals) toks d p lhs [X] a v evs g); simpl; auto; lia.
Qed.
Lemma step_reduce2 s2 s1 b sts x2 x1 vals toks d p lhs X1 X2 a v evs g :
  gen_action s2 (la_of toks) = Reduce (S p) -> nth_error gen_prods p = Some (lhs, [X1; X2], a) ->
  run_action a [x1; x2] = Ok (v, evs) -> gen_goto b lhs = Some g ->
  step gen_tables None (mkCfg (s2 :: s1 :: b :: sts) (x2 :: x1 :: vals) toks d) =
  Next (mkCfg (g :: b :: sts) (v :: vals) toks (d ++ evs)).
Proof.
  intros H1 H2 H3 H4.
  apply (step_reduce (s2 :: s1 :: b :: sts) (x2 :: x1 :: vals) toks d p lhs [X1; X2] a v evs g); simpl; auto; lia.
Qed.
Lemma step_reduce3 s3 s2 s1 b sts x3 x2 x1 vals toks d p lhs X1 X2 X3 a v evs g :
  gen_action s3 (la_of toks) = Reduce (S p) -> nth_error gen_prods p = Some (lhs, [X1; X2; X3], a) ->
  run_action a [x1; x2; x3] = Ok (v, evs) -> gen_goto b lhs = Some g ->
  step gen_tables None (mkCfg (s3 :: s2 :: s1 :: b :: sts) (x3 :: x2 :: x1 :: vals) toks d) =
  Next (mkCfg (g :: b :: sts) (v :: vals) toks (d ++ evs)).
Proof.
  intros H1 H2 H3 H4.
  apply (step_reduce (s3 :: s2 :: s1 :: b :: sts) (x3 :: x2 :: x1 :: vals) toks d p lhs [X1; X2; X3] a v evs g);
    simpl; auto; lia.
Qed.

Lemma step_accept st sts i below d :
  gen_action st T_EOF = Accept ->
  exists evs, step gen_tables None (mkCfg (st :: sts) (VItem i :: below) [] d) = Final (Ok i) evs.
Proof. intros H. unfold step. simpl. rewrite H. eexists. reflexivity. Qed.

(* ================================================================ the states, computed from the tables *)
Definition gotoE (s : nat) : nat := match gen_goto s N_expression with Some g => g | None => 0 end.
Definition shift_on (s : nat) (t : tok) : nat := match gen_action s t with Shift n => n | _ => 0 end.
Definition S0 : nat := 0.                              (* .                        *)
Definition SJ : nat := gotoE S0.                       (* expression .             *)
Definition SOR : nat := shift_on SJ T_OR_OP.           (* expression OR .          *)
Definition SAND : nat := shift_on SJ T_AND_OP.         (* expression AND .         *)
(* gotoE SJ = expression expression .   gotoE SOR = expression OR expression .
   gotoE SAND = expression AND expression . *)

Definition unit_action (a : action_name) : Prop := forall v, run_action a [v] = Ok (v, []).

(* a state in which an expression may start: atoms are shifted, reduced to unary_expression and to
   expression whatever of LA3 follows, and the goto on expression exists *)
Definition ctx_facts (s : nat) : Prop :=
  gen_goto s N_expression = Some (gotoE s) /\
  exists u, gen_goto s N_unary_expression = Some u /\
  (forall la, In la LA3 -> exists p, gen_action u la = Reduce (S p) /\
     nth_error gen_prods p = Some (N_expression, [SN N_unary_expression], A_expression_unary)) /\
  (forall a, is_atom_tok a = true -> exists n, gen_action s a = Shift n /\
     forall la, In la LA3 -> exists p act, gen_action n la = Reduce (S p) /\
       nth_error gen_prods p = Some (N_unary_expression, [ST a], act) /\ unit_action act).

(* after `expression` entered from ctx: AND is shifted; `E AND E .` is reduced on all of LA3 *)
Definition and_facts (ctx : nat) : Prop :=
  gen_action (gotoE ctx) T_AND_OP = Shift SAND /\
  (forall la, In la LA3 -> exists p, gen_action (gotoE SAND) la = Reduce (S p) /\
     nth_error gen_prods p =
     Some (N_expression, [SN N_expression; ST T_AND_OP; SN N_expression], A_expression_and)).
(* OR is shifted; `E OR E .` is reduced on LA2 (everything but AND) *)
Definition or_facts (ctx : nat) : Prop :=
  gen_action (gotoE ctx) T_OR_OP = Shift SOR /\
  (forall la, In la LA2 -> exists p, gen_action (gotoE SOR) la = Reduce (S p) /\
     nth_error gen_prods p =
     Some (N_expression, [SN N_expression; ST T_OR_OP; SN N_expression], A_expression_or)).
(* `E E .` is reduced on LA1 (atoms and the end); `E .` at the bottom accepts at the end *)
Definition j_facts : Prop :=
  (forall la, In la LA1 -> exists p, gen_action (gotoE SJ) la = Reduce (S p) /\
     nth_error gen_prods p = Some (N_expression, [SN N_expression; SN N_expression], A_expression_implicit)) /\
  gen_action SJ T_EOF = Accept.

Ltac each_la := let la := fresh "la" in let H := fresh "H" in
  intros la H; simpl in H; decompose [or] H; subst; try contradiction.
Ltac table_ctx :=
  split; [reflexivity|]; eexists; split; [reflexivity|]; split;
  [each_la; eexists; split; reflexivity
  |intros a Ha; destruct a; try discriminate Ha; eexists; (split; [reflexivity|]);
   each_la; eexists; eexists; (split; [reflexivity|]); (split; [reflexivity|]); intros v; reflexivity].
Ltac table_op := split; [reflexivity|]; each_la; eexists; split; reflexivity.

Lemma F_ctx0 : ctx_facts S0. Proof. table_ctx. Qed.
Lemma F_ctxJ : ctx_facts SJ. Proof. table_ctx. Qed.
Lemma F_ctxOr : ctx_facts SOR. Proof. table_ctx. Qed.
Lemma F_ctxAnd : ctx_facts SAND. Proof. table_ctx. Qed.
Lemma F_and0 : and_facts S0. Proof. table_op. Qed.
Lemma F_andJ : and_facts SJ. Proof. table_op. Qed.
Lemma F_andOr : and_facts SOR. Proof. table_op. Qed.
Lemma F_or0 : or_facts S0. Proof. table_op. Qed.
Lemma F_orJ : or_facts SJ. Proof. table_op. Qed.
Lemma F_j : j_facts.
Proof. split; [each_la; eexists; split; reflexivity|reflexivity]. Qed.

Global Opaque S0 SJ SOR SAND gotoE.

(* ================================================================ values: create_operation flattens to the left *)
Definition same_op (k : opk) (i : item) : bool :=
  match i with Op k' _ _ => opk_eqb k k' | _ => false end.
Lemma same_op_erase k i : same_op k (erase i) = same_op k i.
Proof. destruct i; reflexivity. Qed.

(* a left operand that (layout-free) is the n-ary node of `acc`, a right operand that is not an
   operation of the class: the result is the n-ary node of `acc ++ [b]` *)
Lemma binary_nary k a o b acc :
  opk_eqb k k = true -> acc <> [] -> erase a = nary k acc ->
  Forall (fun x => same_op k x = false) acc -> same_op k b = false ->
  exists a' evs, binary k a o b = Ok (VItem a', evs) /\ erase a' = nary k (acc ++ [erase b]).
Proof.
  intros Hk Hne Ha Hacc Hb. unfold binary. cbv zeta. fold (same_op k a). fold (same_op k b). rewrite Hb.
  destruct acc as [|x [|y r]]; [congruence| |].
  - simpl in Ha.
    assert (Hs : same_op k a = false) by (rewrite <- same_op_erase, Ha; inversion Hacc; assumption).
    rewrite Hs. cbv iota. destruct (htm_pos _ false false) as [ps sz].
    eexists _, _. split; [reflexivity|]. simpl. rewrite erase_add_head, Ha. reflexivity.
  - destruct a; simpl in Ha; try discriminate. injection Ha as -> Hops.
    simpl same_op. rewrite Hk. cbv iota. destruct (htm_pos _ false false) as [ps sz].
    eexists _, _. split; [reflexivity|]. simpl. rewrite map_app, Hops. simpl. rewrite erase_add_head. reflexivity.
Qed.

Lemma same_op_atom k t : same_op k (atom_item t) = false.
Proof. unfold atom_item. destruct (tk_type t); reflexivity. Qed.

Lemma atom_value t : is_atom t ->
  exists i, token_value t = VItem i /\ erase i = atom_item t.
Proof.
  unfold is_atom, token_value, atom_item.
  destruct (tk_type t); try discriminate; intros _; eexists; split; reflexivity.
Qed.

Lemma binop_value o : is_binop_tok (tk_type o) = true -> exists l v m, token_value o = VTok l v m.
Proof. unfold token_value. destruct (tk_type o); try discriminate; intros _; eexists _, _, _; reflexivity. Qed.

Lemma same_op_of_erase k v x : erase v = x -> same_op k x = false -> same_op k v = false.
Proof. intros <-. rewrite same_op_erase. auto. Qed.

Lemma same_or_val_and g : same_op KOr (val_and g) = false.
Proof.
  destruct g as [t ps]. unfold val_and. simpl. destruct ps; [apply same_op_atom|reflexivity].
Qed.
Lemma same_j_val_and g : same_op KUnknown (val_and g) = false.
Proof.
  destruct g as [t ps]. unfold val_and. simpl. destruct ps; [apply same_op_atom|reflexivity].
Qed.
Lemma same_j_val_or g : same_op KUnknown (val_or g) = false.
Proof.
  destruct g as [a qs]. unfold val_or. simpl. destruct qs; [apply same_j_val_and|reflexivity].
Qed.

Lemma Forall_snoc {A} (P : A -> Prop) l x : Forall P l -> P x -> Forall P (l ++ [x]).
Proof. intros Hl Hx. apply Forall_app. split; [exact Hl|constructor; [exact Hx|constructor]]. Qed.
Lemma snoc_nonempty {A} (l : list A) x : l ++ [x] <> [].
Proof. destruct l; discriminate. Qed.

(* ================================================================ the three loops of the driver *)

(* one atom, in a state where an expression may start *)
Lemma atom_run s ss vals t rest d : ctx_facts s -> is_atom t -> la_in LA3 rest ->
  exists d', reach (mkCfg (s :: ss) vals (t :: rest) d)
                   (mkCfg (gotoE s :: s :: ss) (token_value t :: vals) rest d').
Proof.
  intros [Hg [u [Hu [Hur Hat]]]] Ht Hla.
  destruct (Hat _ Ht) as [n [Hn Hnr]]. destruct (Hnr _ Hla) as [p [act [Hp [Hprod Hact]]]].
  destruct (Hur _ Hla) as [p2 [Hp2 Hprod2]].
  eexists. eapply reach_trans; [apply reach_step, step_shift; exact Hn|].
  eapply reach_trans; [apply reach_step; eapply step_reduce1; [exact Hp|exact Hprod|apply Hact|exact Hu]|].
  apply reach_step. eapply step_reduce1; [exact Hp2|exact Hprod2|reflexivity|exact Hg].
Qed.

(* (AND atom)*  on top of `ctx expression` *)
Lemma and_loop ctx ss vals : ctx_facts ctx -> and_facts ctx ->
  forall ps a acc rest d, Forall wf_pair ps -> la_in LA2 rest ->
  acc <> [] -> erase a = nary KAnd acc -> Forall (fun x => same_op KAnd x = false) acc ->
  exists a' d', reach (mkCfg (gotoE ctx :: ctx :: ss) (VItem a :: vals) (fl_pairs ps ++ rest) d)
                      (mkCfg (gotoE ctx :: ctx :: ss) (VItem a' :: vals) rest d') /\
                erase a' = nary KAnd (acc ++ map (fun p => atom_item (snd p)) ps).
Proof.
  intros [Hg _] [Hsh Hred]. induction ps as [|[o t] r IH]; intros a acc rest d Hp Hla Hne Ha Hacc.
  - exists a, d. split; [apply reach_refl|]. simpl. rewrite app_nil_r. exact Ha.
  - inversion Hp as [|? ? [Ho Ht] Hr]; subst. simpl in Ho, Ht.
    change (fl_pairs ((o, t) :: r) ++ rest) with (o :: t :: fl_pairs r ++ rest).
    pose proof (la_pairs _ _ Hr Hla) as Hla3.
    destruct (atom_run SAND (gotoE ctx :: ctx :: ss) (token_value o :: VItem a :: vals) t
                       (fl_pairs r ++ rest) d F_ctxAnd Ht Hla3) as [d1 Hrun].
    destruct (atom_value t Ht) as [b [Eb Hb]]. rewrite Eb in Hrun.
    destruct (binop_value o) as [l [v [m Eo]]]; [rewrite Ho; reflexivity|]. rewrite Eo in Hrun.
    destruct (binary_nary KAnd a (Some (VTok l v m)) b acc eq_refl Hne Ha Hacc) as [a' [evs [Hbin Ha']]].
    { eapply same_op_of_erase; [exact Hb|apply same_op_atom]. }
    destruct (Hred _ Hla3) as [p [Hp1 Hprod]].
    destruct (IH a' (acc ++ [atom_item t]) rest (d1 ++ evs) Hr Hla (snoc_nonempty _ _)) as [a'' [d' [Hrun' Ha'']]].
    { rewrite Ha', Hb. reflexivity. }
    { apply Forall_snoc; [exact Hacc|apply same_op_atom]. }
    exists a'', d'. split; [|rewrite Ha''; simpl map; rewrite <- app_assoc; reflexivity].
    eapply reach_trans; [apply reach_step, step_shift; rewrite Ho; exact Hsh|]. rewrite Eo.
    eapply reach_trans; [exact Hrun|].
    eapply reach_trans; [|exact Hrun'].
    apply reach_step. eapply step_reduce3; [exact Hp1|exact Hprod|exact Hbin|exact Hg].
Qed.

(* atom (AND atom)* *)
Lemma and_group_run ctx ss vals g rest d : ctx_facts ctx -> and_facts ctx -> wf_and g -> la_in LA2 rest ->
  exists v d', reach (mkCfg (ctx :: ss) vals (fl_and g ++ rest) d)
                     (mkCfg (gotoE ctx :: ctx :: ss) (VItem v :: vals) rest d') /\
               erase v = val_and g.
Proof.
  destruct g as [t ps]. intros Hc Ha [Ht Hps] Hla. simpl in Ht, Hps.
  change (fl_and (t, ps) ++ rest) with (t :: fl_pairs ps ++ rest).
  destruct (atom_run ctx ss vals t (fl_pairs ps ++ rest) d Hc Ht (la_pairs _ _ Hps Hla)) as [d1 Hrun].
  destruct (atom_value t Ht) as [b [Eb Hb]]. rewrite Eb in Hrun.
  destruct (and_loop ctx ss vals Hc Ha ps b [atom_item t] rest d1 Hps Hla) as [v [d' [Hrun' Hv]]];
    [discriminate|exact Hb|constructor; [apply same_op_atom|constructor]|].
  exists v, d'. split; [eapply reach_trans; eassumption|exact Hv].
Qed.

(* (OR and-group)*  on top of `ctx expression` *)
Lemma or_loop ctx ss vals : ctx_facts ctx -> or_facts ctx ->
  forall qs a acc rest d, Forall wf_orp qs -> la_in LA1 rest ->
  acc <> [] -> erase a = nary KOr acc -> Forall (fun x => same_op KOr x = false) acc ->
  exists a' d', reach (mkCfg (gotoE ctx :: ctx :: ss) (VItem a :: vals) (fl_ors qs ++ rest) d)
                      (mkCfg (gotoE ctx :: ctx :: ss) (VItem a' :: vals) rest d') /\
                erase a' = nary KOr (acc ++ map (fun q => val_and (snd q)) qs).
Proof.
  intros [Hg _] [Hsh Hred]. induction qs as [|[o g] r IH]; intros a acc rest d Hq Hla Hne Ha Hacc.
  - exists a, d. split; [apply reach_refl|]. simpl. rewrite app_nil_r. exact Ha.
  - inversion Hq as [|? ? [Ho Hwg] Hr]; subst. simpl in Ho, Hwg.
    change (fl_ors ((o, g) :: r) ++ rest) with (o :: (fl_and g ++ fl_ors r) ++ rest).
    rewrite <- app_assoc.
    pose proof (la_ors _ _ Hr Hla) as Hla2.
    destruct (and_group_run SOR (gotoE ctx :: ctx :: ss) (token_value o :: VItem a :: vals) g
                            (fl_ors r ++ rest) d F_ctxOr F_andOr Hwg Hla2) as [b [d1 [Hrun Hb]]].
    destruct (binop_value o) as [l [v [m Eo]]]; [rewrite Ho; reflexivity|]. rewrite Eo in Hrun.
    destruct (binary_nary KOr a (Some (VTok l v m)) b acc eq_refl Hne Ha Hacc) as [a' [evs [Hbin Ha']]].
    { eapply same_op_of_erase; [exact Hb|apply same_or_val_and]. }
    destruct (Hred _ Hla2) as [p [Hp1 Hprod]].
    destruct (IH a' (acc ++ [val_and g]) rest (d1 ++ evs) Hr Hla (snoc_nonempty _ _)) as [a'' [d' [Hrun' Ha'']]].
    { rewrite Ha', Hb. reflexivity. }
    { apply Forall_snoc; [exact Hacc|apply same_or_val_and]. }
    exists a'', d'. split; [|rewrite Ha''; simpl map; rewrite <- app_assoc; reflexivity].
    eapply reach_trans; [apply reach_step, step_shift; rewrite Ho; exact Hsh|]. rewrite Eo.
    eapply reach_trans; [exact Hrun|].
    eapply reach_trans; [|exact Hrun'].
    apply reach_step. eapply step_reduce3; [exact Hp1|exact Hprod|exact Hbin|exact Hg].
Qed.

(* and-group (OR and-group)* *)
Lemma or_group_run ctx ss vals g rest d :
  ctx_facts ctx -> and_facts ctx -> or_facts ctx -> wf_or g -> la_in LA1 rest ->
  exists v d', reach (mkCfg (ctx :: ss) vals (fl_or g ++ rest) d)
                     (mkCfg (gotoE ctx :: ctx :: ss) (VItem v :: vals) rest d') /\
               erase v = val_or g.
Proof.
  destruct g as [a qs]. intros Hc Ha Ho [Hwa Hqs] Hla. simpl in Hwa, Hqs.
  unfold fl_or. simpl fst. simpl snd. rewrite <- app_assoc.
  destruct (and_group_run ctx ss vals a (fl_ors qs ++ rest) d Hc Ha Hwa (la_ors _ _ Hqs Hla)) as [b [d1 [Hrun Hb]]].
  destruct (or_loop ctx ss vals Hc Ho qs b [val_and a] rest d1 Hqs Hla) as [v [d' [Hrun' Hv]]];
    [discriminate|exact Hb|constructor; [apply same_or_val_and|constructor]|].
  exists v, d'. split; [eapply reach_trans; eassumption|exact Hv].
Qed.

(* (or-group)*  on top of `expression` at the bottom of the stack, up to the end of the input *)
Lemma j_loop : forall os a acc d, Forall wf_or os ->
  acc <> [] -> erase a = nary KUnknown acc -> Forall (fun x => same_op KUnknown x = false) acc ->
  exists a' d', reach (mkCfg [SJ; S0] [VItem a] (fl_js os) d) (mkCfg [SJ; S0] [VItem a'] [] d') /\
                erase a' = nary KUnknown (acc ++ map val_or os).
Proof.
  destruct F_j as [Hred _]. destruct F_ctx0 as [Hg _].
  induction os as [|o r IH]; intros a acc d Ho Hne Ha Hacc.
  - exists a, d. split; [apply reach_refl|]. simpl. rewrite app_nil_r. exact Ha.
  - inversion Ho as [|? ? Hwo Hr]; subst.
    change (fl_js (o :: r)) with (fl_or o ++ fl_js r).
    pose proof (la_js _ Hr) as Hla1.
    destruct (or_group_run SJ [S0] [VItem a] o (fl_js r) d F_ctxJ F_andJ F_orJ Hwo Hla1) as [b [d1 [Hrun Hb]]].
    destruct (binary_nary KUnknown a None b acc eq_refl Hne Ha Hacc) as [a' [evs [Hbin Ha']]].
    { eapply same_op_of_erase; [exact Hb|apply same_j_val_or]. }
    destruct (Hred _ Hla1) as [p [Hp1 Hprod]].
    destruct (IH a' (acc ++ [val_or o]) (d1 ++ evs) Hr (snoc_nonempty _ _)) as [a'' [d' [Hrun' Ha'']]].
    { rewrite Ha', Hb. reflexivity. }
    { apply Forall_snoc; [exact Hacc|apply same_j_val_or]. }
    exists a'', d'. split; [|rewrite Ha''; simpl map; rewrite <- app_assoc; reflexivity].
    eapply reach_trans; [exact Hrun|].
    eapply reach_trans; [|exact Hrun'].
    apply reach_step. eapply step_reduce2; [exact Hp1|exact Hprod|exact Hbin|exact Hg].
Qed.

Theorem lr_structure q ev0 : wf_q q ->
  exists n t evs, (forall fuel, run gen_tables None (S n + fuel) (init_config (fl_q q) ev0) = Done (Ok t) evs) /\
                  erase t = val_q q.
Proof.
  destruct q as [o os]. intros [Ho Hos]. simpl in Ho, Hos. unfold fl_q, init_config. simpl fst. simpl snd.
  change [0] with [S0].
  destruct (or_group_run S0 [] [] o (fl_js os) ev0 F_ctx0 F_and0 F_or0 Ho (la_js _ Hos)) as [b [d1 [Hrun Hb]]].
  change (gotoE S0) with SJ in Hrun.
  destruct (j_loop os b [val_or o] d1 Hos) as [t [d' [Hrun' Ht]]];
    [discriminate|exact Hb|constructor; [apply same_j_val_or|constructor]|].
  destruct (reach_trans _ _ _ Hrun Hrun') as [n Hn].
  destruct F_j as [_ Hacc]. destruct (step_accept SJ [S0] t [] d' Hacc) as [evs Hst].
  exists n, t, (d' ++ evs). split; [|exact Ht].
  intros fuel. replace (S n + fuel) with (n + S fuel) by lia. rewrite Hn. simpl. rewrite Hst. reflexivity.
Qed.

(* ================================================================ the theorem on token lists *)
Lemma run_mono tb le : forall f c r e, run tb le f c = Done r e ->
  forall f', f <= f' -> run tb le f' c = Done r e.
Proof.
  induction f as [|f IH]; intros c r e H f' Hf; [discriminate|].
  destruct f' as [|f']; [lia|]. simpl in *.
  destruct (step tb le c) as [c'|r' e']; [apply (IH _ _ _ H); lia|exact H].
Qed.

Theorem precedence_core toks ev0 : atomic_infix toks ->
  exists t evs, run gen_tables None (parse_fuel toks) (init_config toks ev0) = Done (Ok t) evs /\
                spec_parse (map tok_key toks) = Some (erase t).
Proof.
  intros Hai. destruct (AI_structure toks (atomic_infix_AI _ toks (le_n _) Hai)) as [q [Hq E]]. subst toks.
  destruct (lr_structure q ev0 Hq) as [n [t [evs [Hrun Ht]]]].
  exists t, evs. split; [|rewrite Ht; apply spec_parse_structure; exact Hq].
  pose proof (run_terminates None (parse_fuel (fl_q q)) (init_config (fl_q q) ev0)) as Hterm.
  destruct (run gen_tables None (parse_fuel (fl_q q)) (init_config (fl_q q) ev0)) as [r e|] eqn:Hr.
  - pose proof (run_mono _ _ _ _ _ _ Hr (S n + parse_fuel (fl_q q)) ltac:(lia)) as H1.
    rewrite Hrun in H1. symmetry. exact H1.
  - exfalso. apply Hterm; [reflexivity| |reflexivity].
    unfold phi, parse_fuel, init_config, rank_of, K. simpl. lia.
Qed.
